#!/bin/bash
# confirm_seed.sh <seed worktree> <ctest regex> : re-checks a seeded change: demo fails with it, passes on /repo, module tests pass with it
WT=$1; RX=$2
INC_WT=$(for d in $WT/src/*/include; do printf -- "-I%s " $d; done)
INC_RP=$(for d in /repo/src/*/include; do printf -- "-I%s " $d; done)
g++ -std=gnu++17 -O1 -DNDEBUG $INC_WT -I$WT/ext/hera/include -I/usr/include/eigen3 $WT/demo/demo.cpp -o $WT/demo/demo_with -ltbb -lgmpxx -lgmp 2>&1 | tail -3
g++ -std=gnu++17 -O1 -DNDEBUG $INC_RP -I/repo/ext/hera/include -I/usr/include/eigen3 $WT/demo/demo.cpp -o $WT/demo/demo_without -ltbb -lgmpxx -lgmp 2>&1 | tail -3
echo "--- with change:"; $WT/demo/demo_with | tail -2; echo "exit=$?"
echo "--- on /repo:"; $WT/demo/demo_without | tail -2; echo "exit=$?"
echo "--- module tests with change (rebuild + ctest -R $RX):"
(cd $WT/_build && ninja -j6 $(ninja -t targets all | grep -E "^[A-Za-z_0-9]*($RX)[A-Za-z_0-9]*: phony" | cut -d: -f1 | grep -v "^cmake_object" | tr '\n' ' ') 2>&1 | tail -1; ctest -R "$RX" 2>&1 | tail -3)

#!/usr/bin/env python3
"""archive_seed.py <seed worktree> <PID> <name> <needs> <caught_by> <ran> : stores patch.diff, demo.cpp, meta.json under /verif/seeded/<name>/"""
import json, os, shutil, sys
wt, pid, name, needs, caught, ran = sys.argv[1:7]
d = os.path.join("/verif/seeded", name)
os.makedirs(d, exist_ok=True)
shutil.copy(os.path.join(wt, "demo/patch.diff"), os.path.join(d, "patch.diff"))
shutil.copy(os.path.join(wt, "demo/demo.cpp"), os.path.join(d, "demo.cpp"))
meta = {"breaks_property": pid, "origin": "fresh sub-agent given only the property text and a scratch worktree (no access to /verif)",
        "needs_to_manifest": needs, "confirmed": ran, "caught_by": caught}
json.dump(meta, open(os.path.join(d, "meta.json"), "w"), indent=1)
print("archived", d)

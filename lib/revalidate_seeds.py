#!/usr/bin/env python3
"""revalidate_seeds.py [jobs] : re-applies every archived seeded change (seeded/*/patch.diff, must be caught: exit 1) and every archived
property-preserving change (benign/*/patch.diff, must stay silent: exit 0) on a scratch worktree of the CURRENT /repo HEAD and runs the
check of its property against it (quick tier).  Patches that no longer apply on HEAD (the code they touch was repaired since) are
reported as stale.  Writes /verif/seeded/REVALIDATION.md.  Scratch worktrees live under /tmp and are removed."""
import concurrent.futures as cf, glob, hashlib, json, os, re, shutil, subprocess, sys

V = "/verif"
jobs = int(sys.argv[1]) if len(sys.argv) > 1 else 3


def one(kind, d):
    name = os.path.basename(d)
    meta = json.load(open(d + "/meta.json"))
    pid = meta.get("breaks_property") or meta.get("preserves_property")
    wt = "/tmp/rv_%s_%s" % (kind, hashlib.sha1(name.encode()).hexdigest()[:8])
    subprocess.run(["git", "-C", "/repo", "worktree", "remove", "--force", wt], capture_output=True)
    subprocess.check_call(["git", "-C", "/repo", "worktree", "add", "--detach", wt, "HEAD", "-q"])
    try:
        r = subprocess.run(["git", "-C", wt, "apply", d + "/patch.diff"], capture_output=True, text=True)
        if r.returncode != 0:
            return (kind, name, pid, "stale", "patch no longer applies on HEAD")
        env = dict(os.environ, VERIF_REPO=wt, VERIF_JOBS="5")
        p = subprocess.run([V + "/vcheck", pid], cwd=V, env=env, capture_output=True, text=True, timeout=5400)
        m = re.search(r"violations=(\d+) known=(\d+)", p.stdout + p.stderr)
        return (kind, name, pid, "exit %d" % p.returncode, "violations=%s" % (m.group(1) if m else "?"))
    except subprocess.TimeoutExpired:
        return (kind, name, pid, "timeout", "")
    finally:
        subprocess.run(["git", "-C", "/repo", "worktree", "remove", "--force", wt], capture_output=True)
        shutil.rmtree(os.path.join(V, "build", "alt_" + hashlib.sha1(wt.encode()).hexdigest()[:10]), ignore_errors=True)


tasks = [("seeded", d) for d in sorted(glob.glob(V + "/seeded/*/")) if os.path.exists(d + "/patch.diff")]
tasks += [("benign", d) for d in sorted(glob.glob(V + "/benign/*/")) if os.path.exists(d + "/patch.diff")]
tasks = [(k, d.rstrip("/")) for k, d in tasks]
rows = []
with cf.ThreadPoolExecutor(max_workers=jobs) as ex:
    for res in ex.map(lambda t: one(*t), tasks):
        rows.append(res)
        print(*res, flush=True)
head = subprocess.check_output(["git", "-C", "/repo", "log", "--format=%h", "-1"], text=True).strip()
out = ["# Re-validation of the archived changes against /repo HEAD %s (quick tier of each check)" % head, "",
       "seeded changes must be caught (exit 1), property-preserving ones must stay silent (exit 0); `stale` = the patch no longer",
       "applies because the code it touches was repaired since it was archived.", "",
       "| kind | change | property | result | |", "|---|---|---|---|---|"]
for k, n, p, r, x in rows:
    out.append("| %s | %s | %s | %s | %s |" % (k, n, p, r, x))
bad = [r for r in rows if (r[0] == "seeded" and r[3] not in ("exit 1", "stale")) or (r[0] == "benign" and r[3] not in ("exit 0", "stale"))]
out += ["", "unexpected results: %d" % len(bad)]
open(V + "/seeded/REVALIDATION.md", "w").write("\n".join(out) + "\n")
print("unexpected:", bad)

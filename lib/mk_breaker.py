#!/usr/bin/env python3
"""mk_breaker.py PID N [hint...]: creates scratch worktree /tmp/seed_PID_N of /repo and writes the breaker prompt to /tmp/seed_PID_N.prompt.txt"""
import json, os, subprocess, sys
pid, n = sys.argv[1], sys.argv[2]
hint = " ".join(sys.argv[3:])
wt = "/tmp/seed_%s_%s" % (pid, n)
if not os.path.exists(wt):
    subprocess.check_call(["git", "-C", "/repo", "worktree", "add", "--detach", wt, "HEAD", "-q"])
prop = None
for l in open("/verif/properties.jsonl"):
    p = json.loads(l)
    if p["id"] == pid:
        prop = p
t = open("/verif/lib/breaker_prompt.txt").read()
t = t.replace("{WT}", wt).replace("{PID}", pid).replace("{TITLE}", prop["title"]).replace("{STATEMENT}", prop["statement"])
t = t.replace("{QUANT}", prop["quantifier"]["text"]).replace("{WHY}", prop["why_tests_cant"]).replace("{FILES}", ", ".join(prop["anchors"]["files"]))
t = t.replace("{HINT}", ("Direction for THIS task (to diversify from other engineers working on the same property): " + hint) if hint else "")
open(wt + ".prompt.txt", "w").write(t)
print(wt + ".prompt.txt")

#!/usr/bin/env python3
"""Regenerates the generated parts of DESIGN.md (between <!-- GEN:x --> markers) from known_findings.json and seeded/*/meta.json."""
import json, os, re, glob
V = "/verif"
s = open(V + "/DESIGN.md").read()
kf = json.load(open(V + "/known_findings.json"))["findings"]

def block(name, text):
    global s
    a, b = "<!-- GEN:%s -->" % name, "<!-- /GEN:%s -->" % name
    assert a in s and b in s, name
    s = s[:s.index(a) + len(a)] + "\n" + text + "\n" + s[s.index(b):]

fixed = [f for f in kf if f["status"] == "fixed"]
known = [f for f in kf if f["status"] == "known"]
rows = ["| property | commit | what failed (check / signature in parentheses) |", "|---|---|---|"]
for f in sorted(fixed, key=lambda f: f["property"]):
    line = f["line"]
    m = re.match(r"fixed: property=(\S+) (\S+) (.*)", line)
    rows.append("| %s | `%s` | %s |" % (m.group(1), m.group(2), m.group(3).replace("|", "\\|")))
block("fixed", "\n".join(rows) + "\n\n%d defects repaired by `fix:` commits." % len(fixed))
seen = {}
for f in known:
    seen.setdefault((f["property"], f["what"]), []).append("`%s` / `%s`" % (f["check"], f["sig"]))
rows = ["| property | finding (recorded, not repaired) | matched (check / signature patterns) |", "|---|---|---|"]
for (prop, what), pats in sorted(seen.items()):
    rows.append("| %s | %s | %s |" % (prop, what.replace("|", "\\|"), "; ".join(pats).replace("|", "\\|")))
block("known", "\n".join(rows))
rows = ["| seeded change | property | what it needs to manifest | caught by |", "|---|---|---|---|"]
for d in sorted(glob.glob(V + "/seeded/*/")):
    m = json.load(open(d + "/meta.json"))
    rows.append("| `seeded/%s` | %s | %s | %s |" % (os.path.basename(d.rstrip("/")), m["breaks_property"], m["needs_to_manifest"].replace("|", "\\|"), m["caught_by"].replace("|", "\\|")))
block("seeded", "\n".join(rows))
rows = ["| property-preserving change | property | what changes observably | checks run (all must stay silent) |", "|---|---|---|---|"]
for d in sorted(glob.glob(V + "/benign/*/")):
    m = json.load(open(d + "/meta.json"))
    rows.append("| `benign/%s` | %s | %s | %s |" % (os.path.basename(d.rstrip("/")), m["preserves_property"], m["observable_change"].replace("|", "\\|"), m["checks_run"].replace("|", "\\|")))
block("benign", "\n".join(rows))
open(V + "/DESIGN.md", "w").write(s)
print("DESIGN.md tables regenerated: %d fixed, %d known groups, %d seeded" % (len(fixed), len(seen), len(glob.glob(V + "/seeded/*/"))))

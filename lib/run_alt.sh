#!/bin/bash
# lib/run_alt.sh <worktree> <PID>... : runs the quick checks against a worktree, prints result lines
wt=$1; shift
for p in "$@"; do
  out=$(VERIF_REPO=$wt VERIF_JOBS=5 /verif/vcheck $p 2>&1); rc=$?
  echo "### $wt $p exit=$rc"; echo "$out" | grep -v "^VIOLATION" | tail -2 | cut -c1-400; echo "$out" | grep "^VIOLATION" | sed 's/.*# //' | sed 's/ case=.*//' | sort | uniq -c | sort -rn | head -8 | cut -c1-300
done

#!/usr/bin/env python3
"""mk_benign.py PID N [hint...]: creates scratch worktree /tmp/benign_PID_N of /repo and writes the property-preserving-change prompt
to /tmp/benign_PID_N.prompt.txt (false-alarm evaluation: the checks must stay silent on the resulting change)"""
import json, os, subprocess, sys
pid, n = sys.argv[1], sys.argv[2]
hint = " ".join(sys.argv[3:])
wt = "/tmp/benign_%s_%s" % (pid, n)
if not os.path.exists(wt):
    subprocess.check_call(["git", "-C", "/repo", "worktree", "add", "--detach", wt, "HEAD", "-q"])
prop = None
for l in open("/verif/properties.jsonl"):
    p = json.loads(l)
    if p["id"] == pid:
        prop = p
t = open("/verif/lib/benign_prompt.txt").read()
t = t.replace("{WT}", wt).replace("{PID}", pid).replace("{TITLE}", prop["title"]).replace("{STATEMENT}", prop["statement"])
t = t.replace("{QUANT}", prop["quantifier"]["text"]).replace("{FILES}", ", ".join(prop["anchors"]["files"]))
t = t.replace("{HINT}", ("Direction for THIS task: " + hint) if hint else "")
open(wt + ".prompt.txt", "w").write(t)
print(wt + ".prompt.txt")

#!/usr/bin/env python3
"""mk_audit.py PID : writes the audit prompt for one check to /tmp/audit_PID.prompt.txt (auditors may read /verif and /repo, and write only /tmp/audit_PID)"""
import json, os, sys, glob
pid = sys.argv[1]
prop = [json.loads(l) for l in open("/verif/properties.jsonl") if json.loads(l)["id"] == pid][0]
hdir = [os.path.basename(d) for d in glob.glob("/verif/harness/c%s_*" % pid[1:].lower())][0]
t = open("/verif/lib/audit_prompt.txt").read()
for k, v in {"{WORK}": "/tmp/audit_" + pid, "{PID}": pid, "{TITLE}": prop["title"], "{STATEMENT}": prop["statement"], "{QUANT}": prop["quantifier"]["text"],
             "{WHY}": prop["why_tests_cant"], "{HDIR}": hdir}.items():
    t = t.replace(k, v)
open("/tmp/audit_%s.prompt.txt" % pid, "w").write(t)
print("/tmp/audit_%s.prompt.txt" % pid, hdir)

#!/usr/bin/env python3
"""apply_hunks.py <patch> <spec> : applies selected hunks of a unified diff to /repo (cwd).
spec = comma separated 'basename:idx[+idx...]' e.g. 'Zp_field.h:3,Zp_field_operators.h:0'"""
import re, subprocess, sys
P = open(sys.argv[1]).read()
files = [f for f in re.split(r'(?=^diff --git )', P, flags=re.M) if f.strip()]
sec = {}
for f in files:
    name = re.search(r' b/(\S+)', f).group(1)
    head = f[:f.index('\n@@') + 1]
    hunks = [h for h in re.split(r'(?=^@@ )', f[f.index('\n@@') + 1:], flags=re.M) if h.strip()]
    sec[name.split('/')[-1]] = (head, hunks)
if len(sys.argv) < 3:
    for k, (h, hs) in sec.items():
        for i, x in enumerate(hs):
            print(k, i, x.splitlines()[0][:100])
    sys.exit(0)
out = ''
for item in sys.argv[2].split(','):
    base, idxs = item.split(':')
    head, hunks = sec[base]
    out += head + ''.join(hunks[int(i)] for i in idxs.split('+'))
open('/tmp/part.patch', 'w').write(out)
subprocess.check_call(['git', 'apply', '--recount', '/tmp/part.patch'])

"""Orchestrator for the /verif runtime-monitoring checks (python3 stdlib only).

A property directory harness/<dir>/spec.py defines SPEC (see DESIGN.md section 2):
  SPEC = {
    "property": "C10",
    "rule": "...how cases are generated and what makes one non-trivial...",
    "assumptions": [...],
    "units": [ {"name":..., "src":[...], "variant":"asan", "defs":[...], "libs":[...],
                "configs": {"cfg": {"quick": N, "thorough": M}, ...}, "chunk": 50 } ],
    "floors": {"quick": {"counter": min}, "thorough": {...}},
    "exhaustive": {"quick": False, "thorough": False},
    "extra": callable(ctx) -> None   (optional python-side steps, e.g. compile probes)
  }
"""
import concurrent.futures as cf
import fnmatch
import hashlib
import importlib.util
import json
import os
import re
import shutil
import subprocess
import sys
import time

VERIF = os.path.dirname(os.path.dirname(os.path.abspath(__file__)))
REPO = os.environ.get("VERIF_REPO", "/repo")
JOBS = int(os.environ.get("VERIF_JOBS", "16"))
BUILD = os.path.join(VERIF, "build")
if REPO != "/repo":
    BUILD = os.path.join(BUILD, "alt_" + hashlib.sha1(REPO.encode()).hexdigest()[:10])
HOOK_GUARD = "GUDHI_VERIF_HOOKS"

MODULES = ["common", "Alpha_complex", "Bitmap_cubical_complex", "Bottleneck_distance", "Collapse", "Contraction",
           "Coxeter_triangulation", "Cech_complex", "Hasse_complex", "Persistence_representations",
           "Persistent_cohomology", "Rips_complex", "Ripser", "Simplex_tree", "Skeleton_blocker",
           "Spatial_searching", "Subsampling", "Tangential_complex", "Toplex_map", "Witness_complex", "Nerve_GIC",
           "Persistence_matrix", "Zigzag_persistence"]


def includes():
    inc = ["-I" + os.path.join(VERIF, "harness"), "-I" + os.path.join(REPO, "ext/hera/include")]
    inc += ["-I" + os.path.join(REPO, "src", m, "include") for m in MODULES]
    inc += ["-isystem", "/usr/include/eigen3"]
    return inc


COMMON = ["-std=gnu++17", "-DNDEBUG", "-D" + HOOK_GUARD, "-Wno-deprecated-declarations", "-w"]
VARIANTS = {
    # name: (compiler, compile flags, link flags)
    "asan": ("clang++-14", ["-O1", "-gline-tables-only", "-fno-omit-frame-pointer", "-fsanitize=address,undefined",
                            "-fno-sanitize-recover=all", "-fno-sanitize=object-size", "-D_GLIBCXX_ASSERTIONS"],
             ["-fsanitize=address,undefined"]),
    "gasan": ("g++-12", ["-O1", "-g1", "-fno-omit-frame-pointer", "-fsanitize=address,undefined",
                         "-fno-sanitize-recover=all", "-D_GLIBCXX_ASSERTIONS"],
              ["-fsanitize=address,undefined"]),
    "tsan": ("g++-12", ["-O1", "-g1", "-fsanitize=thread"], ["-fsanitize=thread", "-pthread"]),
    "ubsan": ("clang++-14", ["-O2", "-gline-tables-only", "-fsanitize=undefined", "-fno-sanitize-recover=all",
                             "-fno-sanitize=object-size"], ["-fsanitize=undefined"]),
    "native": ("clang++-14", ["-O2", "-gline-tables-only"], []),
    "gnative": ("g++-12", ["-O2", "-g1"], []),
    # plain gcc build run under valgrind memcheck (uninitialised-value use, which ASan/UBSan do not see; MSan is unusable here)
    "memcheck": ("g++-12", ["-O1", "-g"], []),
}
MEMCHECK_CMD = ["valgrind", "--tool=memcheck", "-q", "--vgdb=no", "--error-exitcode=97", "--exit-on-first-error=yes",
                "--num-callers=24", "--leak-check=no", "--undef-value-errors=yes"]

SAN_ENV = {
    "ASAN_OPTIONS": "abort_on_error=1:detect_leaks=0:allocator_may_return_null=1:detect_stack_use_after_return=0:"
                    "symbolize=1:quarantine_size_mb=16:malloc_context_size=8:hard_rss_limit_mb=12288",
    "UBSAN_OPTIONS": "print_stacktrace=1:abort_on_error=1:symbolize=1",
    "TSAN_OPTIONS": "halt_on_error=1:abort_on_error=1:second_deadlock_stack=1:history_size=4",
    "ASAN_SYMBOLIZER_PATH": "/usr/bin/llvm-symbolizer-14",
}


class HarnessFailure(Exception):
    pass


def load_spec(prop):
    hdir = None
    for d in sorted(os.listdir(os.path.join(VERIF, "harness"))):
        if d.lower().startswith(prop.lower() + "_") or d.lower() == prop.lower():
            hdir = os.path.join(VERIF, "harness", d)
    if hdir is None:
        raise HarnessFailure("no harness directory for " + prop)
    sp = importlib.util.spec_from_file_location("spec_" + prop, os.path.join(hdir, "spec.py"))
    mod = importlib.util.module_from_spec(sp)
    sp.loader.exec_module(mod)
    spec = mod.SPEC
    spec["_dir"] = hdir
    return spec


# ------------------------------------------------------------------------------------------ build
def _run(cmd, env=None, timeout=None):
    p = subprocess.run(cmd, stdout=subprocess.PIPE, stderr=subprocess.STDOUT, env=env, timeout=timeout)
    return p.returncode, p.stdout.decode("utf-8", "replace")


def build_env():
    env = dict(os.environ)
    env["CCACHE_DIR"] = os.path.join(VERIF, "build", "ccache")
    env["CCACHE_MAXSIZE"] = "20G"
    env["CCACHE_BASEDIR"] = ""
    env["CCACHE_SLOPPINESS"] = "time_macros"
    return env


def unit_bin(spec, unit):
    return os.path.join(BUILD, unit.get("variant", "asan"), spec["property"], unit["name"])


def compile_jobs(spec, unit):
    """returns list of (objpath, cmd) and the link command"""
    variant = unit.get("variant", "asan")
    cxx, cflags, lflags = VARIANTS[variant]
    odir = os.path.join(BUILD, variant, spec["property"], unit["name"] + ".objs")
    os.makedirs(odir, exist_ok=True)
    objs, jobs = [], []
    for src in unit["src"]:
        srcp = src if os.path.isabs(src) else os.path.join(spec["_dir"], src)
        obj = os.path.join(odir, os.path.basename(src) + ".o")
        cmd = ["ccache", cxx] + COMMON + cflags + includes() + ["-D" + d for d in unit.get("defs", [])] + \
              unit.get("cflags", []) + ["-c", srcp, "-o", obj]
        objs.append(obj)
        jobs.append((obj, cmd))
    link = [cxx] + lflags + objs + ["-o", unit_bin(spec, unit)] + unit.get("libs", [])
    return jobs, link


def build_units(spec, units, log=print):
    env = build_env()
    t0 = time.time()
    alljobs, links = [], []
    for u in units:
        jobs, link = compile_jobs(spec, u)
        alljobs += jobs
        links.append((u, link))
    with cf.ThreadPoolExecutor(max_workers=JOBS) as ex:
        futs = {ex.submit(_run, cmd, env, 3600): (obj, cmd) for obj, cmd in alljobs}
        for f in cf.as_completed(futs):
            rc, out = f.result()
            if rc != 0:
                obj, cmd = futs[f]
                raise HarnessFailure("compile failed: %s\n%s" % (" ".join(cmd), out[-6000:]))
    with cf.ThreadPoolExecutor(max_workers=JOBS) as ex:
        futs = {ex.submit(_run, link, env, 3600): (u, link) for u, link in links}
        for f in cf.as_completed(futs):
            rc, out = f.result()
            if rc != 0:
                u, link = futs[f]
                raise HarnessFailure("link failed: %s\n%s" % (" ".join(link), out[-6000:]))
    log("[build] %d TU, %d binaries in %.1fs" % (len(alljobs), len(links), time.time() - t0))


# ------------------------------------------------------------------------------------------ run
_TEMPL = re.compile(r"<[^<>]*>")


def _strip_templates(s):
    prev = None
    while prev != s:
        prev = s
        s = _TEMPL.sub("", s)
    return s


_GUDHI_HEADERS = None


def _is_gudhi_header(basename):
    global _GUDHI_HEADERS
    if _GUDHI_HEADERS is None:
        _GUDHI_HEADERS = set()
        for root, _, files in os.walk(os.path.join(REPO, "src")):
            if "/include" in root:
                _GUDHI_HEADERS.update(files)
    return basename in _GUDHI_HEADERS


def sanitizer_signature(stderr_text):
    """Stable classification of a sanitizer / crash report: kind @ first frame inside the repo (file:function)."""
    kind = "crash"
    m = re.search(r"ERROR: (AddressSanitizer|ThreadSanitizer|LeakSanitizer): ([A-Za-z0-9_\-]+)", stderr_text)
    if m:
        kind = m.group(1).replace("Sanitizer", "San") + ":" + m.group(2)
    else:
        m = re.search(r"WARNING: ThreadSanitizer: ([a-z \-]+)", stderr_text)
        if m:
            kind = "TSan:" + m.group(1).strip().replace(" ", "-")
        else:
            m = re.search(r"runtime error: (.*)", stderr_text)
            if m:
                msg = re.sub(r"0x[0-9a-f]+", "ADDR", m.group(1))
                msg = re.sub(r"-?\d+", "N", msg)
                kind = "UBSan:" + msg.strip()[:120]
            else:
                m = re.search(r"Assertion '([^']*)' failed", stderr_text)
                if m:
                    kind = "glibcxx_assert:" + m.group(1)[:100]
                else:
                    m = re.search(r"terminate called after throwing an instance of '([^']*)'", stderr_text)
                    if m:
                        kind = "terminate:" + m.group(1)
    frame = ""
    mv = re.search(r"^==\d+== ([A-Z][^\n]*)", stderr_text, re.M)
    if mv and kind == "crash":   # valgrind memcheck report: "==pid== Conditional jump or move depends on uninitialised value(s)"
        msg = re.sub(r"0x[0-9A-Fa-f]+", "ADDR", mv.group(1))
        kind = "Memcheck:" + re.sub(r"\d+", "N", msg).strip()[:100]
        for line in stderr_text.splitlines():
            m = re.match(r"==\d+==\s+(?:at|by) 0x[0-9A-F]+: (.*) \((\S+?\.h):\d+\)", line)
            if m and _is_gudhi_header(m.group(2)):
                fn = _strip_templates(m.group(1))
                fn = fn.split("(")[0].strip().split("::")[-1].strip()
                frame = m.group(2) + ":" + fn
                break
    for line in stderr_text.splitlines():
        if frame:
            break
        m = re.match(r"\s*#\d+ 0x[0-9a-f]+ in (.*?) (/\S+?):(\d+)", line)
        if m and ("/src/" in m.group(2) and "/include/gudhi" in m.group(2)):
            fn = _strip_templates(m.group(1))
            fn = fn.split("(")[0].strip().split("::")[-1].strip()
            frame = os.path.basename(m.group(2)) + ":" + fn
            break
    if not frame:
        m = re.search(r"(/\S+/include/gudhi/\S+?):\d+:\d+: runtime error", stderr_text)
        if m:
            frame = os.path.basename(m.group(1))
    return kind + ("@" + frame if frame else "")


def parse_out(path):
    recs = []
    if not os.path.exists(path):
        return recs
    with open(path, "r", errors="replace") as f:
        for line in f:
            line = line.strip()
            if not line:
                continue
            try:
                recs.append(json.loads(line))
            except Exception:
                pass  # a torn last line after a crash
    return recs


def run_shard(binpath, config, seed, a, b, tier, workdir, timeout, variant, unit_name=""):
    """Runs cases [a,b) of a config, restarting after crashes.  Returns dict with summaries & violations."""
    res = {"cases": 0, "counters": {}, "nontrivial": set(), "nontrivial_count": 0, "samples": [], "viol": [],
           "restarts": 0, "hang": None, "wall": 0.0}
    env = dict(os.environ)
    env.update(SAN_ENV)
    cur = a
    t0 = time.time()
    attempt = 0
    while cur < b:
        attempt += 1
        out = os.path.join(workdir, "%s.%s.%d.%d.%d.jsonl" % (unit_name, config, a, cur, attempt))
        err = out + ".stderr"
        for p in (out, err):
            if os.path.exists(p):
                os.remove(p)
        cmd = [binpath, "--config", config, "--seed", str(seed), "--from", str(cur), "--to", str(b), "--tier", tier,
               "--out", out]
        if variant == "memcheck":
            cmd = MEMCHECK_CMD + cmd
        timed_out = False
        with open(err, "wb") as ef:
            try:
                p = subprocess.run(cmd, stdout=ef, stderr=subprocess.STDOUT, env=env, timeout=timeout)
                rc = p.returncode
            except subprocess.TimeoutExpired:
                timed_out = True
                rc = -999
        recs = parse_out(out)
        last_b = None
        hist = ""
        done = False
        for r in recs:
            t = r.get("t")
            if t == "B":
                last_b = r["k"]
            elif t == "V":
                res["viol"].append({"kind": "oracle", "config": config, "case": r["k"], "check": r["check"],
                                    "sig": r["sig"], "detail": r["detail"], "history": r.get("history", "")})
            elif t == "H":
                hist = r.get("history", "")
            elif t == "S":
                done = True
                res["cases"] += r["cases"]
                for k, v in r["counters"].items():
                    res["counters"][k] = res["counters"].get(k, 0) + v
                res["nontrivial"].update(r["nontrivial"])
                res["nontrivial_count"] += r.get("nontrivial_count", 0)
                if len(res["samples"]) < 4:
                    res["samples"] += r["samples"][:2]
        if done and rc == 0:
            break
        # abnormal termination
        with open(err, "r", errors="replace") as ef:
            errtxt = ef.read()
        if last_b is None:
            raise HarnessFailure("harness %s died before its first case (rc=%s):\n%s" % (binpath, rc, errtxt[-3000:]))
        if timed_out:
            res["hang"] = {"config": config, "case": last_b, "from": cur, "to": b}
            res["viol"].append({"kind": "hang", "config": config, "case": last_b, "check": "watchdog.hang",
                                "sig": "timeout", "detail": "no progress within %ds wall-clock watchdog" % timeout,
                                "history": hist, "stderr": errtxt[-4000:]})
        else:
            sig = sanitizer_signature(errtxt)
            chk = "sanitizer" if ("Sanitizer" in errtxt or "runtime error" in errtxt or
                                  re.search(r"^==\d+== \S", errtxt, re.M)) else "crash"
            res["viol"].append({"kind": chk, "config": config, "case": last_b, "check": chk, "sig": sig,
                                "detail": "process died rc=%s" % rc, "history": hist, "stderr": errtxt[-8000:]})
        # partial counters of the dead process are lost; count its completed cases
        res["cases"] += max(0, last_b - cur)
        res["restarts"] += 1
        cur = last_b + 1
        if res["restarts"] > 40:
            res["viol"].append({"kind": "crash", "config": config, "case": last_b, "check": "crash.too_many",
                                "sig": "restarts>40", "detail": "shard abandoned", "history": "", "stderr": ""})
            break
    res["wall"] = time.time() - t0
    return res


# ------------------------------------------------------------------------------------------ findings
def load_findings():
    p = os.path.join(VERIF, "known_findings.json")
    if not os.path.exists(p):
        return []
    with open(p) as f:
        return json.load(f).get("findings", [])


def match_known(prop, v, findings):
    for f in findings:
        if f.get("status") != "known" or f.get("property") != prop:
            continue
        if not fnmatch.fnmatchcase(v["check"], f.get("check", "*")):
            continue
        if not fnmatch.fnmatchcase(v["sig"], f.get("sig", "*")):
            continue
        if "config" in f and not fnmatch.fnmatchcase(v.get("config", ""), f["config"]):
            continue
        return f
    return None


# ------------------------------------------------------------------------------------------ main driver
def run_check(prop, tier, seed, replay=None, only_unit=None, only_config=None, scale=1.0, log=print):
    t_start = time.time()
    spec = load_spec(prop)
    assert spec["property"] == prop
    units = [u for u in spec["units"] if tier in u.get("tiers", ["quick", "thorough"])]
    if only_unit:
        units = [u for u in units if u["name"] == only_unit]
    if replay:
        with open(replay) as f:
            rp = json.load(f)
        units = [u for u in spec["units"] if u["name"] == rp["unit"]]
        build_units(spec, units, log)
        env = dict(os.environ)
        env.update(SAN_ENV)
        cmd = [unit_bin(spec, units[0]), "--config", rp["config"], "--seed", str(rp["seed"]), "--from", str(rp["case"]),
               "--to", str(rp["case"] + 1), "--tier", rp["tier"], "--verbose", "--out", "/dev/stdout"]
        if units[0].get("variant") == "memcheck":
            cmd = MEMCHECK_CMD + cmd
        log("[replay] " + " ".join(cmd))
        return subprocess.call(cmd, env=env)

    build_units(spec, units, log)
    workdir = os.path.join(BUILD, "run", prop + "." + tier)
    shutil.rmtree(workdir, ignore_errors=True)
    os.makedirs(workdir, exist_ok=True)

    # plan shards
    shards = []
    for u in units:
        for cfg, n in u["configs"].items():
            if only_config and cfg != only_config:
                continue
            ncases = n.get(tier, 0) if isinstance(n, dict) else int(n)
            ncases = int(ncases * scale)
            if ncases <= 0:
                continue
            chunk = max(1, u.get("chunk", 25))
            nsh = max(1, min(JOBS, (ncases + chunk - 1) // chunk))
            per = (ncases + nsh - 1) // nsh
            for i in range(nsh):
                a, b = i * per, min(ncases, (i + 1) * per)
                if a < b:
                    shards.append((u, cfg, a, b))
    timeout = spec.get("timeout", {}).get(tier, 1800 if tier == "quick" else 14400)
    agg = {"cases": 0, "counters": {}, "nontrivial": set(), "nontrivial_count": 0, "samples": [], "viol": [],
           "restarts": 0, "per_config": {}, "hangs": []}
    t_run = time.time()
    with cf.ThreadPoolExecutor(max_workers=JOBS) as ex:
        futs = {ex.submit(run_shard, unit_bin(spec, u), cfg, seed, a, b, tier, workdir, timeout,
                          u.get("variant", "asan"), u["name"]): (u, cfg, a, b) for (u, cfg, a, b) in shards}
        for f in cf.as_completed(futs):
            u, cfg, a, b = futs[f]
            r = f.result()
            agg["cases"] += r["cases"]
            key = u["name"] + "/" + cfg
            pc = agg["per_config"].setdefault(key, {"cases": 0, "variant": u.get("variant", "asan"), "wall_s": 0.0})
            pc["cases"] += r["cases"]
            pc["wall_s"] = round(pc["wall_s"] + r["wall"], 2)
            for k, v in r["counters"].items():
                agg["counters"][k] = agg["counters"].get(k, 0) + v
            agg["nontrivial"].update(cfg + ":" + h for h in r["nontrivial"])
            agg["nontrivial_count"] += r["nontrivial_count"]
            if len(agg["samples"]) < 5:
                agg["samples"] += [{"config": key, "case": s} for s in r["samples"][:1]]
            for v in r["viol"]:
                v["unit"] = u["name"]
                agg["viol"].append(v)
            agg["restarts"] += r["restarts"]
            if r["hang"]:
                agg["hangs"].append(r["hang"])
    log("[run] %d shards, %d cases in %.1fs" % (len(shards), agg["cases"], time.time() - t_run))

    # python-side extra steps
    extra_info = {}
    if "extra" in spec and not only_unit and not only_config:
        ctx = {"tier": tier, "seed": seed, "spec": spec, "agg": agg, "info": extra_info, "repo": REPO, "build": BUILD,
               "includes": includes(), "verif": VERIF}
        spec["extra"](ctx)

    # triage violations against known findings
    findings = load_findings()
    known_hits, new_viol = {}, []
    for v in agg["viol"]:
        f = match_known(prop, v, findings)
        if f is not None:
            known_hits.setdefault(f["what"], []).append(v)
        else:
            new_viol.append(v)
    lines = []
    for what, vs in known_hits.items():
        lines.append("KNOWN-FINDING: property=%s %s (witnesses this run: %d)" % (prop, what, len(vs)))
    rdir = os.path.join(VERIF if REPO == "/repo" else BUILD, "replays", prop)
    seen_keys = {}
    for v in new_viol:
        key = (v["check"], v["sig"])
        seen_keys[key] = seen_keys.get(key, 0) + 1
        if seen_keys[key] > 1 or len(seen_keys) > 60:
            continue  # one replay file and one VIOLATION line per distinct (check, signature)
        os.makedirs(rdir, exist_ok=True)
        h = hashlib.sha1(json.dumps([v["unit"], v["config"], seed, v["case"], v["check"], v["sig"]]).encode()).hexdigest()[:12]
        rp = os.path.join(rdir, h + ".json")
        with open(rp, "w") as f:
            json.dump({"property": prop, "unit": v["unit"], "config": v["config"], "seed": seed, "case": v["case"],
                       "tier": tier, "kind": v["kind"], "check": v["check"], "sig": v["sig"], "detail": v["detail"],
                       "history": v.get("history", ""), "stderr": v.get("stderr", "")}, f, indent=1)
        lines.append("VIOLATION property=%s replay=%s   # check=%s sig=%s unit=%s config=%s case=%d" %
                     (prop, rp, v["check"], v["sig"], v["unit"], v["config"], v["case"]))

    # floors
    floors = spec.get("floors", {}).get(tier, {})
    floor_miss = []
    if not only_unit and not only_config and scale >= 1.0:
        for name, mn in floors.items():
            got = agg["counters"].get(name, 0) if name != "_distinct_nontrivial" else len(agg["nontrivial"])
            if got < mn:
                floor_miss.append("%s=%d<%d" % (name, got, mn))

    distinct = len(agg["nontrivial"])
    wall = time.time() - t_start
    ev = {
        "property_id": prop, "tier": tier, "seed": seed, "level": "exploration",
        "coverage": {
            "evaluations": agg["cases"],
            "distinct_nontrivial": distinct,
            "rule": spec["rule"],
            "samples": agg["samples"][:5],
            "exhaustive": bool(spec.get("exhaustive", {}).get(tier, False)),
            "per_config": agg["per_config"],
            "counters": dict(sorted(agg["counters"].items())),
            "sanitizer_variants": sorted({u.get("variant", "asan") for u in units}),
            "process_restarts_after_crash": agg["restarts"],
            "known_findings_hit": {k: len(v) for k, v in known_hits.items()},
            "new_violation_signatures": sorted({v["check"] + " | " + v["sig"] for v in new_viol})[:50],
            "coverage_floors": floors, "floors_missed": floor_miss,
            "extra": extra_info,
            "repo": REPO,
        },
        "assumptions": spec.get("assumptions", []),
        "wall_s": round(wall, 2),
        "violations": len(new_viol),
    }
    if "exhaustive_note" in spec:
        ev["coverage"]["exhaustive_note"] = spec["exhaustive_note"]
    if not only_unit and not only_config and REPO == "/repo" and scale >= 1.0:
        os.makedirs(os.path.join(VERIF, "evidence"), exist_ok=True)
        with open(os.path.join(VERIF, "evidence", prop + ".json"), "w") as f:
            json.dump(ev, f, indent=1, default=str)
    for ln in lines:
        print(ln)
    sys.stdout.flush()
    shutil.rmtree(workdir, ignore_errors=True)
    log("[result] %s tier=%s seed=%d cases=%d distinct_nontrivial=%d violations=%d known=%d floors_missed=%s wall=%.0fs" %
        (prop, tier, seed, agg["cases"], distinct, len(new_viol), sum(len(v) for v in known_hits.values()), floor_miss, wall))
    if new_viol:
        return 1
    if floor_miss or agg["cases"] == 0 or distinct < 2:
        log("[inconclusive] coverage floors missed or nothing observed")
        return 2
    return 0

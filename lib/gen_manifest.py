#!/usr/bin/env python3
"""Regenerates /verif/MANIFEST.json from the harness specs (SPEC["manifest"]) so that it is always schema-valid."""
import json, os, sys
sys.path.insert(0, os.path.dirname(os.path.abspath(__file__)))
import vlib

ALL = ["C%02d" % i for i in range(1, 21)]
NOT_YET = "no check registered for this property yet (harness not built / not validated); not claimed"


def main():
    checks, na = [], []
    hooks_commits = []
    hp = os.path.join(vlib.VERIF, "hooks_commits.txt")
    if os.path.exists(hp):
        hooks_commits = [l.split()[0] for l in open(hp) if l.strip() and not l.startswith("#")]
    reg = set(l.strip() for l in open(os.path.join(vlib.VERIF, "registered.txt")) if l.strip() and not l.startswith("#"))
    for p in ALL:
        if p not in reg:
            na.append({"property_id": p, "reason": NOT_YET})
            continue
        try:
            spec = vlib.load_spec(p)
        except Exception:
            spec = None
        if spec is None or "manifest" not in spec:
            na.append({"property_id": p, "reason": (spec or {}).get("not_applicable_reason", NOT_YET)})
            continue
        m = spec["manifest"]
        checks.append({
            "property_id": p,
            "quick_cmd": "./vcheck %s --tier quick" % p,
            "thorough_cmd": "./vcheck %s --tier thorough" % p,
            "evidence_file": "/verif/evidence/%s.json" % p,
            "replay_cmd_template": "./vcheck %s --replay {path}" % p,
            "engine": "vcheck",
            "level_claimed": {"category": "exploration", "text": m["text"], "design_ref": m.get("design_ref", "DESIGN.md section 6 " + p)},
            "level_note": m["note"],
            "technique": m["technique"],
        })
    man = {
        "version": 1,
        "setup_cmd": "./vcheck setup",
        "hooks": {
            "guard": vlib.HOOK_GUARD,
            "enable": "every harness translation unit is compiled with -D%s against the headers in /repo/src/*/include (GUDHI is header-only; nothing in /repo/_build is used by the checks)" % vlib.HOOK_GUARD,
            "baseline_off_cmd": "cmake --build /repo/_build -j16 && ctest --test-dir /repo/_build -j8 --timeout 900",
            "source_commits": hooks_commits,
            "add_only": True,
        },
        "engines": [{"name": "vcheck", "path": "/verif/vcheck", "serves_properties": [c["property_id"] for c in checks],
                     "kind_free_text": "python orchestrator: rebuilds sanitizer-instrumented C++ harnesses from /repo's working tree (clang/gcc ASan+UBSan, gcc TSan), runs deterministic seeded case shards on 16 cores with crash-restart, compares the real code with independent oracles at the API boundary, matches violations against known_findings.json, writes evidence"}],
        "checks": checks,
        "not_applicable": na,
        "notes": "All checks are runtime monitors (oracle over observed executions under sanitizers); see DESIGN.md. Exit 0 held / 1 violation / 2 inconclusive or harness failure. VERIF_SEED selects the PRNG seed.",
    }
    with open(os.path.join(vlib.VERIF, "MANIFEST.json"), "w") as f:
        json.dump(man, f, indent=1)
    print("MANIFEST.json: %d checks, %d not_applicable" % (len(checks), len(na)))


if __name__ == "__main__":
    main()

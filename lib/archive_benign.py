#!/usr/bin/env python3
"""archive_benign.py <worktree> <PID> <name> <what changes> <checks run and result> : stores patch.diff, demo.cpp, meta.json under /verif/benign/<name>/"""
import json, os, shutil, sys
wt, pid, name, what, ran = sys.argv[1:6]
d = os.path.join("/verif/benign", name)
os.makedirs(d, exist_ok=True)
shutil.copy(os.path.join(wt, "demo/patch.diff"), os.path.join(d, "patch.diff"))
shutil.copy(os.path.join(wt, "demo/demo.cpp"), os.path.join(d, "demo.cpp"))
meta = {"preserves_property": pid, "origin": "fresh sub-agent given only the property text and a scratch worktree (no access to /verif), asked for a behaviour-changing but property-preserving change",
        "observable_change": what, "checks_run": ran}
json.dump(meta, open(os.path.join(d, "meta.json"), "w"), indent=1)
print("archived", d)

// C19 — decision procedure "is the bottleneck distance between two persistence diagrams <= delta ?"
// Naive restatement of the definition: a perfect matching between A + diag-copies(B) and B + diag-copies(A) all of
// whose edges cost <= delta (L-infinity cost between points, distance to the diagonal for a point matched with its
// own projection, 0 between two diagonal copies).  Coordinates may be -inf / +inf (log scale of value 0, essential
// classes): two coordinates that are the same infinity differ by 0, an infinite and a finite coordinate (or opposite
// infinities) differ by +inf, so bars born at log(0) only match bars born at log(0) and essential bars only match
// essential bars, and neither can be sent to the diagonal.  No GUDHI header.
#ifndef VERIF_C19_BOTTLENECK_H_
#define VERIF_C19_BOTTLENECK_H_
#include <vector>
#include <cmath>
#include <limits>
#include <algorithm>
#include <functional>

namespace c19 {

struct Pt { double b, d; };

inline double coord_diff(double x, double y) {
  if (x == y) return 0.0;
  if (std::isinf(x) || std::isinf(y)) return std::numeric_limits<double>::infinity();
  return std::fabs(x - y);
}
inline double pt_cost(const Pt& p, const Pt& q) { return std::max(coord_diff(p.b, q.b), coord_diff(p.d, q.d)); }
inline double diag_cost(const Pt& p) {
  if (std::isinf(p.b) || std::isinf(p.d)) return std::numeric_limits<double>::infinity();
  return (p.d - p.b) / 2;
}

// true iff d_B(A, B) <= delta
inline bool bottleneck_le(const std::vector<Pt>& A, const std::vector<Pt>& B, double delta) {
  const int a = (int)A.size(), b = (int)B.size(), N = a + b;
  if (N == 0) return true;
  // left node i < a: A_i ; left node a + j: diagonal copy of B_j
  // right node j < b: B_j ; right node b + i: diagonal copy of A_i
  std::vector<std::vector<int>> adj(N);
  for (int i = 0; i < a; ++i) {
    for (int j = 0; j < b; ++j) if (pt_cost(A[i], B[j]) <= delta) adj[i].push_back(j);
    if (diag_cost(A[i]) <= delta) adj[i].push_back(b + i);
  }
  for (int j = 0; j < b; ++j) {
    if (diag_cost(B[j]) <= delta) adj[a + j].push_back(j);
    for (int i = 0; i < a; ++i) adj[a + j].push_back(b + i);
  }
  std::vector<int> match_r(N, -1);
  std::vector<char> seen;
  std::function<bool(int)> aug = [&](int u) -> bool {
    for (int v : adj[u]) {
      if (seen[v]) continue;
      seen[v] = 1;
      if (match_r[v] < 0 || aug(match_r[v])) { match_r[v] = u; return true; }
    }
    return false;
  };
  for (int u = 0; u < N; ++u) {
    seen.assign(N, 0);
    if (!aug(u)) return false;
  }
  return true;
}

// exact bottleneck distance (smallest candidate cost for which a perfect matching exists); +inf if none
inline double bottleneck_exact(const std::vector<Pt>& A, const std::vector<Pt>& B) {
  std::vector<double> cand{0.0};
  for (auto& p : A) { cand.push_back(diag_cost(p)); for (auto& q : B) cand.push_back(pt_cost(p, q)); }
  for (auto& q : B) cand.push_back(diag_cost(q));
  std::sort(cand.begin(), cand.end());
  cand.erase(std::unique(cand.begin(), cand.end()), cand.end());
  for (double c : cand) {
    if (std::isinf(c)) break;
    if (bottleneck_le(A, B, c)) return c;
  }
  return std::numeric_limits<double>::infinity();
}

}  // namespace c19
#endif

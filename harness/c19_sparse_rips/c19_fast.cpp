// C19, unit "st_fast": the option set of the module's own example (Simplex_tree_options_fast_persistence:
// contiguous vertices, no keys for cofaces).  No `mini` here: dropping points would break the option set's promise of
// contiguous vertex labels, which is the user's precondition, not the library's.
#include "c19_common.h"

typedef Gudhi::Simplex_tree<Gudhi::Simplex_tree_options_fast_persistence> ST;

VH_CONFIG("mixed", [](vh::Case& c) { c19::run_case<ST>(c, c19::G_ANY, false, false); });
VH_CONFIG("validity", [](vh::Case& c) { c19::run_case<ST>(c, c19::G_ANY, true, false); });
VH_MAIN()

// C19 — further configurations:
//   run_exact     the complex equals, simplex by simplex and value by value, the one derived from the documented
//                 construction (buchet16efficient / cavanna15geometric, values doubled) for the observed start, on inputs
//                 where every operation is exact and the greedy permutation is unique
//   run_farthest  Gudhi::subsampling::choose_n_farthest_points_metric called as the constructor calls it, with a fixed
//                 start: a greedy permutation with its insertion radii, by the definition
//   run_h0_large  hundreds of points, dim_max = 1: H_0 guarantee by minimum spanning trees (Prim on the metric, Kruskal on
//                 the sparse graph), never-earlier on every edge
#ifndef VERIF_C19_EXTRA_H_
#define VERIF_C19_EXTRA_H_
#include "c19_common.h"

namespace c19 {

// ------------------------------------------------------------------------------------------------ exact construction
// Documented definition (module introduction: "the version described in buchet16efficient, except that we multiply all
// filtration values by 2"; cavanna15geometric for the picture).  Greedy permutation from `start` with insertion radii
// lambda_p (lambda_start = +inf).  At scale a the ball of p has radius r_p(a) = min(a, lambda_p/eps) and p is alive while
// a <= lambda_p / (eps (1 - eps)).  Edge pq enters at the smallest a with r_p(a) + r_q(a) >= d(p,q), provided p and q are
// both alive at that scale; a simplex is in the complex at scale a iff all its edges are and all its vertices are alive.
// Rips-style values: 2a.  Returns false when the greedy permutation from `start` is not unique (tie).
inline bool documented_complex(const Matrix& D, int start, double eps, int dim_max, std::map<Simplex, double>& out) {
  const int n = (int)D.size();
  std::vector<double> lam(n, 0.0), dl(n, kInf); std::vector<char> used(n, 0);
  int cur = start; lam[cur] = kInf;
  for (int step = 0; step < n; ++step) {
    used[cur] = 1;
    for (int q = 0; q < n; ++q) dl[q] = std::min(dl[q], D[cur][q]);
    if (step == n - 1) break;
    int best = -1; bool tie = false;
    for (int q = 0; q < n; ++q) if (!used[q]) {
      if (best < 0 || dl[q] > dl[best]) { best = q; tie = false; } else if (dl[q] == dl[best]) tie = true;
    }
    if (tie) return false;
    cur = best; lam[cur] = dl[cur];
  }
  auto alive_at = [&](int p, double a) { return a * (eps * (1 - eps)) <= lam[p]; };
  auto rad = [&](int p, double a) { return std::min(a, lam[p] / eps); };
  Matrix w(n, std::vector<double>(n, kInf));
  for (int p = 0; p < n; ++p) for (int q = p + 1; q < n; ++q) {
    double d = D[p][q], a0 = kInf;
    // r_p + r_q is piecewise linear: the first a reaching d is one of d/2 (both growing), d - lam_p/eps, d - lam_q/eps
    for (double a : {d / 2, d - lam[p] / eps, d - lam[q] / eps}) if (a > 0 && rad(p, a) + rad(q, a) >= d) a0 = std::min(a0, a);
    if (a0 < kInf && alive_at(p, a0) && alive_at(q, a0)) w[p][q] = w[q][p] = 2 * a0;
  }
  out.clear();
  std::vector<int> cs;
  std::function<void(int, double)> rec = [&](int next, double val) {
    for (int v = next; v < n; ++v) {
      double nv = val; bool ok = true;
      for (int u : cs) { if (w[u][v] == kInf) { ok = false; break; } nv = std::max(nv, w[u][v]); }
      if (!ok) continue;
      cs.push_back(v);
      bool alive = true;
      if (cs.size() >= 3) for (int u : cs) if (!alive_at(u, nv / 2)) alive = false;
      if (alive) { Simplex s(cs.begin(), cs.end()); out[s] = nv; if ((int)cs.size() < dim_max + 1) rec(v + 1, nv); }
      cs.pop_back();
    }
  };
  rec(0, 0.0);
  return true;
}

template <class ST>
void run_exact(vh::Case& c) {
  typedef Gudhi::rips_complex::Sparse_rips_complex<typename ST::Filtration_value> Sparse;
  vh::Rng& r = c.rng;
  const int n = 4 + (int)r.below(9);  // 4..12
  static const double E[] = {0.5, 0.25, 0.125};
  const double eps = E[r.below(3)];
  const int dim_max = 1 + (int)r.below(4);
  // integer tree metric, weights (1..1000) * {1,16,256}: every product / quotient by eps, eps(1-eps) is exact in double
  Matrix D; int start = -1; std::map<Simplex, double> want;
  for (int attempt = 0;; ++attempt) {
    int m = n + (int)r.below(n + 1);
    std::vector<int> parent(m, -1), lvl(m, 0); std::vector<double> w(m, 0.0);
    static const double sc[] = {1, 16, 256};
    for (int v = 1; v < m; ++v) { parent[v] = (int)r.below(v); lvl[v] = lvl[parent[v]] + 1; w[v] = (double)(1 + r.below(1000)) * sc[r.below(3)]; }
    auto dist = [&](int a, int b) { double s = 0; while (a != b) { if (lvl[a] >= lvl[b]) { s += w[a]; a = parent[a]; } else { s += w[b]; b = parent[b]; } } return s; };
    std::vector<int> nodes(m); for (int i = 0; i < m; ++i) nodes[i] = i;
    r.shuffle(nodes); nodes.resize(n);
    D.assign(n, std::vector<double>(n, 0.0));
    for (int i = 0; i < n; ++i) for (int j = 0; j < n; ++j) D[i][j] = dist(nodes[i], nodes[j]);
    start = (int)r.below(n);
    if (documented_complex(D, start, eps, dim_max, want)) break;
    c.count("exact.skip_tie_in_greedy_permutation");
    if (attempt >= 20) { c.count("exact.gave_up"); return; }
  }
  const bool use_matrix = r.chance(1, 2);
  {
    std::ostringstream o; o.precision(17);
    o << "family=tree_integer_tiefree n=" << n << " eps=" << eps << " dim_max=" << dim_max << " ctor=" << (use_matrix ? "distance_matrix" : "points+distance") << " start_target=" << start;
    c.log(o.str());
    for (int i = 1; i < n; ++i) { std::vector<double> row(D[i].begin(), D[i].begin() + i); c.log("D[" + vh::str(i) + "][0.." + vh::str(i - 1) + "]=" + vh::vstr(row)); }
  }
  const uint64_t input_hash = vh::hash_str(vh::G().history);
  c.count("exact.cases");
  Recorder rec;
  std::vector<PointId> pts; for (int i = 0; i < n; ++i) pts.push_back(PointId{i});
  TriMatrix tri; for (int i = 0; i < n; ++i) tri.push_back(TriRow{std::vector<double>(D[i].begin(), D[i].begin() + i), i, &rec});
  LookupDistance ld{&D, &rec};
  int observed = -1;
  std::unique_ptr<Sparse> sr = build_steered<Sparse>(c, rec, n, start, [&]() -> Sparse* {
    return use_matrix ? new Sparse(tri, eps) : new Sparse(pts, ld, eps);
  }, observed);
  if (observed != start) {  // the library did not start where asked (steering failed): the expectation for ITS start
    if (observed < 0 || !documented_complex(D, observed, eps, dim_max, want)) { c.count("exact.skip_start_unknown_or_tie"); return; }
  }
  ST st; sr->create_complex(st, dim_max);
  c.count("op.create_complex");
  const std::string sig = "exact_tree_metric,dim_max=" + vh::str(dim_max);
  std::map<Simplex, double> S;
  if (!read_complex(c, st, S, sig)) return;
  {
    std::ostringstream o; o.precision(17); o << "sparse_edges:";
    for (auto& kv : S) if (kv.first.size() == 2) o << " " << kv.first[0] << "-" << kv.first[1] << "=" << kv.second;
    o << " | #simplices=" << S.size() << " expected #simplices=" << want.size();
    c.log(o.str());
  }
  c.count("cmp.exact.complex"); c.count("cmp.exact.simplex", want.size());
  // The property does not prescribe the construction (only: subcomplex of the Rips complex, never earlier, interleaving guarantee):
  // a difference with the documented construction is COUNTED, never reported; what is judged on these exact inputs is below
  // (subcomplex / never earlier / closed under faces / monotone) and, in the other units, the guarantee itself.
  bool differs = false;
  for (auto& kv : want) {
    auto it = S.find(kv.first);
    if (it == S.end()) { c.count("info.exact.differs_from_documented_construction.missing_simplex"); differs = true; }
    else if (it->second != kv.second) { c.count("info.exact.differs_from_documented_construction.value_differs"); differs = true; }
  }
  for (auto& kv : S) if (!want.count(kv.first)) { c.count("info.exact.differs_from_documented_construction.extra_simplex"); differs = true; }
  if (!differs) c.count("info.exact.equals_documented_construction");
  // what the property does state, decided exactly on these inputs (all arithmetic is exact): every vertex is there, every simplex has at
  // most dim_max+1 vertices, is never earlier than in the Rips filtration (= its diameter), the complex is closed under faces and monotone
  for (int v = 0; v < n; ++v) if (!S.count(Simplex{(long)v})) { c.violation("exact.vertex_missing", sig, "vertex " + vh::str(v) + " is not in the sparse complex"); return; }
  for (auto& kv : S) {
    const Simplex& sx = kv.first;
    if ((int)sx.size() > dim_max + 1) { c.violation("exact.dimension_above_dim_max", sig, oracle::show(sx)); return; }
    double diam = 0; for (size_t a = 0; a < sx.size(); ++a) for (size_t b = a + 1; b < sx.size(); ++b) diam = std::max(diam, D[sx[a]][sx[b]]);
    if (kv.second < diam) { c.violation("exact.earlier_than_rips", sig + ",simplex_dim=" + vh::str(sx.size() - 1), "simplex " + oracle::show(sx) + " has value " + vh::str(kv.second) + " < its diameter " + vh::str(diam)); return; }
    if (sx.size() >= 2) for (size_t a = 0; a < sx.size(); ++a) {
      Simplex f(sx); f.erase(f.begin() + a);
      auto itf = S.find(f);
      if (itf == S.end()) { c.violation("exact.not_closed_under_faces", sig, "face " + oracle::show(f) + " of " + oracle::show(sx) + " is missing"); return; }
      if (itf->second > kv.second) { c.violation("exact.not_monotone", sig, "face " + oracle::show(f) + " (" + vh::str(itf->second) + ") appears after " + oracle::show(sx) + " (" + vh::str(kv.second) + ")"); return; }
    }
  }
  c.count("cmp.exact.valid_subfiltration_of_rips");
  // state classes: size against the full complex, an edge later than its length, a clique of the edge graph removed by a dead vertex
  size_t full = 0; for (int k = 1; k <= dim_max + 1; ++k) { double b = 1; for (int t = 0; t < k; ++t) b = b * (n - t) / (t + 1); full += (size_t)(b + 0.5); }
  bool raised = false; for (auto& kv : S) if (kv.first.size() == 2 && kv.second > D[kv.first[0]][kv.first[1]]) raised = true;
  oracle::WGraph sg = oracle::make_graph(n);
  for (auto& kv : S) if (kv.first.size() == 2) sg.w[kv.first[0]][kv.first[1]] = sg.w[kv.first[1]][kv.first[0]] = kv.second;
  if (flag_of(sg, dim_max).size() > S.size()) c.count("exact.state.blocker_removed_simplices");
  if (S.size() < full) c.count("exact.state.smaller_than_full");
  if (raised) c.count("exact.state.some_edge_raised");
  if (S.size() < full && raised) c.nontrivial(input_hash);
  c.sample("{\"history\":\"" + vh::jesc(vh::G().history.substr(0, 900)) + "\"}");
}

// ------------------------------------------------------------------------------------------------ farthest points
// exact metrics that stay exact and cheap to generate for a few hundred points
inline Cloud gen_exact_any_size(vh::Rng& r, int n) {
  unsigned k = (unsigned)r.below(n <= 40 ? 7 : 5);
  switch (k) {
    case 0: {  // integer grid, l1 / linf (l2 would need the O(n^3) exactness filter)
      int dim = 1 + (int)r.below(3); int norm = r.chance(1, 2) ? L1 : LINF;
      long R = 2; while (std::pow((double)(R + 1), dim) < 2.0 * n) R *= 2; if (r.chance(1, 2)) R *= 8;
      std::set<std::vector<double>> seen; std::vector<std::vector<double>> P;
      while ((int)P.size() < n) { std::vector<double> p(dim); for (auto& x : p) x = (double)r.below(R + 1); if (seen.insert(p).second) P.push_back(p); }
      Cloud c; c.family = std::string("grid_") + norm_name(norm); c.D = matrix_from_points(P, norm); return c;
    }
    case 1: return gen_circle(r, n);
    case 2: return gen_tree(r, n);
    case 3: return gen_ultra(r, n);
    case 4: return gen_generic(r, n);
    case 5: return gen_graph(r, n);
    default: return gen_cluster(r, n);  // (n <= 40 only: the l2 variant goes through the exactness filter)
  }
}

inline void run_farthest(vh::Case& c) {
  vh::Rng& r = c.rng;
  int n;
  { unsigned k = (unsigned)r.below(8); n = k == 0 ? (int)r.below(4) : k <= 3 ? 4 + (int)r.below(37) : k <= 6 ? 41 + (int)r.below(160) : 201 + (int)r.below(200); }
  const bool rounded = r.chance(1, 4);
  Cloud cl;
  if (rounded) cl = gen_rounded(r, n);
  else {
    for (int tries = 0;; ++tries) {
      cl = gen_exact_any_size(r, n);
      if (cl.n() == n && (n > 40 || is_metric(cl.D))) break;   // above 40 points only families exact by construction are drawn
      c.count("gen.retry_not_exact_metric");
      if (tries >= 8) { cl = gen_generic(r, n); break; }
    }
    static const int shifts[] = {-30, -10, 10, 40};
    if (r.chance(1, 3)) { const double f = std::ldexp(1.0, shifts[r.below(4)]); for (auto& row : cl.D) for (auto& x : row) x *= f; }
  }
  const Matrix& D = cl.D;
  const int start = n > 0 ? (int)r.below(n) : 0;
  // the constructor passes final_size = -1 (everything); a quarter of the cases ask for a prefix
  std::size_t final_size = std::size_t(-1);
  if (r.chance(1, 4)) final_size = (std::size_t)r.below((uint64_t)n + 3);
  const std::size_t want_size = std::min<std::size_t>(final_size, (std::size_t)n);
  {
    std::ostringstream o; o.precision(17);
    o << "choose_n_farthest_points_metric family=" << cl.family << " n=" << n << " start=" << start << " final_size=" << (final_size == std::size_t(-1) ? std::string("-1") : vh::str(final_size));
    c.log(o.str());
    if (n <= 60) for (int i = 1; i < n; ++i) { std::vector<double> row(D[i].begin(), D[i].begin() + i); c.log("D[" + vh::str(i) + "][0.." + vh::str(i - 1) + "]=" + vh::vstr(row)); }
    else c.log("(matrix of " + vh::str(n) + " points not logged: regenerate from seed / config / case index)");
  }
  const uint64_t input_hash = vh::hash_str(vh::G().history) ^ (uint64_t)c.k;
  c.count("farthest.cases"); c.count("family." + cl.family);
  c.count(n <= 3 ? "farthest.n.le3" : n <= 40 ? "farthest.n.4_40" : n <= 200 ? "farthest.n.41_200" : "farthest.n.201_400");
  c.count(rounded ? "farthest.input.rounded" : "farthest.input.exact_metric");
  if (final_size != std::size_t(-1)) c.count("farthest.prefix_requested");
  const std::string sig = std::string(rounded ? "rounded_input" : "exact_metric") + (final_size == std::size_t(-1) ? ",all_points" : ",prefix");

  unsigned long evals = 0;
  auto dist_fun = [&](int i, int j) { ++evals; return D[i][j]; };
  std::vector<int> order; std::vector<double> radius;
  if (n == 0) return;  // (the constructor calls it on an empty range as well, with the random start; a fixed start needs a point)
  Gudhi::subsampling::choose_n_farthest_points_metric(dist_fun, boost::irange<int>(0, n), final_size, (std::size_t)start,
                                                      std::back_inserter(order), std::back_inserter(radius));
  c.count("op.choose_n_farthest_points_metric"); c.count("farthest.distance_evaluations", evals); c.count("farthest.pairs", (uint64_t)n * (n - 1) / 2);
  if (order.size() != want_size || radius.size() != want_size) { c.violation("farthest.output_size", sig, "wrote " + vh::str(order.size()) + " points and " + vh::str(radius.size()) + " radii, expected " + vh::str(want_size)); return; }
  if (want_size == 0) return;
  if (order[0] != start) { c.violation("farthest.starts_at_start", sig, "first landmark " + vh::str(order[0]) + " != starting point " + vh::str(start)); return; }
  if (radius[0] != kInf) { c.violation("farthest.first_radius_infinite", sig, "first radius " + vh::str(radius[0])); return; }
  const double tol = rounded ? 1e-12 : 0.0;
  std::vector<double> dl(n, kInf); std::vector<char> used(n, 0);
  bool had_tie = false;
  for (std::size_t i = 0; i < want_size; ++i) {
    int pnt = order[i];
    if (pnt < 0 || pnt >= n || used[pnt]) { c.violation("farthest.is_a_permutation", sig, "landmark #" + vh::str(i) + " = " + vh::str(pnt) + " is repeated / not an input point"); return; }
    if (i > 0) {
      c.count("cmp.farthest.step");
      double far = -kInf; int ties = 0;
      for (int q = 0; q < n; ++q) if (!used[q]) { if (dl[q] > far) { far = dl[q]; ties = 1; } else if (dl[q] == far) ++ties; }
      if (ties > 1) had_tie = true;
      // radius written == distance from the landmark to the previous landmarks
      if (std::fabs(radius[i] - dl[pnt]) > tol * dl[pnt]) { c.violation("farthest.radius_is_distance_to_previous", sig, "landmark #" + vh::str(i) + " = point " + vh::str(pnt) + ": radius written " + vh::str(radius[i]) + ", distance to the previous landmarks " + vh::str(dl[pnt])); return; }
      // the landmark is a farthest point
      if (dl[pnt] < far * (1 - tol)) { c.violation("farthest.is_farthest", sig, "landmark #" + vh::str(i) + " = point " + vh::str(pnt) + " at distance " + vh::str(dl[pnt]) + " from the previous landmarks, but a remaining point is at " + vh::str(far)); return; }
    }
    used[pnt] = 1;
    for (int q = 0; q < n; ++q) dl[q] = std::min(dl[q], D[pnt][q]);
  }
  if (had_tie) c.count("farthest.state.tie_among_farthest");
  if (evals < (unsigned long)n * (n - 1) / 2) c.count("farthest.state.pruned_by_triangle_inequality");
  if (n >= 4) c.nontrivial(input_hash);
}

// ------------------------------------------------------------------------------------------------ H_0 at larger n
template <class ST>
void run_h0_large(vh::Case& c) {
  typedef Gudhi::rips_complex::Sparse_rips_complex<typename ST::Filtration_value> Sparse;
  vh::Rng& r = c.rng;
  const int n = c.thorough ? 200 + (int)r.below(1301) : 200 + (int)r.below(301);
  // families: exact (integer grid l1/linf, tree) and rounded Euclidean (uniform cube, multi-scale Gaussian-like clusters,
  // geometric progression on a line)
  Cloud cl; std::vector<std::vector<double>> P; int norm = L2;
  unsigned fam = (unsigned)r.below(5);
  if (fam == 0) {
    int dim = 2 + (int)r.below(2); norm = r.chance(1, 2) ? L1 : LINF;
    long R = 4; while (std::pow((double)(R + 1), dim) < 2.0 * n) R *= 2;
    std::set<std::vector<double>> seen;
    while ((int)P.size() < n) { std::vector<double> p(dim); for (auto& x : p) x = (double)r.below(R + 1); if (seen.insert(p).second) P.push_back(p); }
    cl.family = std::string("grid_") + norm_name(norm); cl.D = matrix_from_points(P, norm);
  } else if (fam == 1) {
    cl = gen_tree(r, n);
  } else if (fam == 2) {
    int dim = 1 + (int)r.below(4);
    for (int i = 0; i < n; ++i) { std::vector<double> p(dim); for (auto& x : p) x = r.unit(); P.push_back(p); }
    cl.family = "rounded_cube"; cl.rounded = true; cl.D = matrix_from_points(P, L2);
  } else if (fam == 3) {
    int k = 2 + (int)r.below(8); std::vector<std::vector<double>> ctr; std::vector<double> sc;
    for (int t = 0; t < k; ++t) { ctr.push_back({100 * r.unit(), 100 * r.unit()}); sc.push_back(std::pow(10.0, 1 - (double)r.below(8))); }
    for (int i = 0; i < n; ++i) { int t = (int)r.below(k); auto g = [&]() { double s = 0; for (int u = 0; u < 6; ++u) s += r.unit(); return s - 3.0; }; P.push_back({ctr[t][0] + sc[t] * g(), ctr[t][1] + sc[t] * g()}); }
    cl.family = "rounded_multiscale"; cl.rounded = true; cl.D = matrix_from_points(P, L2);
  } else {
    double cur = 0, gap = 1e-6; for (int i = 0; i < n; ++i) { P.push_back({cur}); cur += gap * (1 + r.unit()); gap *= 1.02; }
    r.shuffle(P);
    cl.family = "rounded_geometric_line"; cl.rounded = true; cl.D = matrix_from_points(P, L2);
  }
  const Matrix& D = cl.D;
  for (int i = 0; i < n; ++i) for (int j = i + 1; j < n; ++j) if (!(D[i][j] > 0)) { c.count("h0.skip_coincident_points"); return; }
  double eps;
  { unsigned k = (unsigned)r.below(5); eps = k == 0 ? std::pow(10.0, -(double)(1 + r.below(6))) : 0.05 + 0.94 * r.unit(); }
  const bool use_matrix = r.chance(1, 2);
  const int start = (int)r.below(n);
  {
    std::ostringstream o; o.precision(17);
    o << "family=" << cl.family << " n=" << n << " eps=" << eps << " dim_max=1 ctor=" << (use_matrix ? "distance_matrix" : "points+distance") << " start_target=" << start
      << " (matrix not logged: regenerate from seed / config / case index)";
    c.log(o.str());
  }
  c.count("h0.cases"); c.count("family." + cl.family); c.count("eps." + eps_class(eps)); c.count(n <= 500 ? "h0.n.200_500" : "h0.n.501_1500");
  if (cl.rounded) c.count("h0.input.rounded"); else c.count("h0.input.exact_metric");
  const std::string sig = std::string("eps<1,unbounded,dim_max=1,large_n") + (cl.rounded ? ",rounded_input" : "");

  Recorder rec;
  std::vector<PointId> pts; for (int i = 0; i < n; ++i) pts.push_back(PointId{i});
  TriMatrix tri; if (use_matrix) for (int i = 0; i < n; ++i) tri.push_back(TriRow{std::vector<double>(D[i].begin(), D[i].begin() + i), i, &rec});
  LookupDistance ld{&D, &rec};
  int observed = -1;
  std::unique_ptr<Sparse> sr = build_steered<Sparse>(c, rec, n, start, [&]() -> Sparse* {
    return use_matrix ? new Sparse(tri, eps) : new Sparse(pts, ld, eps);
  }, observed);
  ST st; sr->create_complex(st, 1);
  c.count("op.create_complex");

  std::vector<char> is_vertex(n, 0); size_t nv = 0;
  std::vector<std::pair<double, std::pair<int, int>>> E;
  for (auto sh : st.complex_simplex_range()) {
    std::vector<long> s; for (auto v : st.simplex_vertex_range(sh)) s.push_back((long)v);
    double f = (double)st.filtration(sh);
    for (long v : s) if (v < 0 || v >= n) { c.violation("valid.vertex_is_an_input_point", sig, "label " + vh::str(v)); return; }
    if (s.size() == 1) { if (is_vertex[s[0]]) { c.violation("complex.simplex_listed_once", sig, "vertex twice"); return; } is_vertex[s[0]] = 1; ++nv; if (f != 0) { c.violation("valid.vertex_value_zero", sig, "vertex " + vh::str(s[0]) + " has value " + vh::str(f)); return; } }
    else if (s.size() == 2 && s[0] != s[1]) {
      double d = D[s[0]][s[1]];
      c.count("cmp.sub.simplex");
      if (!(f >= d * (1 - 1e-12))) { c.violation("sub.never_earlier", sig + ",simplex_dim=1", "sparse value " + vh::str(f) + " of edge " + vh::str(s[0]) + "-" + vh::str(s[1]) + " < distance " + vh::str(d)); return; }
      E.push_back({f, {(int)s[0], (int)s[1]}});
    } else { c.violation("valid.dimension_le_dim_max", sig, "simplex with " + vh::str(s.size()) + " vertices in a complex created with dim_max=1"); return; }
  }
  if (nv != (size_t)n) { c.violation("guarantee.all_points_are_vertices", sig, vh::str(nv) + " vertices for " + vh::str(n) + " points"); return; }
  c.count("h0.sparse_edges", E.size()); c.count("h0.all_pairs", (uint64_t)n * (n - 1) / 2);
  c.log("sparse complex: " + vh::str(E.size()) + " edges of " + vh::str((long)n * (n - 1) / 2));

  // H_0 of Rips: bars [0, w) for the edges w of a minimum spanning tree (Prim), one essential bar
  std::vector<double> key(n, kInf), rd; std::vector<char> in(n, 0); key[0] = 0;
  for (int s = 0; s < n; ++s) {
    int u = -1; for (int i = 0; i < n; ++i) if (!in[i] && (u < 0 || key[i] < key[u])) u = i;
    in[u] = 1; if (s) rd.push_back(key[u]);
    for (int i = 0; i < n; ++i) if (!in[i]) key[i] = std::min(key[i], D[u][i]);
  }
  // H_0 of the sparse filtration: Kruskal over its edges
  std::sort(E.begin(), E.end());
  std::vector<int> uf(n); std::iota(uf.begin(), uf.end(), 0);
  auto find = [&](int x) { while (uf[x] != x) x = uf[x] = uf[uf[x]]; return x; };
  std::vector<double> sd;
  for (auto& e : E) { int a = find(e.second.first), b = find(e.second.second); if (a != b) { uf[a] = b; sd.push_back(e.first); } }
  std::sort(rd.begin(), rd.end());
  const double delta = std::log(1.0 / (1.0 - eps));
  c.count("cmp.bottleneck.h0_large");
  // all bars are born at 0 (log = -inf): they only match each other, and the optimal matching of two multisets of
  // deaths on a line is the sorted one
  if (sd.size() != rd.size()) {
    c.violation("guarantee.log_bottleneck", sig + ",hom_dim=0,unmatched_infinite_bar", "the sparse 1-skeleton has " + vh::str(n - sd.size()) + " connected components: essential H_0 bars that nothing matches");
    return;
  }
  double worst = 0; size_t at = 0;
  for (size_t i = 0; i < rd.size(); ++i) { double x = std::fabs(std::log(rd[i]) - std::log(sd[i])); if (x > worst) { worst = x; at = i; } }
  if (worst > delta + 1e-9) {
    c.violation("guarantee.log_bottleneck", sig + ",hom_dim=0,finite_excess", "H_0 log-bottleneck distance " + vh::str(worst) + " > log(1/(1-eps)) = " + vh::str(delta) + " (deaths " + vh::str(rd[at]) + " vs " + vh::str(sd[at]) + ")");
    return;
  }
  if (worst > 1e-12) c.count("h0.state.diagrams_differ");
  if (worst > delta / 2) c.count("h0.state.distance_above_half_bound");
  if (E.size() < (size_t)n * (n - 1) / 2) { c.count("h0.state.sparse_strictly_smaller"); c.nontrivial(vh::hash_str(vh::G().history) ^ (uint64_t)c.k); }
}

}  // namespace c19
#endif

// C19, unit "st_full": Simplex_tree_options_full_featured (link_nodes_by_label, stable_simplex_handles).
#include "c19_extra.h"

typedef Gudhi::Simplex_tree<Gudhi::Simplex_tree_options_full_featured> ST;

VH_CONFIG("mixed", [](vh::Case& c) { c19::run_case<ST>(c, c19::G_ANY, false, true); });
VH_CONFIG("validity", [](vh::Case& c) { c19::run_case<ST>(c, c19::G_ANY, true, true); });
VH_CONFIG("exact", [](vh::Case& c) { c19::run_exact<ST>(c); });
VH_MAIN()

// C19 — The sparse Rips filtration stays within its approximation guarantee.
//
// Per case: a finite point set with its n x n distance matrix D (exact families: triangle inequality verified by the
// generator; rounded families: Euclidean distances of real coordinates in double), an epsilon (tables, U(0,1), 10^-k,
// 1-10^-k), a dim_max (-1 .. INT_MAX), one of the two constructors.  Gudhi::rips_complex::Sparse_rips_complex builds a
// Simplex_tree; its simplices and values are read back through the public iteration interface and compared with
//   * the Rips filtration of D (oracle/flag.h: complete graph, vertex value 0, edge value = distance, which is the
//     convention documented for Rips_complex: "the filtration value of each simplex is the diameter"),
//   * persistence of both filtrations over Z_2 / Z_3 by oracle/zp_reduce.h,
//   * the bottleneck decision procedure of c19_bottleneck.h in log scale, bound log(1/(1-eps)) (+1e-9), dimensions < dim_max.
// Further configurations (exact construction, farthest-point ordering, H_0 at hundreds of points): c19_extra.h.
#ifndef VERIF_C19_COMMON_H_
#define VERIF_C19_COMMON_H_

#include <gudhi/Sparse_rips_complex.h>
#include <gudhi/Simplex_tree.h>
#include <gudhi/distance_functions.h>
#include <gudhi/choose_n_farthest_points.h>
#include <boost/range/irange.hpp>
#include "common/vh.h"
#include "oracle/flag.h"
#include "oracle/zp_reduce.h"
#include "c19_bottleneck.h"
#include <memory>
#include <climits>
#include <numeric>

namespace c19 {

using oracle::Simplex;
typedef std::vector<std::vector<double>> Matrix;
static const double kInf = std::numeric_limits<double>::infinity();

// ------------------------------------------------------------------------------------------------ metric generators
struct Cloud {
  std::string family;
  Matrix D;  // full symmetric matrix, zero diagonal
  // "rounded" families only: the coordinates (D = sqrt of the sum of squares in double, NOT an exact metric), given to
  // the library as std::vector<double> points + Gudhi::Euclidean_distance
  std::vector<std::vector<double>> P;
  bool rounded = false;
  int n() const { return (int)D.size(); }
};

// exact check (the doubles, read as real numbers, form a metric on distinct points)
inline bool is_metric(const Matrix& D) {
  const int n = (int)D.size();
  for (int i = 0; i < n; ++i) {
    if (D[i][i] != 0) return false;
    for (int j = 0; j < n; ++j) {
      if (D[i][j] != D[j][i]) return false;
      if (i != j && !(D[i][j] > 0 && D[i][j] < kInf)) return false;
    }
  }
  for (int i = 0; i < n; ++i) for (int j = 0; j < n; ++j) for (int k = 0; k < n; ++k)
    if ((long double)D[i][k] > (long double)D[i][j] + (long double)D[j][k]) return false;
  return true;
}

enum Norm { L2 = 0, L1 = 1, LINF = 2 };
inline const char* norm_name(int nm) { return nm == L2 ? "l2" : nm == L1 ? "l1" : "linf"; }
inline Matrix matrix_from_points(const std::vector<std::vector<double>>& P, int norm) {
  const int n = (int)P.size();
  Matrix D(n, std::vector<double>(n, 0.0));
  for (int i = 0; i < n; ++i) for (int j = i + 1; j < n; ++j) {
    double s = 0;
    for (size_t t = 0; t < P[i].size(); ++t) {
      double x = std::fabs(P[i][t] - P[j][t]);
      if (norm == L2) s += x * x; else if (norm == L1) s += x; else s = std::max(s, x);
    }
    if (norm == L2) s = std::sqrt(s);
    D[i][j] = D[j][i] = s;
  }
  return D;
}

inline Cloud gen_grid(vh::Rng& r, int n) {
  int dim = 2 + (int)r.below(2);
  static const int ranges[] = {2, 4, 8, 32};
  int R = ranges[r.below(4)];
  while (std::pow((double)(R + 1), dim) < 2.0 * n) R *= 2;
  int norm = (int)r.below(3);
  std::set<std::vector<double>> seen;
  std::vector<std::vector<double>> P;
  while ((int)P.size() < n) {
    std::vector<double> p(dim);
    for (auto& x : p) x = (double)r.below(R + 1);
    if (seen.insert(p).second) P.push_back(p);
  }
  Cloud c; c.family = std::string("grid_") + norm_name(norm); c.D = matrix_from_points(P, norm);
  return c;
}

// points on a cycle of integer circumference, arc-length metric (exact)
inline Cloud gen_circle(vh::Rng& r, int n) {
  static const int mult[] = {1, 2, 4, 16};
  long L = std::max<long>(n, 1) * mult[r.below(4)];
  static const double units[] = {1.0, 0.25, 3.0};
  double unit = units[r.below(3)];
  std::vector<long> pos;
  { std::vector<long> all; for (long i = 0; i < L; ++i) all.push_back(i); r.shuffle(all); pos.assign(all.begin(), all.begin() + n); }
  Cloud c; c.family = (L == n ? "circle_regular" : "circle"); c.D.assign(n, std::vector<double>(n, 0.0));
  for (int i = 0; i < n; ++i) for (int j = 0; j < n; ++j) {
    long a = std::labs(pos[i] - pos[j]);
    c.D[i][j] = unit * (double)std::min(a, L - a);
  }
  return c;
}

// path metric of a random weighted tree restricted to n of its nodes (exact: weights are small dyadic numbers)
inline Cloud gen_tree(vh::Rng& r, int n) {
  int m = n + (int)r.below(n + 1);
  bool multiscale = r.chance(1, 2);
  std::vector<int> parent(m, -1); std::vector<double> w(m, 0.0);
  for (int v = 1; v < m; ++v) {
    parent[v] = (int)r.below(v);
    double base = (double)(1 + r.below(8));
    if (multiscale) { static const double sc[] = {1.0 / 16, 1.0, 16.0, 256.0}; base *= sc[r.below(4)]; }
    w[v] = base;
  }
  std::vector<double> depth(m, 0.0); std::vector<int> lvl(m, 0);
  for (int v = 1; v < m; ++v) { depth[v] = depth[parent[v]] + w[v]; lvl[v] = lvl[parent[v]] + 1; }
  auto dist = [&](int a, int b) {
    double s = 0; int x = a, y = b;
    while (x != y) { if (lvl[x] >= lvl[y]) { s += w[x]; x = parent[x]; } else { s += w[y]; y = parent[y]; } }
    return s;
  };
  std::vector<int> nodes; for (int v = 0; v < m; ++v) nodes.push_back(v);
  r.shuffle(nodes); nodes.resize(n);
  Cloud c; c.family = multiscale ? "tree_multiscale" : "tree"; c.D.assign(n, std::vector<double>(n, 0.0));
  for (int i = 0; i < n; ++i) for (int j = i + 1; j < n; ++j) c.D[i][j] = c.D[j][i] = dist(nodes[i], nodes[j]);
  return c;
}

// shortest-path metric of a random connected weighted graph (integer weights, exact)
inline Cloud gen_graph(vh::Rng& r, int n) {
  const double big = 1e18;
  Matrix D(n, std::vector<double>(n, big));
  for (int i = 0; i < n; ++i) D[i][i] = 0;
  int wmax = 1 + (int)r.below(9);
  for (int v = 1; v < n; ++v) { int u = (int)r.below(v); D[u][v] = D[v][u] = (double)(1 + r.below(wmax)); }
  int extra = (int)r.below(2 * n + 1);
  for (int e = 0; e < extra && n >= 2; ++e) {
    int u = (int)r.below(n), v = (int)r.below(n); if (u == v) continue;
    double x = (double)(1 + r.below(wmax)); if (x < D[u][v]) D[u][v] = D[v][u] = x;
  }
  for (int k = 0; k < n; ++k) for (int i = 0; i < n; ++i) for (int j = 0; j < n; ++j)
    if (D[i][k] + D[k][j] < D[i][j]) D[i][j] = D[i][k] + D[k][j];
  Cloud c; c.family = "graph"; c.D = D; return c;
}

// clusters at very different scales (dyadic coordinates; L2 through sqrt, or Linf exact)
inline Cloud gen_cluster(vh::Rng& r, int n) {
  int k = 2 + (int)r.below(3);
  int norm = r.chance(1, 2) ? L2 : LINF;
  std::vector<std::vector<double>> centers(k, std::vector<double>(2)); std::vector<double> scale(k);
  static const double sc[] = {1.0 / 32, 1.0, 8.0, 64.0};
  for (int t = 0; t < k; ++t) { centers[t][0] = 1024.0 * (double)r.below(5); centers[t][1] = 1024.0 * (double)r.below(5); scale[t] = sc[r.below(4)]; }
  std::set<std::vector<double>> seen;
  std::vector<std::vector<double>> P;
  int guard = 0;
  while ((int)P.size() < n && ++guard < 10000) {
    int t = (int)r.below(k);
    std::vector<double> p(2);
    p[0] = centers[t][0] + scale[t] * (double)r.range(-4, 4);
    p[1] = centers[t][1] + scale[t] * (double)r.range(-4, 4);
    if (seen.insert(p).second) P.push_back(p);
  }
  Cloud c; c.family = std::string("cluster_") + norm_name(norm); c.D = matrix_from_points(P, norm);
  return c;
}

// ultrametric: d(x,y) = height of the first level at which two random codes differ (many ties)
inline Cloud gen_ultra(vh::Rng& r, int n) {
  int levels = 1 + (int)r.below(4), base = 2 + (int)r.below(2);
  std::vector<double> h(levels + 1);
  double cur = 1.0;
  for (int l = levels; l >= 0; --l) { h[l] = cur; cur *= (double)(1 + r.below(8)) + (r.chance(1, 2) ? 0.5 : 0.0); if (cur == h[l]) cur *= 2; }
  std::vector<std::vector<int>> code(n, std::vector<int>(levels + 1));
  for (int i = 0; i < n; ++i) { for (int l = 0; l < levels; ++l) code[i][l] = (int)r.below(base); code[i][levels] = i; }
  Cloud c; c.family = "ultrametric"; c.D.assign(n, std::vector<double>(n, 0.0));
  for (int i = 0; i < n; ++i) for (int j = 0; j < n; ++j) if (i != j) {
    int l = 0; while (code[i][l] == code[j][l]) ++l;
    c.D[i][j] = h[l];
  }
  return c;
}

// points on a line with geometrically growing gaps
inline Cloud gen_line(vh::Rng& r, int n) {
  std::vector<double> x(n); double cur = 0, gap = 1.0;
  static const double ratio[] = {1.0, 1.5, 2.0, 4.0};
  double q = ratio[r.below(4)];
  for (int i = 0; i < n; ++i) { x[i] = cur; cur += gap * (double)(1 + r.below(2)); gap *= q; }
  r.shuffle(x);
  Cloud c; c.family = "line_geometric"; c.D.assign(n, std::vector<double>(n, 0.0));
  for (int i = 0; i < n; ++i) for (int j = 0; j < n; ++j) c.D[i][j] = std::fabs(x[i] - x[j]);
  return c;
}

// arbitrary finite metric: integer distances in [K, 2K] always satisfy the triangle inequality
inline Cloud gen_generic(vh::Rng& r, int n) {
  static const long Ks[] = {1, 2, 5, 100};
  long K = Ks[r.below(4)];
  Cloud c; c.family = (K == 1 ? "generic_12" : "generic"); c.D.assign(n, std::vector<double>(n, 0.0));
  for (int i = 0; i < n; ++i) for (int j = i + 1; j < n; ++j) c.D[i][j] = c.D[j][i] = (double)(K + (long)r.below(K + 1));
  return c;
}

// Rounded, NOT exactly metric inputs, as users give them: real coordinates and the Euclidean distance in double.  The
// distances are within an ulp of a true metric; the exact triangle inequality may fail in the last bit (collinear
// points 0.1*k are the standard example).  No is_metric() filter for these; only distinctness of the points.
inline Cloud gen_rounded(vh::Rng& r, int n) {
  Cloud c; c.rounded = true;
  for (int attempt = 0; attempt < 8; ++attempt) {
    unsigned k = (unsigned)r.below(3);
    std::vector<std::vector<double>> P;
    if (k == 0) {  // uniform reals in the unit cube
      int dim = 1 + (int)r.below(3);
      c.family = "rounded_cube";
      for (int i = 0; i < n; ++i) { std::vector<double> p(dim); for (auto& x : p) x = r.unit(); P.push_back(p); }
    } else if (k == 1) {  // collinear multiples of a decimal step (along an axis or along a direction of the plane)
      static const double step[] = {0.1, 0.3, 0.7, 1e-3};
      double st = step[r.below(4)]; bool plane = r.chance(1, 2);
      c.family = plane ? "rounded_collinear_2d" : "rounded_collinear_1d";
      std::vector<long> ks; for (long i = 0; i < 3L * std::max(n, 1); ++i) ks.push_back(i);
      r.shuffle(ks);
      for (int i = 0; i < n; ++i) { double t = st * (double)ks[i]; P.push_back(plane ? std::vector<double>{t, 0.2 * (double)ks[i]} : std::vector<double>{t}); }
    } else {  // noisy circle
      c.family = "rounded_noisy_circle";
      static const double noise[] = {0.0, 1e-3, 0.05, 0.3};
      double nz = noise[r.below(4)];
      for (int i = 0; i < n; ++i) { double t = 6.283185307179586 * r.unit(); P.push_back({std::cos(t) + nz * (r.unit() - 0.5), std::sin(t) + nz * (r.unit() - 0.5)}); }
    }
    c.P = P; c.D = matrix_from_points(P, L2);
    bool distinct = true;
    for (int i = 0; i < n && distinct; ++i) for (int j = i + 1; j < n; ++j) if (!(c.D[i][j] > 0)) { distinct = false; break; }
    if (distinct) return c;
  }
  // (practically unreachable) fall back to distinct abscissae
  c.family = "rounded_collinear_1d"; c.P.clear();
  for (int i = 0; i < n; ++i) c.P.push_back({0.1 * (double)i});
  c.D = matrix_from_points(c.P, L2);
  return c;
}

// all cliques of g with at most max_dim+1 vertices, value = max over vertices and edges (same definition as
// oracle::flag_complex, enumerated by extension instead of over all 2^n subsets so that n > 14 is affordable)
inline void cliques_rec(const oracle::WGraph& g, int max_dim, std::vector<int>& cur, double val, int next, std::map<Simplex, double>& out) {
  for (int v = next; v < g.n(); ++v) {
    bool ok = true; double nv = std::max(val, g.vval[v]);
    for (int u : cur) { if (!g.has_edge(u, v)) { ok = false; break; } nv = std::max(nv, g.w[u][v]); }
    if (!ok) continue;
    cur.push_back(v);
    Simplex s; for (int u : cur) s.push_back(g.label[u]);
    out[s] = nv;
    if ((int)cur.size() < max_dim + 1) cliques_rec(g, max_dim, cur, nv, v + 1, out);
    cur.pop_back();
  }
}
inline std::map<Simplex, double> cliques(const oracle::WGraph& g, int max_dim) {
  std::map<Simplex, double> out; std::vector<int> cur;
  cliques_rec(g, max_dim, cur, -kInf, 0, out);
  return out;
}
inline std::map<Simplex, double> flag_of(const oracle::WGraph& g, int max_dim) {
  return g.n() <= 14 ? oracle::flag_complex(g, max_dim) : cliques(g, max_dim);
}

enum Group { G_GRID = 0, G_GRAPHS, G_SCALES, G_GENERIC, G_ROUNDED, G_ANY };

inline Cloud gen_cloud(vh::Rng& r, int group, int n) {
  if (group == G_ANY) group = (int)r.below(5);
  switch (group) {
    case G_GRID: return gen_grid(r, n);
    case G_GRAPHS: { unsigned k = (unsigned)r.below(3); return k == 0 ? gen_circle(r, n) : k == 1 ? gen_tree(r, n) : gen_graph(r, n); }
    case G_SCALES: { unsigned k = (unsigned)r.below(4); return k <= 1 ? gen_cluster(r, n) : k == 2 ? gen_ultra(r, n) : gen_line(r, n); }
    case G_ROUNDED: return gen_rounded(r, n);
    default: return gen_generic(r, n);
  }
}

// ------------------------------------------------------------------------------------------------ recording inputs
// Sparse_rips_complex picks the first point of its farthest-point ordering with std::random_device (documented: "the
// exact output varies from one run to the next").  To keep a case a function of (seed, config, index) only, the
// harness observes through ITS OWN distance functor / matrix which point the library started from (the first n-1
// distance evaluations all involve that point) and rebuilds the object until the start equals the one drawn from the
// case RNG.  Nothing of the check depends on that detection being right; it only restores replayability.
struct SteerAbort {};  // thrown by the harness's OWN distance functor / matrix row: abandons a construction whose start is not the wanted one
struct Recorder {
  std::vector<std::pair<int, int>> calls; size_t cap = 0; unsigned long total = 0;
  int n_ = 0, target_ = -1; bool steer_ = false;
  void reset(size_t cap_, int n = 0, int target = -1, bool steer = false) { calls.clear(); cap = cap_; total = 0; n_ = n; target_ = target; steer_ = steer; }
  void note(int a, int b) {
    ++total;
    if (calls.size() < cap) {
      calls.emplace_back(a, b);
      // as soon as the start is known (n-1 evaluations) and is not the wanted one, give up this construction: the
      // exception unwinds through the library's constructor (which owns only standard containers at that point)
      if (steer_ && (int)calls.size() == n_ - 1) { int s = start(n_); if (s >= 0 && s != target_) throw SteerAbort(); }
    }
  }
  // the point involved in all of the first n-1 evaluations, or -1
  int start(int n) const {
    if (n < 3 || (int)calls.size() < n - 1) return -1;
    for (int cand : {calls[0].first, calls[0].second}) {
      bool all = true;
      for (int t = 0; t < n - 1; ++t) if (calls[t].first != cand && calls[t].second != cand) all = false;
      if (all) return cand;
    }
    return -1;
  }
};

struct PointId { int id; };
struct LookupDistance {
  const Matrix* D; Recorder* rec;
  double operator()(const PointId& a, const PointId& b) const { rec->note(a.id, b.id); return (*D)[a.id][b.id]; }
};
// lower-triangular matrix exactly as documented: row i has i entries, distance_matrix[i][j] valid for j < i only
struct TriRow {
  std::vector<double> v; int i; Recorder* rec;
  double operator[](std::size_t j) const { rec->note(i, (int)j); return v[j]; }  // _GLIBCXX_ASSERTIONS traps j >= i
};
typedef std::vector<TriRow> TriMatrix;
// std::vector<double> points + Gudhi::Euclidean_distance (the documented way to give a point cloud); the wrapper only
// records which two points of the range were compared (by address: the library passes references into the range)
struct EuclidRec {
  const std::vector<std::vector<double>>* P; Recorder* rec;
  double operator()(const std::vector<double>& a, const std::vector<double>& b) const {
    rec->note((int)(&a - P->data()), (int)(&b - P->data()));
    return Gudhi::Euclidean_distance()(a, b);
  }
};

// Builds the Sparse_rips_complex until the library's random start is `target` (see above).  make() constructs one.
template <class Sparse, class Make>
std::unique_ptr<Sparse> build_steered(vh::Case& c, Recorder& rec, int n, int target, Make make, int& observed) {
  std::unique_ptr<Sparse> sr;
  long attempts = 0; std::set<int> starts_seen; bool steer = (n >= 3 && target >= 0);
  const long limit = 1000 + 20L * n;
  for (;;) {
    rec.reset(n > 0 ? (size_t)n : 1, n, target, steer);
    ++attempts;
    try { sr.reset(make()); }
    catch (const SteerAbort&) {
      starts_seen.insert(rec.start(n));
      if (attempts >= 40 && starts_seen.size() == 1) { c.count("start.library_looks_deterministic"); steer = false; }
      else if (attempts >= limit) { c.count("start.target_not_reached"); steer = false; }
      continue;
    }
    break;
  }
  observed = rec.start(n);
  c.count("build.constructions", (uint64_t)attempts);
  c.log("start_observed=" + vh::str(observed) + " constructions=" + vh::str(attempts));
  if (observed >= 0 && observed == target) c.count("start.target_reached");
  else if (n >= 3) c.count("start.unknown_or_other");
  return sr;
}

// ------------------------------------------------------------------------------------------------ the case
struct Params {
  double eps; int dim_max; bool use_matrix; double mini, maxi; int start_target;
  bool bounded() const { return mini != -kInf || maxi != kInf; }
  bool guaranteed() const { return eps > 0 && eps < 1 && !bounded(); }
};

inline std::string eps_class(double e) {
  if (e >= 1) return "ge1";
  if (e <= 0.05) return "le.05";
  if (e < 0.3) return "lt.3";
  if (e < 0.6) return "lt.6";
  if (e < 0.95) return "lt.95";
  return "ge.95";
}

inline std::vector<Pt> log_points(const std::vector<oracle::Interval>& dg, int dim) {
  std::vector<Pt> out;
  for (auto& iv : dg) if (iv.dim == dim) out.push_back(Pt{iv.birth > 0 ? std::log(iv.birth) : -kInf, iv.death == kInf ? kInf : std::log(iv.death)});
  return out;
}
inline std::string show_dim(const std::vector<oracle::Interval>& dg, int dim) {
  std::vector<oracle::Interval> f; for (auto& iv : dg) if (iv.dim == dim) f.push_back(iv);
  return oracle::show(f);
}

template <class ST>
bool read_complex(vh::Case& c, ST& st, std::map<Simplex, double>& S, const std::string& sig) {
  for (auto sh : st.complex_simplex_range()) {
    Simplex s; for (auto v : st.simplex_vertex_range(sh)) s.push_back((long)v);
    std::sort(s.begin(), s.end());
    if (std::adjacent_find(s.begin(), s.end()) != s.end() || s.empty()) {
      c.violation("complex.simplex_is_vertex_set", sig, "enumerated simplex with repeated / no vertices " + oracle::show(s)); return false;
    }
    double f = (double)st.filtration(sh);
    if (!S.emplace(s, f).second) { c.violation("complex.simplex_listed_once", sig, "simplex enumerated twice " + oracle::show(s)); return false; }
  }
  return true;
}

inline std::string dim_class(int dim_max, int n) {
  if (dim_max == INT_MAX) return "int_max";
  if (dim_max > 4 && dim_max > n) return "gt_n";
  return vh::str(dim_max);
}

// ST = simplex tree type; SFV = Filtration_value template argument of Sparse_rips_complex (by default the tree's);
// allow_mini = false for option sets promising contiguous vertex labels
template <class ST, class SFV = typename ST::Filtration_value>
void run_case(vh::Case& c, int group, bool validity_mode, bool allow_mini, bool large = false) {
  typedef typename ST::Filtration_value FV;
  typedef Gudhi::rips_complex::Sparse_rips_complex<SFV> Sparse;
  vh::Rng& r = c.rng;
  // the library rounds distances and 2*(d - lambda/eps) to Filtration_value (float for the fast_persistence option set)
  const double fv_eps = std::max((double)std::numeric_limits<FV>::epsilon(), (double)std::numeric_limits<SFV>::epsilon());
  const double rel_tol = std::max(1e-12, 8.0 * fv_eps);
  const double log_tol = std::max(1e-9, 8.0 * fv_eps);

  // ---- size
  int n;
  if (r.chance(1, 16)) { n = (int)r.below(6); if (n == 0 && !r.chance(1, 4)) n = 1; }
  else n = 6 + (int)r.below(9);  // 6..14
  Params p;
  p.dim_max = 1 + (int)r.below(3);
  if (n <= 9 && r.chance(1, 8)) p.dim_max = 4;
  if (n >= 13 && p.dim_max == 3 && r.chance(1, 2)) p.dim_max = 2;  // keep the 1470-simplex reductions a minority
  if (large) {  // more points (deeper farthest-point heaps, neighbour lists), low dimension
    n = 15 + (int)r.below(34);  // 15..48
    p.dim_max = (n <= 24) ? 1 + (int)r.below(2) : 1;
  }
  // dim_max <= 0 (the 1-skeleton is inserted whatever dim_max, nothing above it may appear; n <= 14 only: a library
  // that ignores the bound builds all 2^n - 1 simplices, which must stay observable); dim_max far above n (INT_MAX is
  // the default of the sparse_rips_persistence utility): the whole clique complex, n <= 9 only
  if (!large && r.chance(1, 16)) p.dim_max = r.chance(1, 2) ? 0 : -1;
  else if (!large && n <= 9 && r.chance(1, 12)) p.dim_max = r.chance(1, 2) ? INT_MAX : n + 1 + (int)r.below(5);
  p.mini = -kInf; p.maxi = kInf;
  // dimension up to which the oracle enumerates Rips simplices; homology is compared in dimensions k < hom_dims
  const int odim = std::min(std::max(p.dim_max, 1), std::max(n - 1, 1));
  const int hom_dims = p.dim_max <= 0 ? 0 : std::min(p.dim_max, odim);

  // ---- metric
  Cloud cl;
  int tries = 0;
  for (;;) {
    cl = gen_cloud(r, group, n);
    if (cl.n() == n && (cl.rounded || is_metric(cl.D))) break;
    c.count("gen.retry_not_exact_metric");
    if (++tries >= 8) { cl = gen_generic(r, n); break; }
  }
  // The guarantee is scale invariant ("every finite point set in a metric space"): half of the cases rescale the whole
  // metric by a power of two (exact in binary floating point, so the relative checks below are unchanged), down to
  // distances far below sqrt(machine epsilon) and up to 2^60.
  {
    static const int shifts[] = {-40, -30, -20, -10, 10, 30, 60};
    int sh = r.chance(1, 2) ? 0 : shifts[r.below(7)];
    if (sh != 0) {
      const double f = std::ldexp(1.0, sh);
      for (auto& row : cl.D) for (auto& x : row) x *= f;
      for (auto& pt : cl.P) for (auto& x : pt) x *= f;  // (squares stay far from under/overflow: exact as well)
      c.count(sh < 0 ? "scale.pow2_negative" : "scale.pow2_positive");
      if (sh <= -30) c.count("scale.distances_below_1e-8");
    } else c.count("scale.unit");
  }
  const Matrix& D = cl.D;

  // ---- epsilon, bounds
  static const double eps_main[] = {0.01, 0.1, 0.3, 0.5, 0.9, 0.99};
  static const double eps_big[] = {1.0, 1.5, 2.0, 10.0};
  std::string eps_src = "table";
  if (!validity_mode) {
    unsigned k = (unsigned)r.below(10);
    if (k < 5) { static const unsigned w[] = {0, 1, 2, 2, 3, 3, 4, 4, 5, 5}; p.eps = eps_main[w[r.below(10)]]; }
    else if (k < 7) { p.eps = (double)(1 + r.below(63)) / 64.0; eps_src = "k/64"; }
    else if (k < 9) { do p.eps = r.unit(); while (!(p.eps > 0)); eps_src = "uniform"; }
    else { double t = std::pow(10.0, -(double)(1 + r.below(9))); bool hi = r.chance(1, 2); p.eps = hi ? 1.0 - t : t; eps_src = hi ? "1-10^-k" : "10^-k"; }
  } else {
    bool big = r.chance(1, 2);
    p.eps = big ? eps_big[r.below(4)] : (r.chance(1, 2) ? eps_main[r.below(6)] : (double)(1 + r.below(63)) / 64.0);
    bool bounds = !big || r.chance(1, 2);
    if (bounds && n >= 2) {
      std::vector<double> vals; for (int i = 0; i < n; ++i) for (int j = i + 1; j < n; ++j) vals.push_back(D[i][j]);
      std::sort(vals.begin(), vals.end());
      unsigned which = (unsigned)r.below(3);  // 0: maxi, 1: mini, 2: both
      static const double f[] = {0.5, 1.0, 1.0, 1.5, 2.0};
      if (which != 1) p.maxi = vals[r.below(vals.size())] * f[r.below(5)];
      if (which != 0 && allow_mini) p.mini = vals[r.below(vals.size() / 2 + 1)] * f[r.below(5)];
      if (which == 1 && !allow_mini) p.maxi = vals[r.below(vals.size())];
    }
  }
  p.use_matrix = r.chance(1, 2);
  p.start_target = n >= 3 ? (int)r.below(n) : -1;
  const bool twice = r.chance(1, 8);    // create_complex a second time on the same object
  const long field = r.chance(1, 8) ? 3 : 2;  // coefficient field of the persistence comparison

  {
    std::ostringstream o; o.precision(17);
    o << "family=" << cl.family << " n=" << n << " eps=" << p.eps << " dim_max=" << p.dim_max << " ctor="
      << (p.use_matrix ? "distance_matrix" : cl.rounded ? "vector<double> points+Gudhi::Euclidean_distance" : "points+distance")
      << " mini=" << p.mini << " maxi=" << p.maxi << " start_target=" << p.start_target << " create_complex_twice=" << twice << " field=Z_" << field;
    c.log(o.str());
    if (cl.rounded) for (int i = 0; i < n; ++i) c.log("P[" + vh::str(i) + "]=" + vh::vstr(cl.P[i]));
    for (int i = 1; i < n; ++i) { std::vector<double> row(D[i].begin(), D[i].begin() + i); c.log("D[" + vh::str(i) + "][0.." + vh::str(i - 1) + "]=" + vh::vstr(row)); }
  }
  const uint64_t input_hash = vh::hash_str(vh::G().history);  // the case's content: metric, epsilon, dim_max, ctor, bounds, start
  c.count("family." + cl.family); c.count("eps." + eps_class(p.eps)); c.count("eps_src." + eps_src); c.count("dim_max." + dim_class(p.dim_max, n));
  if (cl.rounded) c.count("input.rounded_not_exactly_metric");
  c.count(p.use_matrix ? "ctor.distance_matrix" : cl.rounded ? "ctor.points_euclidean_distance" : "ctor.points_distance");
  c.count(n <= 5 ? "n.le5" : n <= 9 ? "n.6_9" : n <= 14 ? "n.10_14" : n <= 24 ? "n.15_24" : "n.25_48");
  if (p.mini != -kInf) c.count("bounds.mini"); if (p.maxi != kInf) c.count("bounds.maxi");
  const std::string sig = std::string(p.eps >= 1 ? "eps>=1" : "eps<1") + (p.bounded() ? ",bounded" : ",unbounded") + ",dim_max=" + dim_class(p.dim_max, n) + (cl.rounded ? ",rounded_input" : "")
                          // the class documents its template argument as "the type used to store the filtration values of the simplicial complex"
                          + (std::is_same<FV, SFV>::value ? "" : ",complex_value_type_differs");

  // ---- build the sparse Rips complex (rebuilt until the library's random start is the one of this case)
  Recorder rec;
  std::vector<PointId> pts; for (int i = 0; i < n; ++i) pts.push_back(PointId{i});
  TriMatrix tri; for (int i = 0; i < n; ++i) tri.push_back(TriRow{std::vector<double>(D[i].begin(), D[i].begin() + i), i, &rec});
  LookupDistance ld{&D, &rec};
  EuclidRec er{&cl.P, &rec};
  int observed = -1;
  std::unique_ptr<Sparse> sr = build_steered<Sparse>(c, rec, n, p.start_target, [&]() -> Sparse* {
    if (p.use_matrix) return new Sparse(tri, p.eps, (SFV)p.mini, (SFV)p.maxi);
    if (cl.rounded) return new Sparse(cl.P, er, p.eps, (SFV)p.mini, (SFV)p.maxi);
    return new Sparse(pts, ld, p.eps, (SFV)p.mini, (SFV)p.maxi);
  }, observed);

  ST st;
  sr->create_complex(st, p.dim_max);
  c.count("op.create_complex");

  std::map<Simplex, double> S;
  if (!read_complex(c, st, S, sig)) return;
  {
    std::ostringstream o; o.precision(17); o << "sparse_edges:";
    for (auto& kv : S) if (kv.first.size() == 2) o << " " << kv.first[0] << "-" << kv.first[1] << "=" << kv.second;
    o << " | #simplices=" << S.size();
    c.log(o.str());
  }
  if (twice) {  // the object is not consumed by create_complex: a second complex filled from it is the same complex
    c.log("create_complex again into a fresh complex");
    ST st2; sr->create_complex(st2, p.dim_max);
    std::map<Simplex, double> S2;
    if (!read_complex(c, st2, S2, sig)) return;
    c.count("cmp.repeat.create_complex");
    if (S2 != S) { c.violation("repeat.create_complex_equal", sig, "second create_complex on the same object: " + vh::str(S2.size()) + " simplices, first: " + vh::str(S.size()) + " (or different values)"); return; }
  }

  // ---- Rips side (independent): complete graph, vertex value 0, edge value = distance
  oracle::WGraph g = oracle::make_graph(n);
  for (int i = 0; i < n; ++i) for (int j = 0; j < n; ++j) if (i != j) g.w[i][j] = D[i][j];
  std::map<Simplex, double> R = flag_of(g, odim);
  if (n >= 2 && n <= 10) {  // keep the two enumerators honest against each other
    c.count("selfcheck.rips_enumerators");
    if (cliques(g, odim) != R) { c.violation("harness.selfcheck", "rips_enumerators_disagree", "c19::cliques != oracle::flag_complex"); return; }
  }
  c.count("size.rips_simplices", R.size()); c.count("size.sparse_simplices", S.size());

  // ---- validity: vertex labels, values, closed under faces, monotone, dimension   (every epsilon, with and without bounds)
  int top_dim = -1;
  for (auto& kv : S) {
    const Simplex& s = kv.first; double f = kv.second;
    c.count("cmp.valid.simplex");
    top_dim = std::max(top_dim, (int)s.size() - 1);
    for (long v : s) if (v < 0 || v >= n) { c.violation("valid.vertex_is_an_input_point", sig, "simplex " + oracle::show(s) + " uses a label outside [0,n)"); return; }
    if (!(f == f)) { c.violation("valid.value_is_a_number", sig, "value of " + oracle::show(s) + " is NaN"); return; }
    if (s.size() == 1 && f != 0) { c.violation("valid.vertex_value_zero", sig, "vertex " + oracle::show(s) + " has value " + vh::str(f)); return; }
    if (s.size() > 1)
      for (size_t k = 0; k < s.size(); ++k) {
        Simplex face; for (size_t t = 0; t < s.size(); ++t) if (t != k) face.push_back(s[t]);
        auto it = S.find(face);
        if (it == S.end()) { c.violation("valid.closed_under_faces", sig + ",simplex_dim=" + vh::str(s.size() - 1), "face " + oracle::show(face) + " of " + oracle::show(s) + " missing"); return; }
        if (it->second > f) { c.violation("valid.monotone", sig + ",simplex_dim=" + vh::str(s.size() - 1), "face " + oracle::show(face) + " value " + vh::str(it->second) + " > " + oracle::show(s) + " value " + vh::str(f)); return; }
      }
    // "expands it with all the cliques, stopping at a given maximal dimension": the graph (dimension 1) is inserted
    // whatever dim_max, nothing of a dimension above max(dim_max, 1) may exist
    if ((int)s.size() - 1 > std::max(p.dim_max, 1)) {
      c.violation("valid.dimension_le_dim_max", sig, "simplex " + oracle::show(s) + " of dimension " + vh::str(s.size() - 1) + " in a complex created with dim_max=" + vh::str(p.dim_max));
      return;
    }
    if (f > (double)(FV)p.maxi) c.count("info.value_above_maxi");
  }
  c.count("cmp.valid.dimension_le_dim_max");
  if (p.dim_max <= 0) { c.count("state.dim_max_le0"); if (top_dim == 1) c.count("state.dim_max_le0_graph_only"); }
  if (p.dim_max > 4) { c.count("state.dim_max_above_n"); if (top_dim >= 4) c.count("state.dim_max_above_n_top_dim_ge4"); }
  // Simplex_tree::dimension() is documented as an upper bound of the dimension
  if (st.dimension() < top_dim) { c.violation("valid.dimension_is_upper_bound", sig, "dimension() = " + vh::str(st.dimension()) + " < dimension of an enumerated simplex " + vh::str(top_dim)); return; }
  if (validity_mode) c.count(p.eps >= 1 ? "validity.eps_ge1" : "validity.eps_lt1_bounded");
  if (p.bounded() && (int)S.size() < (int)R.size()) c.count("state.bounded_and_smaller");
  {
    int nv = 0; for (auto& kv : S) nv += kv.first.size() == 1;
    if (nv < n) c.count("state.vertices_dropped_by_mini");
  }

  bool smaller = false, raised = false;
  if (p.eps < 1) {
    // ---- filtered subcomplex of Rips, never earlier (0 < eps < 1; also with bounds: a bounded sparse complex is still one)
    for (auto& kv : S) {
      c.count("cmp.sub.simplex");
      auto it = R.find(kv.first);
      if (it == R.end()) { c.violation("sub.is_rips_simplex", sig, "sparse simplex " + oracle::show(kv.first) + " is not a simplex of the Rips complex up to dim_max"); return; }
      // the library computes 2*(d - lambda/eps) in Filtration_value: one division, roundings; relative tolerance
      if (kv.second < it->second * (1 - rel_tol)) {
        c.violation("sub.never_earlier", sig + ",simplex_dim=" + vh::str(kv.first.size() - 1), "sparse value " + vh::str(kv.second) + " of " + oracle::show(kv.first) + " < diameter " + vh::str(it->second)); return;
      }
      if (kv.second > it->second * (1 + rel_tol)) raised = true;
    }
    smaller = S.size() < R.size();
  }

  if (p.guaranteed()) {
    c.count("guarantee.cases");
    if (cl.rounded) c.count("guarantee.cases_rounded_input");
    // state classes of the edges: kept at distance / raised / dropped; simplices removed by the vertex-death blocker
    oracle::WGraph sg = oracle::make_graph(n);
    unsigned e_exact = 0, e_raised = 0, e_dropped = 0;
    for (int i = 0; i < n; ++i) for (int j = i + 1; j < n; ++j) {
      auto it = S.find(Simplex{i, j});
      if (it == S.end()) ++e_dropped;
      else { sg.w[i][j] = sg.w[j][i] = it->second; if (it->second > D[i][j] * (1 + rel_tol)) ++e_raised; else ++e_exact; }
    }
    c.count("edge.kept_at_distance", e_exact); c.count("edge.raised", e_raised); c.count("edge.dropped", e_dropped);
    size_t flag_of_sparse_graph = flag_of(sg, odim).size();
    if (flag_of_sparse_graph > S.size()) { c.count("state.blocker_removed_simplices"); c.count("simplex.blocked", flag_of_sparse_graph - S.size()); }
    if (smaller) c.count("state.sparse_strictly_smaller");
    if (raised) c.count("state.some_value_raised");
    if (!smaller && !raised) c.count("state.sparse_equals_rips");

    // all input points are vertices (a missing vertex is an H_0 bar of infinite log-length that nothing can match)
    for (int i = 0; i < n; ++i) if (!S.count(Simplex{i})) { c.violation("guarantee.all_points_are_vertices", sig, "point " + vh::str(i) + " is not a vertex of the sparse complex"); return; }

    // ---- persistence of both filtrations over Z_2 (1/8: Z_3), log-bottleneck decision per dimension < dim_max
    if (hom_dims > 0) {
      c.count(field == 2 ? "field.z2" : "field.z3");
      std::vector<oracle::Interval> dR = oracle::simplicial_diagram(R, field), dS = oracle::simplicial_diagram(S, field);
      const double delta = std::log(1.0 / (1.0 - p.eps));
      for (int k = 0; k < hom_dims; ++k) {
        std::vector<Pt> A = log_points(dR, k), B = log_points(dS, k);
        c.count("cmp.bottleneck.dim" + vh::str(k));
        if (cl.rounded) c.count("cmp.bottleneck.rounded_input");
        if (eps_src != "table" && eps_src != "k/64") c.count("cmp.bottleneck.eps_" + eps_src);
        c.count("bars.rips.dim" + vh::str(k), A.size()); c.count("bars.sparse.dim" + vh::str(k), B.size());
        if (!bottleneck_le(A, B, delta + log_tol)) {
          double ex = bottleneck_exact(A, B);
          std::ostringstream o; o.precision(17);
          o << "dimension " << k << " over Z_" << field << ": log-bottleneck distance " << ex << " > log(1/(1-eps)) = " << delta << " ; Rips diagram " << show_dim(dR, k) << " ; sparse diagram " << show_dim(dS, k);
          c.violation("guarantee.log_bottleneck", sig + ",hom_dim=" + vh::str(k) + (std::isinf(ex) ? ",unmatched_infinite_bar" : ",finite_excess"), o.str());
          return;
        }
        if (k >= 1 && !A.empty()) c.count("state.rips_has_bars_dim" + vh::str(std::min(k, 4)));
        if (A.size() != B.size() || !bottleneck_le(A, B, rel_tol)) {
          c.count("state.diagrams_differ.dim" + vh::str(std::min(k, 4)));
          if (!bottleneck_le(A, B, delta / 2)) c.count("state.distance_above_half_bound.dim" + vh::str(std::min(k, 4)));
        }
      }
    }
    if (smaller && raised) c.nontrivial(input_hash);
  } else {
    // validity-only case: non-trivial when the bound / large epsilon actually removed something
    if ((int)S.size() < (int)R.size() && n >= 6) c.nontrivial(input_hash);
  }
  c.sample("{\"history\":\"" + vh::jesc(vh::G().history.substr(0, 900)) + "\"}");
}

}  // namespace c19
#endif

// C19, unit "farthest": Gudhi::subsampling::choose_n_farthest_points_metric, the first step of the Sparse_rips_complex
// constructor, called the way the constructor calls it (distance on indices, boost::irange, final_size = -1, two back
// inserters) but with a fixed start.
#include "c19_extra.h"

VH_CONFIG("metric", [](vh::Case& c) { c19::run_farthest(c); });
VH_MAIN()

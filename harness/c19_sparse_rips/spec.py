_Q = {"grid": 1500, "graphs": 1500, "scales": 1500, "generic": 1000, "rounded": 1200, "validity": 1500, "large": 400, "exact": 1500, "h0_large": 32}
_T = {"grid": 50000, "graphs": 50000, "scales": 50000, "generic": 40000, "rounded": 40000, "validity": 40000, "large": 12000, "exact": 50000, "h0_large": 1200}

SPEC = {
    "property": "C19",
    "rule": "one case = one finite point set with its n x n distance matrix (n = 6..14, 1/16 of the cases n = 0..5, config large n = 15..48). "
            "Exact families (triangle inequality verified exactly by the generator): integer grids in R^2/R^3 under l2/l1/linf, arc metric of points "
            "on a cycle (incl. regular polygons), path metrics of weighted trees (single and multi scale) and of random graphs, clusters at "
            "scales 1/32..64 around far centres, ultrametrics, geometric progressions on a line, arbitrary metrics with integer distances in "
            "[K,2K]. Rounded families (NOT exactly metric, no filter: std::vector<double> points + Gudhi::Euclidean_distance, or their matrix): "
            "uniform reals in the unit cube, collinear multiples of 0.1/0.3/0.7/0.001 on a line or along a direction of the plane, noisy circles. "
            "Half of the cases rescaled by 2^-40..2^60. epsilon from {.01,.1,.3,.5,.9,.99} (1/2), k/64 (1/5), U(0,1) (1/5), 10^-k or 1-10^-k, "
            "k = 1..9 (1/10); dim_max 1..4, 1/16 of the cases 0 or -1, 1/12 of the cases with n <= 9 INT_MAX or n+1..n+5; constructor (points + "
            "distance functor | lower-triangular distance matrix with rows of exactly i entries) drawn per case; the library's random first "
            "point is steered to a start drawn from the case RNG (constructions with another start are abandoned from the harness's own distance "
            "functor). Sparse_rips_complex::create_complex fills a Simplex_tree (default options / full_featured / fast_persistence = float "
            "values / user options with short vertices, float values, link_nodes_by_label filled by a Sparse_rips_complex<float>); its "
            "simplices and values are read back and checked: labels, vertex value 0, closed under faces, monotone, no simplex of dimension > "
            "max(dim_max, 1), dimension() an upper bound (every epsilon incl. >= 1, with and without mini/maxi); 1/8 of the cases: a second "
            "create_complex on the same object gives the same complex; for epsilon < 1: every simplex is a Rips simplex (oracle/flag.h, edge "
            "value = distance) and its value >= its diameter; for epsilon < 1 without bounds: all points are vertices and for every "
            "k < min(dim_max, n-1) the persistence diagrams over Z_2 (1/8 of the cases Z_3; oracle/zp_reduce.h) of Rips and sparse are within "
            "log(1/(1-epsilon)) + 1e-9 in log-scale bottleneck distance (decided by bipartite matching with diagonal copies; bars born at 0 / "
            "essential bars only match their like). "
            "config exact: integer tree metrics (weights (1..1000) x {1,16,256}) whose greedy permutation from the drawn start has no tie, "
            "epsilon in {1/2,1/4,1/8}, dim_max 1..4 (all arithmetic exact): every vertex present, no simplex above dim_max, no simplex earlier than "
            "its diameter, closed under faces, monotone; whether the complex equals, simplex by simplex and value by value, the one derived from the "
            "documented construction (buchet16efficient, values doubled) for the observed start is COUNTED (info.exact.*), not judged: the property "
            "does not prescribe the construction. "
            "config h0_large: n = 200..500 (thorough ..1500), dim_max 1, integer grids l1/linf, tree metrics, rounded cube / multi-scale "
            "clusters / geometric line, epsilon 10^-k or U(.05,.99): all points are vertices, no edge earlier than its length, H_0 within the "
            "bound (sorted minimum-spanning-tree weights: Prim on the metric, Kruskal on the sparse graph). "
            "unit farthest: choose_n_farthest_points_metric called as the constructor calls it (distance on indices, irange, final_size -1 or a "
            "prefix) with a fixed start on exact metrics of 1..400 points (exact comparison) and rounded Euclidean inputs (relative 1e-12): "
            "a permutation (prefix) starting at the start, radius[0] = inf, radius[i] = distance of landmark i to the previous ones = max over "
            "the remaining points. "
            "non-trivial = distinct (by hash of the input) guarantee case whose sparse complex is strictly smaller than Rips AND has a raised "
            "value, or validity case (n >= 6) where epsilon >= 1 / the bounds removed simplices, or exact case smaller than the full complex with "
            "a raised edge, or h0_large case with a dropped edge, or farthest case with n >= 4",
    "assumptions": ["Rips convention: vertex value 0, edge value = distance (not half), as documented for Rips_complex and used by Sparse_rips_complex",
                    "inputs are metrics on distinct points (exact families: checked exactly in long double by the generator) or double-rounded Euclidean "
                    "distances of distinct points (within an ulp of a metric; the guarantee is judged with the same tolerances)",
                    "dim_max <= 0: the graph (vertices and edges) is inserted whatever dim_max, so the bound judged is max(dim_max, 1) and no homology is compared; "
                    "dim_max <= 0 only with n <= 14, dim_max > 4 only with n <= 9",
                    "tolerances: relative max(1e-12, 8 ulp of Filtration_value) for 'never earlier' (the library computes 2*(d - lambda/eps)), "
                    "absolute max(1e-9, 8 ulp) on the log-bottleneck bound",
                    "no mini with the fast_persistence option set (dropping points would break its contiguous-vertices promise)",
                    "values above maxi and the set of points dropped by mini are counted, not judged (the property only asks for a valid filtered complex there)",
                    "the template argument of Sparse_rips_complex is always the Filtration_value of the complex it fills (documented: \"the type used to store the filtration values of the simplicial complex\"); a Sparse_rips_complex<double> filling a float tree breaks the guarantee on edges entering exactly when a vertex dies and is outside the documented use",
                    "the exact configuration trusts c19_extra.h documented_complex(), a restatement of the cited construction, and only runs where double arithmetic is exact and the greedy permutation unique",
                    "choose_n_farthest_points (non-metric variant) and equality of the two variants are not checked (ties make the radii sequences differ legitimately)",
                    "h0_large / farthest cases above 60 points do not log the matrix: they are reproduced from (seed, config, case index)",
                    "trusted: oracle/flag.h, oracle/zp_reduce.h, c19_bottleneck.h, the clique enumerator in c19_common.h (cross-checked against flag.h for n <= 10)"],
    "units": [
        {"name": "st_default", "src": ["c19_default.cpp"], "variant": "asan",
         "configs": {k: {"quick": _Q[k], "thorough": _T[k]} for k in _Q}, "chunk": 2},
        {"name": "farthest", "src": ["c19_farthest.cpp"], "variant": "asan",
         "configs": {"metric": {"quick": 1600, "thorough": 40000}}, "chunk": 50},
        {"name": "st_full", "src": ["c19_full.cpp"], "variant": "asan",
         "configs": {"mixed": {"quick": 800, "thorough": 20000}, "validity": {"quick": 400, "thorough": 10000}, "exact": {"quick": 500, "thorough": 10000}}, "chunk": 50},
        {"name": "st_custom", "src": ["c19_custom.cpp"], "variant": "asan",
         "configs": {"mixed": {"quick": 800, "thorough": 20000}, "rounded": {"quick": 800, "thorough": 20000}, "validity": {"quick": 400, "thorough": 10000}}, "chunk": 50},
        {"name": "st_fast", "src": ["c19_fast.cpp"], "variant": "asan",
         "configs": {"mixed": {"quick": 1000, "thorough": 30000}, "validity": {"quick": 400, "thorough": 10000}}, "chunk": 50},
        {"name": "st_default_g", "src": ["c19_default.cpp"], "variant": "gasan", "tiers": ["thorough"],
         "configs": {"grid": {"thorough": 6000}, "scales": {"thorough": 6000}, "rounded": {"thorough": 6000}, "validity": {"thorough": 6000},
                     "large": {"thorough": 1000}, "exact": {"thorough": 6000}}, "chunk": 50},
    ],
    # per-shard wall-clock watchdog (a quick shard takes < 30 s): a change that makes the construction loop for ever must not cost the
    # default 1800 s per hanging shard
    "timeout": {"quick": 300, "thorough": 3600},
    "floors": {
        "quick": {"guarantee.cases": 5000, "state.sparse_strictly_smaller": 3000, "state.some_value_raised": 2800,
                  "state.blocker_removed_simplices": 400, "edge.raised": 30000, "edge.dropped": 85000,
                  "cmp.bottleneck.dim0": 4900, "cmp.bottleneck.dim1": 3200, "cmp.bottleneck.dim2": 1600,
                  "state.rips_has_bars_dim1": 1300, "state.rips_has_bars_dim2": 120, "state.diagrams_differ.dim1": 400,
                  "validity.eps_ge1": 600, "validity.eps_lt1_bounded": 640, "state.vertices_dropped_by_mini": 440,
                  "start.target_reached": 7000, "ctor.distance_matrix": 3200, "ctor.points_distance": 2400,
                  "n.25_48": 130, "scale.distances_below_1e-8": 900, "scale.pow2_positive": 1300,
                  # input classes added after the audit
                  "dim_max.0": 185, "dim_max.-1": 185, "state.dim_max_le0_graph_only": 360, "cmp.valid.dimension_le_dim_max": 6500,
                  "dim_max.int_max": 120, "dim_max.gt_n": 100, "state.dim_max_above_n_top_dim_ge4": 150,
                  "input.rounded_not_exactly_metric": 1500, "guarantee.cases_rounded_input": 1300, "cmp.bottleneck.rounded_input": 2600,
                  "ctor.points_euclidean_distance": 780, "family.rounded_collinear_1d": 290, "family.rounded_noisy_circle": 550,
                  "eps_src.uniform": 1000, "eps_src.10^-k": 240, "eps_src.1-10^-k": 260,
                  "cmp.repeat.create_complex": 780, "field.z3": 550,
                  "cmp.exact.complex": 1000, "exact.state.smaller_than_full": 950, "exact.state.some_edge_raised": 440,
                  "exact.state.blocker_removed_simplices": 210,
                  "op.choose_n_farthest_points_metric": 750, "cmp.farthest.step": 60000, "farthest.n.201_400": 90,
                  "farthest.state.pruned_by_triangle_inequality": 500, "farthest.state.tie_among_farthest": 500, "farthest.input.rounded": 180,
                  "cmp.bottleneck.h0_large": 16, "h0.state.sparse_strictly_smaller": 14, "h0.sparse_edges": 240000,
                  "_distinct_nontrivial": 3700},
        "thorough": {"guarantee.cases": 150000, "state.sparse_strictly_smaller": 90000, "state.some_value_raised": 80000,
                     "state.blocker_removed_simplices": 10000, "cmp.bottleneck.dim1": 90000, "cmp.bottleneck.dim2": 45000,
                     "state.rips_has_bars_dim2": 3000, "state.diagrams_differ.dim1": 10000,
                     "validity.eps_ge1": 16000, "validity.eps_lt1_bounded": 17000, "state.vertices_dropped_by_mini": 10000,
                     "n.25_48": 4000,
                     "dim_max.0": 4500, "dim_max.-1": 4500, "dim_max.int_max": 2800, "dim_max.gt_n": 2400,
                     "input.rounded_not_exactly_metric": 36000, "guarantee.cases_rounded_input": 30000,
                     "eps_src.uniform": 24000, "eps_src.10^-k": 5500, "eps_src.1-10^-k": 6000,
                     "cmp.repeat.create_complex": 18000, "field.z3": 13000,
                     "cmp.exact.complex": 25000, "exact.state.some_edge_raised": 10000, "exact.state.blocker_removed_simplices": 5000,
                     "op.choose_n_farthest_points_metric": 18000, "farthest.n.201_400": 2000,
                     "cmp.bottleneck.h0_large": 600, "h0.n.501_1500": 350,
                     "_distinct_nontrivial": 100000},
    },
    "exhaustive": {"quick": False, "thorough": False},
    "manifest": {
        "text": "Runtime monitor: thousands of small finite metric spaces (grids under three norms, cycle / tree / graph metrics, multi-scale "
                "clusters, ultrametrics, arbitrary [K,2K] metrics, and double-rounded Euclidean point clouds incl. collinear decimal points; "
                "0-48 points) are given to Sparse_rips_complex through both constructors with epsilon from 1e-9 to 1 - 1e-9 (and >= 1, and with "
                "mini/maxi for validity) and dim_max from -1 to INT_MAX, into four Simplex_tree option sets, under ASan+UBSan. The complex it "
                "builds is read back and must be a face-closed, monotone filtered complex of dimension <= max(dim_max, 1), the same when built "
                "twice; for epsilon < 1 a subcomplex of the Rips complex never earlier than the diameter; and without bounds its Z_2 (or Z_3) "
                "persistence diagrams, computed by an independent textbook reduction, must be within log(1/(1-epsilon)) of those of the "
                "brute-force Rips filtration in log-bottleneck distance in every dimension < dim_max (decided by an independent matching "
                "procedure). On tie-free integer tree metrics with dyadic epsilon the sub-filtration properties are decided in exact arithmetic "
                "(and the agreement with the documented construction is recorded as evidence, not required); at 200-1500 points the H_0 part of the guarantee is checked through minimum spanning trees; the "
                "farthest-point ordering the constructor relies on is checked against its definition up to 400 points. Held on what was "
                "observed, not a proof. Outside the exact configuration the bound is loose on such small inputs (observed distances are mostly "
                "below half of it), so there the monitor detects constructions that lose or mis-time simplices grossly, not changes that keep "
                "the complex between the sparse and the full Rips filtration.",
        "note": "trusted: oracle/flag.h, oracle/zp_reduce.h, harness/c19_sparse_rips/c19_bottleneck.h, documented_complex() in c19_extra.h; Rips edge "
                "value = distance; inputs are metrics on distinct points or double-rounded Euclidean distances; the library's std::random_device "
                "start is steered by rebuilding until the start drawn by the case RNG is observed through the harness's own distance functor",
        "technique": "runtime monitoring: randomized metric spaces + brute-force Rips / textbook persistence / bottleneck-matching / documented-construction / MST oracles, under AddressSanitizer/UBSan",
    },
}

_Q = {"grid": 1500, "graphs": 1500, "scales": 1500, "generic": 1000, "validity": 1500, "large": 400}
_T = {"grid": 50000, "graphs": 50000, "scales": 50000, "generic": 40000, "validity": 40000, "large": 12000}

SPEC = {
    "property": "C19",
    "rule": "one case = one finite metric space given as an n x n matrix whose triangle inequality is verified exactly by the generator "
            "(n = 6..14, 1/16 of the cases n = 0..5, config large n = 15..48): integer grids in R^2/R^3 under l2/l1/linf, arc metric of points "
            "on a cycle (incl. regular polygons), path metrics of weighted trees (single and multi scale) and of random graphs, clusters at "
            "scales 1/32..64 around far centres, ultrametrics, geometric progressions on a line, arbitrary metrics with integer distances in "
            "[K,2K]; epsilon in {.01,.1,.3,.5,.9,.99} or k/64; dim_max 1..4; constructor (points + distance functor | lower-triangular "
            "distance matrix with rows of exactly i entries) drawn per case; the library's random first point is steered to a start drawn "
            "from the case RNG. Sparse_rips_complex::create_complex fills a Simplex_tree (default options / fast_persistence = float values); "
            "its simplices and values are read back and checked: labels, vertex value 0, closed under faces, monotone (every epsilon incl. "
            ">= 1, with and without mini/maxi); for epsilon < 1: every simplex is a Rips simplex (oracle/flag.h, edge value = distance) and "
            "its value >= its diameter; for epsilon < 1 without bounds: all points are vertices and for every k < dim_max the Z_2 persistence "
            "diagrams (oracle/zp_reduce.h) of Rips and sparse are within log(1/(1-epsilon)) + 1e-9 in log-scale bottleneck distance (decided "
            "by bipartite matching with diagonal copies; bars born at 0 / essential bars only match their like). "
            "non-trivial = distinct (by hash of the input) guarantee case whose sparse complex is strictly smaller than Rips AND has a raised "
            "value, or validity case (n >= 6) where epsilon >= 1 / the bounds removed simplices",
    "assumptions": ["Rips convention: vertex value 0, edge value = distance (not half), as documented for Rips_complex and used by Sparse_rips_complex",
                    "inputs are metrics on distinct points (checked exactly in long double by the generator); dim_max >= 1",
                    "tolerances: relative max(1e-12, 8 ulp of Filtration_value) for 'never earlier' (the library computes 2*(d - lambda/eps)), "
                    "absolute max(1e-9, 8 ulp) on the log-bottleneck bound",
                    "no mini with the fast_persistence option set (dropping points would break its contiguous-vertices promise)",
                    "values above maxi and the set of points dropped by mini are counted, not judged (the property only asks for a valid filtered complex there)",
                    "trusted: oracle/flag.h, oracle/zp_reduce.h, c19_bottleneck.h, the clique enumerator in c19_common.h (cross-checked against flag.h for n <= 10)"],
    "units": [
        {"name": "st_default", "src": ["c19_default.cpp"], "variant": "asan",
         "configs": {k: {"quick": _Q[k], "thorough": _T[k]} for k in _Q}, "chunk": 50},
        {"name": "st_fast", "src": ["c19_fast.cpp"], "variant": "asan",
         "configs": {"mixed": {"quick": 1000, "thorough": 30000}, "validity": {"quick": 400, "thorough": 10000}}, "chunk": 50},
        {"name": "st_default_g", "src": ["c19_default.cpp"], "variant": "gasan", "tiers": ["thorough"],
         "configs": {"grid": {"thorough": 6000}, "scales": {"thorough": 6000}, "validity": {"thorough": 6000}, "large": {"thorough": 1000}}, "chunk": 50},
    ],
    "floors": {
        "quick": {"guarantee.cases": 3000, "state.sparse_strictly_smaller": 1800, "state.some_value_raised": 1600,
                  "state.blocker_removed_simplices": 200, "edge.raised": 20000, "edge.dropped": 50000,
                  "cmp.bottleneck.dim0": 3000, "cmp.bottleneck.dim1": 2000, "cmp.bottleneck.dim2": 1000,
                  "state.rips_has_bars_dim1": 900, "state.rips_has_bars_dim2": 70, "state.diagrams_differ.dim1": 200,
                  "validity.eps_ge1": 400, "validity.eps_lt1_bounded": 450, "state.vertices_dropped_by_mini": 250,
                  "start.target_reached": 4000, "ctor.distance_matrix": 2000, "ctor.points_distance": 2000,
                  "n.25_48": 120, "scale.distances_below_1e-8": 500, "scale.pow2_positive": 500, "_distinct_nontrivial": 2300},
        "thorough": {"guarantee.cases": 90000, "state.sparse_strictly_smaller": 50000, "state.some_value_raised": 45000,
                     "state.blocker_removed_simplices": 6000, "cmp.bottleneck.dim1": 60000, "cmp.bottleneck.dim2": 30000,
                     "state.rips_has_bars_dim2": 2000, "state.diagrams_differ.dim1": 6000,
                     "validity.eps_ge1": 12000, "validity.eps_lt1_bounded": 13000, "state.vertices_dropped_by_mini": 7000,
                     "n.25_48": 4000, "_distinct_nontrivial": 70000},
    },
    "exhaustive": {"quick": False, "thorough": False},
    "manifest": {
        "text": "Runtime monitor: thousands of small finite metric spaces (grids under three norms, cycle / tree / graph metrics, multi-scale "
                "clusters, ultrametrics, arbitrary [K,2K] metrics; 0-48 points) are given to Sparse_rips_complex through both constructors with "
                "epsilon from 0.01 to 0.99 (and >= 1, and with mini/maxi for validity), under ASan+UBSan. The complex it builds is read back and "
                "must be a face-closed, monotone filtered complex; for epsilon < 1 a subcomplex of the Rips complex never earlier than the "
                "diameter; and without bounds its Z_2 persistence diagrams, computed by an independent textbook reduction, must be within "
                "log(1/(1-epsilon)) of those of the brute-force Rips filtration in log-bottleneck distance in every dimension < dim_max "
                "(decided by an independent matching procedure). Held on what was observed, not a proof. The bound is loose on such small "
                "inputs (observed distances are mostly below half of it), so the monitor detects constructions that lose or mis-time "
                "simplices grossly (wrong edge value formula, wrong vertex-death cut-off or blocker, mis-indexed insertion radii), not "
                "changes that keep the complex between the sparse and the full Rips filtration.",
        "note": "trusted: oracle/flag.h, oracle/zp_reduce.h, harness/c19_sparse_rips/c19_bottleneck.h; Rips edge value = distance; metric inputs on "
                "distinct points; dim_max >= 1; the library's std::random_device start is steered by rebuilding until the start drawn by the "
                "case RNG is observed through the harness's own distance functor",
        "technique": "runtime monitoring: randomized metric spaces + brute-force Rips / textbook persistence / bottleneck-matching oracle, under AddressSanitizer/UBSan",
    },
}

// C19, unit "st_default": Sparse_rips_complex<double> filling a Gudhi::Simplex_tree<> (default options).
#include "c19_extra.h"

typedef Gudhi::Simplex_tree<> ST;

VH_CONFIG("grid", [](vh::Case& c) { c19::run_case<ST>(c, c19::G_GRID, false, true); });
VH_CONFIG("graphs", [](vh::Case& c) { c19::run_case<ST>(c, c19::G_GRAPHS, false, true); });
VH_CONFIG("scales", [](vh::Case& c) { c19::run_case<ST>(c, c19::G_SCALES, false, true); });
VH_CONFIG("generic", [](vh::Case& c) { c19::run_case<ST>(c, c19::G_GENERIC, false, true); });
VH_CONFIG("rounded", [](vh::Case& c) { c19::run_case<ST>(c, c19::G_ROUNDED, false, true); });
VH_CONFIG("validity", [](vh::Case& c) { c19::run_case<ST>(c, c19::G_ANY, true, true); });
VH_CONFIG("large", [](vh::Case& c) { c19::run_case<ST>(c, c19::G_ANY, false, true, true); });
VH_CONFIG("exact", [](vh::Case& c) { c19::run_exact<ST>(c); });
VH_CONFIG("h0_large", [](vh::Case& c) { c19::run_h0_large<ST>(c); });
VH_MAIN()

// C19, unit "st_custom": a user option set (short vertex handles, float values, nodes linked by label, 16-bit keys
// unused) filled by a Sparse_rips_complex<float>. (A Sparse_rips_complex<double> filling this float tree was tried first: it
// violates the guarantee on edges that enter exactly when a vertex dies, because the blocker re-tests on the rounded value -
// but the class documents its template argument as "the type used to store the filtration values of the simplicial complex",
// so a mismatching type is outside the documented use and is not judged.)
#include "c19_common.h"

struct Custom_options : Gudhi::Simplex_tree_options_default {
  typedef short Vertex_handle;
  typedef float Filtration_value;
  static const bool link_nodes_by_label = true;
};
typedef Gudhi::Simplex_tree<Custom_options> ST;

static void mixed(vh::Case& c) { c19::run_case<ST>(c, c19::G_ANY, false, true); }
static void rounded(vh::Case& c) { c19::run_case<ST>(c, c19::G_ROUNDED, false, true); }
static void validity(vh::Case& c) { c19::run_case<ST>(c, c19::G_ANY, true, true); }
VH_CONFIG("mixed", mixed);
VH_CONFIG("rounded", rounded);
VH_CONFIG("validity", validity);
VH_MAIN()

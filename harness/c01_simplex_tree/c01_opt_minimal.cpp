#include "c01_exec.h"
namespace c01 { void run_minimal(vh::Case& c, const stc::History& h, int sample) { exec_history<Gudhi::Simplex_tree_options_minimal>(c, h, "minimal", sample); } }

#include "c01_cross.h"
namespace c01 {
void cross_fastp_full(vh::Case& c, const stc::History& h) { exec_pair<Gudhi::Simplex_tree_options_fast_persistence, Gudhi::Simplex_tree_options_full_featured>(c, h, "fastp/full"); }
void cross_fastp_lowfull(vh::Case& c, const stc::History& h) { exec_pair<Gudhi::Simplex_tree_options_fast_persistence, stc::Opt_low_full>(c, h, "fastp/lowfull"); }
}

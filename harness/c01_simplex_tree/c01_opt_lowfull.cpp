#include "c01_exec.h"
namespace c01 { void run_lowfull(vh::Case& c, const stc::History& h, int sample) { exec_history<stc::Opt_low_full>(c, h, "lowfull", sample); } }

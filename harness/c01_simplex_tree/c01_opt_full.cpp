#include "c01_exec.h"
namespace c01 { void run_full(vh::Case& c, const stc::History& h, int sample) { exec_history<Gudhi::Simplex_tree_options_full_featured>(c, h, "full", sample); } }

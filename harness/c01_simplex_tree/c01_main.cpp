// C01 — Simplex tree equals the abstract complex defined by its operation history, under every option set.
// The history is generated from the abstract model only and replayed on every option set that allows it.
#include "common/vh.h"
#include "oracle/complex_model.h"
#include <tuple>
#include "common/st_common.h"

namespace c01 {
// sample > 0: per-simplex sweeps on at most that many simplices per step (large complexes)
void run_default(vh::Case&, const stc::History&, int sample);
void run_full(vh::Case&, const stc::History&, int sample);
void run_minimal(vh::Case&, const stc::History&, int sample);
void run_fastp(vh::Case&, const stc::History&, int sample);
void run_fastcof(vh::Case&, const stc::History&, int sample);
void run_stable(vh::Case&, const stc::History&, int sample);
void run_mini(vh::Case&, const stc::History&, int sample);
void run_lowfull(vh::Case&, const stc::History&, int sample);
// two option sets side by side, operator== across them after every step
void cross_default_fastcof(vh::Case&, const stc::History&);
void cross_full_stable(vh::Case&, const stc::History&);
void cross_minimal_mini(vh::Case&, const stc::History&);
void cross_lowfull_default(vh::Case&, const stc::History&);
void cross_fastp_full(vh::Case&, const stc::History&);
void cross_fastp_lowfull(vh::Case&, const stc::History&);
}

static void finish(vh::Case& c, const stc::History& h) {
  std::string hs; for (auto& op : h.ops) hs += op.show() + ";";
  if (h.reinsertion_after_removal && h.max_dim >= 2) c.nontrivial(vh::hash_str(hs));
  if (h.max_dim >= 3) c.count("hist.reaches_dim3");
  if (h.reinsertion_after_removal) c.count("hist.reinsertion_after_removal");
  c.count("hist.emptied_steps", h.emptied);
  bool ext_lab = false; for (long x : h.universe) if (x == INT_MIN || x == INT_MAX || x == SHRT_MIN || x == SHRT_MAX) ext_lab = true;
  if (ext_lab) c.count("hist.extreme_labels");
  bool ninf = false, pinf = false, neg = false, prune_ninf = false;
  auto see = [&](double v) { if (v == -std::numeric_limits<double>::infinity()) ninf = true; else if (v == std::numeric_limits<double>::infinity()) pinf = true; else if (v < 0) neg = true; };
  for (auto& op : h.ops) {
    if (op.kind == stc::INS || op.kind == stc::INSF || op.kind == stc::BATCH) see(op.v);
    if (op.kind == stc::GRAPH) { for (double v : op.gv) see(v); for (auto& e : op.ge) see(std::get<2>(e)); }
    if (op.kind == stc::STREAM) for (auto& e : op.stream) see(e.second);
    if (op.kind == stc::PRUNE_F && op.v == -std::numeric_limits<double>::infinity()) prune_ninf = true;
  }
  if (ninf) c.count("hist.value_minus_infinity");
  if (pinf) c.count("hist.value_plus_infinity");
  if (neg) c.count("hist.value_negative");
  if (prune_ninf) c.count("hist.prune_threshold_minus_infinity");
  c.sample("{\"universe\":" + vh::vstr(h.universe) + ",\"ops\":\"" + vh::jesc(hs.substr(0, 900)) + "\"}");
}

static const stc::GenExt& ext_all() { static const stc::GenExt e; return e; }
static stc::History gen_general(vh::Case& c) { return stc::generate_history(c.rng, false, 40, true, false, nullptr, nullptr, 1, &ext_all()); }
static stc::History gen_small(vh::Case& c) { return stc::generate_history(c.rng, false, 40, false, true, nullptr, nullptr, 1, &ext_all()); }
static stc::History gen_contiguous(vh::Case& c) { return stc::generate_history(c.rng, true, 40, true, true, nullptr, nullptr, 1, &ext_all()); }

// general labels (sparse, negative, large, INT_MIN / INT_MAX), filtration stored
VH_CONFIG("general", [](vh::Case& c) {
  stc::History h = gen_general(c);
  c.log("universe=" + vh::vstr(h.universe));
  c01::run_default(c, h, 0); if (c.failed) return;
  c01::run_full(c, h, 0); if (c.failed) return;
  c01::run_fastcof(c, h, 0); if (c.failed) return;
  c01::run_stable(c, h, 0); if (c.failed) return;
  finish(c, h);
});
// labels fitting in 16 bits, option sets with short vertex handles; no pruning by value so that the
// filtration-less option sets can replay the same history
VH_CONFIG("small_labels_nofilt", [](vh::Case& c) {
  stc::History h = gen_small(c);
  c.log("universe=" + vh::vstr(h.universe));
  c01::run_minimal(c, h, 0); if (c.failed) return;
  c01::run_mini(c, h, 0); if (c.failed) return;
  c01::run_lowfull(c, h, 0); if (c.failed) return;
  c01::run_default(c, h, 0); if (c.failed) return;
  finish(c, h);
});
// contiguous vertices {0..n-1} at all times: the precondition of Options::contiguous_vertices
VH_CONFIG("contiguous", [](vh::Case& c) {
  stc::History h = gen_contiguous(c);
  c.log("universe=" + vh::vstr(h.universe));
  c01::run_fastp(c, h, 0); if (c.failed) return;
  c01::run_lowfull(c, h, 0); if (c.failed) return;
  c01::run_full(c, h, 0); if (c.failed) return;
  finish(c, h);
});
// 16-64 labels (dense 0..m-1, scattered 16-bit labels with both extremes, or an arithmetic progression), simplices of at most
// 5 vertices; lookups are sampled (every present simplex + random subsets + neighbours of present simplices) and the
// per-simplex sweeps run on a sample of the simplices
static void large_universe_case(vh::Case& c) {
  vh::Rng& r = c.rng;
  int m = 16 + (int)r.below(49);
  std::vector<long> uni;
  unsigned kind = (unsigned)r.below(3);
  if (kind == 0) { for (int i = 0; i < m; ++i) uni.push_back(i); }
  else if (kind == 1) {
    std::set<long> s{SHRT_MIN, SHRT_MAX};
    while ((int)s.size() < m) { long x = r.range(SHRT_MIN, SHRT_MAX); if (x != -1) s.insert(x); }
    uni.assign(s.begin(), s.end()); r.shuffle(uni);
  } else { long a = r.range(-20000, 1000), st = 1 + (long)r.below(300); for (int i = 0; i < m; ++i) if (a + st * i != -1) uni.push_back(a + st * i); }
  stc::GenExt e; e.big = true; e.max_simplex_size = 5;
  stc::History h = stc::generate_history(r, false, 25, true, true, nullptr, &uni, 1, &e);
  c.log("universe=" + vh::vstr(h.universe));
  c.count("hist.large_universe");
  c01::run_default(c, h, 16); if (c.failed) return;
  c01::run_fastcof(c, h, 16); if (c.failed) return;
  c01::run_stable(c, h, 16); if (c.failed) return;
  c01::run_lowfull(c, h, 16); if (c.failed) return;
  finish(c, h);
}
VH_CONFIG("large_universe", large_universe_case);
// operator== across option sets, the two trees in independently refreshed / stale states
VH_CONFIG("cross_general", [](vh::Case& c) {
  stc::History h = gen_general(c);
  c.log("universe=" + vh::vstr(h.universe));
  c01::cross_default_fastcof(c, h); if (c.failed) return;
  c01::cross_full_stable(c, h); if (c.failed) return;
  finish(c, h);
});
VH_CONFIG("cross_small_labels", [](vh::Case& c) {
  stc::History h = gen_small(c);
  c.log("universe=" + vh::vstr(h.universe));
  c01::cross_minimal_mini(c, h); if (c.failed) return;
  c01::cross_lowfull_default(c, h); if (c.failed) return;
  finish(c, h);
});
VH_CONFIG("cross_contiguous", [](vh::Case& c) {
  stc::History h = gen_contiguous(c);
  c.log("universe=" + vh::vstr(h.universe));
  c01::cross_fastp_full(c, h); if (c.failed) return;
  c01::cross_fastp_lowfull(c, h); if (c.failed) return;
  finish(c, h);
});
VH_MAIN()

// C01 — Simplex tree equals the abstract complex defined by its operation history, under every option set.
// The history is generated from the abstract model only and replayed on every option set that allows it.
#include "common/vh.h"
#include "oracle/complex_model.h"
#include <tuple>
// only declarations needed here: keep this TU light
namespace stc { struct History; }
#include "common/st_common.h"

namespace c01 {
void run_default(vh::Case&, const stc::History&);
void run_full(vh::Case&, const stc::History&);
void run_minimal(vh::Case&, const stc::History&);
void run_fastp(vh::Case&, const stc::History&);
void run_fastcof(vh::Case&, const stc::History&);
void run_stable(vh::Case&, const stc::History&);
void run_mini(vh::Case&, const stc::History&);
void run_lowfull(vh::Case&, const stc::History&);
}

static void finish(vh::Case& c, const stc::History& h) {
  std::string hs; for (auto& op : h.ops) hs += op.show() + ";";
  if (h.reinsertion_after_removal && h.max_dim >= 2) c.nontrivial(vh::hash_str(hs));
  if (h.max_dim >= 3) c.count("hist.reaches_dim3");
  if (h.reinsertion_after_removal) c.count("hist.reinsertion_after_removal");
  c.count("hist.emptied_steps", h.emptied);
  c.sample("{\"universe\":" + vh::vstr(h.universe) + ",\"ops\":\"" + vh::jesc(hs.substr(0, 900)) + "\"}");
}

// general labels (sparse, negative, large), filtration stored
VH_CONFIG("general", [](vh::Case& c) {
  stc::History h = stc::generate_history(c.rng, false, 40, true, false);
  c.log("universe=" + vh::vstr(h.universe));
  c01::run_default(c, h); if (c.failed) return;
  c01::run_full(c, h); if (c.failed) return;
  c01::run_fastcof(c, h); if (c.failed) return;
  c01::run_stable(c, h); if (c.failed) return;
  finish(c, h);
});
// labels fitting in 16 bits, option sets with short vertex handles; no pruning by value so that the
// filtration-less option sets can replay the same history
VH_CONFIG("small_labels_nofilt", [](vh::Case& c) {
  stc::History h = stc::generate_history(c.rng, false, 40, false, true);
  c.log("universe=" + vh::vstr(h.universe));
  c01::run_minimal(c, h); if (c.failed) return;
  c01::run_mini(c, h); if (c.failed) return;
  c01::run_lowfull(c, h); if (c.failed) return;
  c01::run_default(c, h); if (c.failed) return;
  finish(c, h);
});
// contiguous vertices {0..n-1} at all times: the precondition of Options::contiguous_vertices
VH_CONFIG("contiguous", [](vh::Case& c) {
  stc::History h = stc::generate_history(c.rng, true, 40, true, true);
  c.log("universe=" + vh::vstr(h.universe));
  c01::run_fastp(c, h); if (c.failed) return;
  c01::run_lowfull(c, h); if (c.failed) return;
  c01::run_full(c, h); if (c.failed) return;
  finish(c, h);
});
VH_MAIN()

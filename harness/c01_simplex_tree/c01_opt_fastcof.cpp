#include "c01_exec.h"
namespace c01 { void run_fastcof(vh::Case& c, const stc::History& h, int sample) { exec_history<stc::Opt_fast_cofaces>(c, h, "fastcof", sample); } }

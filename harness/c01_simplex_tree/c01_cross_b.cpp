#include "c01_cross.h"
namespace c01 {
void cross_minimal_mini(vh::Case& c, const stc::History& h) { exec_pair<Gudhi::Simplex_tree_options_minimal, stc::Opt_mini>(c, h, "minimal/mini"); }
void cross_lowfull_default(vh::Case& c, const stc::History& h) { exec_pair<stc::Opt_low_full, Gudhi::Simplex_tree_options_default>(c, h, "lowfull/default"); }
}

// C01 executor: replays a model-generated history on a Simplex_tree<Options> and compares after every step.
#ifndef VERIF_C01_EXEC_H_
#define VERIF_C01_EXEC_H_
#include "common/st_common.h"

namespace c01 {

// The tree lives on the heap and is deliberately leaked when the case fails: a tree that has diverged from the model may
// be structurally broken (e.g. a node below a node of the same label), and its destructor would then not terminate.
template <class ST>
struct Tree_holder {
  vh::Case& c; ST* p;
  explicit Tree_holder(vh::Case& c_) : c(c_), p(new ST) {}
  ~Tree_holder() { if (!c.failed) delete p; }
  Tree_holder(const Tree_holder&) = delete;
};

// a value different from v (v may be infinite)
inline double other_value(double v) { return std::isfinite(v) ? v + 8.0 : 0.0; }

// sample_simplices > 0: large complexes, the per-simplex sweeps (boundary / star / cofaces) and the rebuilt trees are sampled
template <class Options>
void exec_history(vh::Case& c, const stc::History& h, const std::string& optname, int sample_simplices = 0) {
  typedef Gudhi::Simplex_tree<Options> ST;
  Tree_holder<ST> holder(c);
  ST& st = *holder.p;
  stc::ComplexModel M;
  vh::Rng r2(vh::hash_mix(c.rng.next(), 77));
  const std::string pfx = "";
  for (size_t i = 0; i < h.ops.size(); ++i) {
    const stc::Op& op = h.ops[i];
    c.log("[" + optname + "] " + op.show());
    // the state the operation starts from: is the cached dimension bound stale on a non-empty complex?
    if (!M.cx.empty() && st.upper_bound_dimension() > M.dimension()) {
      c.count("state.stale_bound_nonempty_at_op");
      c.count(std::string("state.stale_bound_nonempty_at_op.") + stc::op_name(op.kind));
    }
    if (!stc::apply_op(c, st, M, op, pfx)) return;
    std::string sig = op.sig();
    stc::ObsOpt oo; oo.qmode = op.mode(); oo.ext = true; oo.rng = &r2; oo.sample_simplices = sample_simplices;
    c.count("qmode." + vh::str(oo.qmode));
    if (!stc::full_check(c, st, M, h.universe, sig, oo, pfx)) return;
    c.count("steps");
    if (M.cx.empty()) c.count("state.empty_complex");
    // equality against a tree rebuilt from the model by another route, and against a one-simplex perturbation
    if (r2.chance(1, sample_simplices > 0 ? 6 : 3)) {
      const bool stale = !M.cx.empty() && st.upper_bound_dimension() > M.dimension();
      if (stale) c.count("cmp.equality_under_stale_bound");
      const std::string esig = sig + (M.cx.empty() ? ",complex_empty" : (stale ? ",stale_bound" : ",exact_bound"));
      ST other;
      stc::build_from_model(other, M);
      c.count("cmp.equality");
      if (!(st == other) || (st != other)) { c.violation("equality.equal_trees", esig, "operator== false against a tree rebuilt from the same complex (" + vh::str(M.cx.size()) + " simplices)"); return; }
      if (!(other == st)) { c.violation("equality.symmetric", esig, "operator== not symmetric"); return; }
      // perturbation: drop one maximal simplex, or change one value
      if (!M.cx.empty()) {
        stc::ComplexModel P = M;
        std::vector<stc::Simplex> mx; for (auto& kv : P.cx) if (P.is_maximal(kv.first)) mx.push_back(kv.first);
        bool by_value = Options::store_filtration && r2.chance(1, 2);
        const stc::Simplex& ps = mx[r2.below(mx.size())];
        if (by_value) P.cx[ps] = other_value(P.cx[ps]); else P.cx.erase(ps);
        ST pert; stc::build_from_model(pert, P);
        c.count("cmp.inequality");
        if (st == pert || pert == st) { c.violation("equality.different_trees", esig + (by_value ? ",value_differs" : ",simplex_missing"), "operator== true against a different complex"); return; }
      }
    }
  }
}

}  // namespace c01
#endif

// C01 executor: replays a model-generated history on a Simplex_tree<Options> and compares after every step.
#ifndef VERIF_C01_EXEC_H_
#define VERIF_C01_EXEC_H_
#include "common/st_common.h"

namespace c01 {

template <class Options>
void exec_history(vh::Case& c, const stc::History& h, const std::string& optname) {
  typedef Gudhi::Simplex_tree<Options> ST;
  ST st;
  stc::ComplexModel M;
  vh::Rng r2(vh::hash_mix(c.rng.next(), 77));
  const std::string pfx = "";
  for (size_t i = 0; i < h.ops.size(); ++i) {
    const stc::Op& op = h.ops[i];
    c.log("[" + optname + "] " + op.show());
    if (!stc::apply_op(c, st, M, op, pfx)) return;
    std::string sig = std::string("op=") + stc::op_name(op.kind) + "," + op.cls;
    if (!stc::full_check(c, st, M, h.universe, sig, op.query_dimension, pfx)) return;
    c.count("steps");
    if (M.cx.empty()) c.count("state.empty_complex");
    // equality against a tree rebuilt from the model by another route, and against a one-simplex perturbation
    if (r2.chance(1, 3)) {
      ST other;
      stc::build_from_model(other, M);
      c.count("cmp.equality");
      if (!(st == other) || (st != other)) { c.violation("equality.equal_trees", sig + (M.cx.empty() ? ",complex_empty" : "") + (op.query_dimension ? ",after_dimension_query" : ",no_dimension_query"), "operator== false against a tree rebuilt from the same complex (" + vh::str(M.cx.size()) + " simplices)"); return; }
      if (!(other == st)) { c.violation("equality.symmetric", sig, "operator== not symmetric"); return; }
      // perturbation: drop one maximal simplex, or change one value
      if (!M.cx.empty()) {
        stc::ComplexModel P = M;
        std::vector<stc::Simplex> mx; for (auto& kv : P.cx) if (P.is_maximal(kv.first)) mx.push_back(kv.first);
        bool by_value = Options::store_filtration && r2.chance(1, 2);
        if (by_value) P.cx[mx[r2.below(mx.size())]] += 8.0; else P.cx.erase(mx[r2.below(mx.size())]);
        ST pert; stc::build_from_model(pert, P);
        c.count("cmp.inequality");
        if (st == pert) { c.violation("equality.different_trees", sig + (by_value ? ",value_differs" : ",simplex_missing"), "operator== true against a different complex"); return; }
      }
    }
  }
}

}  // namespace c01
#endif

_SRC = ["c01_main.cpp"] + ["c01_opt_%s.cpp" % n for n in ["default", "full", "minimal", "fastp", "fastcof", "stable", "mini", "lowfull"]]
SPEC = {
    "property": "C01",
    "rule": "histories of 1-40 operations {insert_simplex (facets present, monotone value), insert_simplex_and_subfaces (shuffled / duplicated "
            "vertices), insert_batch_vertices (mix of new and existing), insert_graph (on an empty tree), remove_maximal_simplex, "
            "prune_above_filtration, prune_above_dimension, clear} generated from the abstract model only, over 3-7 labels from 4 universes "
            "(contiguous, sparse/negative/2^30, offset, 16-bit extremes); the SAME history is replayed on every option set that admits it "
            "(default, full_featured, fast_cofaces, stable | minimal, mini(short,uint8,no filtration), low_full(int16,float), default | "
            "fast_persistence(contiguous,float), low_full, full_featured) and after EVERY step every read interface is compared with the model: "
            "find on all label subsets, vertex/simplex/skeleton ranges, boundary (+opposite vertices), star and cofaces codim 1-3 of every simplex, "
            "counts, dimension(sh), upper_bound_dimension, dimension() (queried on a random half of the steps), filtration values, documented "
            "return values, and operator== against a tree rebuilt from the model and against a one-simplex perturbation. "
            "non-trivial = distinct history (hash of ops) with a removal/pruning followed by re-insertion of a removed simplex and dimension >= 2",
    "assumptions": ["insert_simplex is only called with all facets present and a value >= its facets' values (documented monotonicity precondition)",
                    "contiguous_vertices option sets only see histories keeping the vertex set {0..n-1}",
                    "null_vertex (-1) is never used as a label", "oracle::ComplexModel is the trusted model"],
    "units": [
        {"name": "st", "src": _SRC, "variant": "asan",
         "configs": {"general": {"quick": 5000, "thorough": 120000}, "small_labels_nofilt": {"quick": 3000, "thorough": 80000},
                     "contiguous": {"quick": 3000, "thorough": 80000}}, "chunk": 25},
        # gcc's UBSan sees invalid-bool loads that clang's optimises away (it found the uninitialised end iterator of the star range)
        {"name": "st_gcc", "src": _SRC, "variant": "gasan",
         "configs": {"general": {"quick": 400, "thorough": 20000}, "small_labels_nofilt": {"quick": 200, "thorough": 10000},
                     "contiguous": {"quick": 200, "thorough": 10000}}, "chunk": 25},
        # valgrind memcheck: use of uninitialised values (not visible to ASan/UBSan unless the value is a bool/enum)
        {"name": "st_memcheck", "src": _SRC, "variant": "memcheck",
         "configs": {"general": {"quick": 160, "thorough": 4000}, "small_labels_nofilt": {"quick": 80, "thorough": 2000},
                     "contiguous": {"quick": 80, "thorough": 2000}}, "chunk": 10},
    ],
    "floors": {"quick": {"hist.reaches_dim3": 50, "state.empty_complex": 50, "state.upper_bound_above_dimension": 50,
                         "op.remove_maximal_simplex": 1000, "op.prune_above_filtration": 300, "op.prune_above_dimension": 300,
                         "op.insert_graph": 30, "cmp.equality": 1000, "_distinct_nontrivial": 300},
               "thorough": {"hist.reaches_dim3": 5000, "_distinct_nontrivial": 30000}},
    "manifest": {
        "text": "Runtime monitor: thousands of model-generated operation histories are replayed on 8 Simplex_tree option sets under ASan+UBSan "
                "(clang; gcc in thorough); after every step the complete observable state (every read interface on every simplex / label subset) "
                "is compared with an independent abstract-complex model, so a divergence is caught at the step where it becomes observable. "
                "Sampled histories, exhaustive queries per state; held-on-what-was-observed.",
        "note": "trusted: oracle::ComplexModel, libstdc++; preconditions (facets present, monotone values, contiguous labels where required) enforced by the generator",
        "technique": "runtime monitoring: randomized operation histories + reference-model oracle after every step, cross-configuration replay, AddressSanitizer/UBSan",
    },
}

_SRC = ["c01_main.cpp"] + ["c01_opt_%s.cpp" % n for n in ["default", "full", "minimal", "fastp", "fastcof", "stable", "mini", "lowfull"]] + \
       ["c01_cross_%s.cpp" % n for n in "abc"]
SPEC = {
    "property": "C01",
    "rule": "histories of 1-40 operations {insert_simplex (facets present, monotone value; vertices shuffled, 1 in 6 with a repeated vertex), "
            "insert_simplex_and_subfaces (shuffled / duplicated vertices), out-of-order STREAMS of all faces of 1-2 simplices through insert_simplex "
            "(monotone values, observed after the stream), insert_batch_vertices (new / existing / mixed; shuffled, repeated, empty lists), "
            "insert_graph (on an empty tree; undirectedS / directedS, reversed and doubled edges, no vertex), remove_maximal_simplex, "
            "prune_above_filtration (thresholds incl. -inf, negative, +inf), prune_above_dimension (incl. -1, -10, dim+1), clear} generated from the "
            "abstract model only; values on a dyadic grid in [-4,4] plus -inf and +inf; 3-7 labels from 6 universes (contiguous, sparse/negative/2^30, "
            "offset, 16-bit near-extremes, INT_MIN/INT_MAX, SHRT_MIN/SHRT_MAX), and a large_universe config with 16-64 labels (dense, scattered 16-bit "
            "incl. both extremes, arithmetic progression) and simplices of <= 5 vertices; the SAME history is replayed on every option set that admits "
            "it (default, full_featured, fast_cofaces, stable | minimal, mini(short,uint8,no filtration), low_full(int16,float), default | "
            "fast_persistence(contiguous,float), low_full, full_featured | large: default, fast_cofaces, stable, low_full) and after EVERY step every "
            "read interface is compared with the model: find on all label subsets with permuted vertex order and (1 in 8) a repeated vertex (large "
            "universe: every present simplex + 64 sampled subsets / neighbours of present simplices), vertex/simplex ranges, skeleton ranges for "
            "d = -7, -1, 0..dim+1, boundary (+opposite vertices), star and cofaces of codimension 1..max(3,dim+1) of every simplex (large universe: of "
            "16 sampled simplices), counts, dimension(sh), upper_bound_dimension, filtration values, documented return values of both simplex "
            "insertions (bool, handle == find(simplex), null handle when nothing changed), operator== / != in both directions against a tree rebuilt "
            "from the model and against a one-simplex perturbation. The cached dimension bound is queried in one of 5 modes drawn per step (none 40% | "
            "num_simplices_by_dimension then dimension | dimension() FIRST | dimension() last without by_dimension | by_dimension only), so a stale "
            "bound on a non-empty complex survives sweeps and following operations and dimension()'s deep search runs on non-empty complexes. "
            "cross_* configs: the same history on two option sets side by side (default/fast_cofaces, full/stable, minimal/mini, low_full/default, "
            "fast_persistence/full, fast_persistence/low_full), bounds refreshed independently (none | dimension | by_dimension), operator== across "
            "the option sets in both directions after every step (stale vs exact, stale vs stale) and against a perturbed tree of the other option set. "
            "non-trivial = distinct history (hash of ops) with a removal/pruning followed by re-insertion of a removed simplex and dimension >= 2",
    "assumptions": ["insert_simplex outside a stream is only called with all facets present and a value >= its facets' values (documented monotonicity "
                    "precondition); inside a stream the values are monotone on the streamed faces and nothing is observed before the stream ends "
                    "(documented: the complex is not simplicial in between)",
                    "contiguous_vertices option sets only see histories keeping the vertex set {0..n-1} at all times (streams bring at most the next vertex)",
                    "null_vertex (-1) is never used as a label; NaN is never used as a value",
                    "insert_graph: vertex descriptors 0..n-1, no self-loop (documented to throw), a doubled edge carries the same value twice "
                    "(the representative that is read is documented as arbitrary)",
                    "large_universe: lookups and per-simplex sweeps are sampled, not exhaustive; simplices have at most 5 vertices there",
                    "operator== across option sets is only evaluated between option sets that both store (or both do not store) filtration values",
                    "handles are compared with find()'s result: one simplex has one handle",
                    "oracle::ComplexModel is the trusted model"],
    "units": [
        {"name": "st", "src": _SRC, "variant": "asan",
         "configs": {"general": {"quick": 5000, "thorough": 120000}, "small_labels_nofilt": {"quick": 3000, "thorough": 80000},
                     "contiguous": {"quick": 3000, "thorough": 80000}, "large_universe": {"quick": 400, "thorough": 8000},
                     "cross_general": {"quick": 1500, "thorough": 30000}, "cross_small_labels": {"quick": 1000, "thorough": 20000},
                     "cross_contiguous": {"quick": 1000, "thorough": 20000}}, "chunk": 25},
        # gcc's UBSan sees invalid-bool loads that clang's optimises away (it found the uninitialised end iterator of the star range)
        {"name": "st_gcc", "src": _SRC, "variant": "gasan",
         "configs": {"general": {"quick": 400, "thorough": 20000}, "small_labels_nofilt": {"quick": 200, "thorough": 10000},
                     "contiguous": {"quick": 200, "thorough": 10000}, "large_universe": {"quick": 40, "thorough": 1000},
                     "cross_general": {"quick": 100, "thorough": 4000}, "cross_small_labels": {"quick": 50, "thorough": 2000},
                     "cross_contiguous": {"quick": 50, "thorough": 2000}}, "chunk": 25},
        # valgrind memcheck: use of uninitialised values (not visible to ASan/UBSan unless the value is a bool/enum)
        {"name": "st_memcheck", "src": _SRC, "variant": "memcheck",
         "configs": {"general": {"quick": 160, "thorough": 4000}, "small_labels_nofilt": {"quick": 80, "thorough": 2000},
                     "contiguous": {"quick": 80, "thorough": 2000}, "large_universe": {"quick": 4, "thorough": 200},
                     "cross_general": {"quick": 40, "thorough": 800}, "cross_small_labels": {"quick": 20, "thorough": 400},
                     "cross_contiguous": {"quick": 20, "thorough": 400}}, "chunk": 10},
    ],
    "floors": {"quick": {"hist.reaches_dim3": 50, "state.empty_complex": 50, "state.upper_bound_above_dimension": 50,
                         "op.remove_maximal_simplex": 1000, "op.prune_above_filtration": 300, "op.prune_above_dimension": 300,
                         "op.insert_graph": 30, "cmp.equality": 1000, "_distinct_nontrivial": 300,
                         # the cached dimension bound: stale on a non-empty complex when the next operation starts, during the sweep,
                         # when dimension() / num_simplices_by_dimension() / operator== are evaluated
                         "state.stale_bound_nonempty_at_op": 12000, "state.sweep_under_stale_bound": 25000,
                         "cmp.dimension_via_deep_search": 15000, "cmp.by_dimension_under_stale_bound": 8000,
                         "cmp.equality_under_stale_bound": 4000,
                         # operator== across option sets
                         "cmp.equality_cross_options": 65000, "cmp.equality_cross_options.stale_vs_exact": 2500,
                         "cmp.equality_cross_options.stale_vs_stale": 450, "cmp.inequality_cross_options": 19000,
                         # input classes added after the audit
                         "opclass.insert_simplex.input_repeated_vertex": 12000, "cmp.find_repeated_vertex": 2500000,
                         "cmp.find_permuted": 19000000, "cmp.skeleton_negative_dimension": 790000, "cmp.cofaces_codim_above_3": 2500000,
                         "cmp.insert_subfaces_handle": 150000, "op.insert_simplex_stream": 47000,
                         "opclass.insert_simplex_stream.all_new,coface_before_face": 5000,
                         "opclass.insert_simplex_stream.mixed,coface_before_face": 12000,
                         "opclass.insert_batch_vertices.empty_list": 5000, "opclass.insert_batch_vertices.input_repeated_vertex": 9000,
                         "opclass.insert_graph.on_empty,directed": 850, "opclass.insert_graph.on_empty,reversed_edges,doubled_edges": 650,
                         "opclass.insert_graph.on_empty,directed,reversed_edges,doubled_edges": 300, "opclass.insert_graph.no_vertex": 250,
                         "hist.value_minus_infinity": 4400, "hist.value_plus_infinity": 5000, "hist.value_negative": 5800,
                         "hist.prune_threshold_minus_infinity": 580, "hist.extreme_labels": 1800,
                         "hist.large_universe": 300, "cmp.find_sampled": 630000, "state.sampled_sweep": 4500},
               "thorough": {"hist.reaches_dim3": 5000, "_distinct_nontrivial": 30000}},
    "manifest": {
        "text": "Runtime monitor: thousands of model-generated operation histories are replayed on 8 Simplex_tree option sets under ASan+UBSan "
                "(clang; gcc in thorough); after every step the complete observable state (every read interface on every simplex / label subset) "
                "is compared with an independent abstract-complex model, so a divergence is caught at the step where it becomes observable; the "
                "cached dimension bound is left stale across sweeps and operations on a random part of the steps, and operator== is also evaluated "
                "across option sets. Sampled histories, exhaustive queries per state (sampled in the 16-64 label config); held-on-what-was-observed.",
        "note": "trusted: oracle::ComplexModel, libstdc++; preconditions (facets present, monotone values, contiguous labels where required) enforced by the generator",
        "technique": "runtime monitoring: randomized operation histories + reference-model oracle after every step, cross-configuration replay, AddressSanitizer/UBSan",
    },
}

#include "c01_cross.h"
namespace c01 {
void cross_default_fastcof(vh::Case& c, const stc::History& h) { exec_pair<Gudhi::Simplex_tree_options_default, stc::Opt_fast_cofaces>(c, h, "default/fastcof"); }
void cross_full_stable(vh::Case& c, const stc::History& h) { exec_pair<Gudhi::Simplex_tree_options_full_featured, stc::Opt_stable>(c, h, "full/stable"); }
}

// C01, equality across option sets: the SAME history is replayed on two trees with different SimplexTreeOptions, the cached
// dimension bound of each is refreshed (or not) independently, and operator== / operator!= are evaluated in both directions
// after every step -- equal complexes must compare equal whatever the storage options and whatever the state of the bound --
// and against a tree of the other option set holding a one-simplex perturbation.
#ifndef VERIF_C01_CROSS_H_
#define VERIF_C01_CROSS_H_
#include "c01_exec.h"

namespace c01 {

// refreshes (or not) the cached bound of one tree, checking what the refreshing call returns
template <class ST>
bool refresh(vh::Case& c, const ST& st, const stc::ComplexModel& M, unsigned how, const std::string& sig, const std::string& pfx) {
  if (how == 1) {
    bool stale = !M.cx.empty() && st.upper_bound_dimension() > M.dimension();
    int d = st.dimension();
    c.count("cmp.dimension");
    if (stale) c.count("cmp.dimension_via_deep_search");
    if (d != M.dimension()) { c.violation(pfx + "dim.complex", sig + (M.cx.empty() ? ",complex_empty" : (stale ? ",stale_bound" : "")), "dimension()=" + vh::str(d) + " model=" + vh::str(M.dimension())); return false; }
  } else if (how == 2) {
    auto bd = st.num_simplices_by_dimension();
    c.count("cmp.by_dimension");
    if (bd != M.by_dimension()) { c.violation(pfx + "count.by_dimension", sig, "num_simplices_by_dimension()=" + vh::vstr(bd) + " model=" + vh::vstr(M.by_dimension())); return false; }
  }
  if (st.upper_bound_dimension() < M.dimension()) { c.violation(pfx + "dim.upper_bound", sig + ",bound_below_dimension", "upper_bound_dimension()=" + vh::str(st.upper_bound_dimension()) + " < true dimension " + vh::str(M.dimension())); return false; }
  return true;
}

template <class OptionsA, class OptionsB>
void exec_pair(vh::Case& c, const stc::History& h, const std::string& name) {
  typedef Gudhi::Simplex_tree<OptionsA> STA;
  typedef Gudhi::Simplex_tree<OptionsB> STB;
  static_assert(OptionsA::store_filtration == OptionsB::store_filtration, "values are part of the comparison");
  Tree_holder<STA> ha(c); Tree_holder<STB> hb(c);
  STA& a = *ha.p; STB& b = *hb.p;
  stc::ComplexModel MA, MB;
  vh::Rng r2(vh::hash_mix(c.rng.next(), 78));
  for (size_t i = 0; i < h.ops.size(); ++i) {
    const stc::Op& op = h.ops[i];
    c.log("[" + name + "] " + op.show());
    if (!stc::apply_op(c, a, MA, op, "a.")) return;
    if (!stc::apply_op(c, b, MB, op, "b.")) return;
    const std::string sig = "pair=" + name + "," + op.sig();
    unsigned qa = (unsigned)r2.below(3), qb = (unsigned)r2.below(3);
    c.log("  refresh a:" + vh::str(qa) + " b:" + vh::str(qb));
    if (!refresh(c, a, MA, qa, sig, "a.") || !refresh(c, b, MB, qb, sig, "b.")) return;
    const bool nonempty = !MA.cx.empty();
    const bool sa = nonempty && a.upper_bound_dimension() > MA.dimension(), sb = nonempty && b.upper_bound_dimension() > MB.dimension();
    const std::string esig = sig + (nonempty ? "" : ",complex_empty") + (sa ? ",a_stale_bound" : ",a_exact_bound") + (sb ? ",b_stale_bound" : ",b_exact_bound");
    c.count("cmp.equality_cross_options");
    if (sa != sb) c.count("cmp.equality_cross_options.stale_vs_exact");
    if (sa && sb) { c.count("cmp.equality_cross_options.stale_vs_stale"); if (a.upper_bound_dimension() != b.upper_bound_dimension()) c.count("cmp.equality_cross_options.different_stale_bounds"); }
    if (!(a == b) || (a != b)) { c.violation("equality.cross_options", esig, "a == b false for two trees holding the same complex (" + vh::str(MA.cx.size()) + " simplices)"); return; }
    if (!(b == a) || (b != a)) { c.violation("equality.cross_options", esig + ",reversed", "b == a false for two trees holding the same complex"); return; }
    c.count("steps_cross");
    if (nonempty && r2.chance(1, 3)) {
      stc::ComplexModel P = MA;
      std::vector<stc::Simplex> mx; for (auto& kv : P.cx) if (P.is_maximal(kv.first)) mx.push_back(kv.first);
      bool by_value = OptionsA::store_filtration && r2.chance(1, 2);
      const stc::Simplex& ps = mx[r2.below(mx.size())];
      if (by_value) P.cx[ps] = other_value(P.cx[ps]); else P.cx.erase(ps);
      STB pert; stc::build_from_model(pert, P);
      c.count("cmp.inequality_cross_options");
      if (a == pert || pert == a || !(a != pert)) { c.violation("equality.cross_options_different", esig + (by_value ? ",value_differs" : ",simplex_missing"), "operator== true between trees holding different complexes"); return; }
    }
  }
}

}  // namespace c01
#endif

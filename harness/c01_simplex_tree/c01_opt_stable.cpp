#include "c01_exec.h"
namespace c01 { void run_stable(vh::Case& c, const stc::History& h, int sample) { exec_history<stc::Opt_stable>(c, h, "stable", sample); } }

#include "c01_exec.h"
namespace c01 { void run_default(vh::Case& c, const stc::History& h, int sample) { exec_history<Gudhi::Simplex_tree_options_default>(c, h, "default", sample); } }

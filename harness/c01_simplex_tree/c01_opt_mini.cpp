#include "c01_exec.h"
namespace c01 { void run_mini(vh::Case& c, const stc::History& h, int sample) { exec_history<stc::Opt_mini>(c, h, "mini", sample); } }

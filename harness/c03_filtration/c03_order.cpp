// C03 — filtration order: validity, determinism across insertion histories and option sets, documented tie order (small complexes).
#include "c03_common.h"

using namespace c03;

namespace {

// a random monotone filtered complex on <= 7 labels with heavy ties
//  mode 0: dyadic values 0.5*k (+ rare +inf)   mode 1: special members of the range of float (-inf, lowest, -0.0, 0.0, denorm_min, max, +inf)
//  mode 2: integral values (also given to the option set whose Filtration_value is int), no infinity
ComplexModel random_complex(vh::Case& c, vh::Rng& r, const std::vector<long>& uni, int ntop, int nvalues, int mode) {
  ComplexModel M;
  for (int i = 0; i < ntop; ++i) {
    Simplex s = stc::random_subset(r, uni, (int)uni.size());
    M.insert_with_faces(s, 0.0);
  }
  M = compress_labels(M);
  std::vector<Simplex> order; for (auto& kv : M.cx) order.push_back(kv.first);
  std::stable_sort(order.begin(), order.end(), [](const Simplex& a, const Simplex& b) { return a.size() < b.size(); });
  if (mode == 1) {
    // lower-star-like on INDICES into the table of special values (non-decreasing table: monotone by construction)
    const std::vector<double>& T = special_values<float>();   // (float: the narrowest Filtration_value among the option sets)
    const int n = (int)T.size();
    std::map<long, int> vi; for (long v = 0; v < 8; ++v) vi[v] = (int)r.below(n - 1);
    std::map<Simplex, int> idx;
    for (auto& s : order) {
      int k = 0; for (long x : s) k = std::max(k, vi[x]);
      for (auto& f : ComplexModel::facets(s)) k = std::max(k, idx[f]);
      if (r.chance(1, 5)) k = std::min(n - 1, k + (int)r.below(3));
      idx[s] = k; M.cx[s] = T[k];
      count_special<float>(c, T[k], "value.order_");
    }
    return M;
  }
  // lower-star-like monotone values with ties: value(s) = max over vertices of a vertex function, plus a random bump
  const double step = mode == 2 ? 1.0 : 0.5;
  std::map<long, double> vf; for (long v = 0; v < 8; ++v) vf[v] = step * (double)r.below(nvalues);
  if (mode == 2 && r.chance(1, 4)) { vf[(long)r.below(8)] = (double)INT_MIN; vf[(long)r.below(8)] = -3; }
  const double floor_v = mode == 2 ? (double)INT_MIN : 0;
  for (auto& s : order) {
    double v = floor_v; for (long x : s) v = std::max(v, vf[x]);
    for (auto& f : ComplexModel::facets(s)) v = std::max(v, M.cx[f]);
    if (r.chance(1, 5)) v += step * (double)r.below(3);
    if (mode == 0 && r.chance(1, 40)) v = INF;
    M.cx[s] = v;
  }
  // restore monotonicity after infinities
  auto cl = M.monotone_closure(); M.cx = cl;
  return M;
}

// builds the filtered complex M in tree st by one of several insertion routes
template <class ST>
void build_route(vh::Rng& r, ST& st, const ComplexModel& M, int route) {
  typedef typename ST::Filtration_value FV;
  std::vector<Simplex> ord = oracle::filtration_order(M.cx);
  if (route != 0) preinsert_vertices(st, M, true);
  if (route == 0) {                       // in filtration order, simplex by simplex
    for (auto& s : ord) st.insert_simplex(stc::to_vh<ST>(s), (FV)M.cx.at(s));
  } else if (route == 1) {                // random order, simplex by simplex (stream usage)
    r.shuffle(ord);
    for (auto& s : ord) st.insert_simplex(stc::to_vh<ST>(s), (FV)M.cx.at(s));
  } else if (route == 2) {                // with subfaces, by decreasing value (faces end with their own smaller values)
    std::reverse(ord.begin(), ord.end());
    for (auto& s : ord) st.insert_simplex_and_subfaces(stc::to_vh<ST>(s), (FV)M.cx.at(s));
  } else {                                // random order with subfaces, then an extra maximal simplex inserted and removed again
    r.shuffle(ord);
    for (auto& s : ord) { auto v = stc::to_vh<ST>(s); r.shuffle(v); st.insert_simplex_and_subfaces(v, (FV)M.cx.at(s)); }
    // every simplex is re-assigned its exact value (min rule may have lowered nothing below its own value)
    long extra = (long)M.num_vertices();
    std::vector<typename ST::Vertex_handle> e{(typename ST::Vertex_handle)extra};
    st.insert_simplex(e, (FV)0);
    st.remove_maximal_simplex(st.find(e));
  }
}

template <class ST>
bool order_on(vh::Case& c, const ComplexModel& M, vh::Rng& r, const std::string& name, std::vector<std::vector<Simplex>>& all) {
  for (int route = 0; route < 4; ++route) {
    ST st;
    build_route(r, st, M, route);
    std::string sig = "opts=" + name + ",route=" + vh::str(route);
    c.log("order " + sig);
    std::vector<Simplex> seq = sequence(st);
    if (!check_sequence(c, seq, M, false, sig)) return false;
    all.push_back(seq);
    // cache dropped and recomputed: same sequence
    st.clear_filtration();
    if (sequence(st) != seq) { c.violation("order.not_deterministic", sig + ",recomputed", "sequence changed after clear_filtration"); return false; }
    // ignoring infinite values
    st.initialize_filtration(true);
    std::vector<Simplex> seq2 = sequence(st);
    if (!check_sequence(c, seq2, M, true, sig + ",ignore_infinite")) return false;
    st.initialize_filtration(false);
    if (sequence(st) != seq) { c.violation("order.not_deterministic", sig + ",reinitialized", "sequence changed after initialize_filtration"); return false; }
  }
  return true;
}

// An option set that stores no filtration value: every simplex has value 0, so the filtration range must still be a permutation
// of the complex with faces first, and a function of the complex alone.
bool order_without_values(vh::Case& c, const ComplexModel& M, vh::Rng& r) {
  ST_mini st;
  std::vector<Simplex> ord; for (auto& kv : M.cx) ord.push_back(kv.first);
  r.shuffle(ord);
  for (auto& s : ord) { auto v = stc::to_vh<ST_mini>(s); r.shuffle(v); st.insert_simplex_and_subfaces(v, 0); }
  ComplexModel Z; for (auto& kv : M.cx) Z.cx[kv.first] = 0;
  std::string sig = "opts=mini,store_filtration=false";
  c.log("order " + sig);
  std::vector<Simplex> seq = sequence(st);
  if (!check_sequence(c, seq, Z, false, sig)) return false;
  c.count("cmp.order_without_stored_values");
  // the tie-break itself is not part of the property (only counted); the sequence must not depend on the history nor on the
  // storage options: a second tree built by another history, and a tree that does store (all equal) values, list the same sequence
  if (seq == documented_order(Z.cx)) c.count("info.order_is_reverse_lexicographic");
  {
    ST_mini st2;
    for (auto it = M.cx.rbegin(); it != M.cx.rend(); ++it) st2.insert_simplex_and_subfaces(stc::to_vh<ST_mini>(it->first), 0);
    if (sequence(st2) != seq) { c.violation("order.not_deterministic", sig + ",across_histories", "two trees holding the same complex list different sequences"); return false; }
    ST_default st3;
    std::vector<Simplex> ord3; for (auto& kv : M.cx) ord3.push_back(kv.first);
    r.shuffle(ord3);
    for (auto& s : ord3) st3.insert_simplex_and_subfaces(stc::to_vh<ST_default>(s), 0);
    if (sequence(st3) != seq) { c.violation("order.not_deterministic", sig + ",vs_stored_equal_values", "a tree storing the value 0 everywhere lists another sequence than the tree that stores no value"); return false; }
  }
  st.initialize_filtration(true);   // 0 is not infinite: nothing is ignored
  if (sequence(st) != seq) { c.violation("order.not_deterministic", sig + ",ignore_infinite", "sequence changed after initialize_filtration(true)"); return false; }
  return true;
}

void case_order(vh::Case& c) {
  vh::Rng& r = c.rng;
  std::vector<long> uni = {0, 1, 2, 3, 4, 5, 6};
  uni.resize(3 + r.below(5));
  const int ntop = 1 + (int)r.below(6), nvalues = 2 + (int)r.below(4);
  const unsigned m = (unsigned)r.below(10);
  const int mode = m < 5 ? 0 : m < 7 ? 1 : 2;
  ComplexModel M = random_complex(c, r, uni, ntop, nvalues, mode);
  c.log("complex: " + vh::str(M.cx.size()) + " simplices, value mode " + vh::str(mode));
  c.count(mode == 0 ? "order.values_dyadic" : mode == 1 ? "order.values_special" : "order.values_integral");
  std::vector<std::vector<Simplex>> all;
  vh::Rng r2(r.next());
  if (!order_on<ST_default>(c, M, r2, "default", all)) return;
  if (!order_on<ST_full>(c, M, r2, "full", all)) return;
  if (!order_on<ST_stable>(c, M, r2, "stable", all)) return;
  if (!order_on<ST_fastp>(c, M, r2, "fastp", all)) return;
  static const char* names[] = {"default", "full", "stable", "fastp", "int_values"};
  if (mode == 2) { if (!order_on<ST_int>(c, M, r2, "int_values", all)) return; c.count("order.int_filtration_value"); }
  c.count("cmp.order_same_across_histories_and_options");
  for (size_t i = 1; i < all.size(); ++i)
    if (all[i] != all[0]) { c.violation("order.not_deterministic", std::string("across_histories_or_options,opts=") + names[i / 4] + ",route=" + vh::str(i % 4), "sequence " + vh::str(i) + " differs from sequence 0"); return; }
  // whether the common sequence is the documented one (by value, ties in reverse lexicographic order) is counted, not judged: the
  // property asks for a valid order that is a function of the filtered complex, not for one tie-break
  c.count("cmp.order_documented");
  if (all[0] == documented_order(M.cx)) c.count("info.order_is_reverse_lexicographic");
  if (!order_without_values(c, M, r2)) return;
  std::set<double> vals; for (auto& kv : M.cx) vals.insert(kv.second);
  if (vals.size() < M.cx.size() && M.cx.size() >= 6) { std::string h; for (auto& kv : M.cx) h += oracle::show(kv.first) + vh::str(kv.second); c.nontrivial(vh::hash_str(h)); c.count("state.ties_present"); }
  c.sample("{\"simplices\":" + vh::str(M.cx.size()) + ",\"distinct_values\":" + vh::str(vals.size()) + ",\"first\":\"" + vh::jesc(oracle::show(all[0].empty() ? Simplex{} : all[0][0])) + "\"}");
}

}  // namespace

VH_CONFIG("order", [](vh::Case& c) { guarded(c, "order", case_order); });
VH_MAIN()   // the only main of the unit: every unit of this check links c03_order.cpp

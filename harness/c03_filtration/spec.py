def _extra(ctx):
    """Cross-build determinism: every case of config 'big' must have reported one single sequence hash across all units
    (TBB and non-TBB builds, all thread limits)."""
    agg = ctx["agg"]
    by_case = {}
    for name, cnt in agg["counters"].items():
        if name.startswith("seqhash|"):
            _, k, h = name.split("|")
            by_case.setdefault(k, {})[h] = cnt
    ctx["info"]["big_cases_with_hash"] = len(by_case)
    ctx["info"]["big_cases_seen_by_both_builds"] = sum(1 for v in by_case.values() if sum(v.values()) >= 2)
    for k, hs in by_case.items():
        if len(hs) > 1:
            agg["viol"].append({"kind": "oracle", "unit": "big_tbb+big_notbb", "config": "big", "case": int(k),
                                "check": "order.not_deterministic", "sig": "big_complex,across_builds",
                                "detail": "TBB and non-TBB builds (or thread settings) produced different filtration sequences: %s" % hs,
                                "history": ""})
    for name in list(agg["counters"]):
        if name.startswith("seqhash|"):
            del agg["counters"][name]


SPEC = {
    "property": "C03",
    "rule": "(order) random monotone filtered complexes on <= 7 vertices with 2-5 distinct values (+rare infinities) are built by 4 insertion routes "
            "(filtration order, random order, with-subfaces by decreasing value, shuffled + insert/remove of an extra vertex) on 4 option sets; each "
            "filtration_simplex_range is checked to be a permutation of the (non-ignored) simplices, non-decreasing, faces-first, and all 16 "
            "sequences must be identical; (mfnd_*) arbitrary non-monotone assignments: make_filtration_non_decreasing = pointwise max over faces, "
            "return value, idempotence, then prune_above_filtration = sublevel set + return value, full read-interface sweep; (ext_*) extend_filtration "
            "vs the cone filtration of the vertex function incl. documented rescaling, decode of value and part; (big) 40-100 vertex complexes with "
            "3e3-1e5 simplices and <= 6 distinct values sorted under TBB thread limits {1,2,3,4,8,16} x background spinners x random affinity masks, "
            "3 insertion routes, 2 option sets, TBB and non-TBB builds: one sequence hash per complex; (hist_*) model-generated operation histories (C01's generator) with the order re-validated after every step, the cache being reset by the caller only where the documentation requires it; the filtration cache is warm before make_filtration_non_decreasing / prune / extend_filtration on half of the cases; (threads) TSan: 8 threads on independent trees. "
            "non-trivial = complex with ties and >= 6 simplices / value assignment that changes / non-constant vertex function / big complex >= 3000 simplices",
    "assumptions": ["ThreadSanitizer cannot see into the prebuilt libtbb: the schedule quantifier is decided by functional determinism over perturbed runs, not by race detection",
                    "Bitmap_cubical_complex::filtration_simplex_range validity is checked by the C13 harness",
                    "oracle::ComplexModel is the trusted model"],
    "units": [
        {"name": "small", "src": ["c03_small.cpp"], "variant": "asan",
         "configs": {"order": {"quick": 800, "thorough": 60000},
                     "mfnd_default": {"quick": 1500, "thorough": 80000}, "mfnd_full": {"quick": 800, "thorough": 40000},
                     "mfnd_stable": {"quick": 800, "thorough": 40000}, "mfnd_fastp": {"quick": 800, "thorough": 40000},
                     "hist_default": {"quick": 600, "thorough": 40000}, "hist_full": {"quick": 400, "thorough": 20000}, "hist_fastp": {"quick": 400, "thorough": 20000},
                     "ext_default": {"quick": 1000, "thorough": 50000}, "ext_full": {"quick": 600, "thorough": 30000}, "ext_fastp": {"quick": 600, "thorough": 30000}},
         "chunk": 50},
        {"name": "small_tbb", "src": ["c03_small.cpp"], "variant": "asan", "defs": ["GUDHI_USE_TBB"], "libs": ["-ltbb"],
         "configs": {"order": {"quick": 400, "thorough": 30000}, "mfnd_default": {"quick": 400, "thorough": 20000}}, "chunk": 50},
        {"name": "big_tbb", "src": ["c03_big.cpp"], "variant": "asan", "defs": ["GUDHI_USE_TBB"], "libs": ["-ltbb", "-pthread"],
         "configs": {"big": {"quick": 8, "thorough": 300}}, "chunk": 1},
        {"name": "big_notbb", "src": ["c03_big.cpp"], "variant": "asan", "libs": ["-pthread"],
         "configs": {"big": {"quick": 8, "thorough": 300}}, "chunk": 1},
        {"name": "tsan", "src": ["c03_tsan.cpp"], "variant": "tsan",
         "configs": {"threads": {"quick": 48, "thorough": 800}}, "chunk": 3},
    ],
    "extra": _extra,
    "floors": {"quick": {"mfnd.changes": 1000, "prune.removes": 500, "ext.nonconstant": 500, "cmp.order_same_across_histories_and_options": 500,
                         "cmp.big_sort": 200, "sort.seen_3plus_threads": 1, "threads.overlap_4plus": 1, "_distinct_nontrivial": 1500, "state.cache_warm_before_op": 1500, "ext.zero_dimensional_complex": 200, "order.checked_without_explicit_reset": 1000}},
    "manifest": {
        "text": "Runtime monitor: validity of the filtration order (permutation, monotone, faces first) and its determinism across insertion histories, "
                "option sets, TBB/non-TBB builds, TBB thread limits, affinity masks and background load (functional determinism monitor with evidence of "
                "the number of worker threads observed), plus exact oracles for make_filtration_non_decreasing, prune_above_filtration and the extended "
                "filtration; independent trees on 8 threads under ThreadSanitizer. Sampled inputs and schedules; held-on-what-was-observed.",
        "note": "TSan/helgrind are blind to the prebuilt libtbb, so races inside parallel_sort that never change the output are out of reach; trusted: oracle::ComplexModel",
        "technique": "runtime monitoring: reference-model oracle + schedule-perturbed determinism monitor, ASan/UBSan and ThreadSanitizer builds",
    },
}

def _extra(ctx):
    """Cross-build determinism: every case of the configs 'big' (Simplex_tree) and 'cubical' (Bitmap_cubical_complex) must have reported
    one single sequence hash across all units (TBB and non-TBB builds, all thread limits)."""
    agg = ctx["agg"]
    by_case = {}
    for name, cnt in agg["counters"].items():
        if name.startswith("seqhash|"):
            _, k, h = name.split("|")
            by_case.setdefault(k, {})[h] = cnt
    big = {k: v for k, v in by_case.items() if not k.startswith("cub:")}
    cub = {k: v for k, v in by_case.items() if k.startswith("cub:")}
    ctx["info"]["big_cases_with_hash"] = len(big)
    ctx["info"]["big_cases_seen_by_both_builds"] = sum(1 for v in big.values() if sum(v.values()) >= 2)
    ctx["info"]["cubical_cases_with_hash"] = len(cub)
    ctx["info"]["cubical_cases_seen_by_both_builds"] = sum(1 for v in cub.values() if sum(v.values()) >= 2)
    for k, hs in by_case.items():
        if len(hs) > 1:
            cubical = k.startswith("cub:")
            agg["viol"].append({"kind": "oracle", "unit": "big_tbb+big_notbb", "config": "cubical" if cubical else "big", "case": int(k.split(":")[-1]),
                                "check": "order.not_deterministic", "sig": "cubical_complex,across_builds" if cubical else "big_complex,across_builds",
                                "detail": "TBB and non-TBB builds (or thread settings) produced different filtration sequences: %s" % hs,
                                "history": ""})
    for name in list(agg["counters"]):
        if name.startswith("seqhash|"):
            del agg["counters"][name]
    if by_case:
        agg["counters"]["cmp.big_seen_by_both_builds"] = ctx["info"]["big_cases_seen_by_both_builds"]
        agg["counters"]["cmp.cubical_seen_by_both_builds"] = ctx["info"]["cubical_cases_seen_by_both_builds"]


SPEC = {
    "property": "C03",
    "rule": "(order) random monotone filtered complexes on <= 7 vertices are built by 4 insertion routes (filtration order, random order, with-subfaces "
            "by decreasing value, shuffled + insert/remove of an extra vertex) on 4 option sets (5 with the int Filtration_value set when the values are "
            "integral); value sets: dyadic with 2-5 distinct values (+rare +inf) | special members of the float range (-inf, lowest(), -0.0, 0.0, "
            "denorm_min(), max(), +inf) | whole numbers incl. INT_MIN; each filtration_simplex_range is checked to be a permutation of the (non-ignored) "
            "simplices, non-decreasing, faces-first, all 16-20 sequences must be identical (whether they equal the documented order - value, ties in reverse "
            "lexicographic order - is counted, not judged: the property does not fix the tie-break); the same complex in an option set with store_filtration=false must list a faces-first permutation that is the same for two histories and for a tree storing equal values; (mfnd_*, 5 option sets incl. int values) arbitrary non-monotone assignments (a quarter of the floating cases mixing in "
            "-inf, -0.0, max(), lowest(), denorm_min()), on half of the cases reset_filtration(v, min_dim) first with min_dim in {-1..dim+1, INT_MAX} "
            "(= v on dimension >= min_dim, cache dropped), then make_filtration_non_decreasing = pointwise max over faces, return value, idempotence, "
            "then prune_above_filtration (thresholds incl. -inf, -0.0, +inf, INT_MIN/INT_MAX for int) = sublevel set + return value, full read-interface "
            "sweep; (ext_*, 6 option sets) extend_filtration vs the cone filtration of the vertex function (order of the parts, ascending / descending order inside them, monotone), decode of value and (the documented numeric rescaling is counted, not judged) "
            "part, dimension() == dim+1; labels are NOT compressed for the non-contiguous option sets: C01's universes plus {INT_MIN, INT_MAX-1, ..}, an "
            "all-negative one whose largest label is -2 = null_vertex()-1 (the cone point must not be the dummy vertex: this class is probed in a forked "
            "child so that a crash is reported as ext.crash with the class in the signature), 16-bit analogues; junk (non-monotone, infinite) values on the "
            "simplices of dimension >= 1 on half of the cases; 0-3 remove_maximal_simplex / prune_above_dimension steps first; the empty complex (from the "
            "start or emptied by the removals) must become the cone point alone; the cone point may carry any label (exactly one new vertex); (big) 40-100 "
            "vertex complexes with 3e3-1e5 simplices and <= 6 distinct values sorted under TBB thread limits {1,2,3,4,8,16} x background spinners x random "
            "affinity masks, 3 insertion routes, 3 option sets (default, full_featured, stable handles), TBB and non-TBB builds: one sequence hash per "
            "complex; (hist_*, 5 option sets) model-generated operation histories (C01's generator WITH its extensions: repeated vertices, out-of-order "
            "streams, -inf / negative values and thresholds, extreme labels, batch and graph variants) with the order re-validated after every step, the "
            "cache being reset by the caller only where the documentation requires it; hist_int runs the history with all values multiplied by 8 on an int "
            "Filtration_value, hist_mini (store_filtration=false, no prune_above_filtration) checks a faces-first permutation equal to the one of a tree rebuilt from the model; the filtration cache is warm before reset_filtration / make_filtration_non_decreasing / prune / extend_filtration on half of the cases; "
            "(small_dbg) order, mfnd_default, ext_default built WITHOUT -DNDEBUG: a GUDHI_CHECK firing on these valid inputs is a violation "
            "(debug.gudhi_check); (cubical) 1-3 dimensional plain / periodic / vertex-built cubical complexes with 1-5 distinct values and up to ~25000 cells: the filtration order is valid and one single sequence per complex across TBB thread limits and the TBB / non-TBB builds; (threads) TSan: 8 threads on independent trees. "
            "non-trivial = complex with ties and >= 6 simplices / value assignment that changes / non-constant vertex function / big complex >= 3000 simplices",
    "assumptions": ["ThreadSanitizer cannot see into the prebuilt libtbb: the schedule quantifier is decided by functional determinism over perturbed runs, not by race detection",
                    "the incidence structure and values of Bitmap_cubical_complex are checked by the C13 harness; here (config cubical) only validity and determinism of its filtration order across thread limits and TBB / non-TBB builds",
                    "oracle::ComplexModel is the trusted model",
                    "extend_filtration is only called with finite vertex values whose range neither overflows nor is subnormal (undocumented numeric "
                    "precondition of the rescaling: such draws are counted under skip.ext_numeric_precondition and not run)",
                    "extend_filtration is never called on a complex containing the largest Vertex_handle (documented exclusion) nor on the empty complex "
                    "of an option set with contiguous_vertices (the cone point could not be vertex 0..k-1)",
                    "for an integral Filtration_value max() plays the part of +infinity inside the library (ignored by initialize_filtration(true), "
                    "prune threshold that removes nothing): the harness never stores max() in a simplex of such a tree, and NaN is never used",
                    "the label of the cone point is not documented: any single new vertex is accepted",
                    "the forked probe of extend_filtration runs only for the class 'largest label == null_vertex()-1'; a crash on any other class is "
                    "reported by the orchestrator as an anonymous sanitizer/crash violation"],
    "units": [
        {"name": "small", "src": ["c03_order.cpp", "c03_mfnd.cpp", "c03_ext.cpp", "c03_hist.cpp"], "variant": "asan",
         "configs": {"order": {"quick": 800, "thorough": 60000},
                     "mfnd_default": {"quick": 1500, "thorough": 80000}, "mfnd_full": {"quick": 800, "thorough": 40000},
                     "mfnd_stable": {"quick": 800, "thorough": 40000}, "mfnd_fastp": {"quick": 800, "thorough": 40000},
                     "mfnd_int": {"quick": 600, "thorough": 30000},
                     "hist_default": {"quick": 600, "thorough": 40000}, "hist_full": {"quick": 400, "thorough": 20000}, "hist_fastp": {"quick": 400, "thorough": 20000},
                     "hist_int": {"quick": 300, "thorough": 20000}, "hist_mini": {"quick": 300, "thorough": 20000},
                     "ext_default": {"quick": 1000, "thorough": 50000}, "ext_full": {"quick": 600, "thorough": 30000}, "ext_fastp": {"quick": 600, "thorough": 30000},
                     "ext_stable": {"quick": 400, "thorough": 20000}, "ext_fastcof": {"quick": 400, "thorough": 20000}, "ext_lowfull": {"quick": 500, "thorough": 25000}},
         "chunk": 50},
        {"name": "small_tbb", "src": ["c03_order.cpp", "c03_mfnd.cpp"], "variant": "asan", "defs": ["GUDHI_USE_TBB", "C03_LIGHT"], "libs": ["-ltbb"],
         "configs": {"order": {"quick": 400, "thorough": 30000}, "mfnd_default": {"quick": 400, "thorough": 20000}}, "chunk": 50},
        # the same code WITHOUT -DNDEBUG: GUDHI_CHECK / assert are live, a check firing on valid input is reported (debug.gudhi_check)
        {"name": "small_dbg", "src": ["c03_order.cpp", "c03_mfnd.cpp", "c03_ext.cpp"], "variant": "asan", "defs": ["C03_LIGHT"], "cflags": ["-UNDEBUG"],
         "configs": {"order": {"quick": 150, "thorough": 5000}, "mfnd_default": {"quick": 300, "thorough": 10000}, "ext_default": {"quick": 300, "thorough": 10000}}, "chunk": 50},
        {"name": "big_tbb", "src": ["c03_big.cpp"], "variant": "asan", "defs": ["GUDHI_USE_TBB"], "libs": ["-ltbb", "-pthread"],
         "configs": {"big": {"quick": 8, "thorough": 300}, "cubical": {"quick": 32, "thorough": 600}}, "chunk": 1},
        {"name": "big_notbb", "src": ["c03_big.cpp"], "variant": "asan", "libs": ["-pthread"],
         "configs": {"big": {"quick": 8, "thorough": 300}, "cubical": {"quick": 32, "thorough": 600}}, "chunk": 1},
        {"name": "tsan", "src": ["c03_tsan.cpp"], "variant": "tsan",
         "configs": {"threads": {"quick": 48, "thorough": 800}}, "chunk": 3},
    ],
    "extra": _extra,
    "floors": {"quick": {"mfnd.changes": 1000, "prune.removes": 500, "ext.nonconstant": 850, "cmp.order_same_across_histories_and_options": 500,
                         "cmp.big_sort": 200, "sort.seen_3plus_threads": 1, "threads.overlap_4plus": 1, "_distinct_nontrivial": 1500, "state.cache_warm_before_op": 1500, "ext.zero_dimensional_complex": 200, "order.checked_without_explicit_reset": 1000,
                         # input classes added after the audit (about half of what seed 1 measures)
                         "ext.largest_label_is_null_vertex_minus_1": 180, "ext.largest_label_is_max_minus_1": 140, "ext.smallest_label_is_min": 130,
                         "ext.junk_values_on_higher_simplices": 600, "ext.after_removals": 1300, "ext.stale_dimension_bound_before_call": 370,
                         "ext.empty_complex": 280, "cmp.ext_dimension": 1300,
                         "cmp.order_documented": 650, "cmp.order_without_stored_values": 650, "order.int_filtration_value": 190, "order.values_special": 130,
                         "value.order_minus_infinity": 40, "value.order_lowest": 55, "value.order_negative_zero": 110, "value.order_max": 300, "value.order_denorm_min": 180,
                         "mfnd.int_filtration_value": 300, "mfnd.special_values": 550, "mfnd.after_reset_filtration": 1300,
                         "reset.min_dim_int_max": 150, "reset.min_dim_above_dimension": 220, "reset.min_dim_inside": 420, "reset.min_dim_nonpositive": 470,
                         "value.mfnd_minus_infinity": 500, "value.mfnd_negative_zero": 490, "value.mfnd_max": 500, "value.mfnd_lowest": 500, "value.mfnd_denorm_min": 500,
                         "prune.threshold_minus_infinity": 130, "prune.threshold_negative_zero": 140,
                         "hist.extreme_label_universe": 250, "hist.stream_steps": 1200, "hist.repeated_vertex_inputs": 600, "steps.hist_order_int_values": 2100,
                         "cmp.filtration_range_without_values": 1800, "cmp.big_sort_stable_handles": 16,
                         "cmp.cubical_sort": 200, "cmp.cubical_seen_by_both_builds": 30, "cmp.big_seen_by_both_builds": 8, "cubical.above_parallel_sort_cutoff": 40}},
    "manifest": {
        "text": "Runtime monitor: validity of the filtration order (permutation, monotone, faces first) and its determinism across insertion histories, "
                "option sets, TBB/non-TBB builds, TBB thread limits, affinity masks and background load (functional determinism monitor with evidence of "
                "the number of worker threads observed), plus exact oracles for make_filtration_non_decreasing, prune_above_filtration and the extended "
                "filtration (all label universes short of the largest Vertex_handle, junk values above dimension 0, after removals, the empty complex), "
                "reset_filtration, the cubical filtration order across builds, int and absent filtration values (the documented tie order and the numeric encoding of the extended filtration are recorded, not required), a build with GUDHI_CHECK live; independent trees on 8 "
                "threads under ThreadSanitizer. Sampled inputs and schedules; held-on-what-was-observed.",
        "note": "TSan/helgrind are blind to the prebuilt libtbb, so races inside parallel_sort that never change the output are out of reach; trusted: oracle::ComplexModel",
        "technique": "runtime monitoring: reference-model oracle + schedule-perturbed determinism monitor, ASan/UBSan and ThreadSanitizer builds",
    },
}

// C03 — extend_filtration / decode_extended_filtration against the cone filtration of the vertex function (small complexes).
#include "c03_common.h"
#include <sys/types.h>
#include <sys/wait.h>
#include <unistd.h>
#include <cerrno>

using namespace c03;

namespace {

// Runs extend_filtration() on a forked copy of the process: 0 = returned normally, 41 = threw, < 0 = killed by that signal.
// Used for ONE input class only (largest label == null_vertex() - 1), so that an abnormal termination is reported with a
// signature naming the class instead of an anonymous sanitizer report.
template <class ST>
int probe_extend_in_child(ST& st) {
  fflush(stdout); fflush(stderr);
  pid_t pid = fork();
  if (pid < 0) return 1000;
  if (pid == 0) {
    alarm(30);
    int rc = 0;
    try { (void)st.extend_filtration(); } catch (...) { rc = 41; }
    _exit(rc);
  }
  int status = 0;
  while (waitpid(pid, &status, 0) < 0) { if (errno != EINTR) return 1000; }
  if (WIFEXITED(status)) return WEXITSTATUS(status);
  if (WIFSIGNALED(status)) return -WTERMSIG(status);
  return 1000;
}

template <class ST>
void extended_on(vh::Case& c, const std::string& name) {
  typedef typename ST::Filtration_value FV;
  typedef typename ST::Vertex_handle VH;
  constexpr bool contiguous = ST::Options::contiguous_vertices;
  constexpr bool small_labels = sizeof(VH) == 2;
  vh::Rng& r = c.rng;
  // Label universes (the first labels of each list are kept).  The documentation excludes only the LARGEST Vertex_handle, so
  // max()-1, min() and -2 (= null_vertex() - 1, the cone point must not become the dummy vertex) are inside the quantifier.
  static const std::vector<std::vector<long>> uni32 = {
      {0, 1, 2, 3, 4, 5, 6}, {-9, -2, 0, 3, 40, 1000000, 1073741824}, {10, 11, 12, 13, 14, 15, 16}, {-32000, -5, -3, 7, 8, 300, 32000},
      {(long)INT_MIN, (long)INT_MAX - 1, 0, -7, (long)INT_MAX - 2, 5, (long)INT_MIN + 1}, {-2, -9, -5, -3, -100, -2000000, -4}};
  static const std::vector<std::vector<long>> uni16 = {
      {0, 1, 2, 3, 4, 5, 6}, {-9, -2, 0, 3, 40, 10000, 16384}, {10, 11, 12, 13, 14, 15, 16}, {-32000, -5, -3, 7, 8, 300, 32000},
      {-32768, 32766, 0, -7, 32765, 5, -32767}, {-2, -9, -5, -3, -100, -20000, -4}};
  static const int pick[12] = {0, 0, 0, 1, 1, 2, 3, 3, 4, 4, 5, 5};
  std::vector<long> uni = (small_labels ? uni16 : uni32)[contiguous ? 0 : pick[r.below(12)]];
  uni.resize(2 + r.below(5));
  ComplexModel M;
  const bool start_empty = !contiguous && r.chance(1, 25);
  int ntop = start_empty ? 0 : 1 + (int)r.below(4);
  for (int i = 0; i < ntop; ++i) M.insert_with_faces(stc::random_subset(r, uni, (int)uni.size()), 0.0);
  if (r.chance(1, 6) && !M.cx.empty()) { ComplexModel V; for (long v : M.vertices()) V.cx[Simplex{v}] = 0; M = V; c.count("ext.zero_dimensional_complex"); }
  if (contiguous) { M = compress_labels(M); uni = {0, 1, 2, 3, 4, 5, 6}; }
  // vertex function with ties, sometimes constant
  bool constant = r.chance(1, 6);
  std::map<long, double> vf;
  for (long v : uni) vf[v] = constant ? 1.5 : 0.5 * (double)r.range(-4, 6);
  {  // undocumented numeric precondition (finite vertex values whose range neither overflows nor is subnormal): drawn, counted, not run
    unsigned k = (unsigned)r.below(120);
    if (k < 3) { c.count(k == 0 ? "skip.ext_infinite_vertex_value" : k == 1 ? "skip.ext_range_overflows" : "skip.ext_range_subnormal"); c.count("skip.ext_numeric_precondition"); return; }
  }
  auto lower_star = [&](const Simplex& s) { double v = -1e300; for (long x : s) v = std::max(v, vf[x]); return v; };
  ST st;
  if (contiguous || r.chance(1, 2)) preinsert_vertices(st, M, false);
  for (auto& kv : M.cx) st.insert_simplex_and_subfaces(stc::to_vh<ST>(kv.first), (FV)lower_star(kv.first));
  // only the values of the vertices are read: half of the cases give junk (non-monotone, infinite) values to the other simplices
  const bool junk = r.chance(1, 2);
  for (auto& kv : M.cx) {
    double v = lower_star(kv.first);
    if (junk && kv.first.size() > 1) { unsigned k = (unsigned)r.below(10); v = k == 0 ? INF : k == 1 ? -INF : 0.5 * (double)r.range(-8, 8); }
    st.assign_filtration(st.find(stc::to_vh<ST>(kv.first)), (FV)v);
  }
  if (junk && M.dimension() >= 1) c.count("ext.junk_values_on_higher_simplices");
  // 0-3 removals first: the cached dimension bound may be stale, label lists may have been emptied
  int removals = 0;
  for (int step = (int)r.below(4); step > 0 && !M.cx.empty(); --step) {
    if (r.chance(1, 3)) {
      int d = (int)r.range(contiguous ? 0 : -1, std::max(0, M.dimension()));
      if (d == -1 && !r.chance(1, 8)) d = 0;
      c.log("prune_above_dimension " + vh::str(d));
      st.prune_above_dimension(d); M.prune_above_dimension(d); ++removals;
    } else {
      std::vector<Simplex> cand;
      for (auto& kv : M.cx) if (M.is_maximal(kv.first)) {
        if (contiguous && kv.first.size() == 1 && (kv.first[0] != (long)M.num_vertices() - 1 || M.cx.size() == 1)) continue;
        cand.push_back(kv.first);
      }
      if (cand.empty()) break;
      Simplex s = cand[r.below(cand.size())];
      c.log("remove_maximal_simplex " + oracle::show(s));
      st.remove_maximal_simplex(st.find(stc::to_vh<ST>(s))); M.remove_maximal(s); ++removals;
    }
  }
  if (removals) { c.count("ext.after_removals"); if (st.upper_bound_dimension() > M.dimension()) c.count("ext.stale_dimension_bound_before_call"); }
  if (r.chance(1, 2)) (void)st.dimension();
  std::set<long> verts = M.vertices();
  const int dim = M.dimension();
  { std::string d = "complex:"; for (auto& kv : M.cx) { d += " " + oracle::show(kv.first); if (kv.first.size() == 1) d += "=" + vh::str(vf[kv.first[0]]); } c.log(d); }
  std::string sig = std::string("opts=") + name;
  if (verts.empty()) {
    // the cone of the empty complex is its cone point alone
    sig += ",empty_complex";
    c.log("[" + name + "] extend_filtration on the empty complex");
    if (r.chance(1, 2)) { st.clear_filtration(); (void)sequence(st); }
    auto efd = st.extend_filtration();
    c.count("ext.empty_complex");
    size_t n = 0; for (auto sh : st.complex_simplex_range()) { (void)sh; ++n; }
    if (n != 1 || st.num_simplices() != 1 || st.num_vertices() != 1 || st.dimension() != 0) { c.violation("ext.simplex_set", sig, "extended empty complex has " + vh::str(n) + " simplices, " + vh::str(st.num_vertices()) + " vertices, dimension " + vh::str(st.dimension()) + "; expected the cone point alone"); return; }
    auto sh = *st.complex_simplex_range().begin();
    auto dec = st.decode_extended_filtration(st.filtration(sh), efd);
    if (dec.second != Gudhi::Extended_simplex_type::EXTRA) { c.violation("ext.decode_type", sig + ",expected_type=2", "the cone point is not decoded as EXTRA"); return; }
    if (sequence(st).size() != 1) { c.violation("order.missing", sig + ",extended_order", "filtration range of the cone point alone has " + vh::str(sequence(st).size()) + " entries"); return; }
    return;
  }
  double mn = 1e300, mx = -1e300; for (long v : verts) { mn = std::min(mn, vf[v]); mx = std::max(mx, vf[v]); }
  if (mn == mx) sig += ",constant_function";
  const long largest = *verts.rbegin();
  const bool below_null = largest == (long)st.null_vertex() - 1;
  if (below_null) { sig += ",largest_label=null_vertex-1"; c.count("ext.largest_label_is_null_vertex_minus_1"); }
  if (largest == (long)std::numeric_limits<VH>::max() - 1) c.count("ext.largest_label_is_max_minus_1");
  if (*verts.begin() == (long)std::numeric_limits<VH>::min()) c.count("ext.smallest_label_is_min");
  if (largest < -2) c.count("ext.all_labels_below_minus_2");
  c.log("[" + name + "] extend_filtration on " + vh::str(M.cx.size()) + " simplices, labels " + vh::vstr(std::vector<long>(verts.begin(), verts.end())) + ", vertex function range [" + vh::str(mn) + "," + vh::str(mx) + "]" + (junk ? ", junk values above dimension 0" : ""));
  if (r.chance(1, 2)) { st.clear_filtration(); (void)sequence(st); c.count("state.cache_warm_before_op"); sig += ",cache_warm"; }
  if (below_null) {
    int rc = probe_extend_in_child(st);
    c.count("ext.probed_in_child_process");
    if (rc != 0 && rc != 1000) {
      c.violation("ext.crash", std::string("opts=") + name + ",largest_label=null_vertex-1",
                  "extend_filtration() on a complex whose largest label is " + vh::str(largest) + " did not return: " + (rc == 41 ? std::string("it threw") : "killed by signal " + vh::str(-rc)) + " (forked probe)");
      return;
    }
  }
  auto efd = st.extend_filtration();
  c.count(mn == mx ? "ext.constant" : "ext.nonconstant");
  if ((double)efd.minval != mn || (double)efd.maxval != mx) { c.violation("ext.minmax", sig, "efd=[" + vh::str(efd.minval) + "," + vh::str(efd.maxval) + "] expected [" + vh::str(mn) + "," + vh::str(mx) + "]"); return; }
  // the cone point: exactly one new vertex (its label is the library's choice)
  std::set<long> now; size_t nv = 0; for (auto v : st.complex_vertex_range()) { now.insert((long)v); ++nv; }
  std::vector<long> extra; for (long v : now) if (!verts.count(v)) extra.push_back(v);
  c.count("cmp.ext_cone_vertex");
  if (nv != verts.size() + 1 || extra.size() != 1 || !std::includes(now.begin(), now.end(), verts.begin(), verts.end())) { c.violation("ext.cone_vertex", sig, "extended complex has " + vh::str(nv) + " vertices, " + vh::str(extra.size()) + " of them new; expected the " + vh::str(verts.size()) + " original ones and one cone point"); return; }
  const long cone = extra[0];
  // expected cone complex
  std::map<Simplex, std::pair<int, double>> expect;  // simplex -> (type 0 UP 1 DOWN 2 EXTRA, original value)
  for (auto& kv : M.cx) {
    double up = -1e300, down = 1e300; for (long x : kv.first) { up = std::max(up, vf[x]); down = std::min(down, vf[x]); }
    expect[kv.first] = {0, up};
    Simplex cs = kv.first; cs.push_back(cone); std::sort(cs.begin(), cs.end());
    expect[cs] = {1, down};
  }
  expect[Simplex{cone}] = {2, 0};
  // same simplex set
  std::set<Simplex> got; for (auto sh : st.complex_simplex_range()) got.insert(stc::word(st, sh));
  std::set<Simplex> want; for (auto& kv : expect) want.insert(kv.first);
  c.count("cmp.ext_simplex_set");
  if (got != want) { c.violation("ext.simplex_set", sig, "extended complex has " + vh::str(got.size()) + " simplices, cone complex " + vh::str(want.size())); return; }
  c.count("cmp.ext_dimension");
  if (st.upper_bound_dimension() < dim + 1 || st.dimension() != dim + 1) { c.violation("ext.dimension", sig + (removals ? ",after_removals" : ""), "dimension()=" + vh::str(st.dimension()) + " upper bound " + vh::str(st.upper_bound_dimension()) + " expected " + vh::str(dim + 1)); return; }
  const double tol = (sizeof(FV) == 4) ? 1e-5 : 1e-9;
  const double scale = (mx == mn) ? 0.0 : 1.0 / (mx - mn);
  for (auto& kv : expect) {
    auto sh = st.find(stc::to_vh<ST>(kv.first));
    double f = (double)st.filtration(sh);
    auto dec = st.decode_extended_filtration((FV)f, efd);
    int type = dec.second == Gudhi::Extended_simplex_type::UP ? 0 : dec.second == Gudhi::Extended_simplex_type::DOWN ? 1 : 2;
    c.count("cmp.ext_decode");
    if (type != kv.second.first) { c.violation("ext.decode_type", sig + ",expected_type=" + vh::str(kv.second.first), oracle::show(kv.first) + " value " + vh::str(f) + " decoded as type " + vh::str(type)); return; }
    if (type == 2) continue;
    // documented rescaling: ascending part in [-2,-1], descending part in [1,2]
    double expect_f = (type == 0) ? -2 + (kv.second.second - mn) * scale : 2 - (kv.second.second - mn) * scale;
    // the numeric encoding (documented: [-2,-1] and [1,2]) is not part of the property - decoding and the order of the cone filtration are:
    // agreement with the documented rescaling is counted, not judged
    if (std::fabs(f - expect_f) > tol) c.count("info.ext.value_differs_from_documented_rescaling"); else c.count("info.ext.value_equals_documented_rescaling");
    if (std::fabs((double)dec.first - kv.second.second) > tol * std::max(1.0, mx - mn)) { c.violation("ext.decode_value", sig + ",type=" + vh::str(type), oracle::show(kv.first) + " decoded to " + vh::str(dec.first) + " expected original " + vh::str(kv.second.second)); return; }
  }
  // ordering compared exactly: the filtration order is a valid filtration of the cone complex; all UP before EXTRA... cone point first
  ComplexModel ME; for (auto& kv : expect) ME.cx[kv.first] = (double)st.filtration(st.find(stc::to_vh<ST>(kv.first)));
  if (!ME.monotone()) { c.violation("ext.monotone", sig, "extended values are not monotone"); return; }
  std::vector<Simplex> seq = sequence(st);
  if (!check_sequence(c, seq, ME, false, sig + ",extended_order")) return;
  // ascending lower-star / descending upper-star orderings respected exactly between simplices of the same part
  std::map<Simplex, int> pos; for (int i = 0; i < (int)seq.size(); ++i) pos[seq[i]] = i;
  for (auto& a : expect) for (auto& b : expect) {
    if (a.second.first == 0 && b.second.first == 0 && a.second.second < b.second.second && pos[a.first] > pos[b.first]) { c.violation("ext.order_up", sig, "ascending part out of order"); return; }
    if (a.second.first == 1 && b.second.first == 1 && a.second.second > b.second.second && pos[a.first] > pos[b.first]) { c.violation("ext.order_down", sig, "descending part out of order"); return; }
    if (a.second.first == 0 && b.second.first == 1 && pos[a.first] > pos[b.first]) { c.violation("ext.order_parts", sig, "a coned simplex precedes an original simplex"); return; }
  }
  c.count("cmp.ext_order");
  if (mn != mx && M.cx.size() >= 5) { std::string h; for (auto& kv : expect) h += oracle::show(kv.first) + vh::str(kv.second.second); c.nontrivial(vh::hash_str(h + name)); }
}

}  // namespace

VH_CONFIG("ext_default", [](vh::Case& c) { guarded(c, "ext_default", [](vh::Case& c2) { extended_on<ST_default>(c2, "default"); }); });
#ifndef C03_LIGHT
VH_CONFIG("ext_full", [](vh::Case& c) { guarded(c, "ext_full", [](vh::Case& c2) { extended_on<ST_full>(c2, "full"); }); });
VH_CONFIG("ext_fastp", [](vh::Case& c) { guarded(c, "ext_fastp", [](vh::Case& c2) { extended_on<ST_fastp>(c2, "fastp"); }); });
VH_CONFIG("ext_stable", [](vh::Case& c) { guarded(c, "ext_stable", [](vh::Case& c2) { extended_on<ST_stable>(c2, "stable"); }); });
VH_CONFIG("ext_fastcof", [](vh::Case& c) { guarded(c, "ext_fastcof", [](vh::Case& c2) { extended_on<ST_fastcof>(c2, "fastcof"); }); });
VH_CONFIG("ext_lowfull", [](vh::Case& c) { guarded(c, "ext_lowfull", [](vh::Case& c2) { extended_on<ST_lowfull>(c2, "lowfull"); }); });
#endif

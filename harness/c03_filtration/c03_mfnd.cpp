// C03 — reset_filtration, make_filtration_non_decreasing and prune_above_filtration against the model (small complexes).
#include "c03_common.h"

using namespace c03;

namespace {

template <class ST>
void mfnd_on(vh::Case& c, const std::string& name) {
  typedef typename ST::Filtration_value FV;
  constexpr bool integral = std::is_integral<FV>::value;
  vh::Rng& r = c.rng;
  std::vector<long> uni = {0, 1, 2, 3, 4, 5, 6};
  uni.resize(3 + r.below(5));
  ComplexModel M;
  int ntop = 1 + (int)r.below(5);
  for (int i = 0; i < ntop; ++i) M.insert_with_faces(stc::random_subset(r, uni, (int)uni.size()), 0.0);
  // arbitrary (non-monotone) values, no NaN; sometimes already monotone
  bool monotone_input = r.chance(1, 5);
  const unsigned inf_den = r.chance(1, 3) ? 6 : 30;
  // a quarter of the floating cases mixes in the special members of the range: -inf, -0.0, max(), lowest(), denorm_min()
  const bool special = !integral && r.chance(1, 4);
  if (special) c.count("mfnd.special_values");
  auto draw = [&]() -> double {
    if (integral) {  // whole numbers; max() plays the part of infinity for such a type and is left out (see assumptions)
      unsigned k = (unsigned)r.below(16);
      if (k == 0) return (double)std::numeric_limits<FV>::lowest();
      if (k == 1) return (double)std::numeric_limits<FV>::max() - 1;
      return (double)r.range(-8, 16);
    }
    if (special && r.chance(1, 3)) {
      static const double sp[] = {-INF, -0.0, (double)std::numeric_limits<FV>::max(), (double)std::numeric_limits<FV>::lowest(), (double)std::numeric_limits<FV>::denorm_min()};
      double v = sp[r.below(5)]; count_special<FV>(c, v, "value.mfnd_"); return v;
    }
    return r.chance(1, inf_den) ? INF : 0.25 * (double)r.range(-8, 16);
  };
  for (auto& kv : M.cx) kv.second = draw();
  M = compress_labels(M);
  if (monotone_input) M.cx = M.monotone_closure();
  ST st;
  {  // build the complex then assign the raw values
    preinsert_vertices(st, M, false);
    for (auto& kv : M.cx) st.insert_simplex_and_subfaces(stc::to_vh<ST>(kv.first), (FV)0);
    for (auto& kv : M.cx) st.assign_filtration(st.find(stc::to_vh<ST>(kv.first)), (FV)kv.second);
  }
  c.log("[" + name + "] mfnd on " + vh::str(M.cx.size()) + " simplices monotone_input=" + vh::str(monotone_input) + " special=" + vh::str(special));
  // half of the cases: reset_filtration(v, min_dim) first = value v for every simplex of dimension >= min_dim (it may break monotonicity,
  // make_filtration_non_decreasing is the documented repair)
  if (r.chance(1, 2)) {
    const int dim = M.dimension();
    const int md = r.chance(1, 8) ? INT_MAX : (int)r.range(-1, dim + 1);
    const double v = draw();
    const bool warm0 = r.chance(1, 2);
    if (warm0) { (void)sequence(st); c.count("state.cache_warm_before_op"); }
    std::string rsig = std::string("opts=") + name + (md == INT_MAX ? ",min_dim=INT_MAX" : md <= 0 ? ",min_dim<=0" : md > dim ? ",min_dim>dim" : ",0<min_dim<=dim");
    c.log("reset_filtration " + vh::str(v) + " min_dim=" + vh::str(md));
    st.reset_filtration((FV)v, md);
    for (auto& kv : M.cx) if ((int)kv.first.size() - 1 >= md) kv.second = v;
    c.count("mfnd.after_reset_filtration");
    c.count(md == INT_MAX ? "reset.min_dim_int_max" : md <= 0 ? "reset.min_dim_nonpositive" : md > dim ? "reset.min_dim_above_dimension" : "reset.min_dim_inside");
    for (auto& kv : M.cx) {
      double got = (double)st.filtration(st.find(stc::to_vh<ST>(kv.first)));
      c.count("cmp.reset_value");
      if (got != kv.second) { c.violation("reset.value", rsig, "value of " + oracle::show(kv.first) + " = " + vh::str(got) + " expected " + vh::str(kv.second) + " after reset_filtration(" + vh::str(v) + "," + vh::str(md) + ")"); return; }
    }
    // the cache must have been dropped: when the values are a valid filtration the range has to reflect them
    if (M.monotone() && r.chance(1, 2)) { if (!check_sequence(c, sequence(st), M, false, rsig + ",after_reset")) return; c.count("cmp.order_after_reset"); }
  }
  // the filtration cache is warm (built on the final raw values) on a random half of the cases:
  // make_filtration_non_decreasing / prune_above_filtration have to drop it themselves when they change something
  bool warm = r.chance(1, 2);
  if (warm) { st.clear_filtration(); (void)sequence(st); c.count("state.cache_warm_before_op"); }
  auto closure = M.monotone_closure();
  bool changed_expected = false;
  for (auto& kv : closure) if (kv.second != M.cx.at(kv.first)) changed_expected = true;   // (by value: -0.0 == 0.0)
  std::string sig = std::string("opts=") + name + (changed_expected ? ",changes" : ",already_monotone");
  bool ret = st.make_filtration_non_decreasing();
  c.count(changed_expected ? "mfnd.changes" : "mfnd.no_change");
  if (integral) c.count("mfnd.int_filtration_value");
  if (ret != changed_expected) { c.violation("mfnd.return_value", sig, "returned " + vh::str(ret) + " expected " + vh::str(changed_expected)); return; }
  ComplexModel MC; MC.cx = closure;
  for (auto& kv : closure) {
    double got = (double)st.filtration(st.find(stc::to_vh<ST>(kv.first)));
    c.count("cmp.mfnd_value");
    if (got != kv.second) { c.violation("mfnd.value", sig, "value of " + oracle::show(kv.first) + " = " + vh::str(got) + " expected max over faces " + vh::str(kv.second)); return; }
  }
  if (st.make_filtration_non_decreasing()) { c.violation("mfnd.idempotent", sig, "second call returned true"); return; }
  if (!stc::full_check(c, st, MC, uni, "op=make_filtration_non_decreasing," + sig, true, "mfnd.")) return;
  if (!check_sequence(c, sequence(st), MC, false, sig + ",after_mfnd")) return;
  // prune at a value: exactly the sublevel complex, return value = something removed
  double thr;
  if (integral) thr = r.chance(1, 10) ? (double)std::numeric_limits<FV>::max() : r.chance(1, 12) ? (double)std::numeric_limits<FV>::lowest() : (double)r.range(-9, 17);
  else {
    thr = r.chance(1, 10) ? INF : (r.chance(1, 4) ? 1000.0 : 0.25 * (double)r.range(-9, 17));
    if (r.chance(1, 8)) { thr = r.chance(1, 2) ? -INF : -0.0; c.count(thr == -INF ? "prune.threshold_minus_infinity" : "prune.threshold_negative_zero"); }
  }
  if constexpr (ST::Options::contiguous_vertices) {
    // precondition of contiguous_vertices: the surviving vertex set must stay {0..k-1}
    bool gone = false, ok = true;
    for (long v : MC.vertices()) { bool rm = MC.cx.at(Simplex{v}) > thr; if (gone && !rm) ok = false; if (rm) gone = true; }
    if (!ok) { c.count("skip.prune_would_break_contiguity"); return; }
  }
  int cache_mode = (int)r.below(3);
  {  // state of the filtration cache before pruning: full (left by the check above), the documented cache that ignores
     // infinite values, or empty
    if (cache_mode == 1) { st.initialize_filtration(true); c.count("state.cache_ignoring_infinite_before_prune"); c.log("initialize_filtration(true)"); }
    else if (cache_mode == 2) st.clear_filtration();
    bool has_inf = false; for (auto& kv : MC.cx) if (is_pos_inf(kv.second)) has_inf = true;
    if (cache_mode == 1 && has_inf) c.count("state.cache_ignoring_infinite_with_infinite_simplices");
  }
  c.log("prune_above_filtration " + vh::str(thr));
  bool pr = st.prune_above_filtration((FV)thr);
  bool pe = MC.prune_above_filtration(thr);
  std::string psig = std::string("opts=") + name + (pe ? (MC.cx.empty() ? ",empties" : ",removes") : ",no_change");
  c.count("prune." + std::string(pe ? "removes" : "no_change"));
  if (pr != pe) { c.violation("prune.return_value", psig, "prune_above_filtration(" + vh::str(thr) + ") returned " + vh::str(pr) + " expected " + vh::str(pe)); return; }
  if (!stc::full_check(c, st, MC, uni, "op=prune_above_filtration," + psig, true, "prune.")) return;
  // a prune that removes nothing keeps the cache it found (possibly the one ignoring infinite values); otherwise it is rebuilt
  if (!check_sequence(c, sequence(st), MC, cache_mode == 1 && !pe, psig + ",after_prune")) return;
  if (changed_expected) { std::string h; for (auto& kv : M.cx) h += oracle::show(kv.first) + vh::str(kv.second); c.nontrivial(vh::hash_str(h + name)); }
}

}  // namespace

VH_CONFIG("mfnd_default", [](vh::Case& c) { guarded(c, "mfnd_default", [](vh::Case& c2) { mfnd_on<ST_default>(c2, "default"); }); });
#ifndef C03_LIGHT
VH_CONFIG("mfnd_full", [](vh::Case& c) { guarded(c, "mfnd_full", [](vh::Case& c2) { mfnd_on<ST_full>(c2, "full"); }); });
VH_CONFIG("mfnd_stable", [](vh::Case& c) { guarded(c, "mfnd_stable", [](vh::Case& c2) { mfnd_on<ST_stable>(c2, "stable"); }); });
VH_CONFIG("mfnd_fastp", [](vh::Case& c) { guarded(c, "mfnd_fastp", [](vh::Case& c2) { mfnd_on<ST_fastp>(c2, "fastp"); }); });
VH_CONFIG("mfnd_int", [](vh::Case& c) { guarded(c, "mfnd_int", [](vh::Case& c2) { mfnd_on<ST_int>(c2, "int_values"); }); });
#endif

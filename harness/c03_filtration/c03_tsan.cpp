// C03/C15 — independent Simplex_tree objects used concurrently from different threads (ThreadSanitizer build, no TBB).
#include <gudhi/Simplex_tree.h>
#include "common/vh.h"
#include <thread>
#include <atomic>

namespace {
typedef Gudhi::Simplex_tree<Gudhi::Simplex_tree_options_default> ST;
typedef Gudhi::Simplex_tree<Gudhi::Simplex_tree_options_full_featured> STF;

template <class T>
uint64_t workload(uint64_t seed, int rounds) {
  vh::Rng r(seed);
  uint64_t h = 7;
  for (int round = 0; round < rounds; ++round) {
    T st;
    int n = 6 + (int)r.below(6);
    for (int i = 0; i < 25; ++i) {
      std::set<int> s; int sz = 1 + (int)r.below(4); while ((int)s.size() < sz) s.insert((int)r.below(n));
      std::vector<int> v(s.begin(), s.end());
      st.insert_simplex_and_subfaces(v, 0.25 * (double)r.below(9));
    }
    st.make_filtration_non_decreasing();
    for (auto sh : st.filtration_simplex_range()) { for (auto v : st.simplex_vertex_range(sh)) h = vh::hash_mix(h, (uint64_t)v); }
    st.initialize_filtration(true);
    h = vh::hash_mix(h, st.num_simplices());
    h = vh::hash_mix(h, (uint64_t)st.dimension());
    st.prune_above_filtration(1.0);
    for (auto sh : st.filtration_simplex_range()) h = vh::hash_mix(h, (uint64_t)st.dimension(sh));
    st.expansion(3);
    T copy(st);
    st.clear();
    h = vh::hash_mix(h, copy.num_simplices());
  }
  return h;
}

std::atomic<int> g_running{0}; std::atomic<int> g_max_running{0};

void case_threads(vh::Case& c) {
  const int T = 8;
  std::vector<uint64_t> seeds(T), got(T), want(T);
  for (auto& s : seeds) s = c.rng.next();
  // two threads share the same seed on purpose: identical work on distinct objects
  seeds[1] = seeds[0];
  std::vector<std::thread> th;
  for (int t = 0; t < T; ++t)
    th.emplace_back([&, t] {
      int now = ++g_running; int m = g_max_running.load(); while (now > m && !g_max_running.compare_exchange_weak(m, now)) {}
      got[t] = (t % 2) ? workload<STF>(seeds[t], 6) : workload<ST>(seeds[t], 6);
      --g_running;
    });
  for (auto& x : th) x.join();
  for (int t = 0; t < T; ++t) want[t] = (t % 2) ? workload<STF>(seeds[t], 6) : workload<ST>(seeds[t], 6);
  c.count("cmp.thread_results", T);
  for (int t = 0; t < T; ++t) if (got[t] != want[t]) { c.violation("threads.result_differs", "simplex_tree,independent_objects", "thread " + vh::str(t) + " computed a different result than the sequential re-run"); return; }
  if (g_max_running.load() >= 4) c.count("threads.overlap_4plus");
  c.nontrivial(vh::hash_mix(seeds[0], seeds[2]));
  c.sample("{\"threads\":8,\"max_overlap\":" + vh::str(g_max_running.load()) + "}");
}
}  // namespace
VH_CONFIG("threads", case_threads);
VH_MAIN()

// C03 — determinism of the filtration order on complexes large enough for tbb::parallel_sort to split,
// under different TBB thread limits, CPU affinities and background load.  Built with and without GUDHI_USE_TBB:
// both builds report a hash of the sequence (as vertex words) per case; the orchestrator (spec.py "extra") requires
// one single hash per case across all builds and settings.
#include <gudhi/Simplex_tree.h>
#include <gudhi/Bitmap_cubical_complex.h>
#include <gudhi/Bitmap_cubical_complex_base.h>
#include <gudhi/Bitmap_cubical_complex_periodic_boundary_conditions_base.h>
#include "common/vh.h"
#include <thread>
#include <limits>
#include <set>
#include <map>
#include <atomic>
#include <mutex>
#include <unordered_map>
#include <sched.h>
#ifdef GUDHI_USE_TBB
#include <tbb/global_control.h>
#include <tbb/parallel_sort.h>
#endif

namespace {

typedef Gudhi::Simplex_tree<Gudhi::Simplex_tree_options_default> ST;
typedef Gudhi::Simplex_tree<Gudhi::Simplex_tree_options_full_featured> STF;
// stable simplex handles: the tree is node-based and the cache holds another kind of handle, the sort runs on other iterators
struct Opt_stable_handles {
  typedef Gudhi::linear_indexing_tag Indexing_tag;
  typedef int Vertex_handle;
  typedef double Filtration_value;
  typedef std::uint32_t Simplex_key;
  static const bool store_key = true;
  static const bool store_filtration = true;
  static const bool contiguous_vertices = false;
  static const bool link_nodes_by_label = false;
  static const bool stable_simplex_handles = true;
};
typedef Gudhi::Simplex_tree<Opt_stable_handles> STS;

struct BigComplex {
  int n;
  std::vector<double> vval;
  std::vector<std::vector<int>> tops;   // maximal simplices (vertex lists)
  std::vector<double> topbump;
};

BigComplex make_big(vh::Rng& r) {
  BigComplex b;
  b.n = 40 + (int)r.below(60);
  int nvals = 2 + (int)r.below(5);   // <= 6 distinct values: ties dominate
  b.vval.resize(b.n);
  for (auto& v : b.vval) v = (double)r.below(nvals);
  int ntops = 300 + (int)r.below(900);
  for (int i = 0; i < ntops; ++i) {
    int sz = 3 + (int)r.below(5);     // simplices of dimension 2..6 -> 2^sz faces each
    std::set<int> s; while ((int)s.size() < sz) s.insert((int)r.below(b.n));
    b.tops.emplace_back(s.begin(), s.end());
    b.topbump.push_back(r.chance(1, 4) ? 1.0 : 0.0);
  }
  return b;
}

// lower-star values (max over vertices) + per-top bump for the top simplex only: monotone by construction
template <class T>
void build(T& st, const BigComplex& b, vh::Rng& r, int route) {
  std::vector<int> order(b.tops.size());
  for (size_t i = 0; i < order.size(); ++i) order[i] = (int)i;
  if (route == 1) r.shuffle(order);
  if (route == 2) std::reverse(order.begin(), order.end());
  // vertices first with their values (so that the min rule keeps them)
  for (int v = 0; v < b.n; ++v) st.insert_simplex({v}, b.vval[v]);
  for (int i : order) {
    // insert all faces with their lower-star value: do it by inserting the simplex with the max value, then fix faces
    double mx = 0; for (int v : b.tops[i]) mx = std::max(mx, b.vval[v]);
    st.insert_simplex_and_subfaces(b.tops[i], mx + b.topbump[i]);
  }
  // assign exact lower-star values to every simplex (independent of insertion order), bump kept for tops only
  std::map<std::vector<int>, double> bump;
  for (size_t i = 0; i < b.tops.size(); ++i) if (b.topbump[i] > 0) bump[b.tops[i]] = b.topbump[i];
  for (auto sh : st.complex_simplex_range()) {
    double mx = 0; std::vector<int> w;
    for (auto v : st.simplex_vertex_range(sh)) { mx = std::max(mx, b.vval[v]); w.push_back(v); }
    std::sort(w.begin(), w.end());
    auto it = bump.find(w);
    st.assign_filtration(sh, mx + (it == bump.end() ? 0.0 : it->second));
  }
  // bumps on non-maximal "tops" (contained in another top) could break monotonicity: restore it the documented way
  st.make_filtration_non_decreasing();
}

template <class T>
uint64_t sequence_hash_and_check(vh::Case& c, const T& st, const std::string& sig, size_t& len) {
  uint64_t h = 1469598103934665603ULL;
  std::unordered_map<const void*, size_t> pos;
  size_t i = 0; double prev = -1e300;
  for (auto sh : st.filtration_simplex_range()) {
    const void* key = &(*sh);
    if (!pos.emplace(key, i).second) { c.violation("order.duplicate", sig, "simplex listed twice at " + vh::str(i)); return 0; }
    double f = st.filtration(sh);
    if (f < prev) { c.violation("order.decreasing", sig, "value decreases at position " + vh::str(i)); return 0; }
    prev = f;
    for (auto b : st.boundary_simplex_range(sh)) {
      auto it = pos.find(&(*b));
      if (it == pos.end()) { c.violation("order.face_after_coface", sig, "a face is listed after its coface at position " + vh::str(i)); return 0; }
    }
    uint64_t hw = 7;
    for (auto v : st.simplex_vertex_range(sh)) hw = vh::hash_mix(hw, (uint64_t)v);
    h = vh::hash_mix(h, hw);
    ++i;
  }
  len = i;
  if (i != st.num_simplices()) { c.violation("order.missing", sig, "sequence has " + vh::str(i) + " of " + vh::str(st.num_simplices()) + " simplices"); return 0; }
  return h;
}

std::atomic<bool> g_stop{false};
void spinner() { volatile uint64_t x = 0; while (!g_stop.load(std::memory_order_relaxed)) { for (int i = 0; i < 10000; ++i) x += i; std::this_thread::yield(); } }

void case_big(vh::Case& c) {
  vh::Rng& r = c.rng;
#ifdef GUDHI_USE_TBB
  {  // make TBB size its thread pool from the full CPU set before any affinity mask is applied
    static bool warmed = false;
    if (!warmed) { std::vector<int> w(100000); for (size_t i = 0; i < w.size(); ++i) w[i] = (int)((i * 7919) % 100003); tbb::parallel_sort(w.begin(), w.end()); warmed = true; }
  }
#endif
  BigComplex b = make_big(r);
  c.log("big complex n=" + vh::str(b.n) + " tops=" + vh::str(b.tops.size()));
  std::set<uint64_t> hashes;
  size_t len = 0;
  std::set<std::thread::id> tids; std::mutex mu;
  const int limits[] = {1, 2, 3, 4, 8, 16};
  int settings = 0;
  for (int route = 0; route < 3; ++route) {
    ST st; vh::Rng r2(vh::hash_mix(c.k, route));
    build(st, b, r2, route);
    if (st.num_simplices() < 3000) c.count("info.small_big_complex");
    for (int li = 0; li < 6; ++li) {
#ifdef GUDHI_USE_TBB
      tbb::global_control gc(tbb::global_control::max_allowed_parallelism, limits[li]);
#else
      if (li > 1) break;
#endif
      // scheduler perturbation: background spinners and a random affinity mask
      int nspin = (int)r.below(9);
      g_stop = false;
      std::vector<std::thread> sp; for (int i = 0; i < nspin; ++i) sp.emplace_back(spinner);
      cpu_set_t old; sched_getaffinity(0, sizeof old, &old);
      if (r.chance(1, 3)) { cpu_set_t m; CPU_ZERO(&m); int k = 1 + (int)r.below(8); for (int i = 0; i < k; ++i) CPU_SET((int)r.below(16), &m); sched_setaffinity(0, sizeof m, &m); }
      int reps = c.thorough ? 4 : 2;
      for (int rep = 0; rep < reps; ++rep) {
        st.clear_filtration();
        std::string sig = "route=" + vh::str(route) + ",limit=" + vh::str(limits[li]);
        size_t l2 = 0;
        uint64_t h = sequence_hash_and_check(c, st, sig, l2);
        if (c.failed) { g_stop = true; for (auto& t : sp) t.join(); sched_setaffinity(0, sizeof old, &old); return; }
        hashes.insert(h); len = l2;
        c.count("cmp.big_sort");
        ++settings;
      }
      // the same order through the public two-argument initialize_filtration with a harness comparator that records
      // the calling threads and injects yields: shows that the sort really ran on several threads
      if (li == 3 || li == 5 || li == 0) {
        auto cmp = [&](ST::Simplex_handle a, ST::Simplex_handle bb) {
          { std::lock_guard<std::mutex> lk(mu); tids.insert(std::this_thread::get_id()); }
          if ((reinterpret_cast<uintptr_t>(&*a) >> 4) % 97 == 0) std::this_thread::yield();
          double fa = st.filtration(a), fb = st.filtration(bb);
          if (fa != fb) return fa < fb;
          auto ra = st.simplex_vertex_range(a); auto rb = st.simplex_vertex_range(bb);
          auto ia = ra.begin(), ib = rb.begin();
          while (ia != ra.end() && ib != rb.end()) { if (*ia == *ib) { ++ia; ++ib; } else return *ia < *ib; }
          return ia == ra.end() && ib != rb.end();
        };
        st.initialize_filtration(cmp, [](ST::Simplex_handle) { return false; });
        size_t l3 = 0;
        uint64_t h2 = sequence_hash_and_check(c, st, "two_arg_initialize,limit=" + vh::str(limits[li]), l3);
        if (c.failed) { g_stop = true; for (auto& t : sp) t.join(); sched_setaffinity(0, sizeof old, &old); return; }
        (void)h2;  // validity only: a custom comparator is free to break ties differently
        c.count("cmp.big_sort_custom_comparator");
      }
      g_stop = true; for (auto& t : sp) t.join();
      sched_setaffinity(0, sizeof old, &old);
    }
  }
  // another option set must give the same sequence too
  {
    STF st; vh::Rng r2(vh::hash_mix(c.k, 99));
    build(st, b, r2, 1);
    size_t l2 = 0;
    uint64_t h = sequence_hash_and_check(c, st, "opts=full", l2);
    if (c.failed) return;
    hashes.insert(h);
  }
  {  // a third option set (stable simplex handles), sorted under two thread limits
    STS st; vh::Rng r2(vh::hash_mix(c.k, 77));
    build(st, b, r2, 2);
    for (int lim : {16, 3}) {
#ifdef GUDHI_USE_TBB
      tbb::global_control gc(tbb::global_control::max_allowed_parallelism, lim);
#endif
      st.clear_filtration();
      size_t l2 = 0;
      uint64_t h = sequence_hash_and_check(c, st, "opts=stable,limit=" + vh::str(lim), l2);
      if (c.failed) return;
      hashes.insert(h);
      c.count("cmp.big_sort_stable_handles");
    }
  }
  c.count("info.settings_run", settings);
  c.count("info.distinct_worker_threads_seen_max", 0);
  if (tids.size() >= 3) c.count("sort.seen_3plus_threads");
  c.count("info.threads_seen_total", tids.size());
  if (hashes.size() != 1) { c.violation("order.not_deterministic", "big_complex,within_build", vh::str(hashes.size()) + " distinct sequences for the same filtered complex across thread limits / histories / options"); return; }
  // report the hash for the cross-build comparison done by the orchestrator
  c.count("seqhash|" + vh::str(c.k) + "|" + vh::str(*hashes.begin()));
  if (len >= 3000) c.nontrivial(*hashes.begin());
  c.sample("{\"vertices\":" + vh::str(b.n) + ",\"simplices\":" + vh::str(len) + ",\"settings\":" + vh::str(settings) + ",\"threads_seen\":" + vh::str(tids.size()) + "}");
}


// ---- cubical complexes (Bitmap_cubical_complex.h is one of the anchors of C03): the filtration order of a cubical complex
// has to be a function of the filtered complex alone as well.  Grids with very few distinct values (ties dominate) and
// more cells than tbb::parallel_sort's sequential cut-off are sorted under several thread limits; one hash per case
// within a build, and the orchestrator requires the TBB and the non-TBB build to report the same hash.  Only validity
// and determinism are judged here, never one particular tie-break (C13 checks the incidence structure).
typedef Gudhi::cubical_complex::Bitmap_cubical_complex_base<double> CBase;
typedef Gudhi::cubical_complex::Bitmap_cubical_complex<CBase> CPlain;
typedef Gudhi::cubical_complex::Bitmap_cubical_complex_periodic_boundary_conditions_base<double> CPBase;
typedef Gudhi::cubical_complex::Bitmap_cubical_complex<CPBase> CPeriodic;

template <class CC>
uint64_t cubical_sequence_hash(vh::Case& c, CC& cc, const std::string& sig, size_t& len) {
  cc.initialize_filtration();
  const size_t n = cc.num_simplices();
  std::vector<char> seen(n, 0);
  uint64_t h = 1469598103934665603ULL;
  size_t i = 0; double prev = -std::numeric_limits<double>::infinity();
  for (auto sh : cc.filtration_simplex_range()) {
    if ((size_t)sh >= n || seen[sh]) { c.violation("order.duplicate", sig, "cell listed twice / not a cell at " + vh::str(i)); return 0; }
    double f = cc.filtration(sh);
    if (f < prev) { c.violation("order.decreasing", sig, "value decreases at position " + vh::str(i)); return 0; }
    prev = f;
    for (auto b : cc.boundary_simplex_range(sh))
      if (!seen[b]) { c.violation("order.face_after_coface", sig, "a face is listed after its coface at position " + vh::str(i)); return 0; }
    seen[sh] = 1;
    h = vh::hash_mix(h, (uint64_t)sh);
    ++i;
  }
  len = i;
  if (i != n) { c.violation("order.missing", sig, "sequence has " + vh::str(i) + " of " + vh::str(n) + " cells"); return 0; }
  return h;
}

template <class CC>
void cubical_run(vh::Case& c, CC& cc, const std::string& kind) {
  const int limits[] = {1, 2, 3, 4, 8, 16};
  std::set<uint64_t> hashes; size_t len = 0;
  for (int li = 0; li < 6; ++li) {
#ifdef GUDHI_USE_TBB
    tbb::global_control gc(tbb::global_control::max_allowed_parallelism, limits[li]);
#else
    if (li > 1) break;
#endif
    int nspin = (int)c.rng.below(5);
    g_stop = false;
    std::vector<std::thread> sp; for (int i = 0; i < nspin; ++i) sp.emplace_back(spinner);
    uint64_t h = cubical_sequence_hash(c, cc, kind + ",limit=" + vh::str(limits[li]), len);
    g_stop = true; for (auto& t : sp) t.join();
    if (c.failed) return;
    hashes.insert(h);
    c.count("cmp.cubical_sort");
  }
  if (hashes.size() != 1) { c.violation("order.not_deterministic", "cubical," + kind + ",within_build", vh::str(hashes.size()) + " distinct sequences for the same cubical complex across thread limits"); return; }
  c.count("seqhash|cub:" + vh::str(c.k) + "|" + vh::str(*hashes.begin()));
  if (len > 500) c.count("cubical.above_parallel_sort_cutoff");
  if (len >= 500) c.nontrivial(*hashes.begin());
  c.sample("{\"cubical\":\"" + kind + "\",\"cells\":" + vh::str(len) + "}");
}

void case_cubical(vh::Case& c) {
  vh::Rng& r = c.rng;
#ifdef GUDHI_USE_TBB
  {
    static bool warmed = false;
    if (!warmed) { std::vector<int> w(100000); for (size_t i = 0; i < w.size(); ++i) w[i] = (int)((i * 7919) % 100003); tbb::parallel_sort(w.begin(), w.end()); warmed = true; }
  }
#endif
  int dim = 1 + (int)r.below(3);
  std::vector<unsigned> sizes(dim);
  size_t tops = 1;
  // 1-D: 300..3000 top cells; 2-D: sides 12..60; 3-D: sides 4..14
  for (int d = 0; d < dim; ++d) {
    sizes[d] = dim == 1 ? 300 + (unsigned)r.below(2700) : dim == 2 ? 12 + (unsigned)r.below(49) : 4 + (unsigned)r.below(11);
    tops *= sizes[d];
  }
  int levels = 1 + (int)r.below(5);   // 1..5 distinct values
  bool from_vertices = r.chance(1, 4);
  size_t nvals = tops;
  if (from_vertices) { nvals = 1; for (int d = 0; d < dim; ++d) nvals *= sizes[d] + 1; }
  std::vector<double> vals(nvals);
  for (auto& v : vals) v = (double)r.below(levels);
  if (r.chance(1, 8)) vals[r.below(nvals)] = std::numeric_limits<double>::infinity();
  c.log("cubical dim=" + vh::str(dim) + " tops=" + vh::str(tops) + " levels=" + vh::str(levels) + (from_vertices ? " from vertices" : " from top cells"));
  bool periodic = !from_vertices && r.chance(1, 2);
  if (periodic) for (int d = 0; d < dim; ++d) if (sizes[d] < 3) periodic = false;
  if (periodic) {
    std::vector<bool> dirs(dim); bool any = false;
    for (int d = 0; d < dim; ++d) { dirs[d] = r.chance(1, 2); any = any || dirs[d]; }
    if (!any) dirs[r.below(dim)] = true;
    CPeriodic cc(sizes, vals, dirs);
    cubical_run(c, cc, "periodic");
  } else if (from_vertices) {
    std::vector<unsigned> vsizes(sizes); for (auto& x : vsizes) x += 1;
    CPlain cc(vsizes, vals, false);
    cubical_run(c, cc, "plain_from_vertices");
  } else {
    CPlain cc(sizes, vals);
    cubical_run(c, cc, "plain");
  }
}

}  // namespace

VH_CONFIG("big", case_big);
VH_CONFIG("cubical", case_cubical);
VH_MAIN()

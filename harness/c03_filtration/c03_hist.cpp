// C03 — order validity along arbitrary operation histories (C01's generator with its extensions).
// Cache protocol: operations that drop the filtration cache themselves (prune_above_*, clear) are followed directly by the
// check; after any other modification the harness calls clear_filtration() or initialize_filtration(), as documented.
#include "c03_common.h"

using namespace c03;

namespace {

// The generator draws values on the grids k/4 and k/8 and thresholds in {k/4, -1/4, +inf}: for an integral Filtration_value every
// value is multiplied by 8 and +inf becomes max() (an order-preserving map, so the classification of every step stays what it was).
void make_integral(stc::History& h) {
  auto f = [](double v) { return v == INF ? (double)INT_MAX : v * 8; };
  for (auto& op : h.ops) {
    op.v = f(op.v);
    for (auto& g : op.gv) g = f(g);
    for (auto& e : op.ge) std::get<2>(e) = f(std::get<2>(e));
    for (auto& e : op.stream) e.second = f(e.second);
  }
}

// With store_filtration = false every simplex has value 0: the range must still be a permutation of the complex, faces first,
// and a function of the complex alone (the documented reverse lexicographic tie order is counted, not required).
template <class ST>
bool check_range_without_values(vh::Case& c, const ST& st, const ComplexModel& M, const std::string& sig) {
  ComplexModel Z; for (auto& kv : M.cx) Z.cx[kv.first] = 0;
  const auto& rg = st.filtration_simplex_range();
  size_t n = (size_t)std::distance(rg.begin(), rg.end());
  c.count("cmp.filtration_range_without_values");
  if (n != M.cx.size()) { c.violation("hist.filtration_range.size", sig + (n > M.cx.size() ? ",too_many" : ",too_few"), "filtration_simplex_range lists " + vh::str(n) + " simplices, complex has " + vh::str(M.cx.size())); return false; }
  std::vector<Simplex> seq = sequence(st);
  if (!check_sequence(c, seq, Z, false, sig)) return false;
  // The property does not fix the tie-break (the documentation happens to say reverse lexicographic): it is only counted.  What
  // is required is that the sequence is a function of the filtered complex alone: a tree of the same options rebuilt from the
  // model by another history has to list the same sequence.
  if (seq == documented_order(Z.cx)) c.count("info.order_is_reverse_lexicographic");
  {
    ST fresh;
    for (auto it = M.cx.rbegin(); it != M.cx.rend(); ++it) fresh.insert_simplex_and_subfaces(stc::to_vh<ST>(it->first), 0);
    if (sequence(fresh) != seq) { c.violation("order.not_deterministic", sig + ",rebuilt_from_model", "a tree rebuilt from the same complex by another history lists another sequence"); return false; }
    c.count("cmp.order_same_after_rebuild");
  }
  return true;
}

template <class ST>
void hist_on(vh::Case& c, const std::string& name) {
  typedef typename ST::Filtration_value FV;
  constexpr bool contiguous = ST::Options::contiguous_vertices;
  constexpr bool integral = std::is_integral<FV>::value;
  constexpr bool stores = ST::Options::store_filtration;
  constexpr bool small_labels = sizeof(typename ST::Vertex_handle) == 2;
  stc::GenExt ext;               // every extension of the generator: repeated vertices, streams, -inf / negative values and thresholds,
  ext.wide_values = !integral;   // extreme labels, batch and graph variants
  stc::History h = stc::generate_history(c.rng, contiguous, 30, stores, contiguous || small_labels, nullptr, nullptr, 1, &ext);
  if (integral) make_integral(h);
  ST st; ComplexModel M;
  c.log("[" + name + "] universe=" + vh::vstr(h.universe));
  bool removal = false;
  for (auto& op : h.ops) {
    c.log(op.show());
    if (!stc::apply_op(c, st, M, op, "hist.")) return;
    std::string sig = std::string("opts=") + name + ",op=" + stc::op_name(op.kind) + "," + op.cls;
    if (!stc::op_drops_filtration_cache(op.kind)) { if (c.rng.chance(1, 2)) st.clear_filtration(); else st.initialize_filtration(); }
    else c.count("order.checked_without_explicit_reset");
    if constexpr (stores) { if (!stc::check_filtration_range(c, st, M, sig, "hist.")) return; }
    else { if (!check_range_without_values(c, st, M, sig)) return; }
    if (op.kind == stc::REM || op.kind == stc::PRUNE_F || op.kind == stc::PRUNE_D) removal = true;
    if (op.kind == stc::STREAM) c.count("hist.stream_steps");
    if (!op.inclass.empty()) c.count("hist.repeated_vertex_inputs");
    c.count("steps.hist_order");
    if (integral) c.count("steps.hist_order_int_values");
  }
  bool extreme = false; for (long x : h.universe) if (x == (long)INT_MAX || x == (long)INT_MIN || x == 32767 || x == -32768) extreme = true;
  if (extreme) c.count("hist.extreme_label_universe");
  if (removal && h.max_dim >= 2) { std::string hs; for (auto& op : h.ops) hs += op.show(); c.nontrivial(vh::hash_str(hs + name)); }
}

}  // namespace

VH_CONFIG("hist_default", [](vh::Case& c) { guarded(c, "hist_default", [](vh::Case& c2) { hist_on<ST_default>(c2, "default"); }); });
VH_CONFIG("hist_full", [](vh::Case& c) { guarded(c, "hist_full", [](vh::Case& c2) { hist_on<ST_full>(c2, "full"); }); });
VH_CONFIG("hist_fastp", [](vh::Case& c) { guarded(c, "hist_fastp", [](vh::Case& c2) { hist_on<ST_fastp>(c2, "fastp"); }); });
VH_CONFIG("hist_int", [](vh::Case& c) { guarded(c, "hist_int", [](vh::Case& c2) { hist_on<ST_int>(c2, "int_values"); }); });
VH_CONFIG("hist_mini", [](vh::Case& c) { guarded(c, "hist_mini", [](vh::Case& c2) { hist_on<ST_mini>(c2, "mini"); }); });

// C03 — filtration order validity/determinism, make_filtration_non_decreasing, prune, extended filtration (small complexes).
#include "common/st_common.h"
#include <cmath>

using stc::Simplex;
using stc::ComplexModel;

namespace {

// relabels the vertices to 0..k-1 (rank order) so that option sets with contiguous_vertices accept the complex
ComplexModel compress_labels(const ComplexModel& M) {
  std::map<long, long> rk; long k = 0; for (long v : M.vertices()) rk[v] = k++;
  ComplexModel R; for (auto& kv : M.cx) { Simplex s; for (long x : kv.first) s.push_back(rk[x]); R.cx[s] = kv.second; }
  return R;
}
template <class ST>
void preinsert_vertices(ST& st, const ComplexModel& M, bool with_values) {
  for (long v : M.vertices()) { std::vector<typename ST::Vertex_handle> s{(typename ST::Vertex_handle)v}; st.insert_simplex(s, (typename ST::Filtration_value)(with_values ? M.cx.at(Simplex{v}) : 0)); }
}

// a random monotone filtered complex on <= 7 labels with heavy ties
ComplexModel random_complex(vh::Rng& r, const std::vector<long>& uni, int ntop, int nvalues) {
  ComplexModel M;
  for (int i = 0; i < ntop; ++i) {
    Simplex s = stc::random_subset(r, uni, (int)uni.size());
    M.insert_with_faces(s, 0.0);
  }
  M = compress_labels(M);
  // lower-star-like monotone values with ties: value(s) = max over vertices of a vertex function, plus a random bump
  std::map<long, double> vf; for (long v = 0; v < 8; ++v) vf[v] = 0.5 * (double)r.below(nvalues);
  std::vector<Simplex> order; for (auto& kv : M.cx) order.push_back(kv.first);
  std::stable_sort(order.begin(), order.end(), [](const Simplex& a, const Simplex& b) { return a.size() < b.size(); });
  for (auto& s : order) {
    double v = 0; for (long x : s) v = std::max(v, vf[x]);
    for (auto& f : ComplexModel::facets(s)) v = std::max(v, M.cx[f]);
    if (r.chance(1, 5)) v += 0.5 * (double)r.below(3);
    if (r.chance(1, 40)) v = std::numeric_limits<double>::infinity();
    M.cx[s] = v;
  }
  // restore monotonicity after infinities
  auto cl = M.monotone_closure(); M.cx = cl;
  return M;
}

template <class ST>
std::vector<Simplex> sequence(const ST& st) {
  std::vector<Simplex> seq;
  for (auto sh : st.filtration_simplex_range()) seq.push_back(stc::word(st, sh));
  return seq;
}

// validity of a filtration sequence against the model: exactly the expected simplices once, non-decreasing, faces first
bool check_sequence(vh::Case& c, const std::vector<Simplex>& seq, const ComplexModel& M, bool ignore_inf, const std::string& sig) {
  std::map<Simplex, int> pos;
  for (int i = 0; i < (int)seq.size(); ++i) {
    if (!pos.emplace(seq[i], i).second) { c.violation("order.duplicate", sig, "simplex listed twice: " + oracle::show(seq[i])); return false; }
    if (!M.has(seq[i])) { c.violation("order.foreign", sig, "simplex not in the complex: " + oracle::show(seq[i])); return false; }
  }
  size_t expected = 0;
  // classification only: a non-empty complex ALL of whose simplices are ignored leaves an empty cache behind
  bool every_simplex_ignored = ignore_inf && !M.cx.empty();
  for (auto& kv : M.cx) if (!std::isinf(kv.second)) every_simplex_ignored = false;
  if (every_simplex_ignored) c.count("state.every_simplex_ignored");
  for (auto& kv : M.cx) { bool ign = ignore_inf && std::isinf(kv.second); if (!ign) { ++expected; if (!pos.count(kv.first)) { c.violation("order.missing", sig, "simplex missing: " + oracle::show(kv.first)); return false; } } else if (pos.count(kv.first)) { c.violation("order.ignored_listed", sig + (every_simplex_ignored ? ",every_simplex_ignored" : ""), "ignored (infinite) simplex listed"); return false; } }
  c.count("cmp.order_permutation");
  for (int i = 1; i < (int)seq.size(); ++i) if (M.cx.at(seq[i]) < M.cx.at(seq[i - 1])) { c.violation("order.decreasing", sig, "value decreases at position " + vh::str(i)); return false; }
  for (int i = 0; i < (int)seq.size(); ++i) for (auto& f : ComplexModel::facets(seq[i])) if (pos.at(f) > i) { c.violation("order.face_after_coface", sig, oracle::show(f) + " listed after " + oracle::show(seq[i])); return false; }
  c.count("cmp.order_valid");
  return true;
}

// builds the filtered complex M in tree st by one of several insertion routes
template <class ST>
void build_route(vh::Rng& r, ST& st, const ComplexModel& M, int route) {
  typedef typename ST::Filtration_value FV;
  std::vector<Simplex> ord = oracle::filtration_order(M.cx);
  if (route != 0) preinsert_vertices(st, M, true);
  if (route == 0) {                       // in filtration order, simplex by simplex
    for (auto& s : ord) st.insert_simplex(stc::to_vh<ST>(s), (FV)M.cx.at(s));
  } else if (route == 1) {                // random order, simplex by simplex (stream usage)
    r.shuffle(ord);
    for (auto& s : ord) st.insert_simplex(stc::to_vh<ST>(s), (FV)M.cx.at(s));
  } else if (route == 2) {                // with subfaces, by decreasing value (faces end with their own smaller values)
    std::reverse(ord.begin(), ord.end());
    for (auto& s : ord) st.insert_simplex_and_subfaces(stc::to_vh<ST>(s), (FV)M.cx.at(s));
  } else {                                // random order with subfaces, then an extra maximal simplex inserted and removed again
    r.shuffle(ord);
    for (auto& s : ord) { auto v = stc::to_vh<ST>(s); r.shuffle(v); st.insert_simplex_and_subfaces(v, (FV)M.cx.at(s)); }
    // every simplex is re-assigned its exact value (min rule may have lowered nothing below its own value)
    long extra = (long)M.num_vertices();
    std::vector<typename ST::Vertex_handle> e{(typename ST::Vertex_handle)extra};
    st.insert_simplex(e, (FV)0);
    st.remove_maximal_simplex(st.find(e));
  }
}

template <class ST>
bool order_on(vh::Case& c, const ComplexModel& M, vh::Rng& r, const std::string& name, std::vector<std::vector<Simplex>>& all) {
  for (int route = 0; route < 4; ++route) {
    ST st;
    build_route(r, st, M, route);
    std::string sig = "opts=" + name + ",route=" + vh::str(route);
    c.log("order " + sig);
    std::vector<Simplex> seq = sequence(st);
    if (!check_sequence(c, seq, M, false, sig)) return false;
    all.push_back(seq);
    // cache dropped and recomputed: same sequence
    st.clear_filtration();
    if (sequence(st) != seq) { c.violation("order.not_deterministic", sig + ",recomputed", "sequence changed after clear_filtration"); return false; }
    // ignoring infinite values
    st.initialize_filtration(true);
    std::vector<Simplex> seq2 = sequence(st);
    if (!check_sequence(c, seq2, M, true, sig + ",ignore_infinite")) return false;
    st.initialize_filtration(false);
    if (sequence(st) != seq) { c.violation("order.not_deterministic", sig + ",reinitialized", "sequence changed after initialize_filtration"); return false; }
  }
  return true;
}

void case_order(vh::Case& c) {
  vh::Rng& r = c.rng;
  std::vector<long> uni = {0, 1, 2, 3, 4, 5, 6};
  uni.resize(3 + r.below(5));
  ComplexModel M = random_complex(r, uni, 1 + (int)r.below(6), 2 + (int)r.below(4));
  c.log("complex: " + vh::str(M.cx.size()) + " simplices");
  std::vector<std::vector<Simplex>> all;
  vh::Rng r2(r.next());
  if (!order_on<Gudhi::Simplex_tree<Gudhi::Simplex_tree_options_default>>(c, M, r2, "default", all)) return;
  if (!order_on<Gudhi::Simplex_tree<Gudhi::Simplex_tree_options_full_featured>>(c, M, r2, "full", all)) return;
  if (!order_on<Gudhi::Simplex_tree<stc::Opt_stable>>(c, M, r2, "stable", all)) return;
  if (!order_on<Gudhi::Simplex_tree<Gudhi::Simplex_tree_options_fast_persistence>>(c, M, r2, "fastp", all)) return;
  c.count("cmp.order_same_across_histories_and_options");
  for (size_t i = 1; i < all.size(); ++i)
    if (all[i] != all[0]) { c.violation("order.not_deterministic", "across_histories_or_options,index=" + vh::str(i / 4) + "/" + vh::str(i % 4), "sequence " + vh::str(i) + " differs from sequence 0"); return; }
  std::set<double> vals; for (auto& kv : M.cx) vals.insert(kv.second);
  if (vals.size() < M.cx.size() && M.cx.size() >= 6) { std::string h; for (auto& kv : M.cx) h += oracle::show(kv.first) + vh::str(kv.second); c.nontrivial(vh::hash_str(h)); c.count("state.ties_present"); }
  c.sample("{\"simplices\":" + vh::str(M.cx.size()) + ",\"distinct_values\":" + vh::str(vals.size()) + ",\"first\":\"" + vh::jesc(oracle::show(all[0].empty() ? Simplex{} : all[0][0])) + "\"}");
}

// ------------------------------------------------------------ make_filtration_non_decreasing + prune_above_filtration
template <class ST>
void mfnd_on(vh::Case& c, const std::string& name) {
  typedef typename ST::Filtration_value FV;
  vh::Rng& r = c.rng;
  std::vector<long> uni = {0, 1, 2, 3, 4, 5, 6};
  uni.resize(3 + r.below(5));
  ComplexModel M;
  int ntop = 1 + (int)r.below(5);
  for (int i = 0; i < ntop; ++i) M.insert_with_faces(stc::random_subset(r, uni, (int)uni.size()), 0.0);
  // arbitrary (non-monotone) values, no NaN; sometimes already monotone
  bool monotone_input = r.chance(1, 5);
  const unsigned inf_den = r.chance(1, 3) ? 6 : 30;
  for (auto& kv : M.cx) kv.second = r.chance(1, inf_den) ? std::numeric_limits<double>::infinity() : 0.25 * (double)r.range(-8, 16);
  M = compress_labels(M);
  if (monotone_input) M.cx = M.monotone_closure();
  ST st;
  {  // build the complex then assign the raw values
    preinsert_vertices(st, M, false);
    for (auto& kv : M.cx) st.insert_simplex_and_subfaces(stc::to_vh<ST>(kv.first), (FV)0);
    for (auto& kv : M.cx) st.assign_filtration(st.find(stc::to_vh<ST>(kv.first)), (FV)kv.second);
  }
  c.log("[" + name + "] mfnd on " + vh::str(M.cx.size()) + " simplices monotone_input=" + vh::str(monotone_input));
  // the filtration cache is warm (built on the final raw values) on a random half of the cases:
  // make_filtration_non_decreasing / prune_above_filtration have to drop it themselves when they change something
  bool warm = r.chance(1, 2);
  if (warm) { st.clear_filtration(); (void)sequence(st); c.count("state.cache_warm_before_op"); }
  auto closure = M.monotone_closure();
  bool changed_expected = (closure != M.cx);
  std::string sig = std::string("opts=") + name + (changed_expected ? ",changes" : ",already_monotone");
  bool ret = st.make_filtration_non_decreasing();
  c.count(changed_expected ? "mfnd.changes" : "mfnd.no_change");
  if (ret != changed_expected) { c.violation("mfnd.return_value", sig, "returned " + vh::str(ret) + " expected " + vh::str(changed_expected)); return; }
  ComplexModel MC; MC.cx = closure;
  for (auto& kv : closure) {
    double got = (double)st.filtration(st.find(stc::to_vh<ST>(kv.first)));
    c.count("cmp.mfnd_value");
    if (got != kv.second) { c.violation("mfnd.value", sig, "value of " + oracle::show(kv.first) + " = " + vh::str(got) + " expected max over faces " + vh::str(kv.second)); return; }
  }
  if (st.make_filtration_non_decreasing()) { c.violation("mfnd.idempotent", sig, "second call returned true"); return; }
  if (!stc::full_check(c, st, MC, uni, "op=make_filtration_non_decreasing," + sig, true, "mfnd.")) return;
  if (!check_sequence(c, sequence(st), MC, false, sig + ",after_mfnd")) return;
  // prune at a value: exactly the sublevel complex, return value = something removed
  double thr = r.chance(1, 10) ? std::numeric_limits<double>::infinity() : (r.chance(1, 4) ? 1000.0 : 0.25 * (double)r.range(-9, 17));
  if constexpr (ST::Options::contiguous_vertices) {
    // precondition of contiguous_vertices: the surviving vertex set must stay {0..k-1}
    bool gone = false, ok = true;
    for (long v : MC.vertices()) { bool rm = MC.cx.at(Simplex{v}) > thr; if (gone && !rm) ok = false; if (rm) gone = true; }
    if (!ok) { c.count("skip.prune_would_break_contiguity"); return; }
  }
  int cache_mode = (int)r.below(3);
  {  // state of the filtration cache before pruning: full (left by the check above), the documented cache that ignores
     // infinite values, or empty
    if (cache_mode == 1) { st.initialize_filtration(true); c.count("state.cache_ignoring_infinite_before_prune"); c.log("initialize_filtration(true)"); }
    else if (cache_mode == 2) st.clear_filtration();
    bool has_inf = false; for (auto& kv : MC.cx) if (std::isinf(kv.second)) has_inf = true;
    if (cache_mode == 1 && has_inf) c.count("state.cache_ignoring_infinite_with_infinite_simplices");
  }
  c.log("prune_above_filtration " + vh::str(thr));
  bool pr = st.prune_above_filtration((FV)thr);
  bool pe = MC.prune_above_filtration(thr);
  std::string psig = std::string("opts=") + name + (pe ? (MC.cx.empty() ? ",empties" : ",removes") : ",no_change");
  c.count("prune." + std::string(pe ? "removes" : "no_change"));
  if (pr != pe) { c.violation("prune.return_value", psig, "prune_above_filtration(" + vh::str(thr) + ") returned " + vh::str(pr) + " expected " + vh::str(pe)); return; }
  if (!stc::full_check(c, st, MC, uni, "op=prune_above_filtration," + psig, true, "prune.")) return;
  // a prune that removes nothing keeps the cache it found (possibly the one ignoring infinite values); otherwise it is rebuilt
  if (!check_sequence(c, sequence(st), MC, cache_mode == 1 && !pe, psig + ",after_prune")) return;
  if (changed_expected) { std::string h; for (auto& kv : M.cx) h += oracle::show(kv.first) + vh::str(kv.second); c.nontrivial(vh::hash_str(h + name)); }
}

// ------------------------------------------------------------ extended filtration
template <class ST>
void extended_on(vh::Case& c, const std::string& name) {
  typedef typename ST::Filtration_value FV;
  vh::Rng& r = c.rng;
  std::vector<long> uni = {0, 1, 2, 3, 4, 5, 6};
  uni.resize(2 + r.below(5));
  ComplexModel M;
  int ntop = 1 + (int)r.below(4);
  for (int i = 0; i < ntop; ++i) M.insert_with_faces(stc::random_subset(r, uni, (int)uni.size()), 0.0);
  if (r.chance(1, 6)) { ComplexModel V; for (long v : M.vertices()) V.cx[Simplex{v}] = 0; M = V; c.count("ext.zero_dimensional_complex"); }
  M = compress_labels(M);
  // vertex function with ties, sometimes constant
  bool constant = r.chance(1, 6);
  std::map<long, double> vf;
  for (long v : uni) vf[v] = constant ? 1.5 : 0.5 * (double)r.range(-4, 6);
  ST st;
  preinsert_vertices(st, M, false);
  for (auto& kv : M.cx) { double v = -1e300; for (long x : kv.first) v = std::max(v, vf[x]); st.insert_simplex_and_subfaces(stc::to_vh<ST>(kv.first), (FV)v); }
  for (auto& kv : M.cx) { double v = -1e300; for (long x : kv.first) v = std::max(v, vf[x]); st.assign_filtration(st.find(stc::to_vh<ST>(kv.first)), (FV)v); }
  std::set<long> verts = M.vertices();
  double mn = 1e300, mx = -1e300; for (long v : verts) { mn = std::min(mn, vf[v]); mx = std::max(mx, vf[v]); }
  std::string sig = std::string("opts=") + name + (mn == mx ? ",constant_function" : "");
  c.log("[" + name + "] extend_filtration on " + vh::str(M.cx.size()) + " simplices, vertex function range [" + vh::str(mn) + "," + vh::str(mx) + "]");
  if (r.chance(1, 2)) { st.clear_filtration(); (void)sequence(st); c.count("state.cache_warm_before_op"); sig += ",cache_warm"; }
  auto efd = st.extend_filtration();
  c.count(mn == mx ? "ext.constant" : "ext.nonconstant");
  if ((double)efd.minval != mn || (double)efd.maxval != mx) { c.violation("ext.minmax", sig, "efd=[" + vh::str(efd.minval) + "," + vh::str(efd.maxval) + "] expected [" + vh::str(mn) + "," + vh::str(mx) + "]"); return; }
  // expected cone complex
  long cone = *verts.rbegin() + 1;
  std::map<Simplex, std::pair<int, double>> expect;  // simplex -> (type 0 UP 1 DOWN 2 EXTRA, original value)
  for (auto& kv : M.cx) {
    double up = -1e300, down = 1e300; for (long x : kv.first) { up = std::max(up, vf[x]); down = std::min(down, vf[x]); }
    expect[kv.first] = {0, up};
    Simplex cs = kv.first; cs.push_back(cone); std::sort(cs.begin(), cs.end());
    expect[cs] = {1, down};
  }
  expect[Simplex{cone}] = {2, 0};
  // same simplex set
  std::set<Simplex> got; for (auto sh : st.complex_simplex_range()) got.insert(stc::word(st, sh));
  std::set<Simplex> want; for (auto& kv : expect) want.insert(kv.first);
  c.count("cmp.ext_simplex_set");
  if (got != want) { c.violation("ext.simplex_set", sig, "extended complex has " + vh::str(got.size()) + " simplices, cone complex " + vh::str(want.size())); return; }
  const double tol = (sizeof(FV) == 4) ? 1e-5 : 1e-9;
  const double scale = (mx == mn) ? 0.0 : 1.0 / (mx - mn);
  for (auto& kv : expect) {
    auto sh = st.find(stc::to_vh<ST>(kv.first));
    double f = (double)st.filtration(sh);
    auto dec = st.decode_extended_filtration((FV)f, efd);
    int type = dec.second == Gudhi::Extended_simplex_type::UP ? 0 : dec.second == Gudhi::Extended_simplex_type::DOWN ? 1 : 2;
    c.count("cmp.ext_decode");
    if (type != kv.second.first) { c.violation("ext.decode_type", sig + ",expected_type=" + vh::str(kv.second.first), oracle::show(kv.first) + " value " + vh::str(f) + " decoded as type " + vh::str(type)); return; }
    if (type == 2) continue;
    // documented rescaling: ascending part in [-2,-1], descending part in [1,2]
    double expect_f = (type == 0) ? -2 + (kv.second.second - mn) * scale : 2 - (kv.second.second - mn) * scale;
    if (std::fabs(f - expect_f) > tol) { c.violation("ext.value", sig + ",type=" + vh::str(type), oracle::show(kv.first) + " has extended value " + vh::str(f) + " expected " + vh::str(expect_f)); return; }
    if (std::fabs((double)dec.first - kv.second.second) > tol * std::max(1.0, mx - mn)) { c.violation("ext.decode_value", sig + ",type=" + vh::str(type), oracle::show(kv.first) + " decoded to " + vh::str(dec.first) + " expected original " + vh::str(kv.second.second)); return; }
  }
  // ordering compared exactly: the filtration order is a valid filtration of the cone complex; all UP before EXTRA... cone point first
  ComplexModel ME; for (auto& kv : expect) ME.cx[kv.first] = (double)st.filtration(st.find(stc::to_vh<ST>(kv.first)));
  if (!ME.monotone()) { c.violation("ext.monotone", sig, "extended values are not monotone"); return; }
  if (!check_sequence(c, sequence(st), ME, false, sig + ",extended_order")) return;
  // ascending lower-star / descending upper-star orderings respected exactly between simplices of the same part
  std::vector<Simplex> seq = sequence(st);
  std::map<Simplex, int> pos; for (int i = 0; i < (int)seq.size(); ++i) pos[seq[i]] = i;
  for (auto& a : expect) for (auto& b : expect) {
    if (a.second.first == 0 && b.second.first == 0 && a.second.second < b.second.second && pos[a.first] > pos[b.first]) { c.violation("ext.order_up", sig, "ascending part out of order"); return; }
    if (a.second.first == 1 && b.second.first == 1 && a.second.second > b.second.second && pos[a.first] > pos[b.first]) { c.violation("ext.order_down", sig, "descending part out of order"); return; }
    if (a.second.first == 0 && b.second.first == 1 && pos[a.first] > pos[b.first]) { c.violation("ext.order_parts", sig, "a coned simplex precedes an original simplex"); return; }
  }
  c.count("cmp.ext_order");
  if (mn != mx && M.cx.size() >= 5) { std::string h; for (auto& kv : expect) h += oracle::show(kv.first) + vh::str(kv.second.second); c.nontrivial(vh::hash_str(h + name)); }
}

// ------------------------------------------------------------ order validity along arbitrary operation histories
// Cache protocol: operations that drop the filtration cache themselves (prune_above_*, clear) are followed directly by the
// check; after any other modification the harness calls clear_filtration() or initialize_filtration(), as documented.
template <class ST>
void hist_on(vh::Case& c, const std::string& name, bool contiguous) {
  stc::History h = stc::generate_history(c.rng, contiguous, 30, true, contiguous);
  ST st; ComplexModel M;
  c.log("[" + name + "] universe=" + vh::vstr(h.universe));
  bool removal = false;
  for (auto& op : h.ops) {
    c.log(op.show());
    if (!stc::apply_op(c, st, M, op, "hist.")) return;
    std::string sig = std::string("opts=") + name + ",op=" + stc::op_name(op.kind) + "," + op.cls;
    if (!stc::op_drops_filtration_cache(op.kind)) { if (c.rng.chance(1, 2)) st.clear_filtration(); else st.initialize_filtration(); }
    else c.count("order.checked_without_explicit_reset");
    if (!stc::check_filtration_range(c, st, M, sig, "hist.")) return;
    if (op.kind == stc::REM || op.kind == stc::PRUNE_F || op.kind == stc::PRUNE_D) removal = true;
    c.count("steps.hist_order");
  }
  if (removal && h.max_dim >= 2) { std::string hs; for (auto& op : h.ops) hs += op.show(); c.nontrivial(vh::hash_str(hs + name)); }
}

}  // namespace

VH_CONFIG("hist_default", [](vh::Case& c) { hist_on<Gudhi::Simplex_tree<Gudhi::Simplex_tree_options_default>>(c, "default", false); });
VH_CONFIG("hist_full", [](vh::Case& c) { hist_on<Gudhi::Simplex_tree<Gudhi::Simplex_tree_options_full_featured>>(c, "full", false); });
VH_CONFIG("hist_fastp", [](vh::Case& c) { hist_on<Gudhi::Simplex_tree<Gudhi::Simplex_tree_options_fast_persistence>>(c, "fastp", true); });
VH_CONFIG("order", case_order);
VH_CONFIG("mfnd_default", [](vh::Case& c) { mfnd_on<Gudhi::Simplex_tree<Gudhi::Simplex_tree_options_default>>(c, "default"); });
VH_CONFIG("mfnd_full", [](vh::Case& c) { mfnd_on<Gudhi::Simplex_tree<Gudhi::Simplex_tree_options_full_featured>>(c, "full"); });
VH_CONFIG("mfnd_stable", [](vh::Case& c) { mfnd_on<Gudhi::Simplex_tree<stc::Opt_stable>>(c, "stable"); });
VH_CONFIG("mfnd_fastp", [](vh::Case& c) { mfnd_on<Gudhi::Simplex_tree<Gudhi::Simplex_tree_options_fast_persistence>>(c, "fastp"); });
VH_CONFIG("ext_default", [](vh::Case& c) { extended_on<Gudhi::Simplex_tree<Gudhi::Simplex_tree_options_default>>(c, "default"); });
VH_CONFIG("ext_full", [](vh::Case& c) { extended_on<Gudhi::Simplex_tree<Gudhi::Simplex_tree_options_full_featured>>(c, "full"); });
VH_CONFIG("ext_fastp", [](vh::Case& c) { extended_on<Gudhi::Simplex_tree<Gudhi::Simplex_tree_options_fast_persistence>>(c, "fastp"); });
VH_MAIN()

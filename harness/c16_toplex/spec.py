SPEC = {
    "property": "C16",
    "rule": "random histories of 5-40 (config mixed) or 60-200 (config lazy_long) operations {insert_simplex, insert_independent_simplex "
            "(only where its documented precondition holds in the model), remove_simplex of maximal / non-maximal / absent / empty simplices, "
            "remove_vertex of present and absent vertices, contraction of adjacent, non-adjacent, absent and identical (x, x) vertices} over "
            "3-7 labels from 5 label universes (small, sparse incl. >2^32 and >2^63, descending, and one containing SIZE_MAX and its "
            "neighbours); a quarter of the simplex arguments is passed as a shuffled std::vector with one repeated entry instead of a std::set; "
            "the same history drives Toplex_map and Lazy_toplex_map, each followed by ITS OWN bitmask model (they differ after a contraction "
            "for which the two maps return different survivors; the history simply goes on); after every step membership of all 2^m-1 "
            "non-empty label subsets of both maps (every 7th query as a vector with a repeated entry), maximal_simplices / maximality / "
            "maximal_cofaces / counts of the eager map, num_vertices of both, and the stability of each map's own answer for the empty "
            "simplex (set form == vector form == answer after the query sweep) are checked; a std::exception escaping from any call is a "
            "violation of that map for that operation. "
            "Config lazy_pressure (sparse observation): 60-220 operations over 10-16 labels, simplices of <= 4 (<= 3 above 13 labels) vertices, "
            "90-97% insertions, the rest remove_simplex / remove_vertex (present vertices) / contraction (x != y) / remove_simplex({}); nothing "
            "but the non-cleaning getters (num_vertices, num_maximal_simplices) is called between observations, which happen every 2 or 8 "
            "steps (6 sampled membership queries), every 32 steps (sweep) or only at the end (sweep; half of the cases), so that the lazy "
            "map's deferred 'memory pressure' cleaning inside insert_simplex runs (counter lazy.pressure_clean_observed = number of stored "
            "simplices dropped inside an insertion); generator biases there: labels that left the complex rest for 4-60 insertions, one case "
            "in three contracts two present labels (the larger label first) within the first 8 operations, about one in four grows stars "
            "around two hub labels, half of those tear the first hub's star down vertex by vertex. "
            "non-trivial = history (distinct by hash) that removes a non-maximal simplex, a vertex, or contracts, and reaches >= 3 toplexes",
    "assumptions": ["membership of the empty simplex is not compared with a model nor between the maps (no documented convention; the two maps differ); "
                    "only its stability under queries and its independence of the range type are checked",
                    "insert_independent_simplex is only called when the simplex is absent from the model and contains no maximal simplex of the model "
                    "(documented precondition); unitary_collapse and Lazy_toplex_map::all_facets_inside are not exercised",
                    "config lazy_pressure: sweeps query all subsets of at most maxsz+1 labels only (no simplex of the model has more than maxsz labels "
                    "and both maps answer membership by inclusion in a stored simplex, so a wrong answer on a larger set shows on such a subset); "
                    "the eager map's maximality / maximal_cofaces are not swept there; remove_vertex of absent vertices, contraction(x, x) and "
                    "vector-with-duplicate arguments are left to the dense configs there",
                    "ranges with repeated entries are taken to denote the set of their entries (Lazy_toplex_map and every other Toplex_map entry "
                    "point convert the range to a std::set)",
                    "copying a Lazy_toplex_map (implicit copy constructor) is not exercised",
                    "bitmask model in harness/c16_toplex/c16_toplex.cpp is the trusted oracle"],
    "units": [
        {"name": "toplex", "src": ["c16_toplex.cpp"], "variant": "asan",
         "configs": {"mixed": {"quick": 4000, "thorough": 400000}, "lazy_long": {"quick": 600, "thorough": 60000},
                     "lazy_pressure": {"quick": 1600, "thorough": 100000}}, "chunk": 50},
        {"name": "toplex_g", "src": ["c16_toplex.cpp"], "variant": "gasan", "tiers": ["thorough"],
         "configs": {"mixed": {"thorough": 100000}}, "chunk": 50},
    ],
    "floors": {"quick": {"op.remove_simplex.nonmaximal": 5000, "op.contraction.adjacent": 2500, "op.contraction.non_adjacent": 3000,
                         "op.remove_vertex": 8000, "_distinct_nontrivial": 2400,
                         # input classes added after the audit (about half of what seed 1 measures)
                         "op.contraction.same_vertex": 2500, "op.remove_vertex.absent": 2500, "steps.two_models": 9000,
                         "op.insert_independent.eager": 4000, "op.insert_independent.lazy": 4000,
                         "op.insert.vector_with_duplicate": 12000, "op.remove_simplex.vector_with_duplicate": 3000,
                         "cmp.membership_vector_dup": 1500000, "op.insert.max_label": 6000, "cmp.empty_simplex_stable": 170000,
                         "lazy.pressure_clean_observed": 400, "sparse.early_contraction": 250},
               "thorough": {"op.remove_simplex.nonmaximal": 100000, "_distinct_nontrivial": 100000, "lazy.pressure_clean_observed": 20000,
                            "op.contraction.same_vertex": 100000, "op.remove_vertex.absent": 100000, "steps.two_models": 400000}},
    "manifest": {
        "text": "Runtime monitor: thousands of random operation histories drive Toplex_map and Lazy_toplex_map side by side under ASan+UBSan; "
                "each map is followed by its own independent bitmask model of the abstract complex, and after every step the full membership "
                "table (all non-empty subsets of the label universe) and the eager map's stored toplexes are compared with it. A third "
                "workload observes the lazy map only sparsely so that its deferred cleaning (inside insertions) really runs, on 10-16 labels. "
                "Held-on-what-was-observed, not a proof; adequate because the state space per history is small and every query is swept "
                "exhaustively (<= 7 labels) or up to the model's dimension + 1 (10-16 labels).",
        "note": "trusted: the bitmask complex model in the harness, libstdc++; empty-simplex membership is only checked for stability, not against a model; "
                "insert_independent_simplex only inside its documented precondition",
        "technique": "runtime monitoring: randomized operation histories + reference-model oracle after every step (or sparsely, to let deferred cleaning run), "
                     "under AddressSanitizer/UBSan",
    },
}

SPEC = {
    "property": "C16",
    "rule": "random histories of 5-40 (config mixed) or 60-200 (config lazy_long) operations {insert_simplex, remove_simplex of "
            "maximal / non-maximal / absent / empty simplices, remove_vertex, contraction of adjacent and non-adjacent vertices} "
            "over 3-7 labels from 4 label universes (small, sparse incl. >2^32 and >2^63, descending); the same history drives "
            "Toplex_map and Lazy_toplex_map; after every step membership of all 2^m-1 non-empty label subsets of both maps, and "
            "maximal_simplices / maximality / maximal_cofaces / counts of the eager map, are compared with a bitmask model. "
            "non-trivial = history (distinct by hash) that removes a non-maximal simplex, a vertex, or contracts, and reaches >= 3 toplexes",
    "assumptions": ["remove_vertex is only called on present vertices (t0.at would throw otherwise)",
                    "membership of the empty simplex is not compared (the two maps document different conventions)",
                    "bitmask model in harness/c16_toplex/c16_toplex.cpp is the trusted oracle"],
    "units": [
        {"name": "toplex", "src": ["c16_toplex.cpp"], "variant": "asan",
         "configs": {"mixed": {"quick": 4000, "thorough": 400000}, "lazy_long": {"quick": 600, "thorough": 60000}}, "chunk": 50},
        {"name": "toplex_g", "src": ["c16_toplex.cpp"], "variant": "gasan", "tiers": ["thorough"],
         "configs": {"mixed": {"thorough": 100000}}, "chunk": 50},
    ],
    "floors": {"quick": {"op.remove_simplex.nonmaximal": 1000, "op.contraction.adjacent": 500, "op.contraction.non_adjacent": 200,
                         "op.remove_vertex": 500, "_distinct_nontrivial": 1000},
               "thorough": {"op.remove_simplex.nonmaximal": 100000, "_distinct_nontrivial": 100000}},
    "manifest": {
        "text": "Runtime monitor: thousands of random operation histories drive Toplex_map and Lazy_toplex_map side by side under ASan+UBSan; "
                "after every step the full membership table (all non-empty subsets of the label universe) and the eager map's stored toplexes "
                "are compared with an independent bitmask model. Held-on-what-was-observed, not a proof; adequate because the state space per "
                "history is tiny (<= 7 labels) and every query is swept exhaustively at every step.",
        "note": "trusted: the bitmask complex model in the harness, libstdc++; remove_vertex only on present vertices; empty-simplex membership not compared",
        "technique": "runtime monitoring: randomized operation histories + reference-model oracle after every step, under AddressSanitizer/UBSan",
    },
}

// Shared pieces for the Simplex_tree harnesses (C01, C03, C04, C15):
//  * option sets the library ships or its tests use
//  * a model-driven history generator (operations are chosen from the ABSTRACT model only, so the same history can be
//    replayed on every option set)
//  * the full observation sweep comparing a Simplex_tree with oracle::ComplexModel through every read interface
#ifndef VERIF_ST_COMMON_H_
#define VERIF_ST_COMMON_H_

#include <climits>
#include <limits>
#include <memory>
#include <gudhi/Simplex_tree.h>
#include <gudhi/graph_simplicial_complex.h>
#include "common/vh.h"
#include "oracle/complex_model.h"

namespace stc {

using oracle::Simplex;
using oracle::ComplexModel;

// ---------------------------------------------------------------- option sets
struct Opt_fast_cofaces {  // test/simplex_tree_edge_expansion_unit_test.cpp
  typedef Gudhi::linear_indexing_tag Indexing_tag;
  typedef int Vertex_handle;
  typedef double Filtration_value;
  typedef std::uint32_t Simplex_key;
  static const bool store_key = true;
  static const bool store_filtration = true;
  static const bool contiguous_vertices = false;
  static const bool link_nodes_by_label = true;
  static const bool stable_simplex_handles = false;
};
struct Opt_stable {  // test/simplex_tree_graph_expansion_unit_test.cpp
  typedef Gudhi::linear_indexing_tag Indexing_tag;
  typedef int Vertex_handle;
  typedef double Filtration_value;
  typedef std::uint32_t Simplex_key;
  static const bool store_key = true;
  static const bool store_filtration = true;
  static const bool contiguous_vertices = false;
  static const bool link_nodes_by_label = false;
  static const bool stable_simplex_handles = true;
};
struct Opt_mini {  // example/mini_simplex_tree.cpp, test Low_options
  typedef Gudhi::linear_indexing_tag Indexing_tag;
  typedef short Vertex_handle;
  typedef double Filtration_value;
  typedef std::uint8_t Simplex_key;
  static const bool store_key = true;
  static const bool store_filtration = false;
  static const bool contiguous_vertices = false;
  static const bool link_nodes_by_label = false;
  static const bool stable_simplex_handles = false;
};
struct Opt_low_full : Gudhi::Simplex_tree_options_full_featured {  // test/simplex_tree_serialization_unit_test.cpp
  typedef std::int16_t Vertex_handle;
  typedef float Filtration_value;
  typedef std::uint8_t Simplex_key;
};

// ---------------------------------------------------------------- histories
enum OpKind { INS, INSF, BATCH, GRAPH, REM, PRUNE_F, PRUNE_D, CLEAR, NOP, STREAM };
inline const char* op_name(OpKind k) {
  static const char* n[] = {"insert_simplex", "insert_simplex_and_subfaces", "insert_batch_vertices", "insert_graph",
                            "remove_maximal_simplex", "prune_above_filtration", "prune_above_dimension", "clear", "nop",
                            "insert_simplex_stream"};
  return n[k];
}
// How the cached dimension bound is queried after a step (Op::qmode).  dimension() and num_simplices_by_dimension() both
// refresh a stale bound, so a stale bound only survives to the next operation in modes Q_NONE.
enum QMode { Q_NONE = 0,        // neither: a stale bound persists through the sweep and to the next operation
             Q_BYDIM_THEN_DIM,  // num_simplices_by_dimension() in the sweep (refreshes), dimension() at the end
             Q_DIM_FIRST,       // dimension() before anything else: its deep search runs in whatever state the operation left
             Q_DIM_LAST,        // dimension() at the end, no num_simplices_by_dimension(): the sweep runs under the stale bound
             Q_BYDIM_ONLY };    // num_simplices_by_dimension() only
struct Op {
  OpKind kind = NOP;
  Simplex s;                  // INS / INSF / REM (sorted); BATCH: vertex list (may contain existing vertices)
  std::vector<long> raw;      // as passed to the API (unsorted, maybe with duplicates for INSF)
  double v = 0;               // value / threshold
  int d = 0;                  // PRUNE_D
  // GRAPH: vertices 0..n-1 with values, edges
  std::vector<double> gv; std::vector<std::tuple<int, int, double>> ge;
  bool gdirected = false;     // GRAPH: boost::directedS instead of undirectedS
  std::vector<std::pair<std::vector<long>, double>> stream;  // STREAM: (vertices as passed, value), in the order of insertion
  bool query_dimension = true;  // whether dimension() (which refreshes the cached bound) is queried after this step
  int qmode = -1;               // QMode; -1: query_dimension ? Q_BYDIM_THEN_DIM : Q_NONE
  std::string cls;              // classification used in signatures
  std::string inclass;          // class of the INPUT (e.g. repeated_vertex), appended to the signature when not empty
  int mode() const { return qmode >= 0 ? qmode : (query_dimension ? Q_BYDIM_THEN_DIM : Q_NONE); }
  std::string sig() const { return std::string("op=") + op_name(kind) + "," + cls + (inclass.empty() ? "" : "," + inclass); }
  std::string show() const {
    std::ostringstream o; o.precision(17);
    o << op_name(kind);
    if (kind == INS || kind == INSF || kind == REM || kind == BATCH) o << " " << vh::vstr(raw.empty() ? std::vector<long>(s.begin(), s.end()) : raw);
    if (kind == INS || kind == INSF || kind == BATCH || kind == PRUNE_F) o << " v=" << v;
    if (kind == PRUNE_D) o << " d=" << d;
    if (kind == GRAPH) { o << (gdirected ? " directed" : "") << " n=" << gv.size() << " vv=" << vh::vstr(gv) << " edges="; for (auto& e : ge) o << "(" << std::get<0>(e) << "," << std::get<1>(e) << ":" << std::get<2>(e) << ")"; }
    if (kind == STREAM) for (auto& e : stream) o << " " << vh::vstr(e.first) << ":" << e.second;
    if (qmode >= 0) o << " q" << qmode; else o << (query_dimension ? " +dim()" : "");
    o << " {" << cls << (inclass.empty() ? "" : "," + inclass) << "}";
    return o.str();
  }
};
struct History {
  std::vector<long> universe;
  bool contiguous = false;
  std::vector<Op> ops;
  // flags for the non-triviality rule
  bool reinsertion_after_removal = false; int max_dim = -1; int emptied = 0;
};

inline double grid_value(vh::Rng& r) { return 0.25 * (double)r.below(17); }
// values of the whole (non-NaN) range of Filtration_value: -inf, +inf, negative and non-negative dyadic values
inline double wide_value(vh::Rng& r) {
  unsigned k = (unsigned)r.below(12);
  if (k == 0) return -std::numeric_limits<double>::infinity();
  if (k == 1) return std::numeric_limits<double>::infinity();
  if (k <= 3) return -grid_value(r);
  return grid_value(r);
}

inline Simplex random_subset(vh::Rng& r, const std::vector<long>& uni, int maxsize) {
  int sz = 1 + (int)r.below(maxsize);
  std::set<long> s;
  for (int i = 0; i < sz; ++i) s.insert(uni[r.below(uni.size())]);
  return Simplex(s.begin(), s.end());
}

// Extensions of the generator (input classes inside the quantifier of C01 that the first version of the harness did not
// produce).  With ext == nullptr generate_history draws exactly the random numbers it always drew.
struct GenExt {
  bool ins_repeated = true;    // insert_simplex is given a repeated vertex (a simplex is a SET of vertices)
  bool streams = true;         // out-of-order streams of the faces of a few simplices through insert_simplex
  bool wide_values = true;     // -inf, +inf, negative values; -inf / negative pruning thresholds
  bool extreme_labels = true;  // universes containing INT_MIN / INT_MAX (SHRT_MIN / SHRT_MAX with small_labels)
  bool batch_variants = true;  // insert_batch_vertices with shuffled / repeated / empty lists
  bool graph_variants = true;  // insert_graph with reversed / doubled edges, directedS, no vertex
  bool qmodes = true;          // Op::qmode drawn from all QMode values
  int max_simplex_size = 0;    // cap on the size of generated simplices (0: the universe size)
  bool big = false;            // large universe: candidates of insert_simplex are derived from the model, sparse graphs
};

// Generates a precondition-respecting history from the model alone.
//  contiguous: vertex set is {0..n-1} at all times (precondition of Options::contiguous_vertices)
inline History generate_history(vh::Rng& r, bool contiguous, int nops_max = 40, bool allow_prune_f = true, bool small_labels = false,
                                const ComplexModel* init = nullptr, const std::vector<long>* fixed_universe = nullptr, int nops_min = 1,
                                const GenExt* ext = nullptr) {
  static const std::vector<std::vector<long>> universes = {
      {0, 1, 2, 3, 4, 5, 6}, {-9, -2, 0, 3, 40, 1000000, 1073741824}, {10, 11, 12, 13, 14, 15, 16}, {-32000, -5, -1 + 0 * 1, 7, 8, 300, 32000},
      // (ext) the extremes of Vertex_handle come first so that every prefix of length >= 3 contains them
      {(long)INT_MIN, (long)INT_MAX, 0, -7, (long)INT_MAX - 1, 5, (long)INT_MIN + 1}, {-32768, 32767, 0, -7, 32766, 5, -32767}};
  History h;
  h.contiguous = contiguous;
  const bool xl = ext && ext->extreme_labels;
  int ui = contiguous ? 0 : (int)r.below(universes.size() - (xl ? 0 : 2));
  if (small_labels && ui == 1) ui = 3;
  if (small_labels && ui == 4) ui = 5;
  h.universe = universes[ui];
  if (!contiguous && ui == 3) h.universe[2] = -3;  // -1 is null_vertex(): never a real label
  int m = 3 + (int)r.below(5);
  h.universe.resize(m);
  if (fixed_universe) { h.universe = *fixed_universe; m = (int)h.universe.size(); }
  const bool big = ext && ext->big;
  const int maxsz = (ext && ext->max_simplex_size > 0) ? std::min(m, ext->max_simplex_size) : m;
  const bool wide = ext && ext->wide_values;
  const double lowest = wide ? -std::numeric_limits<double>::infinity() : 0.0;
  auto val = [&]() { return wide ? wide_value(r) : grid_value(r); };
  ComplexModel M;
  if (init) M = *init;
  int nops = nops_min + (int)r.below(nops_max - nops_min + 1);
  std::set<Simplex> removed_once;
  // contiguous: remap a simplex so that the vertex set stays {0..n-1} (at most the one new vertex n)
  auto remap_contiguous = [&](Simplex& s) {
    long n = (long)M.num_vertices();
    std::set<long> t; for (long x : s) t.insert(x <= n ? x : n);
    s.assign(t.begin(), t.end());
  };
  for (int step = 0; step < nops; ++step) {
    Op op;
    unsigned w = (unsigned)r.below(100);
    op.query_dimension = r.chance(1, 2);
    if (ext && ext->qmodes) {
      unsigned q = (unsigned)r.below(20);
      op.qmode = q < 8 ? Q_NONE : q < 11 ? Q_BYDIM_THEN_DIM : q < 15 ? Q_DIM_FIRST : q < 18 ? Q_DIM_LAST : Q_BYDIM_ONLY;
    }
    size_t nsimp = M.cx.size();
    if (nsimp == 0 && w >= 20 && w < 90) w = r.chance(1, 4) ? 47 : r.below(46);  // empty: insert / batch / graph
    const bool do_stream = ext && ext->streams && r.chance(1, 12);
    if (do_stream) {  // STREAM: all faces of 1-2 simplices, with monotone values, through insert_simplex in a random order
      std::map<Simplex, double> rawv;
      int ntop = 1 + (int)r.below(2);
      for (int t = 0; t < ntop; ++t) {
        Simplex s = random_subset(r, h.universe, std::min(maxsz, 4));
        if (contiguous) remap_contiguous(s);
        for (auto& f : ComplexModel::faces_all(s)) if (!rawv.count(f)) rawv[f] = val();
        if (contiguous) break;  // a second simplex could bring a second new vertex
      }
      std::vector<std::pair<Simplex, double>> items;
      for (auto& kv : rawv) { double v = kv.second; for (auto& g : ComplexModel::faces_all(kv.first)) v = std::max(v, rawv.at(g)); items.emplace_back(kv.first, v); }
      r.shuffle(items);
      bool anynew = false, anyold = false, outoforder = false; std::set<Simplex> seen;
      for (auto& it : items) {
        (M.has(it.first) ? anyold : anynew) = true;
        for (auto& f : ComplexModel::facets(it.first)) if (!M.has(f) && !seen.count(f)) outoforder = true;
        seen.insert(it.first);
        if (!M.has(it.first) && removed_once.count(it.first)) h.reinsertion_after_removal = true;
        std::vector<long> raw(it.first.begin(), it.first.end()); r.shuffle(raw);
        op.stream.emplace_back(raw, it.second);
      }
      for (auto& it : items) M.insert_one(it.first, it.second);
      op.kind = STREAM;
      op.cls = std::string(anynew ? (anyold ? "mixed" : "all_new") : "all_existing") + (outoforder ? ",coface_before_face" : ",faces_first");
    } else if (w < 12) {  // INS: simplex whose facets are all present
      std::vector<Simplex> cand;
      // candidates: vertices + simplices with all facets present
      if (!big) {
        for (unsigned mask = 1; mask < (1u << m); ++mask) {
          Simplex s; for (int i = 0; i < m; ++i) if (mask >> i & 1) s.push_back(h.universe[i]);
          std::sort(s.begin(), s.end());
          if (s.size() == 1 || M.facets_present(s)) {
            if (contiguous && !M.has(s) && s.size() == 1 && s[0] != (long)M.num_vertices()) continue;
            cand.push_back(s);
          }
        }
      } else {  // the same set restricted to maxsz vertices, derived from the model: a candidate of size >= 2 extends a present facet
        std::set<Simplex> cs;
        for (long x : h.universe) cs.insert(Simplex{x});
        for (auto& kv : M.cx) if ((int)kv.first.size() < maxsz) for (long x : h.universe) {
          if (std::binary_search(kv.first.begin(), kv.first.end(), x)) continue;
          Simplex s = kv.first; s.push_back(x); std::sort(s.begin(), s.end());
          if (!cs.count(s) && M.facets_present(s)) cs.insert(s);
        }
        cand.assign(cs.begin(), cs.end());
      }
      if (cand.empty()) { continue; }
      // prefer absent simplices and previously removed ones
      Simplex s = cand[r.below(cand.size())];
      for (int t = 0; t < 3 && M.has(s); ++t) s = cand[r.below(cand.size())];
      double lo = lowest; for (auto& f : ComplexModel::facets(s)) lo = std::max(lo, M.cx.at(f));
      double v = std::max(lo, val());
      bool existed = M.has(s);
      op.kind = INS; op.s = s; op.v = v; op.raw.assign(s.begin(), s.end()); r.shuffle(op.raw);
      if (ext && ext->ins_repeated && r.chance(1, 6)) {  // a repeated vertex: still the same simplex
        int reps = 1 + (int)r.below(2);
        for (int t = 0; t < reps; ++t) { long x = op.raw[r.below(op.raw.size())]; size_t at = r.below(op.raw.size() + 1); op.raw.insert(op.raw.begin() + at, x); }
        op.inclass = "repeated_vertex";
      }
      op.cls = existed ? (v < M.cx.at(s) ? "existing_lowered" : "existing_kept") : "new";
      if (removed_once.count(s) && !existed) h.reinsertion_after_removal = true;
      M.insert_one(s, v);
    } else if (w < 40) {  // INSF
      Simplex s = random_subset(r, h.universe, maxsz);
      if (contiguous) remap_contiguous(s);  // new vertices must be exactly the next ones
      op.kind = INSF; op.s = s; op.v = val();
      op.raw.assign(s.begin(), s.end()); r.shuffle(op.raw);
      if (r.chance(1, 6) && !op.raw.empty()) op.raw.push_back(op.raw[r.below(op.raw.size())]);  // duplicate vertex
      bool existed = M.has(s);
      op.cls = existed ? (ext ? (op.v < M.cx.at(s) ? "existing_lowered" : "existing_kept") : "existing") : "new";
      bool re = false; for (auto& f : ComplexModel::faces_all(s)) if (!M.has(f) && removed_once.count(f)) re = true;
      if (re) h.reinsertion_after_removal = true;
      M.insert_with_faces(s, op.v);
    } else if (w < 46) {  // BATCH
      std::set<long> vs;
      if (contiguous) { long n = (long)M.num_vertices(); int k = (int)r.below(3); for (int i = 0; i < k && n + i < m; ++i) vs.insert(n + i); if (r.chance(1, 2) && n > 0) vs.insert(r.below(n)); }
      else { int k = 1 + (int)r.below(m); for (int i = 0; i < k; ++i) vs.insert(h.universe[r.below(m)]); }
      const bool bv = ext && ext->batch_variants;
      if (bv && r.chance(1, 10)) vs.clear();  // the empty list is a list too
      if (vs.empty() && !bv) continue;
      op.kind = BATCH; op.s.assign(vs.begin(), vs.end()); op.raw = op.s; op.v = val();
      bool anynew = false, anyold = false; for (long x : vs) (M.has({x}) ? anyold : anynew) = true;
      op.cls = vs.empty() ? "empty_list" : anynew ? (anyold ? "mixed" : "all_new") : "all_existing";
      if (bv && !vs.empty()) {
        r.shuffle(op.raw);
        if (r.chance(1, 3)) { int reps = 1 + (int)r.below(3); for (int t = 0; t < reps; ++t) op.raw.push_back(op.raw[r.below(op.raw.size())]); r.shuffle(op.raw); op.inclass = "repeated_vertex"; }
      }
      M.insert_vertices(op.s, op.v);
    } else if (w < 50) {  // GRAPH (empty tree only, labels 0..n-1)
      if (nsimp != 0 || h.universe[0] != 0 || h.universe[1] != 1) continue;
      const bool gx = ext && ext->graph_variants;
      int n = 1 + (int)r.below(big ? std::min(m, 12) : m);
      if (gx && r.chance(1, 12)) n = 0;  // a graph without vertices leaves the tree empty
      op.kind = GRAPH; op.gv.resize(n);
      for (int i = 0; i < n; ++i) op.gv[i] = wide ? wide_value(r) : grid_value(r) / 2;
      for (int i = 0; i < n; ++i) for (int j = i + 1; j < n; ++j) if (r.chance(1, 2)) op.ge.emplace_back(i, j, std::max({op.gv[i], op.gv[j], val()}));
      op.cls = "on_empty";
      if (gx) {
        op.gdirected = r.chance(1, 3);
        bool rev = false, dbl = false;
        size_t ne = op.ge.size();
        for (size_t e = 0; e < ne; ++e) {
          if (r.chance(1, 3)) { std::swap(std::get<0>(op.ge[e]), std::get<1>(op.ge[e])); rev = true; }
          if (r.chance(1, 5)) {  // the same edge a second time (same value: the representative read is arbitrary), in either orientation
            std::tuple<int, int, double> d = op.ge[e]; if (r.chance(1, 2)) std::swap(std::get<0>(d), std::get<1>(d));
            op.ge.push_back(d); dbl = true;
          }
        }
        if (dbl) r.shuffle(op.ge);
        op.cls = std::string(n == 0 ? "no_vertex" : "on_empty") + (op.gdirected ? ",directed" : "") + (rev ? ",reversed_edges" : "") + (dbl ? ",doubled_edges" : "");
      }
      for (int i = 0; i < n; ++i) M.cx[{(long)i}] = op.gv[i];
      for (auto& e : op.ge) M.cx[{(long)std::min(std::get<0>(e), std::get<1>(e)), (long)std::max(std::get<0>(e), std::get<1>(e))}] = std::get<2>(e);
    } else if (w < 72) {  // REM
      std::vector<Simplex> cand;
      for (auto& kv : M.cx) if (M.is_maximal(kv.first)) {
        if (contiguous && kv.first.size() == 1 && kv.first[0] != (long)M.num_vertices() - 1) continue;
        cand.push_back(kv.first);
      }
      if (cand.empty()) continue;
      Simplex s = cand[r.below(cand.size())];
      op.kind = REM; op.s = s; op.raw.assign(s.begin(), s.end());
      bool top = ((int)s.size() - 1 == M.dimension());
      size_t same_dim = 0; for (auto& kv : M.cx) same_dim += kv.first.size() == s.size();
      op.cls = std::string(s.size() == 1 ? "vertex" : "simplex") + (M.cx.size() == 1 ? ",last_simplex" : (top && same_dim == 1 ? ",lowers_dimension" : ""));
      removed_once.insert(s);
      M.remove_maximal(s);
    } else if (w < 82) {  // PRUNE_F
      if (!allow_prune_f) continue;
      op.kind = PRUNE_F;
      op.v = r.chance(1, 12) ? std::numeric_limits<double>::infinity() : (r.chance(1, 10) ? -0.25 : grid_value(r));
      if (wide && r.chance(1, 4)) op.v = r.chance(1, 3) ? -std::numeric_limits<double>::infinity() : -grid_value(r);
      if (contiguous) {
        // would leave a non-contiguous vertex set?  vertices with value > v must be a suffix
        bool ok = true, gone = false; long n = (long)M.num_vertices();
        for (long x = 0; x < n; ++x) { bool rm = M.cx.at({x}) > op.v; if (gone && !rm) ok = false; if (rm) gone = true; }
        if (!ok) continue;
      }
      for (auto& kv : M.cx) if (kv.second > op.v) removed_once.insert(kv.first);
      size_t before = M.cx.size();
      bool ch = M.prune_above_filtration(op.v);
      op.cls = !ch ? "no_change" : (M.cx.empty() ? "empties" : (M.cx.size() < before ? "removes" : ""));
    } else if (w < 92) {  // PRUNE_D
      op.kind = PRUNE_D;
      int dim = M.dimension();
      op.d = r.chance(1, 10) ? -10 : (int)r.range(-1, dim + 1);
      if (contiguous && op.d < 0) { if (!r.chance(1, 3)) continue; }
      for (auto& kv : M.cx) if ((int)kv.first.size() - 1 > op.d) removed_once.insert(kv.first);
      bool ch = M.prune_above_dimension(op.d);
      op.cls = !ch ? "no_change" : (M.cx.empty() ? "empties" : "removes");
    } else if (w < 96) {
      op.kind = CLEAR; op.cls = M.cx.empty() ? "already_empty" : "nonempty";
      for (auto& kv : M.cx) removed_once.insert(kv.first);
      M.clear();
    } else {
      op.kind = NOP; op.cls = "observe_only";
    }
    h.max_dim = std::max(h.max_dim, M.dimension());
    if (M.cx.empty() && nsimp > 0) h.emptied++;
    h.ops.push_back(op);
  }
  return h;
}

// ---------------------------------------------------------------- observation
template <class ST>
Simplex word(const ST& st, typename ST::Simplex_handle sh) {
  Simplex s;
  for (auto v : st.simplex_vertex_range(sh)) s.push_back((long)v);
  std::sort(s.begin(), s.end());
  return s;
}
template <class ST>
std::vector<typename ST::Vertex_handle> to_vh(const Simplex& s) {
  std::vector<typename ST::Vertex_handle> r;
  for (long x : s) r.push_back((typename ST::Vertex_handle)x);
  return r;
}
inline std::string show_set(const std::set<Simplex>& ss) { std::string o; for (auto& s : ss) o += oracle::show(s); return o; }

// What full_check queries beyond its first version (ext) and how it treats the cached dimension bound (qmode).
struct ObsOpt {
  int qmode = Q_BYDIM_THEN_DIM;
  bool ext = false;          // repeated-vertex / permuted find queries, skeleton of negative dimension, cofaces up to codimension dim+1
  vh::Rng* rng = nullptr;    // needed for permuted / sampled queries
  int sample_simplices = 0;  // > 0: boundaries / stars / cofaces of at most that many simplices per sweep (large complexes)
  int sample_queries = 64;   // universes of more than 12 labels: number of sampled find queries besides the model's simplices
};

// Compares every read interface of `st` with the model.  Returns false after reporting the first mismatch.
// `sig` is the operation classification prefix for violation signatures.
template <class ST>
bool full_check(vh::Case& c, const ST& st, const ComplexModel& M, const std::vector<long>& universe, const std::string& sig,
                const ObsOpt& oo, const std::string& pfx = "") {
  typedef typename ST::Simplex_handle SH;
  typedef typename ST::Vertex_handle VH;
  const int m = (int)universe.size();
  const int mdim = M.dimension();
  const bool nonempty = !M.cx.empty();
  auto check_dimension = [&]() {
    bool stale = st.upper_bound_dimension() > mdim;
    int d = st.dimension();
    c.count("cmp.dimension");
    if (stale && nonempty) c.count("cmp.dimension_via_deep_search");  // the bound was above the dimension: dimension() had to search
    if (d != mdim) { c.violation(pfx + "dim.complex", sig + (M.cx.empty() ? ",complex_empty" : (stale ? ",stale_bound" : "")), "dimension()=" + vh::str(d) + " model=" + vh::str(mdim)); return false; }
    return true;
  };
  // 0. upper bound (before dimension() refreshes it)
  int ub = st.upper_bound_dimension();
  c.count("cmp.upper_bound_dimension");
  if (ub < mdim) { c.violation(pfx + "dim.upper_bound", sig + ",bound_below_dimension", "upper_bound_dimension()=" + vh::str(ub) + " < true dimension " + vh::str(mdim)); return false; }
  if (ub > mdim) c.count("state.upper_bound_above_dimension");
  if (ub > mdim && nonempty) c.count("state.stale_bound_nonempty");
  if (oo.qmode == Q_DIM_FIRST && !check_dimension()) return false;
  const bool stale_sweep = nonempty && st.upper_bound_dimension() > mdim;
  if (stale_sweep) c.count("state.sweep_under_stale_bound");
  // 1. membership of every subset of the universe (sampled when the universe is large)
  auto query = [&](const Simplex& s) {
    std::vector<VH> q = to_vh<ST>(s);
    if (oo.ext && oo.rng) { oo.rng->shuffle(q); c.count("cmp.find_permuted"); }
    SH sh = st.find(q);
    bool got = sh != st.null_simplex();
    c.count("cmp.find");
    if (got != M.has(s)) { c.violation(pfx + "find.membership", sig + (got ? ",extra_simplex" : ",missing_simplex"), "find(" + oracle::show(s) + ")=" + vh::str(got) + " model=" + vh::str(M.has(s))); return false; }
    if (oo.ext && oo.rng && oo.rng->chance(1, 8)) {  // a repeated vertex does not change the simplex that is asked for
      std::vector<VH> q2 = q; VH rep = q2[oo.rng->below(q2.size())]; q2.push_back(rep); oo.rng->shuffle(q2);
      SH sh2 = st.find(q2);
      bool got2 = sh2 != st.null_simplex();
      c.count("cmp.find_repeated_vertex");
      if (got2 && got && sh2 != sh) { c.violation(pfx + "find.handle", "query=repeated_vertex", "find(" + oracle::show(s) + " with vertex repeated) is not the handle of the simplex"); return false; }
      if (got2 && word(st, sh2) != s) { c.violation(pfx + "find.vertices", "query=repeated_vertex", "find(" + oracle::show(s) + " with vertex repeated) has vertices " + oracle::show(word(st, sh2))); return false; }
      if (got2 != M.has(s)) { c.violation(pfx + "find.membership", std::string("query=repeated_vertex") + (got2 ? ",extra_simplex" : ",missing_simplex"), "find(" + oracle::show(s) + " with vertex repeated)=" + vh::str(got2) + " model=" + vh::str(M.has(s))); return false; }
    }
    if (!got) return true;
    if (word(st, sh) != s) { c.violation(pfx + "find.vertices", sig, "simplex_vertex_range(find(" + oracle::show(s) + "))=" + oracle::show(word(st, sh))); return false; }
    if (st.dimension(sh) != (int)s.size() - 1) { c.violation(pfx + "dim.simplex", sig, "dimension(sh) of " + oracle::show(s) + " = " + vh::str(st.dimension(sh))); return false; }
    if constexpr (ST::Options::store_filtration) {
      c.count("cmp.filtration");
      if ((double)st.filtration(sh) != M.cx.at(s)) { c.violation(pfx + "filtration.value", sig, "filtration(" + oracle::show(s) + ")=" + vh::str(st.filtration(sh)) + " model=" + vh::str(M.cx.at(s))); return false; }
    }
    return true;
  };
  if (m <= 12) {
    for (unsigned mask = 1; mask < (1u << m); ++mask) {
      Simplex s; for (int i = 0; i < m; ++i) if (mask >> i & 1) s.push_back(universe[i]);
      std::sort(s.begin(), s.end());
      if (!query(s)) return false;
    }
  } else {
    for (auto& kv : M.cx) if (!query(kv.first)) return false;
    std::vector<Simplex> present; for (auto& kv : M.cx) present.push_back(kv.first);
    for (int t = 0; oo.rng && t < oo.sample_queries; ++t) {  // random subsets, and neighbours of present simplices (one vertex more / less / replaced)
      vh::Rng& r = *oo.rng;
      std::set<long> q;
      if (present.empty() || r.chance(1, 3)) { int sz = 1 + (int)r.below(5); for (int i = 0; i < sz; ++i) q.insert(universe[r.below(m)]); }
      else {
        const Simplex& p = present[r.below(present.size())]; q.insert(p.begin(), p.end());
        unsigned how = (unsigned)r.below(3);
        if (how != 0 && q.size() > 1) { auto it = q.begin(); std::advance(it, r.below(q.size())); q.erase(it); }
        if (how != 1) q.insert(universe[r.below(m)]);
      }
      c.count("cmp.find_sampled");
      if (!query(Simplex(q.begin(), q.end()))) return false;
    }
  }
  // 2. vertices
  {
    std::vector<long> vs; for (auto v : st.complex_vertex_range()) vs.push_back((long)v);
    std::set<long> vset(vs.begin(), vs.end());
    c.count("cmp.vertex_range");
    if (vset.size() != vs.size() || vset != M.vertices()) { c.violation(pfx + "vertex_range.set_equal", sig, "complex_vertex_range has " + vh::str(vs.size()) + " entries, model " + vh::str(M.vertices().size())); return false; }
    if (st.num_vertices() != M.num_vertices()) { c.violation(pfx + "count.num_vertices", sig, "num_vertices()=" + vh::str(st.num_vertices()) + " model=" + vh::str(M.num_vertices())); return false; }
    if (st.is_empty() != M.cx.empty()) { c.violation(pfx + "count.is_empty", sig, "is_empty()=" + vh::str(st.is_empty())); return false; }
  }
  // 3. simplices
  std::vector<SH> handles;
  {
    std::set<Simplex> got; size_t n = 0;
    for (SH sh : st.complex_simplex_range()) { got.insert(word(st, sh)); handles.push_back(sh); ++n; }
    std::set<Simplex> want; for (auto& kv : M.cx) want.insert(kv.first);
    c.count("cmp.simplex_range");
    if (n != got.size()) { c.violation(pfx + "simplex_range.duplicates", sig, "complex_simplex_range lists " + vh::str(n) + " handles for " + vh::str(got.size()) + " distinct simplices"); return false; }
    if (got != want) { c.violation(pfx + "simplex_range.set_equal", sig, "complex_simplex_range=" + show_set(got) + " model=" + show_set(want)); return false; }
    if (st.num_simplices() != M.cx.size()) { c.violation(pfx + "count.num_simplices", sig, "num_simplices()=" + vh::str(st.num_simplices()) + " model=" + vh::str(M.cx.size())); return false; }
    if (oo.qmode == Q_BYDIM_THEN_DIM || oo.qmode == Q_BYDIM_ONLY) {  // (refreshes a stale bound, like dimension())
      bool stale = nonempty && st.upper_bound_dimension() > mdim;
      auto bd = st.num_simplices_by_dimension();
      c.count("cmp.by_dimension");
      if (stale) c.count("cmp.by_dimension_under_stale_bound");
      if (bd != M.by_dimension()) { c.violation(pfx + "count.by_dimension", sig + (stale ? ",stale_bound" : ""), "num_simplices_by_dimension()=" + vh::vstr(bd) + " model=" + vh::vstr(M.by_dimension())); return false; }
      if (st.upper_bound_dimension() < mdim) { c.violation(pfx + "dim.upper_bound", sig + ",bound_below_dimension,after_by_dimension", "upper_bound_dimension()=" + vh::str(st.upper_bound_dimension()) + " < true dimension " + vh::str(mdim)); return false; }
    }
  }
  // 4. skeleta
  for (int d = (oo.ext ? -2 : 0); d <= mdim + 1; ++d) {
    int dd = d == -2 ? -7 : d;
    std::set<Simplex> got; size_t n = 0;
    for (SH sh : st.skeleton_simplex_range(dd)) { got.insert(word(st, sh)); ++n; }
    c.count(dd < 0 ? "cmp.skeleton_negative_dimension" : "cmp.skeleton");
    if (n != got.size() || got != M.skeleton(dd)) { c.violation(pfx + "skeleton.set_equal", dd < 0 ? std::string("query=negative_dimension") + (M.cx.empty() ? ",complex_empty" : "") : sig + ",d_minus_dim=" + vh::str(dd - mdim), "skeleton_simplex_range(" + vh::str(dd) + ") has " + vh::str(n) + " handles / " + vh::str(got.size()) + " distinct, model " + vh::str(M.skeleton(dd).size())); return false; }
  }
  // 5. boundaries, stars, cofaces of every simplex (of a sample when the complex is large)
  if (oo.sample_simplices > 0 && oo.rng && (int)handles.size() > oo.sample_simplices) { oo.rng->shuffle(handles); handles.resize(oo.sample_simplices); c.count("state.sampled_sweep"); }
  const int kmax = oo.ext ? std::max(3, mdim + 1) : 3;
  for (SH sh : handles) {
    Simplex s = word(st, sh);
    int codim_top = mdim - ((int)s.size() - 1);
    std::string ssig = sig + ",codim_to_top=" + vh::str(codim_top);
    {
      std::set<Simplex> got; size_t n = 0;
      for (SH b : st.boundary_simplex_range(sh)) { got.insert(word(st, b)); ++n; }
      auto fv = ComplexModel::facets(s); std::set<Simplex> want(fv.begin(), fv.end());
      c.count("cmp.boundary");
      if (n != got.size() || got != want) { c.violation(pfx + "boundary.set_equal", ssig, "boundary_simplex_range(" + oracle::show(s) + ")=" + show_set(got)); return false; }
    }
    if (s.size() >= 2) {
      std::set<std::pair<Simplex, long>> got; size_t n = 0;
      for (auto bo : st.boundary_opposite_vertex_simplex_range(sh)) {
        Simplex f = word(st, bo.first); long ov = (long)bo.second; ++n;
        Simplex u = f; u.push_back(ov); std::sort(u.begin(), u.end());
        if (u != s || f.size() + 1 != s.size()) { c.violation(pfx + "boundary_opposite.pair", ssig, "boundary_opposite_vertex(" + oracle::show(s) + ") gave face " + oracle::show(f) + " opposite " + vh::str(ov)); return false; }
        got.insert({f, ov});
      }
      c.count("cmp.boundary_opposite");
      if (n != s.size() || got.size() != s.size()) { c.violation(pfx + "boundary_opposite.count", ssig, "boundary_opposite_vertex(" + oracle::show(s) + ") gave " + vh::str(n) + " pairs"); return false; }
    }
    for (int k = 0; k <= kmax; ++k) {
      std::set<Simplex> got; size_t n = 0;
      if (k == 0) for (SH t : st.star_simplex_range(sh)) { got.insert(word(st, t)); ++n; }
      else for (SH t : st.cofaces_simplex_range(sh, k)) { got.insert(word(st, t)); ++n; }
      auto want = M.cofaces(s, k);
      c.count(k == 0 ? "cmp.star" : "cmp.cofaces");
      if (k > 3) c.count("cmp.cofaces_codim_above_3");
      if (k > 0 && (int)s.size() - 1 + k > mdim) c.count("cmp.cofaces_beyond_dimension");
      if (n != got.size() || got != want) {
        c.violation(pfx + (k == 0 ? "star.set_equal" : "cofaces.set_equal"), ssig + ",codim=" + vh::str(k) + (got.size() < want.size() ? ",missing" : ",extra") + (stale_sweep && oo.ext ? ",stale_bound" : ""),
                    std::string(k == 0 ? "star" : "cofaces") + "(" + oracle::show(s) + "," + vh::str(k) + ")=" + show_set(got) + " (" + vh::str(n) + " handles) model=" + show_set(want));
        return false;
      }
    }
  }
  // 6. dimension of the complex (refreshes the cached bound when queried)
  if (oo.qmode == Q_BYDIM_THEN_DIM || oo.qmode == Q_DIM_LAST) { if (!check_dimension()) return false; }
  return true;
}
// The first interface: query_dimension = true -> num_simplices_by_dimension() and dimension() are queried (both refresh a stale
// bound), false -> neither is (the bound is left as the operation left it).
template <class ST>
bool full_check(vh::Case& c, const ST& st, const ComplexModel& M, const std::vector<long>& universe, const std::string& sig,
                bool query_dimension, const std::string& pfx = "") {
  ObsOpt oo; oo.qmode = query_dimension ? Q_BYDIM_THEN_DIM : Q_NONE;
  return full_check(c, st, M, universe, sig, oo, pfx);
}

// Operations that the library itself documents / implements as dropping the filtration cache; after any other
// modification the caller has to call clear_filtration() or initialize_filtration() (documented requirement).
inline bool op_drops_filtration_cache(OpKind k) { return k == PRUNE_F || k == PRUNE_D || k == CLEAR || k == NOP; }

// filtration_simplex_range() must list every simplex of the model exactly once, never decrease in value and put faces first.
// The size is compared first so that a stale cache (dangling handles) is reported without being dereferenced.
template <class ST>
bool check_filtration_range(vh::Case& c, const ST& st, const ComplexModel& M, const std::string& sig, const std::string& pfx = "") {
  if constexpr (ST::Options::store_filtration) {
    const auto& rg = st.filtration_simplex_range();
    size_t n = (size_t)std::distance(rg.begin(), rg.end());
    c.count("cmp.filtration_range");
    if (n != M.cx.size()) { c.violation(pfx + "filtration_range.size", sig + (n > M.cx.size() ? ",too_many" : ",too_few"), "filtration_simplex_range lists " + vh::str(n) + " simplices, complex has " + vh::str(M.cx.size())); return false; }
    std::map<Simplex, size_t> pos; size_t i = 0; double prev = -std::numeric_limits<double>::infinity();
    for (auto sh : rg) {
      Simplex w = word(st, sh);
      if (!M.has(w)) { c.violation(pfx + "filtration_range.foreign", sig, "lists " + oracle::show(w) + " which is not in the complex"); return false; }
      if (!pos.emplace(w, i).second) { c.violation(pfx + "filtration_range.duplicate", sig, "lists " + oracle::show(w) + " twice"); return false; }
      double f = M.cx.at(w);
      if (f < prev) { c.violation(pfx + "filtration_range.decreasing", sig, "value decreases at position " + vh::str(i)); return false; }
      prev = f;
      for (auto& fc : ComplexModel::facets(w)) if (!pos.count(fc)) { c.violation(pfx + "filtration_range.face_after_coface", sig, oracle::show(fc) + " not listed before " + oracle::show(w)); return false; }
      ++i;
    }
  }
  return true;
}

// Builds a tree equal to the model by a fixed route (dimension by dimension with insert_simplex).
template <class ST>
void build_from_model(ST& st, const ComplexModel& M) {
  std::vector<Simplex> order = oracle::filtration_order(M.cx);
  std::stable_sort(order.begin(), order.end(), [](const Simplex& a, const Simplex& b) { return a.size() < b.size(); });
  for (auto& s : order) st.insert_simplex(to_vh<ST>(s), (typename ST::Filtration_value)M.cx.at(s));
}

// Applies one operation of a history to the tree (and the model), checking return values against the documentation.
template <class ST>
bool apply_op(vh::Case& c, ST& st, ComplexModel& M, const Op& op, const std::string& pfx = "") {
  typedef typename ST::Filtration_value FV;
  typedef typename ST::Vertex_handle VH;
  std::string sig = op.sig();
  c.count(std::string("op.") + op_name(op.kind));
  c.count(std::string("opclass.") + op_name(op.kind) + "." + op.cls);
  if (!op.inclass.empty()) c.count(std::string("opclass.") + op_name(op.kind) + ".input_" + op.inclass);
  // documented result of the two simplex insertions: (handle of the new simplex, true) | (handle, false) when an existing simplex
  // got a strictly smaller value | (null_simplex(), false) when nothing changed
  auto check_result = [&](const std::pair<typename ST::Simplex_handle, bool>& res, bool existed, double old, const std::string& id, const char* fn) {
    if (res.second != !existed) { c.violation(pfx + id + ".return_bool", sig, std::string(fn) + " returned inserted=" + vh::str(res.second) + " but simplex existed=" + vh::str(existed)); return false; }
    // a simplex has one handle: the one a lookup returns (lookups always terminate, so this is safe before any traversal)
    if (res.first != st.null_simplex() && res.first != st.find(to_vh<ST>(op.s))) { c.violation(pfx + id + ".return_handle", sig, "the returned handle is not the handle find() returns for the simplex"); return false; }
    if (res.second) {
      if (res.first == st.null_simplex() || word(st, res.first) != op.s) { c.violation(pfx + id + ".return_handle", sig, "handle of new simplex wrong"); return false; }
    } else if (ST::Options::store_filtration) {
      bool lowered = op.v < old;
      if (lowered != (res.first != st.null_simplex())) { c.violation(pfx + id + ".return_handle", sig, "existing simplex: lowered=" + vh::str(lowered) + " handle_null=" + vh::str(res.first == st.null_simplex())); return false; }
    }
    return true;
  };
  switch (op.kind) {
    case INS: {
      bool existed = M.has(op.s); double old = existed ? M.cx.at(op.s) : 0;
      std::vector<VH> raw; for (long x : op.raw) raw.push_back((VH)x);
      auto res = st.insert_simplex(raw, (FV)op.v);
      M.insert_one(op.s, op.v);
      if (!check_result(res, existed, old, "insert", "insert_simplex")) return false;
      if (op.raw.size() != op.s.size()) {
        // The vertices were given with repetitions.  Before any traversal, look (with lookups only, which always terminate) for a
        // node reached by spelling a face with a vertex twice: asking for {..,x,x} is asking for {..,x}.
        for (auto& f : ComplexModel::faces_all(op.s)) for (long x : f) {
          std::vector<VH> q = to_vh<ST>(f); q.push_back((VH)x);
          auto sh = st.find(q);
          c.count("cmp.find_repeated_vertex");
          if (sh == st.null_simplex()) { if (M.has(f)) { c.violation(pfx + "find.membership", sig + ",repeated_vertex_query,missing_simplex", "find(" + oracle::show(f) + " with " + vh::str(x) + " repeated) is null, the simplex is present"); return false; } }
          else if (word(st, sh) != f) { c.violation(pfx + "find.vertices", sig + ",repeated_vertex_query", "find(" + oracle::show(f) + " with " + vh::str(x) + " repeated) has vertices " + oracle::show(word(st, sh))); return false; }
          else if (sh != st.find(to_vh<ST>(f))) { c.violation(pfx + "find.handle", sig + ",repeated_vertex_query", "find(" + oracle::show(f) + " with " + vh::str(x) + " repeated) is not the handle of " + oracle::show(f)); return false; }
        }
      }
      break;
    }
    case INSF: {
      bool existed = M.has(op.s); double old = existed ? M.cx.at(op.s) : 0;
      std::vector<VH> raw; for (long x : op.raw) raw.push_back((VH)x);
      auto res = st.insert_simplex_and_subfaces(raw, (FV)op.v);
      M.insert_with_faces(op.s, op.v);
      if (!check_result(res, existed, old, "insert_subfaces", "insert_simplex_and_subfaces")) return false;
      c.count("cmp.insert_subfaces_handle");
      break;
    }
    case STREAM: {  // the complex is only required to be simplicial again at the end of the stream: nothing is observed in between
      for (auto& e : op.stream) {
        std::vector<VH> raw; for (long x : e.first) raw.push_back((VH)x);
        st.insert_simplex(raw, (FV)e.second);
        Simplex s(e.first.begin(), e.first.end()); std::sort(s.begin(), s.end());
        M.insert_one(s, e.second);
        c.count("op.insert_simplex_in_stream");
      }
      break;
    }
    case BATCH: {
      std::vector<VH> vs; for (long x : op.raw) vs.push_back((VH)x);
      st.insert_batch_vertices(vs, (FV)op.v);
      M.insert_vertices(op.s, op.v);
      break;
    }
    case GRAPH: {
      auto fill = [&](auto& g) {
        for (size_t i = 0; i < op.gv.size(); ++i) boost::put(Gudhi::vertex_filtration_t(), g, i, (FV)op.gv[i]);
        for (auto& e : op.ge) boost::add_edge(std::get<0>(e), std::get<1>(e), (FV)std::get<2>(e), g);
        st.insert_graph(g);
      };
      if (!op.gdirected) {
        boost::adjacency_list<boost::vecS, boost::vecS, boost::undirectedS, boost::property<Gudhi::vertex_filtration_t, FV>,
                              boost::property<Gudhi::edge_filtration_t, FV>> g(op.gv.size());
        fill(g);
      } else {
        boost::adjacency_list<boost::vecS, boost::vecS, boost::directedS, boost::property<Gudhi::vertex_filtration_t, FV>,
                              boost::property<Gudhi::edge_filtration_t, FV>> g(op.gv.size());
        fill(g);
      }
      for (size_t i = 0; i < op.gv.size(); ++i) M.cx[{(long)i}] = op.gv[i];
      for (auto& e : op.ge) M.cx[{(long)std::min(std::get<0>(e), std::get<1>(e)), (long)std::max(std::get<0>(e), std::get<1>(e))}] = std::get<2>(e);
      break;
    }
    case REM: {
      auto sh = st.find(to_vh<ST>(op.s));
      if (sh == st.null_simplex()) { c.violation(pfx + "find.membership", sig + ",missing_simplex", "simplex to remove not found " + oracle::show(op.s)); return false; }
      st.remove_maximal_simplex(sh);
      M.remove_maximal(op.s);
      break;
    }
    case PRUNE_F: {
      bool r1 = st.prune_above_filtration((FV)op.v);
      bool r2 = ST::Options::store_filtration ? M.prune_above_filtration(op.v) : false;
      if (ST::Options::store_filtration && r1 != r2) { c.violation(pfx + "prune_filtration.return", sig, "prune_above_filtration returned " + vh::str(r1) + " model " + vh::str(r2)); return false; }
      break;
    }
    case PRUNE_D: {
      bool r1 = st.prune_above_dimension(op.d);
      bool r2 = M.prune_above_dimension(op.d);
      if (r1 != r2) { c.violation(pfx + "prune_dimension.return", sig, "prune_above_dimension(" + vh::str(op.d) + ") returned " + vh::str(r1) + " model " + vh::str(r2)); return false; }
      break;
    }
    case CLEAR: st.clear(); M.clear(); break;
    case NOP: break;
  }
  return true;
}

}  // namespace stc
#endif

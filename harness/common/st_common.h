// Shared pieces for the Simplex_tree harnesses (C01, C03, C04, C15):
//  * option sets the library ships or its tests use
//  * a model-driven history generator (operations are chosen from the ABSTRACT model only, so the same history can be
//    replayed on every option set)
//  * the full observation sweep comparing a Simplex_tree with oracle::ComplexModel through every read interface
#ifndef VERIF_ST_COMMON_H_
#define VERIF_ST_COMMON_H_

#include <gudhi/Simplex_tree.h>
#include <gudhi/graph_simplicial_complex.h>
#include "common/vh.h"
#include "oracle/complex_model.h"

namespace stc {

using oracle::Simplex;
using oracle::ComplexModel;

// ---------------------------------------------------------------- option sets
struct Opt_fast_cofaces {  // test/simplex_tree_edge_expansion_unit_test.cpp
  typedef Gudhi::linear_indexing_tag Indexing_tag;
  typedef int Vertex_handle;
  typedef double Filtration_value;
  typedef std::uint32_t Simplex_key;
  static const bool store_key = true;
  static const bool store_filtration = true;
  static const bool contiguous_vertices = false;
  static const bool link_nodes_by_label = true;
  static const bool stable_simplex_handles = false;
};
struct Opt_stable {  // test/simplex_tree_graph_expansion_unit_test.cpp
  typedef Gudhi::linear_indexing_tag Indexing_tag;
  typedef int Vertex_handle;
  typedef double Filtration_value;
  typedef std::uint32_t Simplex_key;
  static const bool store_key = true;
  static const bool store_filtration = true;
  static const bool contiguous_vertices = false;
  static const bool link_nodes_by_label = false;
  static const bool stable_simplex_handles = true;
};
struct Opt_mini {  // example/mini_simplex_tree.cpp, test Low_options
  typedef Gudhi::linear_indexing_tag Indexing_tag;
  typedef short Vertex_handle;
  typedef double Filtration_value;
  typedef std::uint8_t Simplex_key;
  static const bool store_key = true;
  static const bool store_filtration = false;
  static const bool contiguous_vertices = false;
  static const bool link_nodes_by_label = false;
  static const bool stable_simplex_handles = false;
};
struct Opt_low_full : Gudhi::Simplex_tree_options_full_featured {  // test/simplex_tree_serialization_unit_test.cpp
  typedef std::int16_t Vertex_handle;
  typedef float Filtration_value;
  typedef std::uint8_t Simplex_key;
};

// ---------------------------------------------------------------- histories
enum OpKind { INS, INSF, BATCH, GRAPH, REM, PRUNE_F, PRUNE_D, CLEAR, NOP };
inline const char* op_name(OpKind k) {
  static const char* n[] = {"insert_simplex", "insert_simplex_and_subfaces", "insert_batch_vertices", "insert_graph",
                            "remove_maximal_simplex", "prune_above_filtration", "prune_above_dimension", "clear", "nop"};
  return n[k];
}
struct Op {
  OpKind kind = NOP;
  Simplex s;                  // INS / INSF / REM (sorted); BATCH: vertex list (may contain existing vertices)
  std::vector<long> raw;      // as passed to the API (unsorted, maybe with duplicates for INSF)
  double v = 0;               // value / threshold
  int d = 0;                  // PRUNE_D
  // GRAPH: vertices 0..n-1 with values, edges
  std::vector<double> gv; std::vector<std::tuple<int, int, double>> ge;
  bool query_dimension = true;  // whether dimension() (which refreshes the cached bound) is queried after this step
  std::string cls;              // classification used in signatures
  std::string show() const {
    std::ostringstream o; o.precision(17);
    o << op_name(kind);
    if (kind == INS || kind == INSF || kind == REM || kind == BATCH) o << " " << vh::vstr(raw.empty() ? std::vector<long>(s.begin(), s.end()) : raw);
    if (kind == INS || kind == INSF || kind == BATCH || kind == PRUNE_F) o << " v=" << v;
    if (kind == PRUNE_D) o << " d=" << d;
    if (kind == GRAPH) { o << " n=" << gv.size() << " vv=" << vh::vstr(gv) << " edges="; for (auto& e : ge) o << "(" << std::get<0>(e) << "," << std::get<1>(e) << ":" << std::get<2>(e) << ")"; }
    o << (query_dimension ? " +dim()" : "") << " {" << cls << "}";
    return o.str();
  }
};
struct History {
  std::vector<long> universe;
  bool contiguous = false;
  std::vector<Op> ops;
  // flags for the non-triviality rule
  bool reinsertion_after_removal = false; int max_dim = -1; int emptied = 0;
};

inline double grid_value(vh::Rng& r) { return 0.25 * (double)r.below(17); }

inline Simplex random_subset(vh::Rng& r, const std::vector<long>& uni, int maxsize) {
  int sz = 1 + (int)r.below(maxsize);
  std::set<long> s;
  for (int i = 0; i < sz; ++i) s.insert(uni[r.below(uni.size())]);
  return Simplex(s.begin(), s.end());
}

// Generates a precondition-respecting history from the model alone.
//  contiguous: vertex set is {0..n-1} at all times (precondition of Options::contiguous_vertices)
inline History generate_history(vh::Rng& r, bool contiguous, int nops_max = 40, bool allow_prune_f = true, bool small_labels = false,
                                const ComplexModel* init = nullptr, const std::vector<long>* fixed_universe = nullptr, int nops_min = 1) {
  static const std::vector<std::vector<long>> universes = {
      {0, 1, 2, 3, 4, 5, 6}, {-9, -2, 0, 3, 40, 1000000, 1073741824}, {10, 11, 12, 13, 14, 15, 16}, {-32000, -5, -1 + 0 * 1, 7, 8, 300, 32000}};
  History h;
  h.contiguous = contiguous;
  int ui = contiguous ? 0 : (int)r.below(universes.size());
  if (small_labels && ui == 1) ui = 3;
  h.universe = universes[ui];
  if (!contiguous && ui == 3) h.universe[2] = -3;  // -1 is null_vertex(): never a real label
  int m = 3 + (int)r.below(5);
  h.universe.resize(m);
  if (fixed_universe) { h.universe = *fixed_universe; m = (int)h.universe.size(); }
  ComplexModel M;
  if (init) M = *init;
  int nops = nops_min + (int)r.below(nops_max - nops_min + 1);
  std::set<Simplex> removed_once;
  auto vertex_ok = [&](const Simplex& s) {
    if (!contiguous) return true;
    // keep {0..n-1}: a new vertex must be n (= current count)
    long n = (long)M.num_vertices();
    for (long x : s) if (x > n || (x == n && false)) return false;
    // at most one new vertex (n) -- inserting vertex n alone or a simplex whose new vertices are exactly {n}
    return true;
  };
  for (int step = 0; step < nops; ++step) {
    Op op;
    unsigned w = (unsigned)r.below(100);
    op.query_dimension = r.chance(1, 2);
    size_t nsimp = M.cx.size();
    if (nsimp == 0 && w >= 20 && w < 90) w = r.chance(1, 4) ? 47 : r.below(46);  // empty: insert / batch / graph
    if (w < 12) {  // INS: simplex whose facets are all present
      std::vector<Simplex> cand;
      // candidates: vertices + simplices with all facets present
      for (unsigned mask = 1; mask < (1u << m); ++mask) {
        Simplex s; for (int i = 0; i < m; ++i) if (mask >> i & 1) s.push_back(h.universe[i]);
        std::sort(s.begin(), s.end());
        if (s.size() == 1 || M.facets_present(s)) {
          if (contiguous && !M.has(s) && s.size() == 1 && s[0] != (long)M.num_vertices()) continue;
          cand.push_back(s);
        }
      }
      if (cand.empty()) { continue; }
      // prefer absent simplices and previously removed ones
      Simplex s = cand[r.below(cand.size())];
      for (int t = 0; t < 3 && M.has(s); ++t) s = cand[r.below(cand.size())];
      double lo = 0; for (auto& f : ComplexModel::facets(s)) lo = std::max(lo, M.cx.at(f));
      double v = std::max(lo, grid_value(r));
      bool existed = M.has(s);
      op.kind = INS; op.s = s; op.v = v; op.raw.assign(s.begin(), s.end()); r.shuffle(op.raw);
      op.cls = existed ? (v < M.cx.at(s) ? "existing_lowered" : "existing_kept") : "new";
      if (removed_once.count(s) && !existed) h.reinsertion_after_removal = true;
      M.insert_one(s, v);
    } else if (w < 40) {  // INSF
      Simplex s = random_subset(r, h.universe, m);
      if (contiguous) {
        // only allow if new vertices are exactly the next ones: remap so that vertex set stays {0..n-1}
        long n = (long)M.num_vertices();
        std::set<long> t; for (long x : s) t.insert(x <= n ? x : n);
        // new vertex n allowed once; ok
        s.assign(t.begin(), t.end());
      }
      op.kind = INSF; op.s = s; op.v = grid_value(r);
      op.raw.assign(s.begin(), s.end()); r.shuffle(op.raw);
      if (r.chance(1, 6) && !op.raw.empty()) op.raw.push_back(op.raw[r.below(op.raw.size())]);  // duplicate vertex
      bool existed = M.has(s);
      op.cls = existed ? "existing" : "new";
      bool re = false; for (auto& f : ComplexModel::faces_all(s)) if (!M.has(f) && removed_once.count(f)) re = true;
      if (re) h.reinsertion_after_removal = true;
      M.insert_with_faces(s, op.v);
    } else if (w < 46) {  // BATCH
      std::set<long> vs;
      if (contiguous) { long n = (long)M.num_vertices(); int k = (int)r.below(3); for (int i = 0; i < k && n + i < m; ++i) vs.insert(n + i); if (r.chance(1, 2) && n > 0) vs.insert(r.below(n)); }
      else { int k = 1 + (int)r.below(m); for (int i = 0; i < k; ++i) vs.insert(h.universe[r.below(m)]); }
      if (vs.empty()) continue;
      op.kind = BATCH; op.s.assign(vs.begin(), vs.end()); op.raw = op.s; op.v = grid_value(r);
      bool anynew = false, anyold = false; for (long x : vs) (M.has({x}) ? anyold : anynew) = true;
      op.cls = anynew ? (anyold ? "mixed" : "all_new") : "all_existing";
      M.insert_vertices(op.s, op.v);
    } else if (w < 50) {  // GRAPH (empty tree only, labels 0..n-1)
      if (nsimp != 0 || h.universe[0] != 0 || h.universe[1] != 1) continue;
      int n = 1 + (int)r.below(m);
      op.kind = GRAPH; op.gv.resize(n);
      for (int i = 0; i < n; ++i) op.gv[i] = grid_value(r) / 2;
      for (int i = 0; i < n; ++i) for (int j = i + 1; j < n; ++j) if (r.chance(1, 2)) op.ge.emplace_back(i, j, std::max({op.gv[i], op.gv[j], grid_value(r)}));
      op.cls = "on_empty";
      for (int i = 0; i < n; ++i) M.cx[{(long)i}] = op.gv[i];
      for (auto& e : op.ge) M.cx[{(long)std::get<0>(e), (long)std::get<1>(e)}] = std::get<2>(e);
    } else if (w < 72) {  // REM
      std::vector<Simplex> cand;
      for (auto& kv : M.cx) if (M.is_maximal(kv.first)) {
        if (contiguous && kv.first.size() == 1 && kv.first[0] != (long)M.num_vertices() - 1) continue;
        cand.push_back(kv.first);
      }
      if (cand.empty()) continue;
      Simplex s = cand[r.below(cand.size())];
      op.kind = REM; op.s = s; op.raw.assign(s.begin(), s.end());
      bool top = ((int)s.size() - 1 == M.dimension());
      size_t same_dim = 0; for (auto& kv : M.cx) same_dim += kv.first.size() == s.size();
      op.cls = std::string(s.size() == 1 ? "vertex" : "simplex") + (M.cx.size() == 1 ? ",last_simplex" : (top && same_dim == 1 ? ",lowers_dimension" : ""));
      removed_once.insert(s);
      M.remove_maximal(s);
    } else if (w < 82) {  // PRUNE_F
      if (!allow_prune_f) continue;
      op.kind = PRUNE_F;
      op.v = r.chance(1, 12) ? std::numeric_limits<double>::infinity() : (r.chance(1, 10) ? -0.25 : grid_value(r));
      if (contiguous) {
        // would leave a non-contiguous vertex set?  vertices with value > v must be a suffix
        bool ok = true, gone = false; long n = (long)M.num_vertices();
        for (long x = 0; x < n; ++x) { bool rm = M.cx.at({x}) > op.v; if (gone && !rm) ok = false; if (rm) gone = true; }
        if (!ok) continue;
      }
      for (auto& kv : M.cx) if (kv.second > op.v) removed_once.insert(kv.first);
      size_t before = M.cx.size();
      bool ch = M.prune_above_filtration(op.v);
      op.cls = !ch ? "no_change" : (M.cx.empty() ? "empties" : (M.cx.size() < before ? "removes" : ""));
    } else if (w < 92) {  // PRUNE_D
      op.kind = PRUNE_D;
      int dim = M.dimension();
      op.d = r.chance(1, 10) ? -10 : (int)r.range(-1, dim + 1);
      if (contiguous && op.d < 0) { if (!r.chance(1, 3)) continue; }
      for (auto& kv : M.cx) if ((int)kv.first.size() - 1 > op.d) removed_once.insert(kv.first);
      bool ch = M.prune_above_dimension(op.d);
      op.cls = !ch ? "no_change" : (M.cx.empty() ? "empties" : "removes");
    } else if (w < 96) {
      op.kind = CLEAR; op.cls = M.cx.empty() ? "already_empty" : "nonempty";
      for (auto& kv : M.cx) removed_once.insert(kv.first);
      M.clear();
    } else {
      op.kind = NOP; op.cls = "observe_only";
    }
    (void)vertex_ok;
    h.max_dim = std::max(h.max_dim, M.dimension());
    if (M.cx.empty() && nsimp > 0) h.emptied++;
    h.ops.push_back(op);
  }
  return h;
}

// ---------------------------------------------------------------- observation
template <class ST>
Simplex word(const ST& st, typename ST::Simplex_handle sh) {
  Simplex s;
  for (auto v : st.simplex_vertex_range(sh)) s.push_back((long)v);
  std::sort(s.begin(), s.end());
  return s;
}
template <class ST>
std::vector<typename ST::Vertex_handle> to_vh(const Simplex& s) {
  std::vector<typename ST::Vertex_handle> r;
  for (long x : s) r.push_back((typename ST::Vertex_handle)x);
  return r;
}
inline std::string show_set(const std::set<Simplex>& ss) { std::string o; for (auto& s : ss) o += oracle::show(s); return o; }

// Compares every read interface of `st` with the model.  Returns false after reporting the first mismatch.
// `sig` is the operation classification prefix for violation signatures.
template <class ST>
bool full_check(vh::Case& c, const ST& st, const ComplexModel& M, const std::vector<long>& universe, const std::string& sig,
                bool query_dimension, const std::string& pfx = "") {
  typedef typename ST::Simplex_handle SH;
  const int m = (int)universe.size();
  const int mdim = M.dimension();
  // 0. upper bound (before dimension() refreshes it)
  int ub = st.upper_bound_dimension();
  c.count("cmp.upper_bound_dimension");
  if (ub < mdim) { c.violation(pfx + "dim.upper_bound", sig + ",bound_below_dimension", "upper_bound_dimension()=" + vh::str(ub) + " < true dimension " + vh::str(mdim)); return false; }
  if (ub > mdim) c.count("state.upper_bound_above_dimension");
  // 1. membership of every subset of the universe
  for (unsigned mask = 1; mask < (1u << m); ++mask) {
    Simplex s; for (int i = 0; i < m; ++i) if (mask >> i & 1) s.push_back(universe[i]);
    std::sort(s.begin(), s.end());
    SH sh = st.find(to_vh<ST>(s));
    bool got = sh != st.null_simplex();
    c.count("cmp.find");
    if (got != M.has(s)) { c.violation(pfx + "find.membership", sig + (got ? ",extra_simplex" : ",missing_simplex"), "find(" + oracle::show(s) + ")=" + vh::str(got) + " model=" + vh::str(M.has(s))); return false; }
    if (!got) continue;
    if (word(st, sh) != s) { c.violation(pfx + "find.vertices", sig, "simplex_vertex_range(find(" + oracle::show(s) + "))=" + oracle::show(word(st, sh))); return false; }
    if (st.dimension(sh) != (int)s.size() - 1) { c.violation(pfx + "dim.simplex", sig, "dimension(sh) of " + oracle::show(s) + " = " + vh::str(st.dimension(sh))); return false; }
    if constexpr (ST::Options::store_filtration) {
      c.count("cmp.filtration");
      if ((double)st.filtration(sh) != M.cx.at(s)) { c.violation(pfx + "filtration.value", sig, "filtration(" + oracle::show(s) + ")=" + vh::str(st.filtration(sh)) + " model=" + vh::str(M.cx.at(s))); return false; }
    }
  }
  // 2. vertices
  {
    std::vector<long> vs; for (auto v : st.complex_vertex_range()) vs.push_back((long)v);
    std::set<long> vset(vs.begin(), vs.end());
    c.count("cmp.vertex_range");
    if (vset.size() != vs.size() || vset != M.vertices()) { c.violation(pfx + "vertex_range.set_equal", sig, "complex_vertex_range has " + vh::str(vs.size()) + " entries, model " + vh::str(M.vertices().size())); return false; }
    if (st.num_vertices() != M.num_vertices()) { c.violation(pfx + "count.num_vertices", sig, "num_vertices()=" + vh::str(st.num_vertices()) + " model=" + vh::str(M.num_vertices())); return false; }
    if (st.is_empty() != M.cx.empty()) { c.violation(pfx + "count.is_empty", sig, "is_empty()=" + vh::str(st.is_empty())); return false; }
  }
  // 3. simplices
  std::vector<SH> handles;
  {
    std::set<Simplex> got; size_t n = 0;
    for (SH sh : st.complex_simplex_range()) { got.insert(word(st, sh)); handles.push_back(sh); ++n; }
    std::set<Simplex> want; for (auto& kv : M.cx) want.insert(kv.first);
    c.count("cmp.simplex_range");
    if (n != got.size()) { c.violation(pfx + "simplex_range.duplicates", sig, "complex_simplex_range lists " + vh::str(n) + " handles for " + vh::str(got.size()) + " distinct simplices"); return false; }
    if (got != want) { c.violation(pfx + "simplex_range.set_equal", sig, "complex_simplex_range=" + show_set(got) + " model=" + show_set(want)); return false; }
    if (st.num_simplices() != M.cx.size()) { c.violation(pfx + "count.num_simplices", sig, "num_simplices()=" + vh::str(st.num_simplices()) + " model=" + vh::str(M.cx.size())); return false; }
    auto bd = st.num_simplices_by_dimension();
    c.count("cmp.by_dimension");
    if (bd != M.by_dimension()) { c.violation(pfx + "count.by_dimension", sig, "num_simplices_by_dimension()=" + vh::vstr(bd) + " model=" + vh::vstr(M.by_dimension())); return false; }
  }
  // 4. skeleta
  for (int d = 0; d <= mdim + 1; ++d) {
    std::set<Simplex> got; size_t n = 0;
    for (SH sh : st.skeleton_simplex_range(d)) { got.insert(word(st, sh)); ++n; }
    c.count("cmp.skeleton");
    if (n != got.size() || got != M.skeleton(d)) { c.violation(pfx + "skeleton.set_equal", sig + ",d_minus_dim=" + vh::str(d - mdim), "skeleton_simplex_range(" + vh::str(d) + ") has " + vh::str(n) + " handles / " + vh::str(got.size()) + " distinct, model " + vh::str(M.skeleton(d).size())); return false; }
  }
  // 5. boundaries, stars, cofaces of every simplex
  for (SH sh : handles) {
    Simplex s = word(st, sh);
    int codim_top = mdim - ((int)s.size() - 1);
    std::string ssig = sig + ",codim_to_top=" + vh::str(codim_top);
    {
      std::set<Simplex> got; size_t n = 0;
      for (SH b : st.boundary_simplex_range(sh)) { got.insert(word(st, b)); ++n; }
      auto fv = ComplexModel::facets(s); std::set<Simplex> want(fv.begin(), fv.end());
      c.count("cmp.boundary");
      if (n != got.size() || got != want) { c.violation(pfx + "boundary.set_equal", ssig, "boundary_simplex_range(" + oracle::show(s) + ")=" + show_set(got)); return false; }
    }
    if (s.size() >= 2) {
      std::set<std::pair<Simplex, long>> got; size_t n = 0;
      for (auto bo : st.boundary_opposite_vertex_simplex_range(sh)) {
        Simplex f = word(st, bo.first); long ov = (long)bo.second; ++n;
        Simplex u = f; u.push_back(ov); std::sort(u.begin(), u.end());
        if (u != s || f.size() + 1 != s.size()) { c.violation(pfx + "boundary_opposite.pair", ssig, "boundary_opposite_vertex(" + oracle::show(s) + ") gave face " + oracle::show(f) + " opposite " + vh::str(ov)); return false; }
        got.insert({f, ov});
      }
      c.count("cmp.boundary_opposite");
      if (n != s.size() || got.size() != s.size()) { c.violation(pfx + "boundary_opposite.count", ssig, "boundary_opposite_vertex(" + oracle::show(s) + ") gave " + vh::str(n) + " pairs"); return false; }
    }
    for (int k = 0; k <= 3; ++k) {
      std::set<Simplex> got; size_t n = 0;
      if (k == 0) for (SH t : st.star_simplex_range(sh)) { got.insert(word(st, t)); ++n; }
      else for (SH t : st.cofaces_simplex_range(sh, k)) { got.insert(word(st, t)); ++n; }
      auto want = M.cofaces(s, k);
      c.count(k == 0 ? "cmp.star" : "cmp.cofaces");
      if (n != got.size() || got != want) {
        c.violation(pfx + (k == 0 ? "star.set_equal" : "cofaces.set_equal"), ssig + ",codim=" + vh::str(k) + (got.size() < want.size() ? ",missing" : ",extra"),
                    std::string(k == 0 ? "star" : "cofaces") + "(" + oracle::show(s) + "," + vh::str(k) + ")=" + show_set(got) + " (" + vh::str(n) + " handles) model=" + show_set(want));
        return false;
      }
    }
  }
  // 6. dimension of the complex (refreshes the cached bound when queried)
  if (query_dimension) {
    int d = st.dimension();
    c.count("cmp.dimension");
    if (d != mdim) { c.violation(pfx + "dim.complex", sig + (M.cx.empty() ? ",complex_empty" : ""), "dimension()=" + vh::str(d) + " model=" + vh::str(mdim)); return false; }
  }
  return true;
}

// Operations that the library itself documents / implements as dropping the filtration cache; after any other
// modification the caller has to call clear_filtration() or initialize_filtration() (documented requirement).
inline bool op_drops_filtration_cache(OpKind k) { return k == PRUNE_F || k == PRUNE_D || k == CLEAR || k == NOP; }

// filtration_simplex_range() must list every simplex of the model exactly once, never decrease in value and put faces first.
// The size is compared first so that a stale cache (dangling handles) is reported without being dereferenced.
template <class ST>
bool check_filtration_range(vh::Case& c, const ST& st, const ComplexModel& M, const std::string& sig, const std::string& pfx = "") {
  if constexpr (ST::Options::store_filtration) {
    const auto& rg = st.filtration_simplex_range();
    size_t n = (size_t)std::distance(rg.begin(), rg.end());
    c.count("cmp.filtration_range");
    if (n != M.cx.size()) { c.violation(pfx + "filtration_range.size", sig + (n > M.cx.size() ? ",too_many" : ",too_few"), "filtration_simplex_range lists " + vh::str(n) + " simplices, complex has " + vh::str(M.cx.size())); return false; }
    std::map<Simplex, size_t> pos; size_t i = 0; double prev = -std::numeric_limits<double>::infinity();
    for (auto sh : rg) {
      Simplex w = word(st, sh);
      if (!M.has(w)) { c.violation(pfx + "filtration_range.foreign", sig, "lists " + oracle::show(w) + " which is not in the complex"); return false; }
      if (!pos.emplace(w, i).second) { c.violation(pfx + "filtration_range.duplicate", sig, "lists " + oracle::show(w) + " twice"); return false; }
      double f = M.cx.at(w);
      if (f < prev) { c.violation(pfx + "filtration_range.decreasing", sig, "value decreases at position " + vh::str(i)); return false; }
      prev = f;
      for (auto& fc : ComplexModel::facets(w)) if (!pos.count(fc)) { c.violation(pfx + "filtration_range.face_after_coface", sig, oracle::show(fc) + " not listed before " + oracle::show(w)); return false; }
      ++i;
    }
  }
  return true;
}

// Builds a tree equal to the model by a fixed route (dimension by dimension with insert_simplex).
template <class ST>
void build_from_model(ST& st, const ComplexModel& M) {
  std::vector<Simplex> order = oracle::filtration_order(M.cx);
  std::stable_sort(order.begin(), order.end(), [](const Simplex& a, const Simplex& b) { return a.size() < b.size(); });
  for (auto& s : order) st.insert_simplex(to_vh<ST>(s), (typename ST::Filtration_value)M.cx.at(s));
}

// Applies one operation of a history to the tree (and the model), checking return values against the documentation.
template <class ST>
bool apply_op(vh::Case& c, ST& st, ComplexModel& M, const Op& op, const std::string& pfx = "") {
  typedef typename ST::Filtration_value FV;
  typedef typename ST::Vertex_handle VH;
  std::string sig = std::string("op=") + op_name(op.kind) + "," + op.cls;
  c.count(std::string("op.") + op_name(op.kind));
  c.count(std::string("opclass.") + op_name(op.kind) + "." + op.cls);
  switch (op.kind) {
    case INS: {
      bool existed = M.has(op.s); double old = existed ? M.cx.at(op.s) : 0;
      std::vector<VH> raw; for (long x : op.raw) raw.push_back((VH)x);
      auto res = st.insert_simplex(raw, (FV)op.v);
      M.insert_one(op.s, op.v);
      if (res.second != !existed) { c.violation(pfx + "insert.return_bool", sig, "insert_simplex returned inserted=" + vh::str(res.second) + " but simplex existed=" + vh::str(existed)); return false; }
      if (res.second) { if (res.first == st.null_simplex() || word(st, res.first) != op.s) { c.violation(pfx + "insert.return_handle", sig, "handle of new simplex wrong"); return false; } }
      else if (ST::Options::store_filtration) {
        bool lowered = op.v < old;
        if (lowered != (res.first != st.null_simplex())) { c.violation(pfx + "insert.return_handle", sig, "existing simplex: lowered=" + vh::str(lowered) + " handle_null=" + vh::str(res.first == st.null_simplex())); return false; }
      }
      break;
    }
    case INSF: {
      bool existed = M.has(op.s);
      std::vector<VH> raw; for (long x : op.raw) raw.push_back((VH)x);
      auto res = st.insert_simplex_and_subfaces(raw, (FV)op.v);
      M.insert_with_faces(op.s, op.v);
      if (res.second != !existed) { c.violation(pfx + "insert_subfaces.return_bool", sig, "returned inserted=" + vh::str(res.second) + " existed=" + vh::str(existed)); return false; }
      break;
    }
    case BATCH: {
      std::vector<VH> vs; for (long x : op.s) vs.push_back((VH)x);
      st.insert_batch_vertices(vs, (FV)op.v);
      M.insert_vertices(op.s, op.v);
      break;
    }
    case GRAPH: {
      typedef boost::adjacency_list<boost::vecS, boost::vecS, boost::undirectedS,
                                    boost::property<Gudhi::vertex_filtration_t, FV>,
                                    boost::property<Gudhi::edge_filtration_t, FV>> Graph;
      Graph g(op.gv.size());
      for (size_t i = 0; i < op.gv.size(); ++i) boost::put(Gudhi::vertex_filtration_t(), g, i, (FV)op.gv[i]);
      for (auto& e : op.ge) boost::add_edge(std::get<0>(e), std::get<1>(e), (FV)std::get<2>(e), g);
      st.insert_graph(g);
      for (size_t i = 0; i < op.gv.size(); ++i) M.cx[{(long)i}] = op.gv[i];
      for (auto& e : op.ge) M.cx[{(long)std::get<0>(e), (long)std::get<1>(e)}] = std::get<2>(e);
      break;
    }
    case REM: {
      auto sh = st.find(to_vh<ST>(op.s));
      if (sh == st.null_simplex()) { c.violation(pfx + "find.membership", sig + ",missing_simplex", "simplex to remove not found " + oracle::show(op.s)); return false; }
      st.remove_maximal_simplex(sh);
      M.remove_maximal(op.s);
      break;
    }
    case PRUNE_F: {
      bool r1 = st.prune_above_filtration((FV)op.v);
      bool r2 = ST::Options::store_filtration ? M.prune_above_filtration(op.v) : false;
      if (ST::Options::store_filtration && r1 != r2) { c.violation(pfx + "prune_filtration.return", sig, "prune_above_filtration returned " + vh::str(r1) + " model " + vh::str(r2)); return false; }
      break;
    }
    case PRUNE_D: {
      bool r1 = st.prune_above_dimension(op.d);
      bool r2 = M.prune_above_dimension(op.d);
      if (r1 != r2) { c.violation(pfx + "prune_dimension.return", sig, "prune_above_dimension(" + vh::str(op.d) + ") returned " + vh::str(r1) + " model " + vh::str(r2)); return false; }
      break;
    }
    case CLEAR: st.clear(); M.clear(); break;
    case NOP: break;
  }
  return true;
}

}  // namespace stc
#endif

// Common support for all /verif harness binaries (no GUDHI headers here).
//
// CLI of every harness binary:
//   bin --config NAME --seed S --from A --to B --tier quick|thorough --out FILE [--verbose]
//   bin --list                      (prints the config names)
//
// Output protocol (JSON lines written to FILE, each with a single write(2)):
//   {"t":"B","k":K}                               before case K starts (crash attribution)
//   {"t":"V","k":K,"check":..,"sig":..,"detail":..,"history":..}   an oracle mismatch
//   {"t":"H","k":K,"history":..}                  written from the fatal-signal / sanitizer hook
//   {"t":"S", "cases":N, "counters":{..}, "nontrivial":[..hashes..], "samples":[..]}   at normal exit
//
// Case K of config C with seed S is generated from hash(S, C, K) only.
#ifndef VERIF_VH_H_
#define VERIF_VH_H_

#include <cstdint>
#include <cstdio>
#include <cstdlib>
#include <cstring>
#include <csignal>
#include <string>
#include <vector>
#include <map>
#include <set>
#include <unordered_set>
#include <functional>
#include <sstream>
#include <algorithm>
#include <unistd.h>
#include <fcntl.h>

namespace vh {

// ------------------------------------------------------------------ rng
inline uint64_t splitmix64(uint64_t& x) {
  uint64_t z = (x += 0x9e3779b97f4a7c15ULL);
  z = (z ^ (z >> 30)) * 0xbf58476d1ce4e5b9ULL;
  z = (z ^ (z >> 27)) * 0x94d049bb133111ebULL;
  return z ^ (z >> 31);
}
inline uint64_t hash_str(const std::string& s, uint64_t h = 1469598103934665603ULL) {
  for (unsigned char c : s) { h ^= c; h *= 1099511628211ULL; }
  return h;
}
inline uint64_t hash_mix(uint64_t h, uint64_t v) {
  h ^= v + 0x9e3779b97f4a7c15ULL + (h << 6) + (h >> 2);
  uint64_t x = h; return splitmix64(x);
}

struct Rng {
  uint64_t s[4];
  explicit Rng(uint64_t seed = 1) { reseed(seed); }
  void reseed(uint64_t seed) { uint64_t x = seed; for (auto& v : s) v = splitmix64(x); }
  static uint64_t rotl(uint64_t x, int k) { return (x << k) | (x >> (64 - k)); }
  uint64_t next() {
    const uint64_t result = rotl(s[1] * 5, 7) * 9;
    const uint64_t t = s[1] << 17;
    s[2] ^= s[0]; s[3] ^= s[1]; s[1] ^= s[2]; s[0] ^= s[3]; s[2] ^= t; s[3] = rotl(s[3], 45);
    return result;
  }
  // uniform in [0, n)   (n > 0)
  uint64_t below(uint64_t n) { return n ? next() % n : 0; }
  // uniform in [lo, hi]
  long range(long lo, long hi) { return lo + (long)below((uint64_t)(hi - lo + 1)); }
  bool chance(unsigned num, unsigned den) { return below(den) < num; }
  double unit() { return (next() >> 11) * (1.0 / 9007199254740992.0); }
  template <class T> const T& pick(const std::vector<T>& v) { return v[below(v.size())]; }
  template <class T> void shuffle(std::vector<T>& v) {
    for (size_t i = v.size(); i > 1; --i) std::swap(v[i - 1], v[below(i)]);
  }
};

// ------------------------------------------------------------------ json helpers
inline std::string jesc(const std::string& s) {
  std::string o; o.reserve(s.size() + 8);
  for (unsigned char c : s) {
    switch (c) {
      case '"': o += "\\\""; break;
      case '\\': o += "\\\\"; break;
      case '\n': o += "\\n"; break;
      case '\t': o += "\\t"; break;
      case '\r': o += "\\r"; break;
      default:
        if (c < 0x20) { char b[8]; snprintf(b, sizeof b, "\\u%04x", c); o += b; }
        else o += (char)c;
    }
  }
  return o;
}
template <class T> std::string str(const T& v) { std::ostringstream o; o.precision(17); o << v; return o.str(); }
template <class T> std::string vstr(const std::vector<T>& v) {
  std::ostringstream o; o.precision(17); o << "[";
  for (size_t i = 0; i < v.size(); ++i) { if (i) o << ","; o << v[i]; }
  o << "]"; return o.str();
}

// ------------------------------------------------------------------ global run state
struct Global {
  int out_fd = 1;
  std::string config, tier = "quick";
  uint64_t seed = 1;
  long from = 0, to = 0;
  bool verbose = false;
  long cur_case = -1;
  std::string history;                 // history of the current case, appended step by step
  std::map<std::string, uint64_t> counters;
  std::unordered_set<uint64_t> nontrivial;
  std::vector<std::string> samples;    // json fragments
  long cases_done = 0;
  long violations = 0;
  size_t max_samples = 4;
  size_t max_history = 1 << 20;
};
inline Global& G() { static Global g; return g; }

inline void raw_write(const std::string& s) {
  const char* p = s.data(); size_t n = s.size();
  while (n) { ssize_t w = ::write(G().out_fd, p, n); if (w <= 0) break; p += w; n -= (size_t)w; }
}

// called from signal handler / __asan_on_error: dump the history of the running case
inline void dump_history_on_fatal() {
  static volatile sig_atomic_t once = 0;
  if (once) return; once = 1;
  Global& g = G();
  if (g.cur_case < 0) return;
  std::string s = "{\"t\":\"H\",\"k\":" + std::to_string(g.cur_case) + ",\"history\":\"" + jesc(g.history) + "\"}\n";
  raw_write(s);
}
inline void fatal_signal_handler(int sig) {
  dump_history_on_fatal();
  signal(sig, SIG_DFL);
  raise(sig);
}

// ------------------------------------------------------------------ per-case context
struct Case {
  Rng rng;
  long k;
  bool thorough;
  bool failed = false;
  explicit Case(uint64_t s, long k_, bool th) : rng(s), k(k_), thorough(th) {}

  // append one step to the case's history (kept for replay / witness)
  void log(const std::string& s) {
    Global& g = G();
    if (g.history.size() < g.max_history) { g.history += s; g.history += '\n'; }
    if (g.verbose) fprintf(stderr, "  | %s\n", s.c_str());
  }
  void count(const std::string& name, uint64_t n = 1) { G().counters[name] += n; }
  // mark the case as non-trivial, with a hash that identifies the case's content
  void nontrivial(uint64_t h) { G().nontrivial.insert(h); }
  void sample(const std::string& json_fragment) {
    Global& g = G();
    if (g.samples.size() < g.max_samples) g.samples.push_back(json_fragment);
  }
  // report an oracle mismatch.  check = which monitor assertion, sig = stable classification of the situation
  void violation(const std::string& check, const std::string& sig, const std::string& detail) {
    Global& g = G();
    failed = true; g.violations++;
    std::string s = "{\"t\":\"V\",\"k\":" + std::to_string(k) + ",\"check\":\"" + jesc(check) + "\",\"sig\":\"" + jesc(sig) +
                    "\",\"detail\":\"" + jesc(detail) + "\",\"history\":\"" + jesc(g.history) + "\"}\n";
    raw_write(s);
    if (g.verbose) fprintf(stderr, "VIOLATION-IN-HARNESS check=%s sig=%s detail=%s\n", check.c_str(), sig.c_str(), detail.c_str());
  }
  // convenience: returns cond; reports when false
  bool expect(bool cond, const std::string& check, const std::string& sig, const std::string& detail) {
    count("cmp." + check);
    if (!cond) violation(check, sig, detail);
    return cond;
  }
};

using CaseFn = std::function<void(Case&)>;
struct Registry {
  std::vector<std::pair<std::string, CaseFn>> configs;
  static Registry& get() { static Registry r; return r; }
};
struct Registrar {
  Registrar(const char* name, CaseFn f) { Registry::get().configs.emplace_back(name, std::move(f)); }
};
#define VH_CAT2(a, b) a##b
#define VH_CAT(a, b) VH_CAT2(a, b)
#define VH_CONFIG(name, fn) static ::vh::Registrar VH_CAT(vh_reg_, __COUNTER__)(name, fn)

inline int run_main(int argc, char** argv) {
  Global& g = G();
  std::string out;
  for (int i = 1; i < argc; ++i) {
    std::string a = argv[i];
    auto nxt = [&]() -> std::string { return (i + 1 < argc) ? argv[++i] : ""; };
    if (a == "--config") g.config = nxt();
    else if (a == "--seed") g.seed = strtoull(nxt().c_str(), nullptr, 10);
    else if (a == "--from") g.from = atol(nxt().c_str());
    else if (a == "--to") g.to = atol(nxt().c_str());
    else if (a == "--tier") g.tier = nxt();
    else if (a == "--out") out = nxt();
    else if (a == "--verbose") g.verbose = true;
    else if (a == "--list") { for (auto& c : Registry::get().configs) printf("%s\n", c.first.c_str()); return 0; }
    else { fprintf(stderr, "unknown arg %s\n", a.c_str()); return 2; }
  }
  CaseFn fn;
  for (auto& c : Registry::get().configs) if (c.first == g.config) fn = c.second;
  if (!fn) { fprintf(stderr, "unknown config '%s'\n", g.config.c_str()); return 2; }
  if (!out.empty()) {
    g.out_fd = ::open(out.c_str(), O_WRONLY | O_CREAT | O_APPEND, 0644);
    if (g.out_fd < 0) { perror("open out"); return 2; }
  }
  g.history.reserve(1 << 16);
#if defined(__SANITIZE_ADDRESS__)
#define VH_UNDER_ASAN 1
#elif defined(__has_feature)
#if __has_feature(address_sanitizer)
#define VH_UNDER_ASAN 1
#endif
#endif
#ifndef VH_UNDER_ASAN
  // (AddressSanitizer handles SEGV/BUS/FPE itself: its report names the faulting frame, and __asan_on_error dumps the history)
  signal(SIGSEGV, fatal_signal_handler);
  signal(SIGFPE, fatal_signal_handler);
  signal(SIGBUS, fatal_signal_handler);
#endif
#if !defined(__SANITIZE_THREAD__)
  // (under ThreadSanitizer a SIGABRT handler deadlocks the runtime's abort_on_error path)
  signal(SIGABRT, fatal_signal_handler);
#endif
  signal(SIGILL, fatal_signal_handler);
  const bool thorough = (g.tier == "thorough");
  uint64_t base = hash_mix(hash_str(g.config), g.seed);
  for (long k = g.from; k < g.to; ++k) {
    g.cur_case = k;
    g.history.clear();
    raw_write("{\"t\":\"B\",\"k\":" + std::to_string(k) + "}\n");
    Case c(hash_mix(base, (uint64_t)k), k, thorough);
    try {
      fn(c);
    } catch (const std::exception& e) {
      c.violation("harness.uncaught_exception", std::string("what=") + e.what(), e.what());
    }
    g.cases_done++;
  }
  g.cur_case = -1;
  std::string s = "{\"t\":\"S\",\"cases\":" + std::to_string(g.cases_done) + ",\"violations\":" + std::to_string(g.violations) + ",\"counters\":{";
  bool first = true;
  for (auto& kv : g.counters) { if (!first) s += ","; first = false; s += "\"" + jesc(kv.first) + "\":" + std::to_string(kv.second); }
  s += "},\"nontrivial\":[";
  first = true; size_t cnt = 0;
  for (uint64_t h : g.nontrivial) { if (cnt++ >= 400000) break; if (!first) s += ","; first = false; s += "\"" + std::to_string(h) + "\""; }
  s += "],\"nontrivial_count\":" + std::to_string(g.nontrivial.size()) + ",\"samples\":[";
  first = true;
  for (auto& sm : g.samples) { if (!first) s += ","; first = false; s += sm; }
  s += "]}\n";
  raw_write(s);
  return 0;
}

}  // namespace vh

// AddressSanitizer calls __asan_on_error (weak hook) just before it prints its report.
#define VH_MAIN()                                                              \
  extern "C" void __asan_on_error() { ::vh::dump_history_on_fatal(); }         \
  int main(int argc, char** argv) { return ::vh::run_main(argc, argv); }

#endif  // VERIF_VH_H_

// Independent oracle for C18: persistence landscapes straight from their definition (no GUDHI includes).
//
// Convention (the one documented in Persistence_representations_doc.h and used by both GUDHI classes):
//   f_(b,d)(t) = max(0, min(t - b, d - t))                (NO division by two)
//   lambda_k(t) = (k+1)-th largest of { f_(b_i,d_i)(t) }  for k = 0, 1, ...   (levels are 0-based in the API),
//   lambda_k = 0 for k >= number of intervals.
// A "function" of the vector space is a finite linear combination  sum_j coef_j * landscape(D_j)  (level-wise).
// Every such function is piecewise linear in t with breakpoints contained in knots(): b_i, d_i, (b_i+d_i)/2 and
// all (d_i+b_j)/2 (the only places where a descending and an ascending tent can cross).  Integrals are computed
// exactly piece by piece on those merged breakpoints (closed forms for linear pieces), never by quadrature.
#ifndef C18_LANDSCAPE_DEF_H_
#define C18_LANDSCAPE_DEF_H_

#include <vector>
#include <utility>
#include <algorithm>
#include <cmath>
#include <functional>

namespace lsdef {

typedef std::vector<std::pair<double, double> > Diagram;

inline double tent(double b, double d, double t) { return std::max(0.0, std::min(t - b, d - t)); }

// all levels at t: tent values sorted from largest to smallest (size = number of intervals)
inline std::vector<double> levels_at(const Diagram& D, double t) {
  std::vector<double> v; v.reserve(D.size());
  for (auto& p : D) v.push_back(tent(p.first, p.second, t));
  std::sort(v.begin(), v.end(), std::greater<double>());
  return v;
}
inline double lambda(const Diagram& D, size_t k, double t) {
  if (k >= D.size()) return 0;
  return levels_at(D, t)[k];
}

// superset of the breakpoints of every level of the landscape of D, sorted, unique
inline std::vector<double> knots(const Diagram& D) {
  std::vector<double> x;
  for (auto& p : D) { x.push_back(p.first); x.push_back(p.second); }
  for (auto& p : D) for (auto& q : D) x.push_back((p.second + q.first) / 2);  // includes (b_i+d_i)/2
  std::sort(x.begin(), x.end());
  x.erase(std::unique(x.begin(), x.end()), x.end());
  return x;
}

struct Term { double coef; const Diagram* D; };

// level-wise linear combination of landscapes
struct Fn {
  std::vector<Term> terms;
  Fn() {}
  explicit Fn(const Diagram& D) { terms.push_back(Term{1.0, &D}); }
  size_t nlevels() const { size_t n = 0; for (auto& t : terms) n = std::max(n, t.D->size()); return n; }
  double eval(size_t k, double t) const {
    double s = 0;
    for (auto& tm : terms) s += tm.coef * lambda(*tm.D, k, t);
    return s;
  }
  // all levels 0..nlevels()-1 at t
  std::vector<double> eval_all(double t) const {
    std::vector<double> out(nlevels(), 0.0);
    for (auto& tm : terms) {
      std::vector<double> v = levels_at(*tm.D, t);
      for (size_t k = 0; k < v.size(); ++k) out[k] += tm.coef * v[k];
    }
    return out;
  }
  std::vector<double> knots() const {
    std::vector<double> x;
    for (auto& tm : terms) { auto y = lsdef::knots(*tm.D); x.insert(x.end(), y.begin(), y.end()); }
    std::sort(x.begin(), x.end());
    x.erase(std::unique(x.begin(), x.end()), x.end());
    return x;
  }
};
inline Fn scaled(const Fn& f, double c) { Fn r = f; for (auto& t : r.terms) t.coef *= c; return r; }
inline Fn plus(const Fn& f, const Fn& g) { Fn r = f; r.terms.insert(r.terms.end(), g.terms.begin(), g.terms.end()); return r; }
inline Fn minus(const Fn& f, const Fn& g) { return plus(f, scaled(g, -1.0)); }

inline std::vector<double> merged_knots(const Fn& f, const Fn& g) {
  std::vector<double> x = f.knots(), y = g.knots();
  x.insert(x.end(), y.begin(), y.end());
  std::sort(x.begin(), x.end());
  x.erase(std::unique(x.begin(), x.end()), x.end());
  return x;
}

// table of all levels of f on a sorted list of abscissae: tab[i][k]
inline std::vector<std::vector<double> > table(const Fn& f, const std::vector<double>& xs, size_t nlev) {
  std::vector<std::vector<double> > tab(xs.size());
  for (size_t i = 0; i < xs.size(); ++i) { tab[i] = f.eval_all(xs[i]); tab[i].resize(nlev, 0.0); }
  return tab;
}

// closed forms on one linear piece of width w with end values h0, h1
inline double piece_int(double w, double h0, double h1) { return w * (h0 + h1) / 2; }
inline double piece_int_abs(double w, double h0, double h1) {
  if (h0 * h1 >= 0) return w * (std::fabs(h0) + std::fabs(h1)) / 2;
  return w * (h0 * h0 + h1 * h1) / (2 * (std::fabs(h0) + std::fabs(h1)));
}
// integral of |h|^p over the piece, p a positive integer, h linear.  Only sums of non-negative terms: no cancellation.
inline double piece_int_abs_pow(double w, double h0, double h1, int p) {
  double a0 = std::fabs(h0), a1 = std::fabs(h1);
  if (h0 * h1 >= 0) {
    double acc = 0;   // (a1^(p+1) - a0^(p+1)) / (a1 - a0) = sum_j a0^j a1^(p-j)
    for (int j = 0; j <= p; ++j) acc += std::pow(a0, j) * std::pow(a1, p - j);
    return w * acc / (p + 1);
  }
  // crossing: two pieces of widths w*a0/(a0+a1) and w*a1/(a0+a1), each the integral of a power that starts at 0
  return w * (std::pow(a0, p + 1) + std::pow(a1, p + 1)) / ((p + 1) * (a0 + a1));
}
inline double piece_int_prod(double w, double f0, double f1, double g0, double g1) {
  return w * (2 * f0 * g0 + 2 * f1 * g1 + f0 * g1 + f1 * g0) / 6;
}

// integral over R of level k
inline double integral_level(const Fn& f, size_t k) {
  std::vector<double> xs = f.knots();
  double s = 0;
  for (size_t i = 0; i + 1 < xs.size(); ++i) s += piece_int(xs[i + 1] - xs[i], f.eval(k, xs[i]), f.eval(k, xs[i + 1]));
  return s;
}
// integral over R and supremum of every level 0..nlevels()-1 at once (one table of the function instead of one per level)
inline void integrals_and_sups_of_levels(const Fn& f, std::vector<double>& integrals, std::vector<double>& sups) {
  std::vector<double> xs = f.knots();
  size_t nl = f.nlevels();
  auto tab = table(f, xs, nl);
  integrals.assign(nl, 0.0); sups.assign(nl, 0.0);
  for (size_t k = 0; k < nl; ++k)
    for (size_t i = 0; i < xs.size(); ++i) {
      sups[k] = std::max(sups[k], tab[i][k]);
      if (i + 1 < xs.size()) integrals[k] += piece_int(xs[i + 1] - xs[i], tab[i][k], tab[i + 1][k]);
    }
}
// sum over levels of the integral of the (signed) p-th power, p a positive integer (what "integral of the p-th power" means)
inline double integral_pow_all(const Fn& f, int p) {
  std::vector<double> xs = f.knots();
  size_t nl = f.nlevels();
  auto tab = table(f, xs, nl);
  double s = 0;
  for (size_t k = 0; k < nl; ++k)
    for (size_t i = 0; i + 1 < xs.size(); ++i) {
      double w = xs[i + 1] - xs[i], h0 = tab[i][k], h1 = tab[i + 1][k];
      // integral of h^p for linear h: w * sum_{j=0..p} h0^j h1^(p-j) / (p+1)
      double acc = 0;
      for (int j = 0; j <= p; ++j) acc += std::pow(h0, j) * std::pow(h1, p - j);
      s += w * acc / (p + 1);
    }
  return s;
}
inline double integral_all(const Fn& f) { return integral_pow_all(f, 1); }

// ( sum_k  integral |f_k|^p )^(1/p)
inline double norm_p(const Fn& f, int p) {
  std::vector<double> xs = f.knots();
  size_t nl = f.nlevels();
  auto tab = table(f, xs, nl);
  double s = 0;
  for (size_t k = 0; k < nl; ++k)
    for (size_t i = 0; i + 1 < xs.size(); ++i) {
      double w = xs[i + 1] - xs[i];
      s += (p == 1) ? piece_int_abs(w, tab[i][k], tab[i + 1][k]) : piece_int_abs_pow(w, tab[i][k], tab[i + 1][k], p);
    }
  return std::pow(s, 1.0 / p);
}
// max_k sup_t |f_k(t)|
inline double norm_sup(const Fn& f) {
  std::vector<double> xs = f.knots();
  double s = 0;
  for (double x : xs) for (double v : f.eval_all(x)) s = std::max(s, std::fabs(v));
  return s;
}
inline double distance_p(const Fn& f, const Fn& g, int p) { return norm_p(minus(f, g), p); }
inline double distance_sup(const Fn& f, const Fn& g) { return norm_sup(minus(f, g)); }

// sum_k integral f_k g_k
inline double inner(const Fn& f, const Fn& g) {
  std::vector<double> xs = merged_knots(f, g);
  size_t nl = std::max(f.nlevels(), g.nlevels());
  auto tf = table(f, xs, nl), tg = table(g, xs, nl);
  double s = 0;
  for (size_t k = 0; k < nl; ++k)
    for (size_t i = 0; i + 1 < xs.size(); ++i)
      s += piece_int_prod(xs[i + 1] - xs[i], tf[i][k], tf[i + 1][k], tg[i][k], tg[i + 1][k]);
  return s;
}

// sup over t of level k
inline double sup_level(const Fn& f, size_t k) {
  double s = 0;
  for (double x : f.knots()) s = std::max(s, f.eval(k, x));
  return s;
}

// abscissae worth evaluating: every knot, every midpoint between consecutive knots, every zero crossing of any level of f
// between consecutive knots, and points outside the support
inline std::vector<double> eval_points(const Fn& f, const std::vector<double>& extra_knots = std::vector<double>()) {
  std::vector<double> xs = f.knots();
  xs.insert(xs.end(), extra_knots.begin(), extra_knots.end());
  std::sort(xs.begin(), xs.end());
  xs.erase(std::unique(xs.begin(), xs.end()), xs.end());
  std::vector<double> out = xs;
  size_t nl = f.nlevels();
  auto tab = table(f, xs, nl);
  for (size_t i = 0; i + 1 < xs.size(); ++i) {
    out.push_back((xs[i] + xs[i + 1]) / 2);
    for (size_t k = 0; k < nl; ++k) {
      double h0 = tab[i][k], h1 = tab[i + 1][k];
      if (h0 * h1 < 0) out.push_back(xs[i] + (xs[i + 1] - xs[i]) * (h0 / (h0 - h1)));
    }
  }
  if (!xs.empty()) { out.push_back(xs.front() - 1); out.push_back(xs.back() + 1); out.push_back(xs.front() - 0.125); out.push_back(xs.back() + 0.125); }
  else out.push_back(0.0);
  std::sort(out.begin(), out.end());
  out.erase(std::unique(out.begin(), out.end()), out.end());
  return out;
}

}  // namespace lsdef

#endif  // C18_LANDSCAPE_DEF_H_

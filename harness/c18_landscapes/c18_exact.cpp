// C18 — exact persistence landscapes (Persistence_landscape) against the definition in landscape_def.h.
//   config exact_values  : construction + evaluation at every breakpoint / between / outside, all levels, integrals,
//                          vectorize, project_to_R, compute_maximum, number_of_levels constructor
//   config exact_algebra : + - * (both orders) += -= *= /= abs new_abs compute_average are the pointwise operations
//   config exact_metric  : L^1, L^2, sup distances, norms and inner product equal the exact integrals; metric and
//                          bilinearity laws.  One operand may be an average or a difference a*L0 - L1 (an element of the
//                          vector space with negative values and non-monotone levels); 1 case in 3 is translated far from
//                          the origin (the oracle integrates the untranslated diagrams: every quantity is translation
//                          invariant)
//   config exact_edge    : find_max(k) / vectorize(k) for every k in 0..size()+1 (levels that do not exist are the zero
//                          function), diagrams that give no level at all.  Kept apart because an out-of-range read there
//                          kills the process (and the remaining observations of the case with it)
#include <gudhi/Persistence_landscape.h>
#include "common/vh.h"
#include "landscape_def.h"
#include "c18_gen.h"

#include <memory>

using Gudhi::Persistence_representations::Persistence_landscape;
using lsdef::Diagram;
using lsdef::Fn;

namespace {

const double kValTol = 1e-9;   // pointwise values (library divides when it interpolates)
const double kIntTol = 1e-7;   // integrals, distances, inner products (library divides, takes powers and roots)
const double kInf = std::numeric_limits<double>::max();

struct Silence { Silence() { std::clog.rdbuf(nullptr); } } silence_clog;

// dyadic: every coordinate is a multiple of 1/8 -> all arithmetic of the library and of the oracle is exact.
// decimal (1 case in 5): coordinates like 0.3 + j*0.1 that are not representable, as real diagrams are; ties between
// endpoints are then ties of equal doubles (same j), everything else differs by >= step/2.
struct Origin { double origin, step; bool dyadic; };
Origin pick_origin(vh::Rng& r) {
  static const double steps[] = {0.25, 0.25, 0.25, 0.5, 0.125, 1.0};
  static const double origins[] = {0.0, 0.0, 0.0, -3.0, 1.5, 16.0, -0.75};
  static const double dsteps[] = {0.1, 0.3, 0.7};
  static const double dorigins[] = {0.1, 0.3, -0.7, 0.0};
  if (r.chance(1, 5)) return Origin{dorigins[r.below(4)], dsteps[r.below(3)], false};
  return Origin{origins[r.below(7)], steps[r.below(6)], true};
}
std::string coords(const Origin& o) { return o.dyadic ? "" : ",coords=decimal"; }

std::string point_class(const std::vector<double>& knots, double x) {
  if (knots.empty() || x < knots.front() || x > knots.back()) return "outside";
  return std::binary_search(knots.begin(), knots.end(), x) ? "breakpoint" : "between";
}

// compares all levels 0..nlev+1 of a GUDHI landscape with a reference function at the given points.
// want(k, x) must be exact.  returns false after reporting the first mismatch.
template <class Want>
bool check_values(vh::Case& c, const Persistence_landscape& L, const std::vector<double>& xs, const std::vector<double>& knots,
                  size_t nlev, Want want_all, const std::string& check, const std::string& sigpfx) {
  for (double x : xs) {
    std::vector<double> want = want_all(x);
    want.resize(nlev + 2, 0.0);
    std::string pc = point_class(knots, x);
    for (size_t k = 0; k < want.size(); ++k) {
      double got = (k & 1) ? L(unsigned(k), x) : L.compute_value_at_a_given_point(unsigned(k), x);
      c.count("cmp." + check + "." + pc);
      if (!c18::close(got, want[k], kValTol)) {
        c.violation(check, sigpfx + ",at=" + pc + ",level=" + (k < nlev ? "exists" : "beyond"),
                    "level " + vh::str(k) + " at x=" + vh::str(x) + ": got " + vh::str(got) + " want " + vh::str(want[k]));
        return false;
      }
    }
  }
  return true;
}

bool check_scalar(vh::Case& c, double got, double want, double tol, const std::string& check, const std::string& sig, const std::string& what) {
  c.count("cmp." + check);
  if (!c18::close(got, want, tol)) {
    c.violation(check, sig, what + ": got " + vh::str(got) + " want " + vh::str(want));
    return false;
  }
  return true;
}

std::vector<double> with_random_points(vh::Rng& r, std::vector<double> xs, const Origin& o, int R, int n) {
  for (int i = 0; i < n; ++i) xs.push_back(o.origin + (double)r.range(-8, 4 * R + 8) * o.step / 4);
  std::sort(xs.begin(), xs.end());
  xs.erase(std::unique(xs.begin(), xs.end()), xs.end());
  return xs;
}

bool nontrivial_diag(const c18::DiagInfo& d) { return d.iv.size() >= 3 && d.overlap; }

// ------------------------------------------------------------------------------------------------ exact_values
void values_case(vh::Case& c) {
  vh::Rng& r = c.rng;
  Origin o = pick_origin(r);
  c18::GenOpts go; go.R = 32; go.max_m = (c.thorough && r.chance(1, 5)) ? 20 : 12;
  const bool large = r.chance(1, 25);   // 20-80 intervals, either crowded (41 possible coordinates: heavy ties) or spread out
  if (large) { go.min_m = 20; go.max_m = 80; go.R = r.chance(1, 2) ? 40 : 400; c.count("diag.large.exact"); }
  c18::DiagInfo di = c18::gen_diagram(r, go);
  Diagram D = c18::to_coords(di, o.origin, o.step);
  c18::count_classes(c, di);
  c.log("diagram " + c18::show(D));
  const std::string cls = "diagram=" + di.cls() + coords(o);
  c.count(o.dyadic ? "diag.coords.dyadic" : "diag.coords.decimal");
  const size_t m = D.size();

  Persistence_landscape L(D);
  Fn f(D);
  std::vector<double> knots = f.knots();
  std::vector<double> xs = with_random_points(r, lsdef::eval_points(f), o, go.R, 6);
  if (large && xs.size() > 300) {   // thousands of candidate breakpoints: a random sample of them (all levels at each)
    r.shuffle(xs); xs.resize(300); std::sort(xs.begin(), xs.end());
  }
  std::vector<double> want_int, want_sup;
  lsdef::integrals_and_sups_of_levels(f, want_int, want_sup);
  want_int.resize(std::max(m, L.size()) + 2, 0.0); want_sup.resize(std::max(m, L.size()) + 2, 0.0);
  c.log("construct; evaluate " + vh::str(xs.size()) + " points x " + vh::str(m + 2) + " levels");
  // every block below is a pure query of L: a mismatch in one block does not invalidate the others, so all blocks run
  // (each stops at its own first mismatch)
  bool ok = check_values(c, L, xs, knots, m, [&](double x) { return lsdef::levels_at(D, x); }, "exact.value", cls);

  ok = [&]() -> bool {
  // integrals, every overload
  c.log("integrals");
  double tot1 = 0;
  for (size_t k = 0; k < m + 2; ++k) {
    double want = want_int[k];
    tot1 += want;
    if (!check_scalar(c, L.compute_integral_of_a_level_of_a_landscape(k), want, kIntTol, "exact.integral_level", cls, "integral of level " + vh::str(k))) return false;
    if (!check_scalar(c, L.project_to_R((int)k), want, kIntTol, "exact.project_to_R", cls, "project_to_R(" + vh::str(k) + ")")) return false;
  }
  if (!check_scalar(c, L.compute_integral_of_landscape(), tot1, kIntTol, "exact.integral", cls, "compute_integral_of_landscape()")) return false;
  for (int p = 1; p <= 3; ++p)
    if (!check_scalar(c, L.compute_integral_of_landscape((double)p), lsdef::integral_pow_all(f, p), kIntTol, "exact.integral_p",
                      cls + ",p=" + vh::str(p), "compute_integral_of_landscape(p=" + vh::str(p) + ")")) return false;

    return true;
  }() && ok;

  ok = [&]() -> bool {
  // vectorize: a list of values taken by level k; its largest entry is the supremum of the level
  c.log("vectorize / maximum");
  for (size_t k = 0; k < L.size() && k < L.number_of_vectorize_functions(); ++k) {
    std::vector<double> v = L.vectorize((int)k);
    double sup = want_sup[k], mx = 0;
    bool in_range = true;
    for (double y : v) { mx = std::max(mx, y); if (y < 0 || y > sup + kValTol) in_range = false; }
    c.count("cmp.exact.vectorize");
    if (!in_range || !c18::close(mx, sup, kValTol)) {
      c.violation("exact.vectorize", cls, "vectorize(" + vh::str(k) + ") = " + vh::vstr(v) + " but sup of the level is " + vh::str(sup));
      return false;
    }
  }
  if (!check_scalar(c, L.compute_maximum(), want_sup[0], kValTol, "exact.maximum", cls, "compute_maximum()")) return false;
  // find_max(k): supremum of level k (levels k >= size(): config exact_edge)
  for (size_t k = 0; k < L.size(); ++k)
    if (!check_scalar(c, L.find_max((unsigned)k), want_sup[k], kValTol, "exact.find_max", cls + ",level=exists", "find_max(" + vh::str(k) + ")")) return false;

    return true;
  }() && ok;

  ok = [&]() -> bool {
  // constructor that builds only the first nl levels: those levels must still be the definition
  if (m >= 1 && r.chance(1, 2)) {
    size_t nl = 1 + r.below(m + 1);
    c.log("construct with number_of_levels=" + vh::str(nl));
    Persistence_landscape Lc(D, nl);
    c.count("op.construct_limited_levels");
    for (double x : xs) {
      std::vector<double> want = lsdef::levels_at(D, x);
      for (size_t k = 0; k < nl && k < m; ++k) {
        double got = Lc.compute_value_at_a_given_point(unsigned(k), x);
        c.count("cmp.exact.value_limited");
        if (!c18::close(got, want[k], kValTol)) {
          c.violation("exact.value_limited_levels", cls + ",at=" + point_class(knots, x),
                      "number_of_levels=" + vh::str(nl) + " level " + vh::str(k) + " at x=" + vh::str(x) + ": got " + vh::str(got) + " want " + vh::str(want[k]));
          return false;
        }
      }
    }
  }
    return true;
  }() && ok;

  if (ok && nontrivial_diag(di)) c.nontrivial(vh::hash_str(vh::G().history));
  c.sample("{\"history\":\"" + vh::jesc(vh::G().history.substr(0, 600)) + "\"}");
}

// ------------------------------------------------------------------------------------------------ exact_algebra
struct Three {
  Origin o; c18::DiagInfo di[3]; Diagram D[3];
};
Three gen_three(vh::Case& c, int max_m) {
  vh::Rng& r = c.rng;
  Three t;
  t.o = pick_origin(r);
  c.count(t.o.dyadic ? "diag.coords.dyadic" : "diag.coords.decimal");
  c18::GenOpts go; go.R = 32; go.max_m = max_m;
  for (int i = 0; i < 3; ++i) {
    if (i > 0 && r.chance(1, 10)) t.di[i] = t.di[r.below(i)];           // identical operands
    else t.di[i] = c18::gen_diagram(r, go);
    t.D[i] = c18::to_coords(t.di[i], t.o.origin, t.o.step);
    c18::count_classes(c, t.di[i]);
    c.log("D" + vh::str(i) + " " + c18::show(t.D[i]));
  }
  return t;
}
std::string cls3(const Three& t) {
  bool z = t.di[0].zero || t.di[1].zero || t.di[2].zero, ti = t.di[0].tie() || t.di[1].tie() || t.di[2].tie();
  return std::string("diagrams=") + (z ? "zero_len" : ti ? "ties" : "generic") + coords(t.o);
}

const double kScalars[] = {-2.0, -1.0, -0.5, 0.5, 1.5, 2.0, 3.0, 0.0, 1.0, 0.25};

// evaluates result R against oracle function g (|g| if absval) at all interesting points
bool check_fn(vh::Case& c, const Persistence_landscape& Rl, const Fn& g, bool absval, const std::string& check, const std::string& sig,
              vh::Rng& r, const Origin& o) {
  std::vector<double> knots = g.knots();
  std::vector<double> xs = with_random_points(r, lsdef::eval_points(g), o, 32, 4);
  size_t nl = g.nlevels();
  return check_values(c, Rl, xs, knots, nl, [&](double x) {
    std::vector<double> v = g.eval_all(x);
    if (absval) for (double& y : v) y = std::fabs(y);
    return v; }, check, sig);
}

void algebra_case(vh::Case& c) {
  vh::Rng& r = c.rng;
  Three t = gen_three(c, 8);
  const std::string cls = cls3(t);
  Persistence_landscape L0(t.D[0]), L1(t.D[1]), L2(t.D[2]);
  Fn f0(t.D[0]), f1(t.D[1]), f2(t.D[2]);
  const Origin& o = t.o;

  bool ok = true;   // sections are independent pure observations: all run, each stops at its first mismatch
  c.log("L0 + L1"); c.count("op.plus");
  Persistence_landscape S = L0 + L1;
  ok = check_fn(c, S, lsdef::plus(f0, f1), false, "exact.plus", cls, r, o) && ok;
  ok = check_scalar(c, S.compute_integral_of_landscape(), lsdef::integral_all(lsdef::plus(f0, f1)), kIntTol, "exact.integral_of_result", cls + ",op=plus", "integral of L0+L1") && ok;

  c.log("L0 - L1"); c.count("op.minus");
  Persistence_landscape Df = L0 - L1;
  Fn fd = lsdef::minus(f0, f1);
  ok = check_fn(c, Df, fd, false, "exact.minus", cls, r, o) && ok;
  ok = check_scalar(c, Df.compute_integral_of_landscape(), lsdef::integral_all(fd), kIntTol, "exact.integral_of_result", cls + ",op=minus", "integral of L0-L1") && ok;
  ok = check_scalar(c, Df.compute_integral_of_landscape(2.0), lsdef::integral_pow_all(fd, 2), kIntTol, "exact.integral_of_result", cls + ",op=minus,p=2", "integral of (L0-L1)^2") && ok;

  double a = kScalars[r.below(10)], b = kScalars[r.below(10)];
  c.log("L0 * " + vh::str(a) + " ; " + vh::str(b) + " * L1"); c.count("op.times", 2);
  Persistence_landscape M1 = L0 * a, M2 = b * L1;
  ok = check_fn(c, M1, lsdef::scaled(f0, a), false, "exact.times", cls, r, o) && ok;
  ok = check_fn(c, M2, lsdef::scaled(f1, b), false, "exact.times", cls, r, o) && ok;

  c.log("abs(L0 - L1)"); c.count("op.abs");
  Persistence_landscape A = Df.abs();
  ok = check_fn(c, A, fd, true, "exact.abs", cls, r, o) && ok;
  ok = check_scalar(c, A.compute_integral_of_landscape(), lsdef::norm_p(fd, 1), kIntTol, "exact.integral_of_result", cls + ",op=abs", "integral of |L0-L1|") && ok;

  // compound assignments:  T = L0; T += L1; T -= L2; T *= a; T /= q
  static const double kDiv[] = {2.0, -4.0, 0.5, 1.0, 8.0};
  double q = kDiv[r.below(5)];
  c.log("T=L0; T+=L1; T-=L2; T*=" + vh::str(a) + "; T/=" + vh::str(q)); c.count("op.compound");
  Persistence_landscape T = L0; T += L1; T -= L2; T *= a; T /= q;
  Fn ft = lsdef::scaled(lsdef::minus(lsdef::plus(f0, f1), f2), a / q);
  ok = check_fn(c, T, ft, false, "exact.compound_assign", cls, r, o) && ok;
  c.log("abs(T)"); c.count("op.abs");
  Persistence_landscape AT = T.abs();
  ok = check_fn(c, AT, ft, true, "exact.abs", cls, r, o) && ok;

  // the right-hand side is the object itself
  c.log("U=L0; U+=U; V=L1; V-=V"); c.count("op.compound.self.exact", 2);
  {
    Persistence_landscape U = L0; U += U;
    ok = check_fn(c, U, lsdef::scaled(f0, 2.0), false, "exact.compound_assign", cls + ",self", r, o) && ok;
    Persistence_landscape V = L1; V -= V;
    ok = check_fn(c, V, lsdef::scaled(f1, 0.0), false, "exact.compound_assign", cls + ",self", r, o) && ok;
  }

  // averages of 1..5 landscapes (with repetitions)
  int n = 1 + (int)r.below(5);
  std::vector<Persistence_landscape*> ptrs; Fn fav; std::string lg = "average of";
  Persistence_landscape* Ls[3] = {&L0, &L1, &L2};
  for (int i = 0; i < n; ++i) { int j = (int)r.below(3); ptrs.push_back(Ls[j]); fav.terms.push_back(lsdef::Term{1.0 / n, &t.D[j]}); lg += " L" + vh::str(j); }
  c.log(lg); c.count("op.average"); c.count("op.average.n" + vh::str(n));
  const std::string nsig = ",n=" + std::string(n == 1 ? "1" : n == 2 ? "2" : "3+");
  Persistence_landscape Av;
  if (r.chance(1, 2)) Av = L2;   // compute_average must overwrite whatever was stored
  Av.compute_average(ptrs);
  ok = check_fn(c, Av, fav, false, "exact.average", cls + nsig, r, o) && ok;
  // the destination is one of the operands (running average  X = average(X, M, ...)): same function
  {
    Persistence_landscape* dest = ptrs[r.below(ptrs.size())];
    Persistence_landscape X = *dest;
    std::vector<Persistence_landscape*> aliased = ptrs;
    size_t occurrences = 0;
    for (auto& q : aliased) if (q == dest) { q = &X; ++occurrences; }
    c.log("X := L" + vh::str(dest == &L0 ? 0 : dest == &L1 ? 1 : 2) + "; X.compute_average(the same list with X in place of that operand, " + vh::str(occurrences) + " times)");
    c.count("op.average.aliased.exact");
    X.compute_average(aliased);
    ok = check_fn(c, X, fav, false, "exact.average", cls + ",aliased" + nsig, r, o) && ok;
  }

  // new_abs(): same contract as abs(), result on the heap.  Last, because it is the least used entry point.
  c.log("new_abs(L0 - L1)"); c.count("op.new_abs");
  {
    std::unique_ptr<Persistence_landscape> NA(Df.new_abs());
    ok = check_fn(c, *NA, fd, true, "exact.new_abs", cls, r, o) && ok;
  }

  if (ok && nontrivial_diag(t.di[0]) && nontrivial_diag(t.di[1])) c.nontrivial(vh::hash_str(vh::G().history));
  c.sample("{\"history\":\"" + vh::jesc(vh::G().history.substr(0, 700)) + "\"}");
}

// ------------------------------------------------------------------------------------------------ exact_metric
void metric_case(vh::Case& c) {
  vh::Rng& r = c.rng;
  Three t = gen_three(c, 10);
  std::string cls = cls3(t);
  // Far from the origin: the library gets the diagrams translated by T, the oracle keeps the untranslated ones (distances,
  // norms and inner products are translation invariant), so the expected values are as exact as without translation.
  // Dyadic coordinates only: there the translation is exact.
  Diagram DT[3] = {t.D[0], t.D[1], t.D[2]};
  if (t.o.dyadic && r.chance(1, 3)) {
    static const double kFar[] = {1e3, -1e3, 1e5, -1e5, 1e7};
    const double T = kFar[r.below(5)];
    c.log("all three diagrams translated by " + vh::str(T) + " before the landscapes are built");
    c.count("diag.far_origin.exact", 3);
    for (auto& D : DT) for (auto& p : D) { p.first += T; p.second += T; }
    cls += ",far_origin";
  }
  Persistence_landscape L[3] = {Persistence_landscape(DT[0]), Persistence_landscape(DT[1]), Persistence_landscape(DT[2])};
  Fn f[3] = {Fn(t.D[0]), Fn(t.D[1]), Fn(t.D[2])};
  if (r.chance(1, 4)) {   // third operand is an average landscape
    c.log("L2 := average(L0, L1, L2)"); c.count("op.average_as_operand");
    Persistence_landscape Av; Av.compute_average({&L[0], &L[1], &L[2]});
    Fn fav; for (int j = 0; j < 3; ++j) fav.terms.push_back(lsdef::Term{1.0 / 3, &t.D[j]});
    L[2] = Av; f[2] = fav; cls += ",with_average";
  } else if (r.chance(1, 3)) {
    // an element of the vector space that is not the landscape of a diagram: its levels are not decreasing in k and it can
    // be negative, also on levels that the other operand does not have (same operand as config grid_metric)
    double a = 1 + (double)r.below(3);
    c.log("L2 := " + vh::str(a) + "*L0 - L1"); c.count("op.difference_as_operand.exact");
    Persistence_landscape Df = a * L[0] - L[1];
    Fn fd = lsdef::minus(lsdef::scaled(f[0], a), f[1]);
    L[2] = Df; f[2] = fd; cls += ",with_difference";
  }
  // The observations below are pure queries, so a mismatch in one section (one exponent, or the inner product)
  // does not invalidate the others: every section runs, each stops at its own first mismatch.
  bool ok = true;
  static const double ps[] = {1.0, 2.0, kInf, std::numeric_limits<double>::infinity()};
  static const char* pn[] = {"1", "2", "sup", "sup"};
  for (int pi = 0; pi < 4; ++pi) {
    if (pi == 3 && !r.chance(1, 4)) continue;
    const double p = ps[pi];
    const bool sup = pi >= 2;
    std::string sp = cls + ",p=" + pn[pi];
    double d[3][3];
    bool sec = true;
    for (int i = 0; i < 3 && sec; ++i) for (int j = 0; j < 3 && sec; ++j) {
      c.log("distance(L" + vh::str(i) + ", L" + vh::str(j) + ", p=" + pn[pi] + ")");
      d[i][j] = L[i].distance(L[j], p);
      c.count("op.distance.p" + std::string(pn[pi]));
      double want = (i == j) ? 0.0 : (sup ? lsdef::distance_sup(f[i], f[j]) : lsdef::distance_p(f[i], f[j], (int)p));
      sec = check_scalar(c, d[i][j], want, kIntTol, i == j ? "exact.distance_self_zero" : "exact.distance", sp,
                         "distance(L" + vh::str(i) + ",L" + vh::str(j) + ")");
    }
    for (int i = 0; i < 3 && sec; ++i) for (int j = i + 1; j < 3 && sec; ++j)
      sec = check_scalar(c, d[i][j], d[j][i], kIntTol, "exact.distance_symmetric", sp, "d(Li,Lj) vs d(Lj,Li)");
    for (int i = 0; i < 3 && sec; ++i) for (int j = 0; j < 3 && sec; ++j) for (int k = 0; k < 3 && sec; ++k) {
      c.count("cmp.exact.triangle");
      if (!(d[i][k] <= d[i][j] + d[j][k] + kIntTol * std::max(1.0, d[i][k]))) {
        c.violation("exact.triangle_inequality", sp, "d(" + vh::str(i) + "," + vh::str(k) + ")=" + vh::str(d[i][k]) + " > " + vh::str(d[i][j]) + " + " + vh::str(d[j][k]));
        sec = false;
      }
    }
    // norm = distance to the zero landscape
    if (sec) c.log("compute_norm_of_landscape(p=" + std::string(pn[pi]) + ")");
    for (int i = 0; i < 3 && sec; ++i) {
      double want = sup ? lsdef::norm_sup(f[i]) : lsdef::norm_p(f[i], (int)p);
      sec = check_scalar(c, L[i].compute_norm_of_landscape(p), want, kIntTol, "exact.norm", sp, "norm of L" + vh::str(i));
    }
    ok = ok && sec;
  }
  // inner product
  double ip[3][3];
  bool sec = true;
  for (int i = 0; i < 3 && sec; ++i) for (int j = 0; j < 3 && sec; ++j) {
    c.log("compute_scalar_product(L" + vh::str(i) + ", L" + vh::str(j) + ")");
    ip[i][j] = L[i].compute_scalar_product(L[j]);
    c.count("op.scalar_product");
    sec = check_scalar(c, ip[i][j], lsdef::inner(f[i], f[j]), kIntTol, "exact.inner_product", cls, "<L" + vh::str(i) + ",L" + vh::str(j) + ">");
  }
  for (int i = 0; i < 3 && sec; ++i) for (int j = i + 1; j < 3 && sec; ++j)
    sec = check_scalar(c, ip[i][j], ip[j][i], kIntTol, "exact.inner_product_symmetric", cls, "<Li,Lj> vs <Lj,Li>");
  if (sec) {
    double a = kScalars[r.below(10)], b = kScalars[r.below(10)];
    c.log("bilinearity: <" + vh::str(a) + "*L0 + " + vh::str(b) + "*L1, L2> and in the second argument");
    Persistence_landscape Cmb = a * L[0] + b * L[1];
    Fn fc = lsdef::plus(lsdef::scaled(f[0], a), lsdef::scaled(f[1], b));
    double lhs = Cmb.compute_scalar_product(L[2]), lhs2 = L[2].compute_scalar_product(Cmb);
    c.count("op.scalar_product", 2);
    double scale = std::max(1.0, std::fabs(a * ip[0][2]) + std::fabs(b * ip[1][2]));
    sec = check_scalar(c, lhs, lsdef::inner(fc, f[2]), kIntTol * scale, "exact.inner_product", cls + ",combination", "<aL0+bL1,L2>");
    c.count("cmp.exact.bilinear", 2);
    if (sec && std::fabs(lhs - (a * ip[0][2] + b * ip[1][2])) > kIntTol * scale) {
      c.violation("exact.inner_product_bilinear", cls + ",first_argument", "<aL0+bL1,L2>=" + vh::str(lhs) + " but a<L0,L2>+b<L1,L2>=" + vh::str(a * ip[0][2] + b * ip[1][2]));
      sec = false;
    }
    if (sec && std::fabs(lhs2 - (a * ip[2][0] + b * ip[2][1])) > kIntTol * scale) {
      c.violation("exact.inner_product_bilinear", cls + ",second_argument", "<L2,aL0+bL1>=" + vh::str(lhs2) + " but a<L2,L0>+b<L2,L1>=" + vh::str(a * ip[2][0] + b * ip[2][1]));
      sec = false;
    }
  }
  ok = ok && sec;
  if (ok && nontrivial_diag(t.di[0]) && nontrivial_diag(t.di[1])) c.nontrivial(vh::hash_str(vh::G().history));
  c.sample("{\"history\":\"" + vh::jesc(vh::G().history.substr(0, 700)) + "\"}");
}

// ------------------------------------------------------------------------------------------------ exact_edge
// Level numbers around size(): a level that does not exist is the zero function (compute_value_at_a_given_point,
// compute_integral_of_a_level_of_a_landscape and project_to_R say so for every k >= size()), so its supremum is 0 and the
// values it takes are all 0 (an empty list of values is accepted).
void edge_case(vh::Case& c) {
  vh::Rng& r = c.rng;
  Origin o = pick_origin(r);
  c18::GenOpts go; go.R = 32; go.max_m = 6;
  c18::DiagInfo di;
  unsigned u = (unsigned)r.below(6);
  if (u == 0) { /* empty diagram: no level at all */ }
  else if (u == 1) { int x = c18::coord(r, go); di.iv.push_back(std::make_pair(x, x)); if (r.chance(1, 2)) di.iv.push_back(std::make_pair(x, x)); c18::classify(di); }  // zero-length only
  else di = c18::gen_diagram(r, go);
  Diagram D = c18::to_coords(di, o.origin, o.step);
  c18::count_classes(c, di);
  c.log("diagram " + c18::show(D));
  const std::string cls = "diagram=" + std::string(D.empty() ? "empty" : di.cls()) + coords(o);
  Persistence_landscape L(D);
  Fn f(D);
  const size_t sz = L.size();
  c.count(sz == 0 ? "edge.landscape_without_levels" : "edge.landscape_with_levels");
  bool ok = true;
  // k == size() comes last and only in one case out of three: where the library reads out of range there, the process dies
  // and takes the rest of the case (and the counters of its shard) with it
  std::vector<size_t> ks;
  for (size_t k = 0; k <= sz + 1; ++k) if (k != sz) ks.push_back(k);
  if (r.chance(1, 3)) ks.push_back(sz);
  const bool vectorize_first = r.chance(1, 2);
  for (size_t k : ks) {
    if (!ok) break;
    const char* lname = k < sz ? "exists" : k == sz ? "size" : "beyond_size";
    const std::string lv = std::string(",level=") + lname;
    const double sup = lsdef::sup_level(f, k);
    for (int step = 0; step < 2 && ok; ++step) {
      if ((step == 0) == vectorize_first) {
        c.log("vectorize(" + vh::str(k) + ") with size()=" + vh::str(sz));
        std::vector<double> v = L.vectorize((int)k);
        c.count(std::string("edge.vectorize.") + lname);
        double mx = 0; bool in_range = true;
        for (double y : v) { mx = std::max(mx, y); if (y < 0 || y > sup + kValTol) in_range = false; }
        c.count("cmp.exact.vectorize");
        if (!in_range || !c18::close(mx, sup, kValTol)) {
          c.violation("exact.vectorize", cls + lv, "vectorize(" + vh::str(k) + ") = " + vh::vstr(v) + " but sup of the level is " + vh::str(sup));
          ok = false;
        }
      } else {
        c.log("find_max(" + vh::str(k) + ") with size()=" + vh::str(sz));
        const double got = L.find_max((unsigned)k);
        c.count(std::string("edge.find_max.") + lname);
        ok = check_scalar(c, got, sup, kValTol, "exact.find_max", cls + lv, "find_max(" + vh::str(k) + ")");
      }
    }
  }
  if (ok) ok = check_scalar(c, L.compute_maximum(), lsdef::sup_level(f, 0), kValTol, "exact.maximum", cls, "compute_maximum()");
  if (ok && sz >= 1) c.nontrivial(vh::hash_str(vh::G().history));
  c.sample("{\"history\":\"" + vh::jesc(vh::G().history.substr(0, 600)) + "\"}");
}

template <void (*F)(vh::Case&)>
void guarded(vh::Case& c) {
  try { F(c); }
  catch (const char* s) { c.violation("exact.unexpected_throw", std::string("const_char*"), std::string("library threw: ") + s); }
}

}  // namespace

VH_CONFIG("exact_values", guarded<values_case>);
VH_CONFIG("exact_algebra", guarded<algebra_case>);
VH_CONFIG("exact_metric", guarded<metric_case>);
VH_CONFIG("exact_edge", guarded<edge_case>);
VH_MAIN()

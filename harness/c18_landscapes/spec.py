_QUICK_FLOORS = {
    # diagram classes (all six configs together; a quick run generates ~46 000 diagrams, ~87 % with a tie)
    "diag.tie": 20000, "diag.repeated": 10000, "diag.equal_birth": 12000, "diag.equal_death": 12000,
    "diag.touching": 11000, "diag.nested": 11000, "diag.zero_length": 1800, "diag.coords.decimal": 1100,
    "diag.align.all_odd": 3500, "diag.align.mixed_parity": 600,
    # pointwise comparisons with the definition
    "cmp.exact.value.breakpoint": 600000, "cmp.exact.value.between": 600000, "cmp.exact.value.outside": 150000,
    "cmp.grid.value.grid_point": 850000, "cmp.grid.value.between": 1900000,
    "cmp.exact.value_limited": 300000, "cmp.grid.value_limited_levels.grid_point": 400000,
    "op.construct_limited_levels.truncating": 1100,
    "cmp.exact.plus.breakpoint": 300000, "cmp.exact.minus.breakpoint": 300000, "cmp.exact.times.breakpoint": 340000,
    "cmp.exact.abs.breakpoint": 700000, "cmp.exact.average.breakpoint": 300000, "cmp.exact.new_abs.breakpoint": 300000,
    "cmp.grid.plus.grid_point": 400000, "cmp.grid.minus.grid_point": 400000, "cmp.grid.abs.grid_point": 800000,
    "cmp.grid.average.grid_point": 390000, "op.average": 3000,
    # integrals, metric, inner product
    "cmp.exact.integral_level": 25000, "cmp.exact.integral_p": 9000, "cmp.grid.integral_level": 18000,
    "cmp.grid.integral_p_level": 54000, "cmp.exact.vectorize": 13000, "cmp.grid.vectorize": 24000,
    "cmp.exact.distance": 29000, "cmp.grid.distance": 27000, "cmp.exact.triangle": 130000, "cmp.grid.triangle": 130000,
    "cmp.exact.inner_product": 15000, "cmp.grid.inner_product": 15000, "cmp.exact.bilinear": 3000, "cmp.grid.bilinear": 3000,
    "op.average_as_operand": 750,
    "_distinct_nontrivial": 7500,
    # input classes added after the audit of the quantifier (each floor ~ half of what seed 1 measures)
    "diag.far_origin.exact": 1100, "diag.far_origin.grid": 1300,            # diagrams translated by +-1e3, +-1e5, 1e7 (metric configs)
    "op.difference_as_operand.exact": 350, "op.difference_as_operand": 350, # a*L0 - L1 as an operand of the metric checks (exact / grid)
    "op.average.aliased.exact": 1500, "op.average.aliased.grid": 1500, "cmp.grid.average.x_range": 1500,
    "op.compound.self.exact": 3000, "op.compound.self.grid": 3000,          # T += T, T -= T
    "cmp.exact.find_max": 16000, "edge.find_max.size": 100, "edge.vectorize.size": 100,
    "edge.find_max.beyond_size": 300, "edge.vectorize.beyond_size": 300, "edge.landscape_without_levels": 50,
    "grid.decimal": 650,                                                      # grids with dx = 0.1, 0.01, 0.3
    "cmp.grid.maximum": 2300, "cmp.grid.find_max": 20000, "op.find_max.zero_level": 9000, "cmp.grid.y_range": 2300,
    "state.zero_function": 55, "cmp.grid.distance_friend_function": 16000,
    "cmp.grid.value.default_constructed_at_0": 20,
    "diag.large.exact": 110, "diag.large.grid": 60,                          # 20-80 / 20-48 intervals
}

SPEC = {
    "property": "C18",
    "rule": "each case draws 1 (values configs) or 3 (algebra / metric configs) diagrams of 0-12 intervals (thorough: up to 20; values "
            "configs: 1 case in 25 / 40 has 20-80 / 20-48 intervals) in integer "
            "units, with six generator styles that force repeated, nested, equal-birth, equal-death, touching and zero-length intervals, and "
            "maps them to dyadic coordinates (1 exact case in 5: non-representable decimals such as 0.3+0.1j; gridded: endpoints on grid "
            "points of a dyadic grid of 16-128 cells, all of one parity, or of mixed parity in config grid_values; 1 grid_values case in 4 "
            "uses a decimal grid with dx = 0.1, 0.01 or 0.3 whose grid_min, grid_max and endpoints are the doubles nearest to the decimal "
            "numbers, as strtod returns them). Persistence_landscape and "
            "Persistence_landscape_on_grid built from them are compared with the definition lambda_k(t) = (k+1)-th largest of "
            "max(0,min(t-b,d-t)) (harness/c18_landscapes/landscape_def.h): every level 0..m+1 at every candidate breakpoint "
            "{b, d, (d_i+b_j)/2}, every midpoint between consecutive breakpoints, every zero crossing and points outside the support "
            "(exact form; a random sample of 300 of these points for the large diagrams), at every grid point and at 1/4, 1/2, 3/4 of every "
            "cell (gridded form); the results of + - * (both orders) "
            "+= -= *= /= (also T += T and T -= T) abs new_abs compute_average (also with the destination among the operands) at the same "
            "points against the pointwise operation on the definition; all overloads "
            "of compute_integral_of_landscape, project_to_R, vectorize, compute_maximum, find_max (exact: every k in 0..size()+1, config "
            "exact_edge; grid: 0..m+1), get_y_range (grid), the limited-levels constructors; distance "
            "(p = 1, 2, max(), infinity), the friend compute_distance_of_landscapes_on_grid with p = max(), compute_norm_of_landscape and "
            "compute_scalar_product against exact piecewise closed-form "
            "integrals on the merged breakpoints, plus d(f,f)=0, symmetry, the triangle inequality on all 27 ordered triples, symmetry "
            "and bilinearity (both arguments) of the inner product; in both metric configs the third operand is, 1 case in 4 each, an average "
            "or a difference a*L0 - L1 (negative values, also on levels the other operand does not have), and 1 case in 3 the library gets "
            "the diagrams (and the grid) translated by +-1e3, +-1e5 or 1e7 while the oracle integrates the untranslated ones. "
            "non-trivial = case (distinct by hash of its logged history) whose "
            "(first two) diagram(s) have >= 3 intervals and at least one pair of overlapping intervals, and that passed every comparison",
    "assumptions": [
        "convention followed (documented in Persistence_representations_doc.h and used by both classes): f_(b,d)(t)=max(0,min(t-b,d-t)) "
        "without division by 2; levels are 0-based in the API (level 0 = lambda_1); grid constructor (p, min, max, N) has N+1 points of "
        "spacing (max-min)/N",
        "intervals satisfy b <= d, are finite with |coordinate| < 2e7 (far below the +-INT_MAX sentinels of the exact form), and "
        "(gridded form) lie inside [grid_min, grid_max] with endpoints on grid points (exactly on dyadic grids, up to half an ulp on the "
        "decimal grids); intervals reaching outside the grid and endpoints between grid points are NOT exercised",
        "number_of_levels arguments are >= 1; compute_average gets >= 1 landscape (compute_average({}) is not exercised); a level "
        "k >= size() is the zero function (as compute_value_at_a_given_point and the integrals treat it): find_max(k) = 0 and "
        "vectorize(k) is empty or all zeros; grid vectorize(k) is only called for k < number of grid points (it documents a throw beyond)",
        "suprema of the gridded form (compute_maximum, find_max, get_y_range) are judged only for landscapes of same-parity diagrams "
        "(where both readings of 'maximum of the landscape', level 0 or all levels, agree and every supremum is attained on a grid "
        "point); for differences only the friend L^infinity distance is judged",
        "algebra and metric configs of the gridded form use dyadic grids only (decimal grids: config grid_values); translations far "
        "from the origin are applied to dyadic coordinates only, where they are exact, and only in the metric configs",
        "the default-constructed Persistence_landscape_on_grid (no grid point) is taken to be the zero landscape, as the comment in "
        "compute_average calls it (config grid_edge)",
        "gridded L^1 / L^2 distances are compared with the exact integrals only for pairs whose levels do not cross strictly between "
        "neighbouring grid points (the header documents the inaccuracy for crossing pairs); metric laws are checked for all pairs",
        "tolerances: 1e-9 (values) and 1e-7 (integrals, distances, inner products), relative to max(1,|expected|): the library "
        "divides in every interpolation; dyadic inputs make the expected values exact",
        "the oracle landscape_def.h (definition + closed-form integrals of linear pieces) is the trusted base",
    ],
    "units": [
        {"name": "exact", "src": ["c18_exact.cpp"], "variant": "asan",
         "configs": {"exact_values": {"quick": 6000, "thorough": 300000},
                     "exact_algebra": {"quick": 3000, "thorough": 150000},
                     "exact_metric": {"quick": 3000, "thorough": 150000},
                     "exact_edge": {"quick": 600, "thorough": 30000}}, "chunk": 25},
        {"name": "grid", "src": ["c18_grid.cpp"], "variant": "asan",
         "configs": {"grid_values": {"quick": 6000, "thorough": 300000},
                     "grid_algebra": {"quick": 3000, "thorough": 150000},
                     "grid_metric": {"quick": 3000, "thorough": 150000},
                     "grid_edge": {"quick": 24, "thorough": 1200}}, "chunk": 25},
    ],
    "floors": {"quick": _QUICK_FLOORS,
               "thorough": {k: v * 45 for k, v in _QUICK_FLOORS.items()}},
    "exhaustive": {"quick": False, "thorough": False},
    "manifest": {
        "text": "Runtime monitor: tens of thousands of random tie-rich diagrams (repeated, nested, equal births/deaths, touching, "
                "zero-length intervals; dyadic and decimal coordinates) are turned into Persistence_landscape and "
                "Persistence_landscape_on_grid objects under ASan+UBSan, and every observable of the property is compared with an "
                "independent restatement of the definition: all levels at every breakpoint, between breakpoints, at and between "
                "grid points; sums, differences, scalar multiples, absolute values and averages pointwise; every integral overload, "
                "L^1/L^2/sup distances, norms and inner products against exact closed-form integrals on merged breakpoints; "
                "symmetry, d(f,f)=0, triangle inequality and bilinearity directly. Operands include averages, differences with "
                "negative levels, objects aliased with the destination (T += T, X.compute_average({&X, ...})), diagrams translated up "
                "to 1e7 away from the origin, decimal (non-dyadic) grids, 20-80 intervals, level numbers at and beyond size() and "
                "landscapes without any level. Held-on-what-was-observed, not a proof; "
                "adequate because the functions are piecewise linear with breakpoints in a finite set that is swept completely "
                "for each case, and ten seeded single-site mutations of the anchored code were all detected by the quick tier.",
        "note": "trusted: landscape_def.h oracle (k-th largest tent value, closed-form integrals of linear pieces), libstdc++; "
                "documented conventions followed (no division by 2, 0-based levels); gridded form only for grid-aligned diagrams "
                "inside the grid (intervals reaching outside the grid, |coordinates| >= INT_MAX and compute_average({}) are not "
                "exercised); gridded L^p distance compared exactly only where levels do not cross between grid points",
        "technique": "runtime monitoring: randomized inputs + definition oracle on all breakpoints / grid points, algebraic and metric "
                     "law checks, under AddressSanitizer/UBSan",
    },
}

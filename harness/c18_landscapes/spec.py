SPEC = {
    "property": "C18",
    "rule": "TODO",
    "assumptions": [],
    "units": [
        {"name": "exact", "src": ["c18_exact.cpp"], "variant": "asan",
         "configs": {"exact_values": {"quick": 2000, "thorough": 200000},
                     "exact_algebra": {"quick": 1000, "thorough": 100000},
                     "exact_metric": {"quick": 1000, "thorough": 100000}}, "chunk": 25},
    ],
    "floors": {"quick": {}, "thorough": {}},
    "manifest": {"text": "TODO", "note": "TODO", "technique": "runtime monitoring"},
}

SPEC = {
    "property": "C18",
    "rule": "TODO",
    "assumptions": [],
    "units": [
        {"name": "exact", "src": ["c18_exact.cpp"], "variant": "asan",
         "configs": {"exact_values": {"quick": 2000, "thorough": 200000},
                     "exact_algebra": {"quick": 1000, "thorough": 100000},
                     "exact_metric": {"quick": 1000, "thorough": 100000}}, "chunk": 25},
        {"name": "grid", "src": ["c18_grid.cpp"], "variant": "asan",
         "configs": {"grid_values": {"quick": 2000, "thorough": 200000},
                     "grid_algebra": {"quick": 1000, "thorough": 100000},
                     "grid_metric": {"quick": 1000, "thorough": 100000}}, "chunk": 25},
    ],
    "floors": {"quick": {}, "thorough": {}},
    "manifest": {"text": "TODO", "note": "TODO", "technique": "runtime monitoring"},
}

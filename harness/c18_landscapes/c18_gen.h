// Diagram generator shared by the C18 harnesses.  Diagrams are generated in integer grid units j in [0, R] and
// mapped to coordinates origin + j * step with dyadic origin/step, so every quantity the library and the oracle
// compute from them (sums, differences, halves, products) is exact in double.
#ifndef C18_GEN_H_
#define C18_GEN_H_

#include "common/vh.h"
#include "landscape_def.h"

namespace c18 {

struct DiagInfo {
  std::vector<std::pair<int, int> > iv;  // integer units
  bool rep = false, eqb = false, eqd = false, touch = false, nested = false, zero = false, mixed_parity = false, overlap = false;
  int style = 0;
  bool tie() const { return rep || eqb || eqd || touch; }
  std::string cls() const { return zero ? "zero_len" : tie() ? "ties" : "generic"; }
};

inline void classify(DiagInfo& d) {
  d.rep = d.eqb = d.eqd = d.touch = d.nested = d.zero = d.mixed_parity = d.overlap = false;
  bool has_even = false, has_odd = false;
  for (size_t i = 0; i < d.iv.size(); ++i) {
    auto a = d.iv[i];
    if (a.first == a.second) d.zero = true;
    ((a.first & 1) ? has_odd : has_even) = true; ((a.second & 1) ? has_odd : has_even) = true;
    for (size_t j = 0; j < d.iv.size(); ++j) {
      if (i == j) continue;
      auto b = d.iv[j];
      if (a == b) { d.rep = true; continue; }
      if (a.first == b.first) d.eqb = true;
      if (a.second == b.second) d.eqd = true;
      if (a.second == b.first) d.touch = true;
      if (a.first < b.first && b.second < a.second) d.nested = true;
      if (std::max(a.first, b.first) < std::min(a.second, b.second)) d.overlap = true;
    }
  }
  d.mixed_parity = has_even && has_odd;
}

struct GenOpts {
  int R = 32;           // coordinates in 0..R
  bool allow_zero = true;
  int max_m = 12;
  int min_m = 2;        // (2 % of the diagrams are empty and 4 % have one interval whatever min_m says)
};

inline int coord(vh::Rng& r, const GenOpts& o) { return (int)r.below(o.R + 1); }
inline std::pair<int, int> rnd_interval(vh::Rng& r, const GenOpts& o) {
  int a = coord(r, o), b = coord(r, o);
  while (a == b) b = coord(r, o);
  return std::make_pair(std::min(a, b), std::max(a, b));
}

inline DiagInfo gen_diagram(vh::Rng& r, const GenOpts& o) {
  DiagInfo d;
  int m;
  unsigned u = (unsigned)r.below(100);
  if (u < 2) m = 0; else if (u < 6) m = 1; else m = o.min_m + (int)r.below(o.max_m - o.min_m + 1);
  d.style = (int)r.below(6);
  const int unit = 1;
  switch (d.style) {
    case 0:  // independent uniform intervals
      for (int i = 0; i < m; ++i) d.iv.push_back(rnd_interval(r, o));
      break;
    case 1: {  // endpoints drawn from a small pool: many equal births / deaths / touching / repeated
      int np = 2 + (int)r.below(4);
      std::vector<int> pool;
      for (int i = 0; i < np; ++i) pool.push_back(coord(r, o));
      for (int i = 0; i < m; ++i) {
        int a = r.pick(pool), b = r.pick(pool);
        int tries = 0;
        while (a == b && ++tries < 10) b = r.pick(pool);
        if (a == b) b = (a + unit <= o.R) ? a + unit : a - unit;
        d.iv.push_back(std::make_pair(std::min(a, b), std::max(a, b)));
      }
      break;
    }
    case 2: {  // nested chain, possibly with shared births or deaths
      int lo = coord(r, o), hi = coord(r, o);
      if (lo > hi) std::swap(lo, hi);
      if (hi - lo < 2 * unit) { lo = 0; hi = o.R; }
      int a = lo, b = hi;
      for (int i = 0; i < m && a < b; ++i) {
        d.iv.push_back(std::make_pair(a, b));
        unsigned w = (unsigned)r.below(4);
        if (w == 0 || w == 2) a += unit * (1 + (int)r.below(2));
        if (w == 1 || w == 2) b -= unit * (1 + (int)r.below(2));
      }
      break;
    }
    case 3: {  // touching / overlapping chain
      int a = coord(r, o) / 2;
      for (int i = 0; i < m; ++i) {
        int len = unit * (1 + (int)r.below(4));
        if (a + len > o.R) break;
        d.iv.push_back(std::make_pair(a, a + len));
        unsigned w = (unsigned)r.below(4);
        if (w == 0) a = a + len;                    // touching
        else if (w == 1) a = a + unit;              // overlapping staircase
        else if (w == 2) a = a + len + unit;        // gap
        /* w == 3: same birth again */
      }
      break;
    }
    default: {  // random base, then derived intervals (duplicates, same birth, same death, touching)
      int base = std::max(1, m / 2);
      for (int i = 0; i < base && m > 0; ++i) d.iv.push_back(rnd_interval(r, o));
      while ((int)d.iv.size() < m) {
        auto s = d.iv[r.below(d.iv.size())];
        unsigned w = (unsigned)r.below(5);
        std::pair<int, int> n = s;
        if (w == 1) { n.second = coord(r, o); }
        else if (w == 2) { n.first = coord(r, o); }
        else if (w == 3) { n.first = s.second; n.second = coord(r, o); }
        else if (w == 4) { n.second = s.first; n.first = coord(r, o); }
        if (n.first > n.second) std::swap(n.first, n.second);
        if (n.first == n.second) { if (n.second + unit <= o.R) n.second += unit; else n.first -= unit; }
        d.iv.push_back(n);
      }
      break;
    }
  }
  if (o.allow_zero && r.chance(1, 8) && !d.iv.empty()) {
    int nz = 1 + (int)r.below(2);
    for (int i = 0; i < nz; ++i) {
      int x = r.chance(1, 2) ? coord(r, o) : (r.chance(1, 2) ? d.iv[r.below(d.iv.size())].first : d.iv[r.below(d.iv.size())].second);
      d.iv.push_back(std::make_pair(x, x));
    }
  }
  r.shuffle(d.iv);
  classify(d);
  return d;
}

// maps every coordinate j to 2j + parity (parity 0 or 1): all endpoints get the same parity
inline void same_parity(DiagInfo& d, int parity) {
  for (auto& p : d.iv) { p.first = 2 * p.first + parity; p.second = 2 * p.second + parity; }
  classify(d);
}

inline lsdef::Diagram to_coords(const DiagInfo& d, double origin, double step) {
  lsdef::Diagram D;
  for (auto& p : d.iv) D.push_back(std::make_pair(origin + p.first * step, origin + p.second * step));
  return D;
}
inline std::string show(const lsdef::Diagram& D) {
  std::string s = "[";
  for (size_t i = 0; i < D.size(); ++i) { if (i) s += " "; s += "(" + vh::str(D[i].first) + "," + vh::str(D[i].second) + ")"; }
  return s + "]";
}
inline void count_classes(vh::Case& c, const DiagInfo& d) {
  c.count("diag.total");
  c.count("diag.m." + std::string(d.iv.size() == 0 ? "0" : d.iv.size() == 1 ? "1" : d.iv.size() <= 4 ? "2-4" : d.iv.size() <= 8 ? "5-8" : d.iv.size() < 20 ? "9-19" : "20+"));
  if (d.tie()) c.count("diag.tie");
  if (d.rep) c.count("diag.repeated");
  if (d.eqb) c.count("diag.equal_birth");
  if (d.eqd) c.count("diag.equal_death");
  if (d.touch) c.count("diag.touching");
  if (d.nested) c.count("diag.nested");
  if (d.zero) c.count("diag.zero_length");
  if (d.overlap) c.count("diag.overlapping");
}

// |got - want| <= tol * max(1, |want|); NaN never close
inline bool close(double got, double want, double tol) { return std::fabs(got - want) <= tol * std::max(1.0, std::fabs(want)); }

}  // namespace c18

#endif  // C18_GEN_H_

// C18 — gridded persistence landscapes (Persistence_landscape_on_grid) against the definition in landscape_def.h.
// Grid-aligned diagrams only: every endpoint is a grid point inside [grid_min, grid_max].
// Grids: dyadic (grid points are exact doubles), and in config grid_values 1 case in 4 a decimal grid (dx = 0.1, 0.01, 0.3):
// grid_min, grid_max and every endpoint are then the doubles nearest to the decimal numbers a user would type or read
// from a file (what strtod returns for "0.3"), i.e. grid-aligned up to half an ulp.
//   align=same_parity  : all endpoints are even grid points, or all are odd grid points.  Then every breakpoint of every
//                lambda_k (b, d, (b+d)/2, (d_i+b_j)/2) is a grid point and the piecewise-linear interpolation of the
//                samples IS the landscape: values are compared at and between grid points, integrals / inner products /
//                sup distances are compared with the exact integrals.
//   align=mixed_parity : endpoints of both parities; lambda_k may then peak or cross between grid points, so only the
//                samples at the grid points themselves are compared (config grid_values only).
// L^1 / L^2 distances are compared with the exact integrals only for pairs whose levels do not cross strictly between
// two neighbouring grid points (the header documents that crossing pairs are computed inaccurately); the metric laws
// are checked for every pair.
#include <gudhi/Persistence_landscape_on_grid.h>
#include "common/vh.h"
#include "landscape_def.h"
#include "c18_gen.h"

using Gudhi::Persistence_representations::Persistence_landscape_on_grid;
using lsdef::Diagram;
using lsdef::Fn;

namespace {

const double kValTol = 1e-9;
const double kIntTol = 1e-7;
const double kInf = std::numeric_limits<double>::max();

struct Silence { Silence() { std::clog.rdbuf(nullptr); } } silence_clog;

// grid point i is the rational (g0 + i*num)/den with integers g0, num, den, evaluated by one correctly rounded division:
// exact when den is a power of two, otherwise the double nearest to the decimal number (= strtod of its literal)
struct Grid {
  double g0, num, den; int N; bool dyadic;
  double gmin, dx;   // x(0) and the nominal spacing num/den
  Grid() {}
  Grid(double g0_, double num_, double den_, int N_, bool dy) : g0(g0_), num(num_), den(den_), N(N_), dyadic(dy), gmin(g0_ / den_), dx(num_ / den_) {}
  double gmax() const { return x(N); }
  double x(int i) const { return (g0 + i * num) / den; }
  Grid translated(double T) const { return Grid(g0 + T * den, num, den, N, dyadic); }   // T an integer
};
Grid pick_grid(vh::Rng& r, bool decimal = false, bool large = false) {
  if (decimal) {
    static const double nums[] = {1, 1, 3}, dens[] = {10, 100, 10};
    static const double tenths[] = {0, 0, 5, -7, 10};         // grid_min = 0, 0.5, -0.7, 1
    static const int Ns[] = {16, 20, 30, 50, 64, 100};
    unsigned w = (unsigned)r.below(3);
    return Grid(tenths[r.below(5)] * (dens[w] / 10), nums[w], dens[w], Ns[r.below(6)], false);
  }
  static const double steps[] = {0.25, 0.25, 0.5, 0.125, 1.0};
  static const double origins[] = {0.0, 0.0, -3.0, 1.5, 16.0, -0.75};
  static const int Ns[] = {16, 24, 32, 64};
  double o = origins[r.below(6)], st = steps[r.below(5)];
  if (large) return Grid(o * 8, st * 8, 8, r.chance(1, 2) ? 96 : 128, true);
  return Grid(o * 8, st * 8, 8, Ns[r.below(4)], true);
}
std::string show(const Grid& g) { return "grid_min=" + vh::str(g.gmin) + " grid_max=" + vh::str(g.gmax()) + " number_of_points=" + vh::str(g.N); }
Diagram on_grid(const c18::DiagInfo& d, const Grid& g) {
  Diagram D;
  for (auto& p : d.iv) D.push_back(std::make_pair(g.x(p.first), g.x(p.second)));
  return D;
}

struct Gen { c18::DiagInfo di; Diagram D; };
// parity: 0 = all endpoints on even grid points, 1 = all on odd grid points, -1 = any grid point
Gen gen(vh::Case& c, const Grid& g, int parity, bool allow_zero, int max_m, const char* name, int min_m = 2) {
  c18::GenOpts go; go.allow_zero = allow_zero; go.max_m = max_m; go.min_m = min_m;
  go.R = parity < 0 ? g.N : (g.N - parity) / 2;
  Gen out; out.di = c18::gen_diagram(c.rng, go);
  if (parity >= 0) c18::same_parity(out.di, parity);
  out.D = on_grid(out.di, g);
  c18::count_classes(c, out.di);
  if (out.di.mixed_parity) c.count("diag.align.mixed_parity"); else c.count(parity == 1 ? "diag.align.all_odd" : "diag.align.all_even_or_single_parity");
  c.log(std::string(name) + " " + c18::show(out.D));
  return out;
}
std::string cls_of(bool mixed, bool zero, const Grid* g = nullptr) {
  return std::string("align=") + (mixed ? "mixed_parity" : "same_parity") + (g && !g->dyadic ? ",grid=decimal" : "") + (zero ? ",zero_len" : "");
}

// table of a reference function on the grid: tab[i][k], k < nlev
std::vector<std::vector<double> > grid_table(const Fn& f, const Grid& g, size_t nlev, bool absval = false) {
  std::vector<std::vector<double> > tab(g.N + 1);
  for (int i = 0; i <= g.N; ++i) {
    tab[i] = f.eval_all(g.x(i)); tab[i].resize(nlev, 0.0);
    if (absval) for (double& y : tab[i]) y = std::fabs(y);
  }
  return tab;
}

// Compares L with the reference samples `tab` (levels 0..nlev-1 exact, levels beyond are zero).
// between: also compare at 1/4, 1/2, 3/4 of every cell against the linear interpolation of the reference samples
//          (which is the exact function when all breakpoints are grid points); cells where skip_cell(i,k) is true are skipped.
template <class Skip>
bool check_grid_values(vh::Case& c, const Persistence_landscape_on_grid& L, const Grid& g, const std::vector<std::vector<double> >& tab,
                       size_t nlev, size_t nlev_checked, bool between, Skip skip_cell, const std::string& check, const std::string& sig) {
  for (size_t k = 0; k < nlev_checked; ++k) {
    for (int i = 0; i <= g.N; ++i) {
      double want = k < nlev ? tab[i][k] : 0.0;
      double got = (i & 1) ? L(unsigned(k), g.x(i)) : L.compute_value_at_a_given_point(unsigned(k), g.x(i));
      c.count("cmp." + check + ".grid_point");
      if (!c18::close(got, want, kValTol)) {
        c.violation(check, sig + ",at=grid_point,level=" + (k < nlev ? "exists" : "beyond"),
                    "level " + vh::str(k) + " at grid point " + vh::str(i) + " x=" + vh::str(g.x(i)) + ": got " + vh::str(got) + " want " + vh::str(want));
        return false;
      }
    }
  }
  if (between) {
    static const double fr[] = {0.5, 0.25, 0.75};
    for (size_t k = 0; k < nlev_checked; ++k)
      for (int i = 0; i < g.N; ++i) {
        if (skip_cell(i, k)) { c.count("skip.between_cell_with_crossing"); continue; }
        double y0 = k < nlev ? tab[i][k] : 0.0, y1 = k < nlev ? tab[i + 1][k] : 0.0;
        for (double t : fr) {
          double x = g.x(i) + t * g.dx, want = y0 + t * (y1 - y0);
          double got = L.compute_value_at_a_given_point(unsigned(k), x);
          c.count("cmp." + check + ".between");
          if (!c18::close(got, want, kValTol)) {
            c.violation(check, sig + ",at=between,level=" + (k < nlev ? "exists" : "beyond"),
                        "level " + vh::str(k) + " at x=" + vh::str(x) + " (cell " + vh::str(i) + "): got " + vh::str(got) + " want " + vh::str(want));
            return false;
          }
        }
      }
  }
  // outside the grid the function is zero
  for (size_t k = 0; k < nlev_checked; ++k)
    for (double x : {g.gmin - g.dx, g.gmax() + g.dx, g.gmin - 0.001, g.gmax() + 0.001, g.gmin - 100.0}) {
      double got = L.compute_value_at_a_given_point(unsigned(k), x);
      c.count("cmp." + check + ".outside");
      if (got != 0.0) { c.violation(check, sig + ",at=outside", "level " + vh::str(k) + " at x=" + vh::str(x) + ": got " + vh::str(got) + " want 0"); return false; }
    }
  return true;
}
bool no_skip(int, size_t) { return false; }

bool check_scalar(vh::Case& c, double got, double want, double tol, const std::string& check, const std::string& sig, const std::string& what) {
  c.count("cmp." + check);
  if (!c18::close(got, want, tol)) { c.violation(check, sig, what + ": got " + vh::str(got) + " want " + vh::str(want)); return false; }
  return true;
}

// exact integrals of the interpolated reference samples (= the exact function when all breakpoints are grid points)
double tab_integral_level(const std::vector<std::vector<double> >& tab, const Grid& g, size_t k) {
  double s = 0; for (int i = 0; i < g.N; ++i) s += lsdef::piece_int(g.dx, tab[i][k], tab[i + 1][k]); return s;
}
double tab_integral_pow_level(const std::vector<std::vector<double> >& tab, const Grid& g, size_t k, int p) {
  double s = 0;
  for (int i = 0; i < g.N; ++i) { double acc = 0; for (int j = 0; j <= p; ++j) acc += std::pow(tab[i][k], j) * std::pow(tab[i + 1][k], p - j); s += g.dx * acc / (p + 1); }
  return s;
}
bool nontrivial_diag(const c18::DiagInfo& d) { return d.iv.size() >= 3 && d.overlap; }

// ------------------------------------------------------------------------------------------------ grid_values
void values_case(vh::Case& c) {
  vh::Rng& r = c.rng;
  const bool large = r.chance(1, 40);   // 20-48 intervals on a grid of 96 or 128 cells
  Grid g = large ? pick_grid(r, false, true) : pick_grid(r, r.chance(1, 4));
  c.count(g.dyadic ? "grid.dyadic" : "grid.decimal");
  if (large) c.count("diag.large.grid");
  unsigned u = (unsigned)r.below(8);
  int parity = u < 4 ? 0 : u < 6 ? 1 : -1;
  bool allow_zero = r.chance(1, 2);
  c.log(show(g));
  Gen d = large ? gen(c, g, parity, allow_zero, 48, "diagram", 20) : gen(c, g, parity, allow_zero, (c.thorough && r.chance(1, 5)) ? 20 : 12, "diagram");
  const bool mixed = d.di.mixed_parity;
  const std::string cls = cls_of(mixed, d.di.zero, &g);
  const size_t m = d.D.size();
  Fn f(d.D);
  auto tab = grid_table(f, g, m);

  c.log("construct(p, grid_min, grid_max, number_of_points)"); c.count("op.construct");
  Persistence_landscape_on_grid L(d.D, g.gmin, g.gmax(), g.N);
  // every block below is a pure query: a mismatch in one block does not invalidate the others, so all blocks run
  bool ok = check_grid_values(c, L, g, tab, m, m + 2, !mixed, no_skip, "grid.value", cls);

  ok = [&]() -> bool {
  c.log("vectorize");
  for (size_t k = 0; k < m + 2 && k < (size_t)g.N; ++k) {
    std::vector<double> v = L.vectorize((int)k);
    c.count("cmp.grid.vectorize");
    bool ok = v.size() == (size_t)g.N + 1;
    for (int i = 0; ok && i <= g.N; ++i) ok = c18::close(v[i], k < m ? tab[i][k] : 0.0, kValTol);
    if (!ok) { c.violation("grid.vectorize", cls, "vectorize(" + vh::str(k) + ") = " + vh::vstr(v)); return false; }
  }

    return true;
  }() && ok;

  ok = [&]() -> bool {
  if (!mixed) {
    c.log("integrals");
    double tot = 0, totp[4] = {0, 0, 0, 0};
    for (size_t k = 0; k < m + 2; ++k) {
      double want = k < m ? tab_integral_level(tab, g, k) : 0.0;
      tot += want;
      if (!check_scalar(c, L.compute_integral_of_landscape((size_t)k), want, kIntTol, "grid.integral_level", cls, "integral of level " + vh::str(k))) return false;
      if (!check_scalar(c, L.project_to_R((int)k), want, kIntTol, "grid.project_to_R", cls, "project_to_R(" + vh::str(k) + ")")) return false;
      for (int p = 1; p <= 3; ++p) {
        double wp = k < m ? tab_integral_pow_level(tab, g, k, p) : 0.0;
        totp[p] += wp;
        if (!check_scalar(c, L.compute_integral_of_landscape((double)p, (size_t)k), wp, kIntTol, "grid.integral_p_level", cls + ",p=" + vh::str(p),
                          "integral of power " + vh::str(p) + " of level " + vh::str(k))) return false;
      }
    }
    if (!check_scalar(c, L.compute_integral_of_landscape(), tot, kIntTol, "grid.integral", cls, "compute_integral_of_landscape()")) return false;
    for (int p = 1; p <= 3; ++p)
      if (!check_scalar(c, L.compute_integral_of_landscape((double)p), totp[p], kIntTol, "grid.integral_p", cls + ",p=" + vh::str(p), "compute_integral_of_landscape(p)")) return false;
  }

    return true;
  }() && ok;

  ok = [&]() -> bool {
  // suprema: of the whole landscape, of each level 0..m+1 (a level that does not exist is the zero function), and the
  // y-range.  With all breakpoints on grid points every supremum is attained on a grid point.
  if (!mixed) {
    c.log("compute_maximum / find_max / get_y_range");
    double sup0 = 0; bool all_zero = true;
    for (int i = 0; i <= g.N; ++i) for (size_t k = 0; k < m; ++k) { sup0 = std::max(sup0, tab[i][k]); if (tab[i][k] != 0) all_zero = false; }
    const std::string z = all_zero ? ",zero_function" : "";
    if (all_zero) c.count("state.zero_function");
    if (!check_scalar(c, L.compute_maximum(), sup0, kValTol, "grid.maximum", cls + z, "compute_maximum()")) return false;
    for (size_t k = 0; k < m + 2; ++k) {
      double supk = 0;
      for (int i = 0; k < m && i <= g.N; ++i) supk = std::max(supk, tab[i][k]);
      c.count(supk > 0 ? "op.find_max.nonzero_level" : "op.find_max.zero_level");
      if (!check_scalar(c, L.find_max((unsigned)k), supk, kValTol, "grid.find_max", cls + (supk > 0 ? ",level=nonzero" : ",level=zero"), "find_max(" + vh::str(k) + ")")) return false;
    }
    std::pair<double, double> yr = L.get_y_range();
    c.count("cmp.grid.y_range");
    if (!c18::close(yr.first, 0.0, kValTol) || !c18::close(yr.second, sup0, kValTol)) {
      c.violation("grid.y_range", cls + z, "get_y_range() = [" + vh::str(yr.first) + ", " + vh::str(yr.second) + "] want [0, " + vh::str(sup0) + "]");
      return false;
    }
  }
    return true;
  }() && ok;

  ok = [&]() -> bool {
  // constructor keeping only the nl largest values per grid point
  if (m >= 1) {
    unsigned nl = 1 + (unsigned)r.below(m + 1);
    c.log("construct(p, grid_min, grid_max, number_of_points, number_of_levels=" + vh::str(nl) + ")"); c.count("op.construct_limited_levels");
    size_t deepest = 0;
    for (int i = 0; i <= g.N; ++i) { size_t cnt = 0; for (size_t k = 0; k < m; ++k) if (tab[i][k] > 0) ++cnt; deepest = std::max(deepest, cnt); }
    if (deepest > nl) c.count("op.construct_limited_levels.truncating");
    Persistence_landscape_on_grid Lc(d.D, g.gmin, g.gmax(), g.N, nl);
    std::string s2 = cls + (nl == 1 ? ",nl=1" : nl == 2 ? ",nl=2" : ",nl>=3") + (deepest > nl ? ",truncating" : ",not_truncating");
    if (!check_grid_values(c, Lc, g, tab, m, std::min<size_t>(nl, m), !mixed, no_skip, "grid.value_limited_levels", s2)) return false;
  }
    return true;
  }() && ok;

  if (ok && nontrivial_diag(d.di)) c.nontrivial(vh::hash_str(vh::G().history));
  c.sample("{\"history\":\"" + vh::jesc(vh::G().history.substr(0, 600)) + "\"}");
}

// does some level of h stay (almost) constant and non-zero over a whole cell?  Only used to refine signatures: the
// closed form used by compute_integral_of_landscape(double p, size_t level) treats such cells separately.
bool has_flat_nonzero_cell(const Fn& h, const Grid& g) {
  size_t nl = h.nlevels();
  auto tab = grid_table(h, g, nl);
  for (size_t k = 0; k < nl; ++k) for (int i = 0; i < g.N; ++i) {
    double a = std::fabs(tab[i][k]), b = std::fabs(tab[i + 1][k]);
    if (a != 0 && b != 0 && tab[i][k] * tab[i + 1][k] > 0 && std::fabs(a - b) <= 1e-6 * (a + b)) return true;
  }
  return false;
}

// ------------------------------------------------------------------------------------------------ grid_algebra
const double kScalars[] = {-2.0, -1.0, -0.5, 0.5, 1.5, 2.0, 3.0, 0.0, 1.0, 0.25};

struct Three { Grid g; Gen d[3]; bool zero; };
Three gen_three(vh::Case& c, int max_m) {
  Three t; t.g = pick_grid(c.rng);
  bool allow_zero = c.rng.chance(1, 4);
  int parity = c.rng.chance(1, 3) ? 1 : 0;    // the three operands share the parity, so sums and differences stay linear between grid points
  c.log(show(t.g));
  for (int i = 0; i < 3; ++i) {
    static const char* nm[] = {"D0", "D1", "D2"};
    if (i > 0 && c.rng.chance(1, 10)) { t.d[i] = t.d[c.rng.below(i)]; c.log(std::string(nm[i]) + " " + c18::show(t.d[i].D)); }
    else t.d[i] = gen(c, t.g, parity, allow_zero, max_m, nm[i]);
  }
  t.zero = t.d[0].di.zero || t.d[1].di.zero || t.d[2].di.zero;
  return t;
}

bool check_result(vh::Case& c, const Persistence_landscape_on_grid& R, const Fn& fn, bool absval, const Grid& g, const std::string& check, const std::string& sig) {
  size_t nl = fn.nlevels();
  auto tab = grid_table(fn, g, nl, absval);
  if (!absval) return check_grid_values(c, R, g, tab, nl, nl + 2, true, no_skip, check, sig);
  auto raw = grid_table(fn, g, nl, false);
  return check_grid_values(c, R, g, tab, nl, nl + 2, true,
                           [&](int i, size_t k) { return k < nl && raw[i][k] * raw[i + 1][k] < 0; }, check, sig);
}

void algebra_case(vh::Case& c) {
  vh::Rng& r = c.rng;
  Three t = gen_three(c, 8);
  const Grid& g = t.g;
  const std::string cls = cls_of(false, t.zero);
  Persistence_landscape_on_grid L0(t.d[0].D, g.gmin, g.gmax(), g.N), L1(t.d[1].D, g.gmin, g.gmax(), g.N), L2(t.d[2].D, g.gmin, g.gmax(), g.N);
  Fn f0(t.d[0].D), f1(t.d[1].D), f2(t.d[2].D);

  bool ok = true;   // sections are independent pure observations: all run, each stops at its first mismatch
  c.log("L0 + L1"); c.count("op.plus");
  Persistence_landscape_on_grid S = L0 + L1;
  Fn fs = lsdef::plus(f0, f1);
  ok = check_result(c, S, fs, false, g, "grid.plus", cls) && ok;
  {
    auto tab = grid_table(fs, g, fs.nlevels());
    double w1 = 0, w2 = 0;
    for (size_t k = 0; k < fs.nlevels(); ++k) { w1 += tab_integral_level(tab, g, k); w2 += tab_integral_pow_level(tab, g, k, 2); }
    ok = check_scalar(c, S.compute_integral_of_landscape(), w1, kIntTol, "grid.integral_of_result", cls + ",op=plus", "integral of L0+L1") && ok;
    bool fl = has_flat_nonzero_cell(fs, g);
    if (fl) c.count("state.sum_has_flat_cell");
    ok = check_scalar(c, S.compute_integral_of_landscape(2.0), w2, kIntTol, "grid.integral_of_result", cls + ",op=plus,p=2" + (fl ? ",flat_cell" : ""), "integral of (L0+L1)^2") && ok;
  }

  c.log("L0 - L1"); c.count("op.minus");
  Persistence_landscape_on_grid Df = L0 - L1;
  Fn fd = lsdef::minus(f0, f1);
  ok = check_result(c, Df, fd, false, g, "grid.minus", cls) && ok;

  double a = kScalars[r.below(10)], b = kScalars[r.below(10)];
  c.log("L0 * " + vh::str(a) + " ; " + vh::str(b) + " * L1"); c.count("op.times", 2);
  Persistence_landscape_on_grid M1 = L0 * a, M2 = b * L1;
  ok = check_result(c, M1, lsdef::scaled(f0, a), false, g, "grid.times", cls) && ok;
  ok = check_result(c, M2, lsdef::scaled(f1, b), false, g, "grid.times", cls) && ok;

  c.log("abs(L0 - L1)"); c.count("op.abs");
  Persistence_landscape_on_grid A = Df; A.abs();
  ok = check_result(c, A, fd, true, g, "grid.abs", cls) && ok;

  static const double kDiv[] = {2.0, -4.0, 0.5, 1.0, 8.0};
  double q = kDiv[r.below(5)];
  c.log("T=L0; T+=L1; T-=L2; T*=" + vh::str(a) + "; T/=" + vh::str(q)); c.count("op.compound");
  Persistence_landscape_on_grid T = L0; T += L1; T -= L2; T *= a; T /= q;
  Fn ft = lsdef::scaled(lsdef::minus(lsdef::plus(f0, f1), f2), a / q);
  ok = check_result(c, T, ft, false, g, "grid.compound_assign", cls) && ok;
  c.log("abs(T)"); c.count("op.abs");
  T.abs();
  ok = check_result(c, T, ft, true, g, "grid.abs", cls) && ok;

  // the right-hand side is the object itself
  c.log("U=L0; U+=U; V=L1; V-=V"); c.count("op.compound.self.grid", 2);
  {
    Persistence_landscape_on_grid U = L0; U += U;
    ok = check_result(c, U, lsdef::scaled(f0, 2.0), false, g, "grid.compound_assign", cls + ",self") && ok;
    Persistence_landscape_on_grid V = L1; V -= V;
    ok = check_result(c, V, lsdef::scaled(f1, 0.0), false, g, "grid.compound_assign", cls + ",self") && ok;
  }

  int n = 1 + (int)r.below(5);
  std::vector<Persistence_landscape_on_grid*> ptrs; Fn fav; std::string lg = "average of";
  Persistence_landscape_on_grid* Ls[3] = {&L0, &L1, &L2};
  for (int i = 0; i < n; ++i) { int j = (int)r.below(3); ptrs.push_back(Ls[j]); fav.terms.push_back(lsdef::Term{1.0 / n, &t.d[j].D}); lg += " L" + vh::str(j); }
  c.log(lg); c.count("op.average"); c.count("op.average.n" + vh::str(n));
  const std::string nsig = ",n=" + std::string(n == 1 ? "1" : n == 2 ? "2" : "3+");
  Persistence_landscape_on_grid Av;
  if (r.chance(1, 2)) Av = L2;
  Av.compute_average(ptrs);
  ok = check_result(c, Av, fav, false, g, "grid.average", cls + nsig) && ok;
  // the destination is one of the operands (running average  X = average(X, M, ...)): same function on the same grid
  {
    Persistence_landscape_on_grid* dest = ptrs[r.below(ptrs.size())];
    Persistence_landscape_on_grid X = *dest;
    std::vector<Persistence_landscape_on_grid*> aliased = ptrs;
    size_t occurrences = 0;
    for (auto& q : aliased) if (q == dest) { q = &X; ++occurrences; }
    c.log("X := L" + vh::str(dest == &L0 ? 0 : dest == &L1 ? 1 : 2) + "; X.compute_average(the same list with X in place of that operand, " + vh::str(occurrences) + " times)");
    c.count("op.average.aliased.grid");
    bool threw = false;
    try { X.compute_average(aliased); }
    catch (const char* msg) {
      c.violation("grid.average", cls + ",aliased" + nsig, std::string("X.compute_average(list containing X) threw: ") + msg);
      threw = true; ok = false;
    }
    if (!threw) {
    // the average lives on the grid of its operands (get_x_range() documents [grid_min, grid_max]); evaluating a
    // landscape that lost its grid would read out of range, so this is looked at first
    std::pair<double, double> xr = X.get_x_range();
    c.count("cmp.grid.average.x_range");
    if (xr.first != g.gmin || xr.second != g.gmax()) {
      c.violation("grid.average", cls + ",aliased" + nsig, "after X.compute_average(list containing X): get_x_range() = [" + vh::str(xr.first) + ", " + vh::str(xr.second) +
                  "] but the operands live on [" + vh::str(g.gmin) + ", " + vh::str(g.gmax()) + "]");
      ok = false;
    } else {
      ok = check_result(c, X, fav, false, g, "grid.average", cls + ",aliased" + nsig) && ok;
    }
    }
  }

  if (ok && nontrivial_diag(t.d[0].di) && nontrivial_diag(t.d[1].di)) c.nontrivial(vh::hash_str(vh::G().history));
  c.sample("{\"history\":\"" + vh::jesc(vh::G().history.substr(0, 700)) + "\"}");
}

// ------------------------------------------------------------------------------------------------ grid_metric
bool crosses_between_grid_points(const Fn& f, const Fn& h, const Grid& g) {
  Fn d = lsdef::minus(f, h);
  size_t nl = d.nlevels();
  auto tab = grid_table(d, g, nl);
  for (size_t k = 0; k < nl; ++k) for (int i = 0; i < g.N; ++i) if (tab[i][k] * tab[i + 1][k] < 0) return true;
  return false;
}

void metric_case(vh::Case& c) {
  vh::Rng& r = c.rng;
  Three t = gen_three(c, 10);
  const Grid& g = t.g;
  std::string cls = cls_of(false, t.zero);
  // Far from the origin: the library gets grid and diagrams translated by T (exactly: dyadic grid, integer T), the oracle
  // keeps the untranslated ones: distances, norms and inner products are translation invariant.
  Grid gl = g;
  Diagram DL[3] = {t.d[0].D, t.d[1].D, t.d[2].D};
  if (r.chance(1, 3)) {
    static const double kFar[] = {1e3, -1e3, 1e5, -1e5, 1e7};
    const double T = kFar[r.below(5)];
    gl = g.translated(T);
    for (int i = 0; i < 3; ++i) DL[i] = on_grid(t.d[i].di, gl);
    c.log("grid and all three diagrams translated by " + vh::str(T) + " before the landscapes are built: " + show(gl));
    c.count("diag.far_origin.grid", 3);
    cls += ",far_origin";
  }
  Persistence_landscape_on_grid L[3] = {Persistence_landscape_on_grid(DL[0], gl.gmin, gl.gmax(), gl.N), Persistence_landscape_on_grid(DL[1], gl.gmin, gl.gmax(), gl.N),
                                        Persistence_landscape_on_grid(DL[2], gl.gmin, gl.gmax(), gl.N)};
  Fn f[3] = {Fn(t.d[0].D), Fn(t.d[1].D), Fn(t.d[2].D)};
  if (r.chance(1, 4)) {
    c.log("L2 := average(L0, L1, L2)"); c.count("op.average_as_operand");
    Persistence_landscape_on_grid Av; Av.compute_average({&L[0], &L[1], &L[2]});
    Fn fav; for (int j = 0; j < 3; ++j) fav.terms.push_back(lsdef::Term{1.0 / 3, &t.d[j].D});
    L[2] = Av; f[2] = fav; cls += ",with_average";
  } else if (r.chance(1, 3)) {
    // an element of the vector space that is not a landscape of a diagram: its levels are not decreasing in k and it
    // can be negative (differences are part of the property: "sums, differences ... distances equal the integrals")
    double a = 1 + (double)r.below(3);
    c.log("L2 := " + vh::str(a) + "*L0 - L1"); c.count("op.difference_as_operand");
    Persistence_landscape_on_grid Df = a * L[0] - L[1];
    Fn fd = lsdef::minus(lsdef::scaled(f[0], a), f[1]);
    L[2] = Df; f[2] = fd; cls += ",with_difference";
  }
  bool cross[3][3], flat[3][3], flat_self[3], any_flat = false;
  for (int i = 0; i < 3; ++i) for (int j = 0; j < 3; ++j) {
    cross[i][j] = (i != j) && crosses_between_grid_points(f[i], f[j], g);
    flat[i][j] = (i != j) && has_flat_nonzero_cell(lsdef::minus(f[i], f[j]), g);
    any_flat = any_flat || flat[i][j];
  }
  for (int i = 0; i < 3; ++i) flat_self[i] = has_flat_nonzero_cell(f[i], g);

  bool ok = true;
  static const double ps[] = {1.0, kInf, 2.0, std::numeric_limits<double>::infinity()};
  static const char* pn[] = {"1", "sup", "2", "sup"};
  for (int pi = 0; pi < 4; ++pi) {
    if (pi == 3 && !r.chance(1, 4)) continue;
    double p = ps[pi];
    const bool sup = (pi == 1 || pi == 3);
    std::string sp = cls + ",p=" + pn[pi];
    double d[3][3];
    bool sec_ok = true;
    for (int i = 0; i < 3 && sec_ok; ++i) for (int j = 0; j < 3 && sec_ok; ++j) {
      c.log("distance(L" + vh::str(i) + ", L" + vh::str(j) + ", p=" + pn[pi] + ")");
      d[i][j] = L[i].distance(L[j], p);
      c.count("op.distance.p" + std::string(pn[pi]));
      if (sup) {
        // the documented friend function with p = max() is the same sup distance (distance() does not go through it)
        c.log("compute_distance_of_landscapes_on_grid(L" + vh::str(i) + ", L" + vh::str(j) + ", p=" + pn[pi] + ")");
        double dfr = compute_distance_of_landscapes_on_grid(L[i], L[j], p);
        sec_ok = check_scalar(c, dfr, i == j ? 0.0 : lsdef::distance_sup(f[i], f[j]), kIntTol, "grid.distance_friend_function", sp + (i == j ? ",self" : ""),
                              "compute_distance_of_landscapes_on_grid(L" + vh::str(i) + ",L" + vh::str(j) + ")");
        if (!sec_ok) continue;
      }
      if (i == j) { sec_ok = check_scalar(c, d[i][j], 0.0, kIntTol, "grid.distance_self_zero", sp, "distance(L" + vh::str(i) + ",L" + vh::str(i) + ")"); continue; }
      if (!sup && cross[i][j]) { c.count("skip.distance_levels_cross_between_grid_points"); continue; }
      double want = sup ? lsdef::distance_sup(f[i], f[j]) : lsdef::distance_p(f[i], f[j], (int)p);
      if (p == 2.0 && flat[i][j]) c.count("state.distance_p2_difference_has_flat_cell");
      sec_ok = check_scalar(c, d[i][j], want, kIntTol, "grid.distance", sp + (p == 2.0 && flat[i][j] ? ",flat_cell" : ""), "distance(L" + vh::str(i) + ",L" + vh::str(j) + ")");
    }
    for (int i = 0; i < 3 && sec_ok; ++i) for (int j = i + 1; j < 3 && sec_ok; ++j)
      sec_ok = check_scalar(c, d[i][j], d[j][i], kIntTol, "grid.distance_symmetric", sp + (p == 2.0 && flat[i][j] ? ",flat_cell" : ""), "d(Li,Lj) vs d(Lj,Li)");
    for (int i = 0; i < 3 && sec_ok; ++i) for (int j = 0; j < 3 && sec_ok; ++j) for (int k = 0; k < 3 && sec_ok; ++k) {
      c.count("cmp.grid.triangle");
      if (!(d[i][k] <= d[i][j] + d[j][k] + kIntTol * std::max(1.0, d[i][k]))) {
        c.violation("grid.triangle_inequality", sp + (p == 2.0 && any_flat ? ",flat_cell" : ""), "d(" + vh::str(i) + "," + vh::str(k) + ")=" + vh::str(d[i][k]) + " > " + vh::str(d[i][j]) + " + " + vh::str(d[j][k]));
        sec_ok = false;
      }
    }
    if (sec_ok) {
      c.log("compute_norm_of_landscape(p=" + std::string(pn[pi]) + ")");
      for (int i = 0; i < 3 && sec_ok; ++i) {
        double want = sup ? lsdef::norm_sup(f[i]) : lsdef::norm_p(f[i], (int)p);
        // a norm is the distance to the zero landscape: same documented inaccuracy when a level changes sign strictly
        // between two grid points
        if (!sup && crosses_between_grid_points(f[i], Fn(), g)) { c.count("skip.norm_level_crosses_zero_between_grid_points"); continue; }
        sec_ok = check_scalar(c, L[i].compute_norm_of_landscape(p), want, kIntTol, "grid.norm", sp + (p == 2.0 && flat_self[i] ? ",flat_cell" : ""), "norm of L" + vh::str(i));
      }
    }
    ok = ok && sec_ok;
  }
  // inner product
  double ip[3][3];
  bool sec_ok = true;
  for (int i = 0; i < 3 && sec_ok; ++i) for (int j = 0; j < 3 && sec_ok; ++j) {
    c.log("compute_scalar_product(L" + vh::str(i) + ", L" + vh::str(j) + ")");
    ip[i][j] = L[i].compute_scalar_product(L[j]);
    c.count("op.scalar_product");
    sec_ok = check_scalar(c, ip[i][j], lsdef::inner(f[i], f[j]), kIntTol, "grid.inner_product", cls, "<L" + vh::str(i) + ",L" + vh::str(j) + ">");
  }
  for (int i = 0; i < 3 && sec_ok; ++i) for (int j = i + 1; j < 3 && sec_ok; ++j)
    sec_ok = check_scalar(c, ip[i][j], ip[j][i], kIntTol, "grid.inner_product_symmetric", cls, "<Li,Lj> vs <Lj,Li>");
  if (sec_ok) {
    double a = kScalars[r.below(10)], b = kScalars[r.below(10)];
    c.log("bilinearity: <" + vh::str(a) + "*L0 + " + vh::str(b) + "*L1, L2> and in the second argument");
    Persistence_landscape_on_grid Cmb = a * L[0] + b * L[1];
    Fn fc = lsdef::plus(lsdef::scaled(f[0], a), lsdef::scaled(f[1], b));
    double lhs = Cmb.compute_scalar_product(L[2]), lhs2 = L[2].compute_scalar_product(Cmb);
    c.count("op.scalar_product", 2);
    double scale = std::max(1.0, std::fabs(a * ip[0][2]) + std::fabs(b * ip[1][2]));
    sec_ok = check_scalar(c, lhs, lsdef::inner(fc, f[2]), kIntTol * scale, "grid.inner_product", cls + ",combination", "<aL0+bL1,L2>");
    c.count("cmp.grid.bilinear", 2);
    if (sec_ok && std::fabs(lhs - (a * ip[0][2] + b * ip[1][2])) > kIntTol * scale) {
      c.violation("grid.inner_product_bilinear", cls + ",first_argument", "<aL0+bL1,L2>=" + vh::str(lhs) + " but a<L0,L2>+b<L1,L2>=" + vh::str(a * ip[0][2] + b * ip[1][2]));
      sec_ok = false;
    }
    if (sec_ok && std::fabs(lhs2 - (a * ip[2][0] + b * ip[2][1])) > kIntTol * scale) {
      c.violation("grid.inner_product_bilinear", cls + ",second_argument", "<L2,aL0+bL1>=" + vh::str(lhs2) + " but a<L2,L0>+b<L2,L1>=" + vh::str(a * ip[2][0] + b * ip[2][1]));
      sec_ok = false;
    }
  }
  ok = ok && sec_ok;
  if (ok && nontrivial_diag(t.d[0].di) && nontrivial_diag(t.d[1].di)) c.nontrivial(vh::hash_str(vh::G().history));
  c.sample("{\"history\":\"" + vh::jesc(vh::G().history.substr(0, 700)) + "\"}");
}

// ------------------------------------------------------------------------------------------------ grid_edge
// The landscape made by the default constructor (no grid point at all; it is what `Persistence_landscape_on_grid A;
// A.compute_average(...)` starts from) is observed directly: every query that returns at all must describe the zero
// function.  Evaluation at 0 (the only abscissa inside its range [0,0]) comes last: a crash there ends the case.
void edge_case(vh::Case& c) {
  vh::Rng& r = c.rng;
  const std::string cls = "default_constructed";
  Persistence_landscape_on_grid Z;
  c.log("Z := Persistence_landscape_on_grid()"); c.count("op.default_construct");
  double a = kScalars[r.below(10)];
  bool scaled = r.chance(1, 2);
  if (scaled) { c.log("Z := Z * " + vh::str(a)); Z = Z * a; }
  bool ok = true;
  c.log("integrals, suprema");
  ok = check_scalar(c, Z.compute_integral_of_landscape(), 0.0, kIntTol, "grid.integral", cls, "compute_integral_of_landscape()") && ok;
  ok = check_scalar(c, Z.compute_integral_of_landscape(2.0), 0.0, kIntTol, "grid.integral_p", cls, "compute_integral_of_landscape(2)") && ok;
  ok = check_scalar(c, Z.compute_maximum(), 0.0, kValTol, "grid.maximum", cls + ",zero_function", "compute_maximum()") && ok;
  for (unsigned k = 0; k < 2; ++k)
    ok = check_scalar(c, Z.find_max(k), 0.0, kValTol, "grid.find_max", cls + ",level=zero", "find_max(" + vh::str(k) + ")") && ok;
  std::vector<double> xs = {-1.0, 0.5, (double)r.range(-8, 8) / 4, 0.0};
  for (double x : xs) for (unsigned k = 0; k < 2 && ok; ++k) {
    c.log("evaluate level " + vh::str(k) + " at " + vh::str(x));
    double got = Z.compute_value_at_a_given_point(k, x);
    c.count(x == 0.0 ? "cmp.grid.value.default_constructed_at_0" : "cmp.grid.value.default_constructed");
    if (got != 0.0) { c.violation("grid.value", cls, "level " + vh::str(k) + " at x=" + vh::str(x) + ": got " + vh::str(got) + " want 0"); ok = false; }
  }
  c.sample("{\"history\":\"" + vh::jesc(vh::G().history.substr(0, 400)) + "\"}");
}

template <void (*F)(vh::Case&)>
void guarded(vh::Case& c) {
  try { F(c); }
  catch (const char* s) { c.violation("grid.unexpected_throw", std::string("const_char*"), std::string("library threw: ") + s); }
}

}  // namespace

VH_CONFIG("grid_values", guarded<values_case>);
VH_CONFIG("grid_algebra", guarded<algebra_case>);
VH_CONFIG("grid_metric", guarded<metric_case>);
VH_CONFIG("grid_edge", guarded<edge_case>);
VH_MAIN()

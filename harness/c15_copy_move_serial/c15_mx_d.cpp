#include "c15_matrix.h"
using namespace c15m;
// indexing overlays (own copy / move / swap code): chain + identifier, chain + position, boundary-only + identifier
typedef Opt<3, Column_types::INTRUSIVE_SET, true, 0, false, true, false, false, false, 2> Chain_z2_iset_id_rem;
typedef Opt<3, Column_types::LIST, false, 0, false, true, false, false, false, 1> Chain_z5_list_pos_rem;
typedef Opt<1, Column_types::SET, true, 0, false, true, false, false, false, 2> Bnd_z2_set_id_rem;
typedef Opt<3, Column_types::VECTOR, false, 1, true, false, false, true, false, 2> Chain_z5_vector_id_map_rep;
VH_CONFIG("mx_chain_z2_iset_id_removable", [](vh::Case& c) { Driver<Chain_z2_iset_id_rem>::run(c, "chain_z2_iset_id_removable"); });
VH_CONFIG("mx_chain_z5_list_pos_removable", [](vh::Case& c) { Driver<Chain_z5_list_pos_rem>::run(c, "chain_z5_list_pos_removable"); });
VH_CONFIG("mx_boundary_z2_set_id_removable", [](vh::Case& c) { Driver<Bnd_z2_set_id_rem>::run(c, "boundary_z2_set_id_removable"); });
VH_CONFIG("mx_chain_z5_vector_id_map_rep", [](vh::Case& c) { Driver<Chain_z5_vector_id_map_rep>::run(c, "chain_z5_vector_id_map_rep"); });

// C15: serialisation round trip and copy of a tree whose vertex set is larger than the largest (signed, 16 bit) Vertex_handle:
// more than 32767 members in one sibling set.
#ifndef VERIF_C15_MANY_H_
#define VERIF_C15_MANY_H_
#include "c15_exec.h"

namespace c15 {

template <class Options>
void run_many_vertices(vh::Case& c, const std::string& optname) {
  typedef Gudhi::Simplex_tree<Options> ST;
  typedef typename ST::Vertex_handle VH; typedef typename ST::Filtration_value FV;
  static_assert(sizeof(VH) == 2, "meant for the 16 bit vertex handles");
  vh::Rng& r = c.rng;
  const int nv = 32768 + (int)r.below(8000);   // labels -30000 .. nv-30001 without -1 (the null vertex)
  const std::string sig = "scenario=serialize,more_vertices_than_max_vertex_handle";
  c.log("options=" + optname + " " + sig + " vertices=" + vh::str(nv - 1));
  ST A;
  std::vector<VH> vs; for (int i = 0; i < nv; ++i) { int lab = i - 30000; if (lab != -1) vs.push_back((VH)lab); }
  A.insert_batch_vertices(vs, (FV)1);
  A.insert_simplex_and_subfaces(std::vector<VH>{0, 1, 2}, (FV)2);
  const std::size_t nsimp = vs.size() + 4;
  auto same = [&](const ST& T, const std::string& what, const std::string& check) {
    c.count("cmp.many_vertices");
    if (T.num_vertices() != vs.size() || T.num_simplices() != nsimp || T.dimension() != 2) { c.violation(check, sig, what + ": " + vh::str(T.num_vertices()) + " vertices, " + vh::str(T.num_simplices()) + " simplices, dimension " + vh::str(T.dimension()) + "; source " + vh::str(vs.size()) + ", " + vh::str(nsimp) + ", 2"); return false; }
    size_t i = 0; for (auto v : T.complex_vertex_range()) { if (v != vs[i]) { c.violation(check, sig, what + ": vertex " + vh::str(i) + " is " + vh::str(v) + " instead of " + vh::str(vs[i])); return false; } ++i; }
    if (T.find(std::vector<VH>{0, 1, 2}) == T.null_simplex() || T.find(std::vector<VH>{(VH)-30000}) == T.null_simplex() || T.find(std::vector<VH>{vs.back()}) == T.null_simplex()) { c.violation(check, sig, what + ": a simplex of the source is not found"); return false; }
    if (!(T == A)) { c.violation(check, sig, what + ": operator== with the source is false"); return false; }
    return true;
  };
  {
    ST C(A);
    if (!same(C, "copy", "copy.many_vertices")) return;
  }
  const std::size_t size = A.get_serialization_size();
  std::unique_ptr<char[]> buf(new char[size]);
  try { A.serialize(buf.get(), size); } catch (const std::exception& e) { c.violation("serialize.size", sig, std::string("serialize threw with the announced size: ") + e.what()); return; }
  c.count("cmp.serialize");
  ST D;
  try { D.deserialize(buf.get(), size); } catch (const std::exception& e) { c.violation("deserialize.roundtrip", sig, std::string("deserialize of own serialisation threw: ") + e.what()); return; }
  if (!same(D, "deserialised tree", "deserialize.many_vertices")) return;
  // truncations are still refused
  for (long d : {1L, 2L, 3L, (long)sizeof(VH) * 2, (long)size / 2}) {
    std::unique_ptr<char[]> wb(new char[size - d]);
    std::memcpy(wb.get(), buf.get(), size - d);
    bool threw = false;
    { ST E; try { E.deserialize(wb.get(), size - d); } catch (const std::exception&) { threw = true; } }
    c.count("cmp.deserialize_truncated");
    if (!threw) { c.violation("deserialize.wrong_length_accepted", sig + ",truncated", "buffer of length " + vh::str(size - d) + " accepted, announced " + vh::str(size)); return; }
  }
  c.nontrivial(vh::hash_str(optname + sig + vh::str(nv)));
  c.sample("{\"options\":\"" + optname + "\",\"scenario\":\"" + sig + "\",\"vertices\":" + vh::str(vs.size()) + "}");
}

}  // namespace c15
#endif

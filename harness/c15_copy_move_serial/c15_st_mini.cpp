#include "c15_exec.h"
#include "c15_many.h"
VH_CONFIG("st_mini", [](vh::Case& c) { c15::run_case<stc::Opt_mini>(c, c15::Gen{0 != 0, 0 != 0, 1 != 0}, "mini"); });
VH_CONFIG("st_many_vertices_mini", [](vh::Case& c) { c15::run_many_vertices<stc::Opt_mini>(c, "mini"); });

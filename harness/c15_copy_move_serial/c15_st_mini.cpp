#include "c15_exec.h"
VH_CONFIG("st_mini", [](vh::Case& c) { c15::run_case<stc::Opt_mini>(c, c15::Gen{0 != 0, 0 != 0, 1 != 0}, "mini"); });

// C15, option sets with link_nodes_by_label: copies / moved-to / swapped / deserialised trees own their per-label node lists.
// The objects are flag complexes grown by insert_edge_as_flag (and expansion from a 1-skeleton); after the operation under
// test both objects keep growing by the same interface, each compared with the clique complex of its graph (oracle/flag.h)
// after every step while the other one is re-checked.
#ifndef VERIF_C15_FLAG_H_
#define VERIF_C15_FLAG_H_
#include "c15_exec.h"
#include "oracle/flag.h"

namespace c15 {

struct FlagObj {             // what one tree should hold: the flag complex (up to dimension dmax) of the first `done` edges of `order`
  int n = 0;
  std::vector<std::pair<int, int>> order;
  std::vector<double> val;   // non-decreasing along `order`: edges are inserted in filtration order, so the values are exact
  size_t done = 0;
  bool vertices_in = false;
  int dmax = 1;              // dim_max given to insert_edge_as_flag (-1: no limit); 1 = the tree is a graph and can still be expanded
  ComplexModel model() const {
    ComplexModel M;
    if (!vertices_in) return M;
    oracle::WGraph g = oracle::make_graph(n);
    for (size_t e = 0; e < done; ++e) g.w[order[e].first][order[e].second] = g.w[order[e].second][order[e].first] = val[e];
    M.cx = oracle::flag_complex(g, dmax);
    return M;
  }
  bool finished() const { return vertices_in && done == order.size(); }
};

template <class ST>
void flag_step(vh::Case& c, ST& st, FlagObj& o, const std::string& who) {
  typedef typename ST::Vertex_handle VH; typedef typename ST::Filtration_value FV;
  std::vector<typename ST::Simplex_handle> added;
  if (!o.vertices_in) {
    c.log("[" + who + "] insert_edge_as_flag(v, v) for the " + vh::str(o.n) + " vertices");
    for (int v = 0; v < o.n; ++v) st.insert_edge_as_flag((VH)v, (VH)v, (FV)0, o.dmax, added);
    o.vertices_in = true; c.count("op.insert_vertex_as_flag", o.n);
  } else if (o.dmax == 1 && c.rng.chance(1, 3)) {
    int d = 2 + (int)c.rng.below(3);
    c.log("[" + who + "] expansion(" + vh::str(d) + ")");
    st.expansion(d); o.dmax = d; c.count("op.expansion");
  } else if (o.done < o.order.size()) {
    auto e = o.order[o.done];
    c.log("[" + who + "] insert_edge_as_flag(" + vh::str(e.first) + "," + vh::str(e.second) + "," + vh::str(o.val[o.done]) + "," + vh::str(o.dmax) + ")");
    st.insert_edge_as_flag((VH)e.first, (VH)e.second, (FV)o.val[o.done], o.dmax, added);
    ++o.done; c.count("op.insert_edge_as_flag");
  }
  st.clear_filtration();  // documented duty of the caller after a modification
}

template <class ST>
bool flag_check(vh::Case& c, const ST& st, const FlagObj& o, const std::vector<long>& uni, const std::string& sig, const std::string& pfx) {
  ComplexModel M = o.model();
  return stc::full_check(c, st, M, uni, sig, true, pfx) && stc::check_filtration_range(c, st, M, sig, pfx);
}

template <class ST>
bool flag_grow(vh::Case& c, ST& a, FlagObj& oa, const ST& other, const FlagObj& oo, const std::vector<long>& uni, int steps,
               const std::string& who, const std::string& sig) {
  for (int t = 0; t < steps && !oa.finished(); ++t) {
    flag_step(c, a, oa, who);
    if (!flag_check(c, a, oa, uni, sig + ",mutated_object", "mutated.")) return false;
    if (&a != &other && !flag_check(c, other, oo, uni, sig + ",other_object_after_mutation", "independence.")) return false;
    c.count("steps.divergent_flag");
  }
  return true;
}

template <class Options>
void run_flag(vh::Case& c, const std::string& optname) {
  static_assert(Options::link_nodes_by_label && Options::store_filtration, "insert_edge_as_flag needs the per-label node lists");
  typedef Gudhi::Simplex_tree<Options> ST;
  vh::Rng& r = c.rng;
  const int n = 4 + (int)r.below(4);
  std::vector<long> uni; for (int i = 0; i < n; ++i) uni.push_back(i);
  std::vector<std::pair<int, int>> edges;
  for (int i = 0; i < n; ++i) for (int j = i + 1; j < n; ++j) if (!r.chance(1, 3)) edges.emplace_back(i, j);
  auto make = [&](bool empty) {
    FlagObj o; o.n = n; o.order = edges; r.shuffle(o.order);
    for (size_t e = 0; e < o.order.size(); ++e) { if (r.chance(1, 2)) std::swap(o.order[e].first, o.order[e].second); o.val.push_back(1.0 + (double)(e / 2)); }
    o.dmax = r.chance(1, 3) ? 1 : r.chance(1, 4) ? -1 : 2 + (int)r.below(3);
    (void)empty; return o;
  };
  FlagObj oa = make(false), ob = make(false);
  auto A = std::make_unique<ST>(), B = std::make_unique<ST>();
  // source: vertices and a prefix of the edges; target of the assignments / swap: empty, or another flag complex on the same vertices
  size_t ka = r.below(oa.order.size() + 1);
  flag_step(c, *A, oa, "A");
  while (oa.done < ka) flag_step(c, *A, oa, "A");   // (may expand on the way when dmax == 1)
  const int bkind = (int)r.below(3);
  if (bkind) { flag_step(c, *B, ob, "B"); size_t kb = bkind == 1 ? std::min<size_t>(1, ob.order.size()) : r.below(ob.order.size() + 1); while (ob.done < kb) flag_step(c, *B, ob, "B"); }
  static const char* names[] = {"copy_ctor", "copy_assign", "move_ctor", "move_assign", "swap", "serialize", "text_io", "self_copy_assign"};
  const int sc = (int)r.below(8);
  const std::string sig = std::string("scenario=") + names[sc] + ",flag_complex" + (oa.dmax == 1 ? ",src_graph" : "") + (oa.model().cx.empty() ? ",src_empty" : "");
  c.log("options=" + optname + " scenario " + sig + " n=" + vh::str(n) + " edges=" + vh::str(edges.size()) + " source: " + vh::str(oa.done) + " edges dmax=" + vh::str(oa.dmax) +
        " target: " + (bkind ? vh::str(ob.done) + " edges dmax=" + vh::str(ob.dmax) : std::string("empty")));
  c.count(std::string("scenario_flag.") + names[sc]);
  if (!flag_check(c, *A, oa, uni, sig + ",source_before", "pre.") || !flag_check(c, *B, ob, uni, sig + ",target_before", "pre.")) return;
  if (r.chance(1, 2)) { A->clear_filtration(); B->clear_filtration(); }
  std::unique_ptr<ST> X, Y; FlagObj ox, oy;   // X shows the source's content after the operation, Y is the other object
  FlagObj none; none.n = n; none.order = oa.order; none.val = oa.val; none.dmax = oa.dmax;   // an empty tree that can be grown like the source
  switch (sc) {
    case 0: X = std::make_unique<ST>(*A); ox = oa; Y = std::move(A); oy = oa; break;
    case 1: *B = *A; X = std::move(B); ox = oa; Y = std::move(A); oy = oa; break;
    case 2: X = std::make_unique<ST>(std::move(*A)); ox = oa; Y = std::move(A); oy = none; break;
    case 3: *B = std::move(*A); X = std::move(B); ox = oa; Y = std::move(A); oy = none; break;
    case 4: { using std::swap; swap(*A, *B); X = std::move(B); ox = oa; Y = std::move(A); oy = ob; break; }
    case 5: {
      const std::size_t size = A->get_serialization_size();
      std::unique_ptr<char[]> buf(new char[size]);
      A->serialize(buf.get(), size);
      X = std::make_unique<ST>();
      try { X->deserialize(buf.get(), size); } catch (const std::exception& e) { c.violation("deserialize.roundtrip", sig, std::string("deserialize of own serialisation threw: ") + e.what()); return; }
      ox = oa; Y = std::move(A); oy = oa; break;
    }
    case 6: {
      std::stringstream ss; ss.precision(std::numeric_limits<typename ST::Filtration_value>::max_digits10);
      ss << *A; X = std::make_unique<ST>(); ss >> *X;
      ox = oa; Y = std::move(A); oy = oa; break;
    }
    case 7: { ST& ref = *A; *A = ref; X = std::move(A); ox = oa; Y = std::make_unique<ST>(); oy = none; break; }
  }
  if (!flag_check(c, *X, ox, uni, sig + ",result", "copy.") || !flag_check(c, *Y, oy, uni, sig + ",other_object", "source.")) return;
  // both keep growing through the flag interface, in either order, a few steps each; then one is destroyed and the other completed
  const bool xfirst = r.chance(1, 2);
  for (int round = 0; round < 2; ++round) {
    if ((round == 0) == xfirst) { if (!flag_grow(c, *X, ox, *Y, oy, uni, 1 + (int)r.below(4), "X", sig)) return; }
    else { if (!flag_grow(c, *Y, oy, *X, ox, uni, 1 + (int)r.below(4), "Y", sig)) return; }
  }
  if (r.chance(1, 2)) { c.log("destroy X"); X.reset(); if (!flag_check(c, *Y, oy, uni, sig + ",after_destroying_other", "independence.")) return; if (!flag_grow(c, *Y, oy, *Y, oy, uni, 40, "Y", sig)) return; }
  else { c.log("destroy Y"); Y.reset(); if (!flag_check(c, *X, ox, uni, sig + ",after_destroying_other", "independence.")) return; if (!flag_grow(c, *X, ox, *X, ox, uni, 40, "X", sig)) return; }
  if (edges.size() >= 4) c.nontrivial(vh::hash_str(vh::G().history + sig));
  c.sample("{\"options\":\"" + optname + "\",\"scenario\":\"" + sig + "\",\"vertices\":" + vh::str(n) + ",\"edges\":" + vh::str(edges.size()) + "}");
}

}  // namespace c15
#endif

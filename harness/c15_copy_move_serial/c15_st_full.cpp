#include "c15_exec.h"
#include "c15_flag.h"
VH_CONFIG("st_full", [](vh::Case& c) { c15::run_case<Gudhi::Simplex_tree_options_full_featured>(c, c15::Gen{0 != 0, 1 != 0, 0 != 0}, "full"); });
VH_CONFIG("st_flag_full", [](vh::Case& c) { c15::run_flag<Gudhi::Simplex_tree_options_full_featured>(c, "full"); });

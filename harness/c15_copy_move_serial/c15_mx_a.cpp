#include "c15_matrix.h"
using namespace c15m;
typedef Opt<0, Column_types::INTRUSIVE_LIST, true, 1, false, false, false, false, false> Base_z2_il_ra;
typedef Opt<0, Column_types::SET, false, 2, false, false, false, false, false> Base_z5_set_raset;
typedef Opt<0, Column_types::INTRUSIVE_SET, true, 0, false, false, false, false, true> Base_z2_is_comp;
typedef Opt<0, Column_types::HEAP, false, 0, false, false, false, false, false> Base_z5_heap;
VH_CONFIG("mx_base_z2_ilist_rows", [](vh::Case& c) { Driver<Base_z2_il_ra>::run(c, "base_z2_ilist_rows"); });
VH_CONFIG("mx_base_z5_set_setrows", [](vh::Case& c) { Driver<Base_z5_set_raset>::run(c, "base_z5_set_setrows"); });
VH_CONFIG("mx_base_z2_iset_compression", [](vh::Case& c) { Driver<Base_z2_is_comp>::run(c, "base_z2_iset_compression"); });
VH_CONFIG("mx_base_z5_heap", [](vh::Case& c) { Driver<Base_z5_heap>::run(c, "base_z5_heap"); });

#include "c15_exec.h"
VH_CONFIG("st_fastp", [](vh::Case& c) { c15::run_case<Gudhi::Simplex_tree_options_fast_persistence>(c, c15::Gen{1 != 0, 1 != 0, 1 != 0}, "fastp"); });

#include "c15_matrix.h"
using namespace c15m;
// removable rows (rows live in a map: a row exists from the first entry it receives until erase_empty_row), and row access
// together with column compression
typedef Opt<0, Column_types::SET, true, 1, true, true, false, false, false, 0, true> Base_z2_set_rows_removable;
typedef Opt<3, Column_types::INTRUSIVE_LIST, true, 1, true, true, false, false, false, 0, true> Chain_z2_ilist_rows_removable;
typedef Opt<0, Column_types::LIST, false, 1, false, false, false, false, true> Base_z5_list_rows_compression;
VH_CONFIG("mx_base_z2_set_rows_removable", [](vh::Case& c) { Driver<Base_z2_set_rows_removable>::run(c, "base_z2_set_rows_removable"); });
VH_CONFIG("mx_chain_z2_ilist_rows_removable", [](vh::Case& c) { Driver<Chain_z2_ilist_rows_removable>::run(c, "chain_z2_ilist_rows_removable"); });
VH_CONFIG("mx_base_z5_list_rows_compression", [](vh::Case& c) { Driver<Base_z5_list_rows_compression>::run(c, "base_z5_list_rows_compression"); });

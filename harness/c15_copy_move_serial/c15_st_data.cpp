#include "c15_exec.h"
// the default options plus user data attached to every simplex (copied / moved with the tree, as documented)
struct Opt_data : Gudhi::Simplex_tree_options_default { typedef std::vector<int> Simplex_data; };
VH_CONFIG("st_data", [](vh::Case& c) { c15::run_case<Opt_data>(c, c15::Gen{false, true, false}, "data"); });

// C15: the templated copy constructor Simplex_tree(const Simplex_tree<OtherOptions>&, translate) builds an equal and independent
// tree of another option set (other node containers, other widths of Vertex_handle / Simplex_key / Filtration_value).
#ifndef VERIF_C15_CROSS_H_
#define VERIF_C15_CROSS_H_
#include "c15_exec.h"

namespace c15 {

// `g` has to be admissible for both option sets (contiguous if one of them needs it, small labels if one has 16 bit handles,
// no pruning by value unless both store values)
template <class OS, class OD>
void run_cross(vh::Case& c, const Gen& g, const std::string& name) {
  typedef Gudhi::Simplex_tree<OS> STS;
  typedef Gudhi::Simplex_tree<OD> STD;
  vh::Rng& r = c.rng;
  History ha = gen_history(r, g, 30, nullptr, nullptr, 2);
  const std::vector<long> uni = ha.universe;
  auto A = std::make_unique<STS>();
  ComplexModel MA;
  c.log("pair=" + name + " universe=" + vh::vstr(uni));
  if (!build(c, *A, MA, ha, "A")) return;
  const bool stale = A->upper_bound_dimension() > MA.dimension();
  if (stale) c.count("state.source_upper_bound_stale");
  const bool inf_src = OS::store_filtration && has_inf(MA);
  std::string sig = "scenario=cross_copy,pair=" + name + (stale ? ",src_bound_stale" : "") + (MA.cx.empty() ? ",src_empty" : "") + (inf_src ? ",src_has_inf" : "");
  c.log("scenario " + sig);
  c.count("scenario.cross_copy");
  const bool warmA = r.chance(2, 3);
  A->clear_filtration();
  if (warmA) { if (!stc::check_filtration_range(c, *A, MA, sig + ",source_before", "pre.")) return; }
  Tags<STS> TA; TA.assign(c, *A, r.next());
  // the value translation: plain conversion; a source that stores no values gives every simplex the value 0
  auto tr = [](const typename STS::Filtration_value& f) -> typename STD::Filtration_value {
    if constexpr (OS::store_filtration && OD::store_filtration) return (typename STD::Filtration_value)f; else { (void)f; return typename STD::Filtration_value(0); }
  };
  auto B = std::make_unique<STD>(*A, tr);
  ComplexModel MB = MA;
  if (!OS::store_filtration) for (auto& kv : MB.cx) kv.second = 0.0;
  if (!stc::full_check(c, *B, MB, uni, sig + ",copy", true, "copy.")) return;
  if (!stc::check_filtration_range(c, *B, MB, sig + ",copy", "copy.")) return;
  if (!TA.check(c, *B, sig + ",copy", "copy.")) return;   // keys are carried over when both option sets store keys
  if (!stc::full_check(c, *A, MA, uni, sig + ",source_after", true, "source.")) return;
  if (!stc::check_filtration_range(c, *A, MA, sig + ",source_after", "source.")) return;
  if (!TA.check(c, *A, sig + ",source_after", "source.")) return;
  if constexpr (OS::store_filtration && OD::store_filtration) {
    c.count("cmp.cross_operator_eq");
    if (!(*B == *A) || !(*A == *B)) { c.violation("copy.operator_eq", sig, "copy of another option set != source"); return; }
  }
  if (!two_way(c, A, MA, B, MB, uni, g, g, sig)) return;
  std::string hs; for (auto& op : ha.ops) hs += op.show() + ";";
  c.nontrivial(vh::hash_str(hs + sig));
  c.sample("{\"pair\":\"" + name + "\",\"scenario\":\"" + sig + "\",\"source_history\":\"" + vh::jesc(hs.substr(0, 500)) + "\"}");
}

}  // namespace c15
#endif

// C15 (Matrix part): copy construction, assignment, move and swap of persistence matrices yield observationally equal and
// fully independent objects; a moved-from matrix is empty and usable again.
#ifndef VERIF_C15_MATRIX_H_
#define VERIF_C15_MATRIX_H_
#include <gudhi/Matrix.h>
#include <gudhi/persistence_matrix_options.h>
#include "common/vh.h"
#include "oracle/zp_reduce.h"
#include "oracle/complex_model.h"
#include <memory>

namespace c15m {

using Gudhi::persistence_matrix::Column_indexation_types;
using Gudhi::persistence_matrix::Column_types;

// FL: 0 base, 1 boundary-only(+barcode), 2 RU, 3 chain
// IDX: 0 container, 1 position, 2 identifier indexing (cells are inserted without explicit ids, so the three coincide as numbers
// and the same driver applies; the overlays Position_to_index_overlay / Id_to_index_overlay carry their own copy/move/swap code)
template <int FL, Column_types CT, bool Z2, int RA, bool MAPC, bool REM, bool VINE, bool REP, bool COMP, int IDX = 0, bool RR = false>
struct Opt {
  using Field_coeff_operators = Gudhi::persistence_fields::Zp_field_operators<>;
  using Index = unsigned int;
  using Dimension = int;
  static const bool is_z2 = Z2;
  static const Column_types column_type = CT;
  static const Column_indexation_types column_indexation_type =
      IDX == 0 ? Column_indexation_types::CONTAINER : IDX == 1 ? Column_indexation_types::POSITION : Column_indexation_types::IDENTIFIER;
  static const bool has_matrix_maximal_dimension_access = false;
  static const bool has_column_pairings = (FL != 0);
  static const bool has_vine_update = VINE;
  static const bool can_retrieve_representative_cycles = REP;
  static const bool is_of_boundary_type = (FL != 3);
  static const bool has_column_compression = COMP;
  static const bool has_row_access = (RA != 0);
  static const bool has_intrusive_rows = (RA != 2);
  static const bool has_removable_rows = RR;
  static const bool has_removable_columns = REM;
  static const bool has_map_column_container = MAPC;
  static const bool has_column_and_row_swaps = false;
  static const int flavour = FL;
};

inline std::string first_diff(const std::string& a, const std::string& b) {
  size_t i = 0; while (i < a.size() && i < b.size() && a[i] == b[i]) ++i;
  size_t from = i > 60 ? i - 60 : 0;
  return " first difference at char " + std::to_string(i) + ": now '" + a.substr(from, 160) + "' before '" + b.substr(from, 160) + "'";
}

struct Cells {
  std::vector<oracle::Cell> cells;  // boundary in positions, coefficients +-1
};

inline Cells random_cells(vh::Rng& r) {
  oracle::ComplexModel M;
  int nv = 3 + (int)r.below(4), ntop = 1 + (int)r.below(4);
  std::vector<long> uni; for (int i = 0; i < nv; ++i) uni.push_back(i);
  for (int i = 0; i < ntop; ++i) {
    std::set<long> s; int sz = 1 + (int)r.below(std::min(nv, 4)); while ((int)s.size() < sz) s.insert(uni[r.below(nv)]);
    M.insert_with_faces(oracle::Simplex(s.begin(), s.end()), 0.0);
  }
  for (auto& kv : M.cx) kv.second = (double)(kv.first.size()) + 0.01 * (double)r.below(50);  // faces first, random within dimension
  Cells c; c.cells = oracle::cells_from_simplices(oracle::filtration_order(M.cx));
  for (auto& cell : c.cells) std::sort(cell.bdry.begin(), cell.bdry.end());
  if (c.cells.size() > 28) c.cells.resize(28);
  return c;
}

template <class O>
struct Driver {
  using M = Gudhi::persistence_matrix::Matrix<O>;
  static constexpr unsigned P = O::is_z2 ? 2 : 5;

  static std::unique_ptr<M> fresh(unsigned p = P) {
    if constexpr (O::is_z2) return std::make_unique<M>();
    else return std::make_unique<M>(0u, p);
  }
  static std::vector<unsigned> z2_boundary(const oracle::Cell& cell) {
    std::vector<unsigned> b; for (auto& fc : cell.bdry) b.push_back((unsigned)fc.first);
    return b;
  }
  static std::vector<std::pair<unsigned, unsigned>> zp_boundary(const oracle::Cell& cell, unsigned p) {
    std::vector<std::pair<unsigned, unsigned>> b;
    for (auto& fc : cell.bdry) b.emplace_back((unsigned)fc.first, (unsigned)oracle::mod_norm(fc.second, p));
    return b;
  }
  static void insert_cell(M& m, const oracle::Cell& cell, unsigned p = P) {
    if constexpr (O::is_z2) {
      auto b = z2_boundary(cell);
      if constexpr (O::flavour == 0) m.insert_column(b); else m.insert_boundary(b, cell.dim);
    } else {
      auto b = zp_boundary(cell, p);
      if constexpr (O::flavour == 0) m.insert_column(b); else m.insert_boundary(b, cell.dim);
    }
  }
  // The three documented routes to a matrix holding the first k cells: default constructor + insertions, the constructor
  // reserving space for n >= k columns + insertions, the constructor taking the k columns at once.
  static const char* ctor_name(int mode) { static const char* n[] = {"default", "reserve", "batch"}; return n[mode]; }
  static std::unique_ptr<M> build(vh::Case& c, const Cells& cs, size_t k, int mode, unsigned p = P) {
    std::unique_ptr<M> m;
    if (mode == 0) {
      m = fresh(p);
      for (size_t i = 0; i < k; ++i) insert_cell(*m, cs.cells[i], p);
    } else if (mode == 1) {
      unsigned n = (unsigned)(k + c.rng.below(5));
      if constexpr (O::is_z2) m = std::make_unique<M>(n); else m = std::make_unique<M>(n, p);
      for (size_t i = 0; i < k; ++i) insert_cell(*m, cs.cells[i], p);
    } else {
      if constexpr (O::is_z2) {
        std::vector<std::vector<unsigned>> cols;
        for (size_t i = 0; i < k; ++i) cols.push_back(z2_boundary(cs.cells[i]));
        m = std::make_unique<M>(cols);
      } else {
        std::vector<std::vector<std::pair<unsigned, unsigned>>> cols;
        for (size_t i = 0; i < k; ++i) cols.push_back(zp_boundary(cs.cells[i], p));
        m = std::make_unique<M>(cols, p);
      }
    }
    return m;
  }
  // Base matrices: a general column operation chosen from what the matrix shows (no model of the content is needed: C15 compares
  // objects with each other).  `seed` makes the choice reproducible so that the same operation can be applied to two objects.
  static std::string base_op(M& m, unsigned nrows, uint64_t seed, unsigned p = P) {
    vh::Rng q(seed);
    unsigned n = m.get_number_of_columns();
    if (n == 0) return "none";
    unsigned col = (unsigned)q.below(n);
    unsigned kind = (unsigned)q.below(O::has_removable_rows ? 7 : 4);
    if (kind >= 4) kind = 0;                                // removable rows: zero_entry half of the time
    if (O::has_column_compression && kind < 2) kind += 2;   // zero_entry / zero_column are not offered with compression
    if (kind >= 2 && n < 2) { if (O::has_column_compression) return "none"; kind = 1; }
    std::ostringstream o;
    if (kind == 0) {
      if constexpr (!O::has_column_compression) {
        auto content = m.get_column(col).get_content((int)nrows);
        std::vector<unsigned> nz; unsigned used = 0;
        for (unsigned rr = 0; rr < content.size(); ++rr) if (content[rr] != 0) { nz.push_back(rr); used = rr + 1; }
        if (nz.empty()) return "none";
        unsigned row = q.chance(1, 5) ? (unsigned)q.below(used) : nz[q.below(nz.size())];   // mostly a present entry, else any row below the column's last
        if constexpr (O::has_row_access && O::has_removable_rows) {
          // rows in a map: prefer the only entry of a row half of the time (the row stays, empty, until erase_empty_row)
          std::vector<std::pair<unsigned, unsigned>> single;
          for (unsigned rr = 0; rr < nrows; ++rr) { try { auto& rw = m.get_row(rr); if (rw.size() == 1) single.emplace_back(rw.begin()->get_column_index(), rr); } catch (const std::out_of_range&) {} }
          if (!single.empty() && q.chance(1, 2)) { auto pr = single[q.below(single.size())]; col = pr.first; row = pr.second; }
        }
        o << "zero_entry(" << col << "," << row << ")";
        m.zero_entry(col, row);
      }
    } else if (kind == 1) {
      if constexpr (!O::has_column_compression) { o << "zero_column(" << col << ")"; m.zero_column(col); }
    } else {
      unsigned src = (unsigned)q.below(n - 1); if (src >= col) ++src;
      if (O::is_z2 || kind == 2) { o << "add_to(" << src << "," << col << ")"; m.add_to(src, col); }
      else { unsigned coef = 1 + (unsigned)q.below(p - 1); o << "multiply_target_and_add_to(" << src << "," << coef << "," << col << ")"; m.multiply_target_and_add_to(src, coef, col); }
    }
    return o.str();
  }
  // everything observable without modifying the matrix (boundary-only flavour: barcode excluded, it reduces in place)
  static std::string dump(M& m, unsigned nrows) {
    std::ostringstream o;
    unsigned n = m.get_number_of_columns();
    unsigned rows_used = 0;  // rows beyond the largest row index ever used are not materialised: get_row would be illegal
    o << "n=" << n << ";";
    for (unsigned i = 0; i < n; ++i) {
      o << "c" << i << ":";
      auto content = m.get_column(i).get_content((int)nrows);
      for (unsigned rr = 0; rr < content.size(); ++rr) if (content[rr] != 0) rows_used = std::max(rows_used, rr + 1);
      for (auto v : content) o << (unsigned)v << ",";
      if constexpr (O::flavour == 2) {
        o << "|u:";
        auto cu = m.get_column(i, false).get_content((int)nrows);
        for (auto v : cu) o << (unsigned)v << ",";
      }
      o << ";";
    }
    if constexpr (O::flavour >= 2) {
      std::vector<std::tuple<int, long, long>> bars;
      for (auto& b : m.get_current_barcode()) bars.emplace_back(b.dim, (long)b.birth, b.death == M::template get_null_value<typename M::Pos_index>() ? -1L : (long)b.death);
      std::sort(bars.begin(), bars.end());
      o << "bars:";
      for (auto& b : bars) o << "(" << std::get<0>(b) << ";" << std::get<1>(b) << "," << std::get<2>(b) << ")";
    }
    if constexpr (O::has_row_access && O::flavour != 1) {
      // vector of rows: only the rows up to the largest row index in use certainly exist (chain matrices: one row per cell);
      // map of rows (removable rows): every index can be asked for, an absent row is announced by std::out_of_range
      unsigned upto = O::has_removable_rows ? nrows : (O::flavour == 3 ? n : rows_used);
      o << "rows:";
      for (unsigned rr = 0; rr < upto; ++rr) {
        std::vector<std::pair<unsigned, unsigned>> es; bool absent = false;
        try { for (auto& e : m.get_row(rr)) { unsigned val = 1; if constexpr (!O::is_z2) val = e.get_element(); es.emplace_back(e.get_column_index(), val); } }
        catch (const std::out_of_range&) { absent = true; }
        std::sort(es.begin(), es.end());
        o << "r" << rr << ":"; if (absent) o << "absent"; for (auto& e : es) o << e.first << "=" << e.second << ",";
        o << ";";
      }
    }
    return o.str();
  }
  static std::string oracle_bars(const Cells& cs, size_t k) {
    std::vector<oracle::Cell> pre(cs.cells.begin(), cs.cells.begin() + k);
    std::vector<std::tuple<int, long, long>> bars;
    for (auto& b : oracle::reduce(pre, P).bars) bars.emplace_back(b.dim, (long)b.birth, (long)b.death);
    std::sort(bars.begin(), bars.end());
    std::ostringstream o; o << "bars:";
    for (auto& b : bars) o << "(" << std::get<0>(b) << ";" << std::get<1>(b) << "," << std::get<2>(b) << ")";
    return o.str();
  }
  static bool bars_ok(vh::Case& c, M& m, const Cells& cs, size_t k, const std::string& sig, const std::string& who) {
    if constexpr (O::flavour >= 2) {
      std::string d = dump(m, (unsigned)cs.cells.size());
      std::string got = d.substr(d.find("bars:"));
      size_t rp = got.find("rows:"); if (rp != std::string::npos) got = got.substr(0, rp);
      c.count("cmp.matrix_barcode");
      if (got != oracle_bars(cs, k)) { c.violation("matrix." + who + ".barcode", sig, who + " barcode " + got + " expected " + oracle_bars(cs, k)); return false; }
    }
    return true;
  }

  static void run(vh::Case& c, const std::string& name) {
    vh::Rng& r = c.rng;
    Cells cs = random_cells(r);
    const size_t N = cs.cells.size();
    const unsigned R = (unsigned)N + 1;
    size_t k = r.below(N + 1);
    // construction routes of source and target; target of the assignments / swap over another field half of the time
    const int modeA = (int)r.below(3), modeB = (int)r.below(3);
    const unsigned PB = O::is_z2 ? 2u : (r.chance(1, 2) ? 7u : P);
    // source states beyond "k cells inserted": removable columns: more cells inserted, the surplus removed again;
    // base matrices: general column operations (they leave zero columns, empty rows, merged / split compression classes)
    size_t extra = 0;
    // (not for chain matrices with vine updates: they do not reuse the identifier of a removed cell, and the harness inserts
    // the remaining cells without explicit identifiers)
    static constexpr bool can_rebuild = O::has_removable_columns && O::flavour >= 2 && !(O::flavour == 3 && O::has_vine_update);
    if constexpr (can_rebuild) { if (r.chance(1, 3)) extra = std::min<size_t>(N - k, 1 + r.below(2)); }
    auto A = build(c, cs, k + extra, modeA);
    if constexpr (can_rebuild) { for (size_t i = 0; i < extra; ++i) A->remove_last(); }
    if (extra) c.count("state.matrix_source_after_remove_last");
    bool src_ops = false;
    if constexpr (O::flavour == 0) {
      int nops = r.chance(1, 3) ? 0 : 1 + (int)r.below(4);
      for (int t = 0; t < nops; ++t) { std::string d = base_op(*A, R, r.next()); c.log("[source] " + d); if (d != "none") { src_ops = true; c.count("op.matrix_source_column_op"); } }
    }
    // target for assignments: empty, or built from another complex
    Cells cs2 = random_cells(r);
    int bkind = (int)r.below(3);
    const size_t kb = bkind == 0 ? 0 : bkind == 1 ? std::min<size_t>(3, cs2.cells.size()) : cs2.cells.size();
    auto B = build(c, cs2, kb, modeB, PB);
    static const char* names[] = {"copy_ctor", "copy_assign", "self_assign", "move_ctor", "move_assign", "swap", "self_move_assign", "self_swap"};
    int sc = (int)r.below(8);
    const bool uses_target = sc == 1 || sc == 4 || sc == 5;
    const std::string dA = dump(*A, R), dB = dump(*B, R);
    bool empty_row = false;   // a row that exists and is empty (tellable from an absent one only with removable rows)
    if constexpr (O::has_row_access && O::has_removable_rows) { size_t rp = dA.find("rows:"); empty_row = rp != std::string::npos && dA.find(":;", rp) != std::string::npos; }
    std::string sig = "opts=" + name + ",scenario=" + names[sc] + (modeA ? std::string(",src_ctor=") + ctor_name(modeA) : "") +
                      (uses_target && modeB ? std::string(",dst_ctor=") + ctor_name(modeB) : "") + (uses_target && PB != P ? ",dst_other_characteristic" : "") +
                      (k == 0 ? ",src_empty" : "") + (bkind == 0 ? ",dst_empty" : "") + (extra ? ",src_after_remove_last" : "") + (src_ops ? ",src_column_ops" : "") +
                      (empty_row ? ",src_has_empty_row" : "");
    c.log("matrix " + sig + " cells=" + vh::str(N) + " prefix=" + vh::str(k) + " target: " + ctor_name(modeB) + " over Z" + vh::str(PB) + " with " + vh::str(kb) + " cells");
    c.count(std::string("matrix.scenario.") + names[sc]);
    c.count(std::string("matrix.src_ctor.") + ctor_name(modeA));
    if (uses_target) c.count(std::string("matrix.dst_ctor.") + ctor_name(modeB));
    if (uses_target && PB != P) c.count("matrix.dst_other_characteristic");
    if (empty_row) c.count("state.matrix_source_has_empty_row");
    if (dA.find("rows:") != std::string::npos) c.count("cmp.matrix_rows");
    std::unique_ptr<M> X, Y;  // X: the object that should now show A's content; Y: the other one
    std::string dY_expected; bool y_is_source_copy = false;
    switch (sc) {
      case 0: X = std::make_unique<M>(*A); Y = std::move(A); dY_expected = dA; y_is_source_copy = true; break;
      case 1: *B = *A; X = std::move(B); Y = std::move(A); dY_expected = dA; y_is_source_copy = true; break;
      case 2: { M& ref = *A; *A = ref; X = std::move(A); Y = fresh(); dY_expected = dump(*Y, R); break; }
      case 3: X = std::make_unique<M>(std::move(*A)); Y = std::move(A); dY_expected = ""; break;
      case 4: *B = std::move(*A); X = std::move(B); Y = std::move(A); dY_expected = ""; break;
      case 5: { using std::swap; swap(*A, *B); X = std::move(B); Y = std::move(A); dY_expected = dB; break; }
      case 6: { M& ref = *A; *A = std::move(ref); X = std::move(A); Y = fresh(); dY_expected = dump(*Y, R); break; }
      case 7: { using std::swap; M& ref = *A; swap(*A, ref); X = std::move(A); Y = fresh(); dY_expected = dump(*Y, R); break; }
    }
    c.count("cmp.matrix_dump");
    if (dump(*X, R) != dA) { c.violation("matrix.copy.dump", sig, "object does not show the source's content after the operation:\n got " + dump(*X, R).substr(0, 400) + "\nwant " + dA.substr(0, 400)); return; }
    if (!bars_ok(c, *X, cs, k, sig, "copy")) return;
    if (sc == 3 || sc == 4) {
      // moved-from: empty and usable again
      if (Y->get_number_of_columns() != 0) { c.violation("matrix.moved_from.not_empty", sig, "moved-from matrix reports " + vh::str(Y->get_number_of_columns()) + " columns"); return; }
      // a moved-from matrix owns no column settings any more: it is made usable again the standard way, by assigning
      // a matrix to it (assignable-to is what the library offers; see DESIGN.md section 12)
      { auto E = fresh(); *Y = *E; }
      for (size_t i = 0; i < N; ++i) insert_cell(*Y, cs.cells[i]);
      auto F = fresh(); for (size_t i = 0; i < N; ++i) insert_cell(*F, cs.cells[i]);
      c.count("cmp.matrix_moved_from_reuse");
      if (dump(*Y, R) != dump(*F, R)) { c.violation("matrix.moved_from.reuse", sig, "re-used moved-from matrix differs from a fresh one"); return; }
      if (dump(*X, R) != dA) { c.violation("matrix.independence.after_mutating_other", sig + ",other=moved_from", "moved-to matrix changed when the moved-from one was reused"); return; }
      Y.reset();
      if (dump(*X, R) != dA) { c.violation("matrix.independence.after_destroying_other", sig + ",other=moved_from", "moved-to matrix changed when the moved-from one was destroyed"); return; }
    } else {
      if (dump(*Y, R) != dY_expected) { c.violation("matrix.other.dump", sig, "the other object changed by the operation"); return; }
      // mutate X (append the remaining cells), Y must not move
      for (size_t i = k; i < N; ++i) insert_cell(*X, cs.cells[i]);
      c.count("cmp.matrix_independence");
      if (dump(*Y, R) != dY_expected) { c.violation("matrix.independence.after_mutating_other", sig, "the other object changed when one was mutated:" + first_diff(dump(*Y, R), dY_expected)); return; }
      if (!bars_ok(c, *X, cs, N, sig, "mutated_copy")) return;
      if (y_is_source_copy) {
        // now mutate the source the same way: both must agree again
        for (size_t i = k; i < N; ++i) insert_cell(*Y, cs.cells[i]);
        if (dump(*Y, R) != dump(*X, R)) { c.violation("matrix.copy.diverges", sig, "source and copy driven through the same suffix differ"); return; }
        if constexpr (O::flavour == 0) {
          // the same column operations on the copy, then on the source: the source must not move meanwhile, then both agree
          std::vector<uint64_t> seeds(1 + r.below(4)); for (auto& sd : seeds) sd = r.next();
          const std::string before = dump(*Y, R);
          for (uint64_t sd : seeds) { c.log("[copy] " + base_op(*X, R, sd)); c.count("op.matrix_divergent_column_op"); }
          if (dump(*Y, R) != before) { c.violation("matrix.independence.after_mutating_other", sig + ",op=column_ops", "source changed when column operations were applied to the copy:" + first_diff(dump(*Y, R), before)); return; }
          for (uint64_t sd : seeds) c.log("[source] " + base_op(*Y, R, sd));
          if (dump(*Y, R) != dump(*X, R)) { c.violation("matrix.copy.diverges", sig + ",op=column_ops", "source and copy driven through the same column operations differ:" + first_diff(dump(*Y, R), dump(*X, R))); return; }
        }
        if constexpr (O::has_removable_columns && O::flavour >= 2) {
          size_t rm = 1 + r.below(std::min<size_t>(3, N));
          if (N >= rm) {
            std::string before = dump(*X, R);
            for (size_t i = 0; i < rm; ++i) Y->remove_last();
            c.count("op.matrix_remove_last", rm);
            if (dump(*X, R) != before) { c.violation("matrix.independence.after_mutating_other", sig + ",op=remove_last", "copy changed when remove_last was applied to the source"); return; }
            if (!bars_ok(c, *Y, cs, N - rm, sig + ",op=remove_last", "source_after_remove_last")) return;
          }
        }
      }
      std::string dX = dump(*X, R);
      if (r.chance(1, 2)) { Y.reset(); if (dump(*X, R) != dX) { c.violation("matrix.independence.after_destroying_other", sig, "object changed when the other one was destroyed"); return; } }
      else { std::string dy = dump(*Y, R); X.reset(); if (dump(*Y, R) != dy) { c.violation("matrix.independence.after_destroying_other", sig, "object changed when the other one was destroyed"); return; } }
    }
    if (N >= 6) c.nontrivial(vh::hash_str(dA + sig));
    c.sample("{\"matrix\":\"" + name + "\",\"scenario\":\"" + sig + "\",\"cells\":" + vh::str(N) + "}");
  }
};

}  // namespace c15m
#endif

// C15 (Simplex_tree part): copies, moves, swaps and serialisation round-trip to equal, independent objects.
#ifndef VERIF_C15_EXEC_H_
#define VERIF_C15_EXEC_H_
#include "common/st_common.h"
#include <memory>
#include <limits>
#include <sstream>

namespace c15 {

using stc::ComplexModel;
using stc::History;

struct Gen { bool contiguous, allow_prune_f, small_labels; };

// ---- infinite filtration values.  The shared generator draws values on the grid 0, 0.25, .., 4; here the largest grid value (one
// draw in 17) stands for +infinity.  to_inf is a strictly increasing bijection between the two value sets, so a generated history
// stays admissible (faces <= cofaces, same comparisons, same pruned sets) when every value and threshold is mapped; the generator
// continues from a model whose infinite values are mapped back (shadow).
inline double to_inf(double v) { return v == 4.0 ? std::numeric_limits<double>::infinity() : v; }
inline double from_inf(double v) { return v == std::numeric_limits<double>::infinity() ? 4.0 : v; }
inline void lift(History& h) {
  for (auto& op : h.ops) {
    op.v = to_inf(op.v);
    for (auto& x : op.gv) x = to_inf(x);
    for (auto& e : op.ge) std::get<2>(e) = to_inf(std::get<2>(e));
    for (auto& e : op.stream) e.second = to_inf(e.second);
  }
}
inline ComplexModel shadow(const ComplexModel& M) { ComplexModel S = M; for (auto& kv : S.cx) kv.second = from_inf(kv.second); return S; }
inline bool has_inf(const ComplexModel& M) { for (auto& kv : M.cx) if (kv.second == std::numeric_limits<double>::infinity()) return true; return false; }
inline History gen_history(vh::Rng& r, const Gen& g, int nmax, const ComplexModel* init, const std::vector<long>* uni, int nmin) {
  ComplexModel S; if (init) S = shadow(*init);
  History h = stc::generate_history(r, g.contiguous, nmax, g.allow_prune_f, g.small_labels, init ? &S : nullptr, uni, nmin);
  lift(h);
  return h;
}

// ---- what a user attaches to the simplices: keys (Options::store_key) and Simplex_data (here std::vector<int>).  Both are part
// of what a copy / move / swap carries over (documented for the copy and move constructors), neither is serialised.
template <class ST>
struct Tags {
  static constexpr bool has_key = ST::Options::store_key;
  static constexpr bool has_data = std::is_same<typename ST::Simplex_data, std::vector<int>>::value;
  static constexpr bool any = has_key || has_data;
  std::map<stc::Simplex, uint64_t> of;   // simplex -> hash from which key and data are derived
  static unsigned key_of(uint64_t h) { return (unsigned)(h % 200); }   // fits the 8 bit keys of Opt_mini / Opt_low_full
  static std::vector<int> data_of(uint64_t h) { return std::vector<int>(1 + (h >> 8) % 40, (int)(h % 1000)); }
  // (re)writes key and data of every simplex of st
  void assign(vh::Case& c, ST& st, uint64_t salt) {
    of.clear();
    if constexpr (any) {
      for (auto sh : st.complex_simplex_range()) {
        stc::Simplex w = stc::word(st, sh);
        uint64_t h = salt; for (long x : w) h = vh::hash_mix(h, (uint64_t)x);
        of[w] = h;
        if constexpr (has_key) st.assign_key(sh, (typename ST::Simplex_key)key_of(h));
        if constexpr (has_data) st.simplex_data(sh) = data_of(h);
      }
      c.count("op.assign_tags");
    }
  }
  // every simplex of st carries what was attached to it
  template <class ST2>
  bool check(vh::Case& c, const ST2& st, const std::string& sig, const std::string& pfx, bool with_data = true) const {
    if constexpr (ST2::Options::store_key && has_key) {
      size_t n = 0;
      for (auto sh : st.complex_simplex_range()) {
        auto it = of.find(stc::word(st, sh)); ++n;
        if (it == of.end()) { c.violation(pfx + "tags.simplex", sig, "simplex " + oracle::show(stc::word(st, sh)) + " had no key attached"); return false; }
        if ((unsigned)st.key(sh) != key_of(it->second)) { c.violation(pfx + "tags.key", sig, "key(" + oracle::show(it->first) + ")=" + vh::str((unsigned)st.key(sh)) + " attached " + vh::str(key_of(it->second))); return false; }
      }
      c.count("cmp.keys");
      if (n != of.size()) { c.violation(pfx + "tags.simplex", sig, vh::str(n) + " simplices, keys were attached to " + vh::str(of.size())); return false; }
    }
    if constexpr (std::is_same<ST2, ST>::value && has_data) {
      if (with_data) {
        for (auto sh : st.complex_simplex_range()) {
          auto it = of.find(stc::word(st, sh));
          if (it == of.end() || st.simplex_data(sh) != data_of(it->second)) { c.violation(pfx + "tags.data", sig, "simplex_data(" + oracle::show(stc::word(st, sh)) + ") is not what was attached"); return false; }
        }
        c.count("cmp.simplex_data");
      }
    }
    return true;
  }
};

template <class ST>
bool build(vh::Case& c, ST& st, ComplexModel& M, const History& h, const std::string& who) {
  for (auto& op : h.ops) { c.log("[" + who + "] " + op.show()); if (!stc::apply_op(c, st, M, op, who + ".")) return false; }
  return true;
}

// drive `a` through a continuation history while checking after every step that `other` still shows `Mother` (and its tags)
template <class ST, class STO, class TG>
bool diverge(vh::Case& c, ST& a, ComplexModel& Ma, const STO& other, const ComplexModel& Mother, const TG& Tother, const std::vector<long>& uni,
             const Gen& g, const std::string& who, const std::string& sig, int nmax = 12) {
  History h = gen_history(c.rng, g, nmax, &Ma, &uni, 3);
  for (auto& op : h.ops) {
    c.log("[" + who + "] " + op.show());
    if (!stc::apply_op(c, a, Ma, op, who + ".")) return false;
    if (!stc::op_drops_filtration_cache(op.kind)) a.clear_filtration();  // documented duty of the caller after a modification
    if (!stc::full_check(c, a, Ma, uni, sig + ",mutated_object", true, "mutated.")) return false;
    if (!stc::check_filtration_range(c, a, Ma, sig + ",mutated_object", "mutated.")) return false;
    if (!stc::full_check(c, other, Mother, uni, sig + ",other_object_after_mutation", true, "independence.")) return false;
    if (!stc::check_filtration_range(c, other, Mother, sig + ",other_object_after_mutation", "independence.")) return false;
    if ((const void*)&a != (const void*)&other && !Tother.check(c, other, sig + ",other_object_after_mutation", "independence.")) return false;
    c.count("steps.divergent");
  }
  return true;
}

// X and Y are independent objects: mutate each (the other one re-checked after every step, with freshly attached tags), destroy one
template <class STX, class STY>
bool two_way(vh::Case& c, std::unique_ptr<STX>& X, ComplexModel& MX, std::unique_ptr<STY>& Y, ComplexModel& MY, const std::vector<long>& uni,
             const Gen& gx, const Gen& gy, const std::string& sig) {
  vh::Rng& r = c.rng;
  Tags<STX> TX; Tags<STY> TY;
  auto dx = [&](int nmax = 12) { TY.assign(c, *Y, r.next()); return diverge(c, *X, MX, *Y, MY, TY, uni, gx, "X", sig, nmax); };
  auto dy = [&](int nmax = 12) { TX.assign(c, *X, r.next()); return diverge(c, *Y, MY, *X, MX, TX, uni, gy, "Y", sig, nmax); };
  // attaching keys / data to the simplices of one object leaves those of the other alone
  TX.assign(c, *X, r.next()); TY.assign(c, *Y, r.next());
  if (!TX.check(c, *X, sig + ",other_object_after_tagging", "independence.") || !TY.check(c, *Y, sig + ",object_after_tagging", "independence.")) return false;
  if (r.chance(1, 2)) { if (!dx() || !dy()) return false; } else { if (!dy() || !dx()) return false; }
  if (r.chance(1, 2)) {
    c.log("destroy X"); TY.assign(c, *Y, r.next()); X.reset();
    if (!stc::full_check(c, *Y, MY, uni, sig + ",after_destroying_other", true, "independence.")) return false;
    if (!TY.check(c, *Y, sig + ",after_destroying_other", "independence.")) return false;
    if (!diverge(c, *Y, MY, *Y, MY, TY, uni, gy, "Y", sig, 6)) return false;
  } else {
    c.log("destroy Y"); TX.assign(c, *X, r.next()); Y.reset();
    if (!stc::full_check(c, *X, MX, uni, sig + ",after_destroying_other", true, "independence.")) return false;
    if (!TX.check(c, *X, sig + ",after_destroying_other", "independence.")) return false;
    if (!diverge(c, *X, MX, *X, MX, TX, uni, gx, "X", sig, 6)) return false;
  }
  return true;
}

template <class Options>
void run_case(vh::Case& c, const Gen& g, const std::string& optname) {
  typedef Gudhi::Simplex_tree<Options> ST;
  vh::Rng& r = c.rng;
  History ha = gen_history(r, g, 30, nullptr, nullptr, 2);
  const std::vector<long> uni = ha.universe;
  auto A = std::make_unique<ST>();
  ComplexModel MA;
  c.log("options=" + optname + " universe=" + vh::vstr(uni));
  if (!build(c, *A, MA, ha, "A")) return;
  // assignment target B: empty, small or large
  auto B = std::make_unique<ST>();
  ComplexModel MB;
  int bkind = (int)r.below(3);
  if (bkind > 0) {
    History hb = gen_history(r, Gen{g.contiguous, g.allow_prune_f, g.small_labels}, bkind == 1 ? 4 : 30, nullptr, &uni, 1);
    if (!build(c, *B, MB, hb, "B")) return;
  }
  const bool stale = A->upper_bound_dimension() > MA.dimension();
  if (stale) c.count("state.source_upper_bound_stale");
  const bool inf_src = Options::store_filtration && has_inf(MA);
  if (inf_src) c.count("state.source_has_infinite_value");
  const std::string st_sig = std::string(stale ? ",src_bound_stale" : "") + (MA.cx.empty() ? ",src_empty" : "") + (inf_src ? ",src_has_inf" : "");
  int scenario = (int)r.below(10);
  static const char* names[] = {"copy_ctor", "copy_assign", "self_copy_assign", "move_ctor", "move_assign", "swap",
                                "serialize", "text_io", "self_move_assign", "self_swap"};
  std::string sig = std::string("scenario=") + names[scenario] + st_sig;
  c.log("scenario " + sig + " target=" + (bkind == 0 ? "empty" : bkind == 1 ? "small" : "large"));
  c.count(std::string("scenario.") + names[scenario]);
  if (!stc::full_check(c, *A, MA, uni, sig + ",source_before", false, "pre.")) return;  // sanity, does not refresh dimension
  // filtration caches: built (warm) or not, on source and target, before the operation under test
  const bool warmA = r.chance(2, 3), warmB = r.chance(2, 3);
  A->clear_filtration(); B->clear_filtration();
  if (warmA) { if (!stc::check_filtration_range(c, *A, MA, sig + ",source_before", "pre.")) return; c.count("state.source_cache_warm"); }
  if (warmB) { if (!stc::check_filtration_range(c, *B, MB, sig + ",target_before", "pre.")) return; c.count("state.target_cache_warm"); }
  sig += std::string(warmA ? ",src_cache_warm" : "") + (warmB ? ",dst_cache_warm" : "");
  // keys / simplex data attached to every simplex of source and target before the operation under test
  Tags<ST> TA, TB, TE;
  TA.assign(c, *A, r.next()); TB.assign(c, *B, r.next());

  switch (scenario) {
    case 0: {  // copy constructor
      auto C = std::make_unique<ST>(*A);
      ComplexModel MC = MA;
      if (!stc::full_check(c, *C, MC, uni, sig + ",copy", true, "copy.")) return;
      if (!stc::check_filtration_range(c, *C, MC, sig + ",copy", "copy.")) return;
      if (!TA.check(c, *C, sig + ",copy", "copy.")) return;
      if (!stc::full_check(c, *A, MA, uni, sig + ",source_after", true, "source.")) return;
      if (!stc::check_filtration_range(c, *A, MA, sig + ",source_after", "source.")) return;
      if (!TA.check(c, *A, sig + ",source_after", "source.")) return;
      if (!(*C == *A)) { c.violation("copy.operator_eq", sig, "copy != source"); return; }
      if (!two_way(c, A, MA, C, MC, uni, g, g, sig)) return;
      break;
    }
    case 1: {  // copy assignment onto empty / smaller / larger
      *B = *A; MB = MA;
      if (!stc::full_check(c, *B, MB, uni, sig + ",copy", true, "copy.")) return;
      if (!stc::check_filtration_range(c, *B, MB, sig + ",copy", "copy.")) return;
      if (!TA.check(c, *B, sig + ",copy", "copy.")) return;
      if (!stc::full_check(c, *A, MA, uni, sig + ",source_after", true, "source.")) return;
      if (!stc::check_filtration_range(c, *A, MA, sig + ",source_after", "source.")) return;
      if (!TA.check(c, *A, sig + ",source_after", "source.")) return;
      if (!(*B == *A)) { c.violation("copy.operator_eq", sig, "assigned copy != source"); return; }
      if (!two_way(c, A, MA, B, MB, uni, g, g, sig)) return;
      break;
    }
    case 2: {  // self assignment
      ST& ref = *A;
      *A = ref;
      if (!stc::full_check(c, *A, MA, uni, sig + ",self", true, "self.")) return;
      if (!stc::check_filtration_range(c, *A, MA, sig + ",self", "self.")) return;
      if (!TA.check(c, *A, sig + ",self", "self.")) return;
      if (!diverge(c, *A, MA, *A, MA, TE, uni, g, "A", sig)) return;
      break;
    }
    case 3: {  // move constructor
      auto C = std::make_unique<ST>(std::move(*A));
      ComplexModel MC = MA; ComplexModel ME;
      if (!stc::full_check(c, *C, MC, uni, sig + ",moved_to", true, "move.")) return;
      if (!stc::check_filtration_range(c, *C, MC, sig + ",moved_to", "move.")) return;
      if (!TA.check(c, *C, sig + ",moved_to", "move.")) return;
      if (!stc::full_check(c, *A, ME, uni, sig + ",moved_from", true, "moved_from.")) return;
      if (!stc::check_filtration_range(c, *A, ME, sig + ",moved_from", "moved_from.")) return;
      ST fresh; if (!(*A == fresh)) { c.violation("moved_from.operator_eq", sig, "moved-from tree != empty tree"); return; }
      if (!two_way(c, A, ME, C, MC, uni, g, g, sig)) return;
      break;
    }
    case 4: {  // move assignment
      *B = std::move(*A); MB = MA; ComplexModel ME;
      if (!stc::full_check(c, *B, MB, uni, sig + ",moved_to", true, "move.")) return;
      if (!stc::check_filtration_range(c, *B, MB, sig + ",moved_to", "move.")) return;
      if (!TA.check(c, *B, sig + ",moved_to", "move.")) return;
      if (!stc::full_check(c, *A, ME, uni, sig + ",moved_from", true, "moved_from.")) return;
      if (!stc::check_filtration_range(c, *A, ME, sig + ",moved_from", "moved_from.")) return;
      ST fresh; if (!(*A == fresh)) { c.violation("moved_from.operator_eq", sig, "moved-from tree != empty tree"); return; }
      if (!two_way(c, A, ME, B, MB, uni, g, g, sig)) return;
      break;
    }
    case 5: {  // swap
      using std::swap;
      swap(*A, *B); std::swap(MA, MB);
      if (!stc::full_check(c, *A, MA, uni, sig + ",swapped", true, "swap.")) return;
      if (!stc::check_filtration_range(c, *A, MA, sig + ",swapped", "swap.")) return;
      if (!TB.check(c, *A, sig + ",swapped", "swap.")) return;
      if (!stc::full_check(c, *B, MB, uni, sig + ",swapped", true, "swap.")) return;
      if (!stc::check_filtration_range(c, *B, MB, sig + ",swapped", "swap.")) return;
      if (!TA.check(c, *B, sig + ",swapped", "swap.")) return;
      if (!two_way(c, A, MA, B, MB, uni, g, g, sig)) return;
      break;
    }
    case 8: {  // self move assignment
      ST& ref = *A;
      *A = std::move(ref);
      if (!stc::full_check(c, *A, MA, uni, sig + ",self", true, "self.")) return;
      if (!stc::check_filtration_range(c, *A, MA, sig + ",self", "self.")) return;
      if (!TA.check(c, *A, sig + ",self", "self.")) return;
      break;
    }
    case 9: {  // self swap
      using std::swap;
      ST& ref = *A;
      swap(*A, ref);
      if (!stc::full_check(c, *A, MA, uni, sig + ",self", true, "self.")) return;
      if (!stc::check_filtration_range(c, *A, MA, sig + ",self", "self.")) return;
      if (!TA.check(c, *A, sig + ",self", "self.")) return;
      if (!diverge(c, *A, MA, *A, MA, TE, uni, g, "A", sig, 6)) return;
      break;
    }
    case 6: {  // binary serialisation
      const std::size_t size = A->get_serialization_size();
      // exact-size heap buffer with canaries checked by ASan red zones
      std::unique_ptr<char[]> buf(new char[size]);
      std::memset(buf.get(), 0x5a, size);
      try { A->serialize(buf.get(), size); }
      catch (const std::exception& e) { c.violation("serialize.size", sig, std::string("serialize threw with the announced size: ") + e.what()); return; }
      c.count("cmp.serialize");
      {
        ST D;
        try { D.deserialize(buf.get(), size); }
        catch (const std::exception& e) { c.violation("deserialize.roundtrip", sig, std::string("deserialize of own serialisation threw: ") + e.what()); return; }
        ComplexModel MD = MA;
        if (!stc::full_check(c, D, MD, uni, sig + ",deserialized", true, "deserialize.")) return;
      if (!stc::check_filtration_range(c, D, MD, sig + ",deserialized", "deserialize.")) return;
        if (!(D == *A)) { c.violation("deserialize.operator_eq", sig, "deserialized tree != source"); return; }
        if (!diverge(c, D, MD, *A, MA, TA, uni, g, "D", sig, 6)) return;
      }
      // wrong lengths: every truncation / extension must be refused by an exception, without reading outside the buffer
      std::vector<long> deltas;
      for (long d = 1; d <= 16; ++d) { deltas.push_back(d); if ((std::size_t)d <= size) deltas.push_back(-d); }
      deltas.push_back(-(long)size); if (size > 3) deltas.push_back(-(long)size + 1);
      for (int t = 0; t < 6; ++t) if (size > 1) deltas.push_back(-(long)(1 + r.below(size - 1)));
      for (long d : deltas) {
        const std::size_t len = (std::size_t)((long)size + d);
        std::unique_ptr<char[]> wb(new char[len ? len : 1]);
        if (len) std::memcpy(wb.get(), buf.get(), std::min(len, size));
        if (len > size) std::memset(wb.get() + size, 0, len - size);
        c.log("deserialize with length " + vh::str(len) + " (announced " + vh::str(size) + ")");
        c.count(d < 0 ? "cmp.deserialize_truncated" : "cmp.deserialize_extended");
        bool threw = false;
        {
          ST E;
          try { E.deserialize(wb.get(), len); } catch (const std::invalid_argument&) { threw = true; } catch (const std::exception&) { threw = true; }
        }
        if (!threw) { c.violation("deserialize.wrong_length_accepted", sig + (d < 0 ? ",truncated" : ",extended"), "buffer of length " + vh::str(len) + " accepted, announced " + vh::str(size)); return; }
      }
      // serialize into a buffer announced with a wrong size must throw as documented (buffer itself is large enough)
      {
        std::unique_ptr<char[]> big(new char[size + 32]);
        bool threw = false;
        try { A->serialize(big.get(), size + 8); } catch (const std::invalid_argument&) { threw = true; }
        if (!threw) { c.violation("serialize.wrong_size_accepted", sig, "serialize accepted a wrong buffer_size"); return; }
      }
      break;
    }
    case 7: {  // text output re-read
      if constexpr (Options::store_filtration) {
        std::stringstream ss;
        ss.precision(std::numeric_limits<typename ST::Filtration_value>::max_digits10);
        ss << *A;
        ST T;
        ss >> T;
        ComplexModel MT = MA;
        c.count("cmp.text_io");
        if (inf_src) c.count("cmp.text_io_with_infinite_value");
        if (T.num_simplices() != A->num_simplices()) { c.violation("text_io.num_simplices", sig + ",reread", "operator>> rebuilt " + vh::str(T.num_simplices()) + " of the " + vh::str(A->num_simplices()) + " simplices written by operator<<"); return; }
        if (!stc::full_check(c, T, MT, uni, sig + ",reread", true, "text_io.")) return;
      if (!stc::check_filtration_range(c, T, MT, sig + ",reread", "text_io.")) return;
        if (!(T == *A)) { c.violation("text_io.operator_eq", sig, "re-read tree != source"); return; }
        if (!diverge(c, T, MT, *A, MA, TA, uni, g, "T", sig, 6)) return;
      } else {
        c.count("skip.text_io_without_filtration");
      }
      break;
    }
  }
  std::string hs; for (auto& op : ha.ops) hs += op.show() + ";";
  if (MA.dimension() >= 1 || scenario >= 3) c.nontrivial(vh::hash_str(hs + sig));
  c.sample("{\"options\":\"" + optname + "\",\"scenario\":\"" + sig + "\",\"source_history\":\"" + vh::jesc(hs.substr(0, 500)) + "\"}");
}

}  // namespace c15
#endif

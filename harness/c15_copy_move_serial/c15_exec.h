// C15 (Simplex_tree part): copies, moves, swaps and serialisation round-trip to equal, independent objects.
#ifndef VERIF_C15_EXEC_H_
#define VERIF_C15_EXEC_H_
#include "common/st_common.h"
#include <memory>
#include <limits>
#include <sstream>

namespace c15 {

using stc::ComplexModel;
using stc::History;

struct Gen { bool contiguous, allow_prune_f, small_labels; };

template <class ST>
bool build(vh::Case& c, ST& st, ComplexModel& M, const History& h, const std::string& who) {
  for (auto& op : h.ops) { c.log("[" + who + "] " + op.show()); if (!stc::apply_op(c, st, M, op, who + ".")) return false; }
  return true;
}

// drive `a` through a continuation history while checking after every step that `other` still shows `Mother`
template <class ST>
bool diverge(vh::Case& c, ST& a, ComplexModel& Ma, const ST& other, const ComplexModel& Mother, const std::vector<long>& uni,
             const Gen& g, const std::string& who, const std::string& sig, int nmax = 12) {
  History h = stc::generate_history(c.rng, g.contiguous, nmax, g.allow_prune_f, g.small_labels, &Ma, &uni, 3);
  for (auto& op : h.ops) {
    c.log("[" + who + "] " + op.show());
    if (!stc::apply_op(c, a, Ma, op, who + ".")) return false;
    if (!stc::op_drops_filtration_cache(op.kind)) a.clear_filtration();  // documented duty of the caller after a modification
    if (!stc::full_check(c, a, Ma, uni, sig + ",mutated_object", true, "mutated.")) return false;
    if (!stc::check_filtration_range(c, a, Ma, sig + ",mutated_object", "mutated.")) return false;
    if (!stc::full_check(c, other, Mother, uni, sig + ",other_object_after_mutation", true, "independence.")) return false;
    if (!stc::check_filtration_range(c, other, Mother, sig + ",other_object_after_mutation", "independence.")) return false;
    c.count("steps.divergent");
  }
  return true;
}

template <class Options>
void run_case(vh::Case& c, const Gen& g, const std::string& optname) {
  typedef Gudhi::Simplex_tree<Options> ST;
  vh::Rng& r = c.rng;
  History ha = stc::generate_history(r, g.contiguous, 30, g.allow_prune_f, g.small_labels, nullptr, nullptr, 2);
  const std::vector<long> uni = ha.universe;
  auto A = std::make_unique<ST>();
  ComplexModel MA;
  c.log("options=" + optname + " universe=" + vh::vstr(uni));
  if (!build(c, *A, MA, ha, "A")) return;
  // assignment target B: empty, small or large
  auto B = std::make_unique<ST>();
  ComplexModel MB;
  int bkind = (int)r.below(3);
  if (bkind > 0) {
    History hb = stc::generate_history(r, g.contiguous, bkind == 1 ? 4 : 30, g.allow_prune_f, g.small_labels, nullptr, &uni, 1);
    if (!build(c, *B, MB, hb, "B")) return;
  }
  const bool stale = A->upper_bound_dimension() > MA.dimension();
  if (stale) c.count("state.source_upper_bound_stale");
  const std::string st_sig = std::string(stale ? ",src_bound_stale" : "") + (MA.cx.empty() ? ",src_empty" : "");
  int scenario = (int)r.below(9);
  static const char* names[] = {"copy_ctor", "copy_assign", "self_copy_assign", "move_ctor", "move_assign", "swap",
                                "serialize", "text_io", "self_move_assign"};
  std::string sig = std::string("scenario=") + names[scenario] + st_sig;
  c.log("scenario " + sig + " target=" + (bkind == 0 ? "empty" : bkind == 1 ? "small" : "large"));
  c.count(std::string("scenario.") + names[scenario]);
  if (!stc::full_check(c, *A, MA, uni, sig + ",source_before", false, "pre.")) return;  // sanity, does not refresh dimension
  // filtration caches: built (warm) or not, on source and target, before the operation under test
  const bool warmA = r.chance(2, 3), warmB = r.chance(2, 3);
  A->clear_filtration(); B->clear_filtration();
  if (warmA) { if (!stc::check_filtration_range(c, *A, MA, sig + ",source_before", "pre.")) return; c.count("state.source_cache_warm"); }
  if (warmB) { if (!stc::check_filtration_range(c, *B, MB, sig + ",target_before", "pre.")) return; c.count("state.target_cache_warm"); }
  sig += std::string(warmA ? ",src_cache_warm" : "") + (warmB ? ",dst_cache_warm" : "");

  auto two_way = [&](std::unique_ptr<ST>& X, ComplexModel& MX, std::unique_ptr<ST>& Y, ComplexModel& MY) -> bool {
    // X and Y should be equal-but-independent or simply independent; mutate each, destroy in random order
    if (r.chance(1, 2)) { if (!diverge(c, *X, MX, *Y, MY, uni, g, "X", sig)) return false; if (!diverge(c, *Y, MY, *X, MX, uni, g, "Y", sig)) return false; }
    else { if (!diverge(c, *Y, MY, *X, MX, uni, g, "Y", sig)) return false; if (!diverge(c, *X, MX, *Y, MY, uni, g, "X", sig)) return false; }
    if (r.chance(1, 2)) { c.log("destroy X"); X.reset(); if (!stc::full_check(c, *Y, MY, uni, sig + ",after_destroying_other", true, "independence.")) return false; if (!diverge(c, *Y, MY, *Y, MY, uni, g, "Y", sig, 6)) return false; }
    else { c.log("destroy Y"); Y.reset(); if (!stc::full_check(c, *X, MX, uni, sig + ",after_destroying_other", true, "independence.")) return false; if (!diverge(c, *X, MX, *X, MX, uni, g, "X", sig, 6)) return false; }
    return true;
  };

  switch (scenario) {
    case 0: {  // copy constructor
      auto C = std::make_unique<ST>(*A);
      ComplexModel MC = MA;
      if (!stc::full_check(c, *C, MC, uni, sig + ",copy", true, "copy.")) return;
      if (!stc::check_filtration_range(c, *C, MC, sig + ",copy", "copy.")) return;
      if (!stc::full_check(c, *A, MA, uni, sig + ",source_after", true, "source.")) return;
      if (!stc::check_filtration_range(c, *A, MA, sig + ",source_after", "source.")) return;
      if (!(*C == *A)) { c.violation("copy.operator_eq", sig, "copy != source"); return; }
      if (!two_way(A, MA, C, MC)) return;
      break;
    }
    case 1: {  // copy assignment onto empty / smaller / larger
      *B = *A; MB = MA;
      if (!stc::full_check(c, *B, MB, uni, sig + ",copy", true, "copy.")) return;
      if (!stc::check_filtration_range(c, *B, MB, sig + ",copy", "copy.")) return;
      if (!stc::full_check(c, *A, MA, uni, sig + ",source_after", true, "source.")) return;
      if (!stc::check_filtration_range(c, *A, MA, sig + ",source_after", "source.")) return;
      if (!(*B == *A)) { c.violation("copy.operator_eq", sig, "assigned copy != source"); return; }
      if (!two_way(A, MA, B, MB)) return;
      break;
    }
    case 2: {  // self assignment
      ST& ref = *A;
      *A = ref;
      if (!stc::full_check(c, *A, MA, uni, sig + ",self", true, "self.")) return;
      if (!stc::check_filtration_range(c, *A, MA, sig + ",self", "self.")) return;
      if (!diverge(c, *A, MA, *A, MA, uni, g, "A", sig)) return;
      break;
    }
    case 3: {  // move constructor
      auto C = std::make_unique<ST>(std::move(*A));
      ComplexModel MC = MA; ComplexModel ME;
      if (!stc::full_check(c, *C, MC, uni, sig + ",moved_to", true, "move.")) return;
      if (!stc::check_filtration_range(c, *C, MC, sig + ",moved_to", "move.")) return;
      if (!stc::full_check(c, *A, ME, uni, sig + ",moved_from", true, "moved_from.")) return;
      if (!stc::check_filtration_range(c, *A, ME, sig + ",moved_from", "moved_from.")) return;
      ST fresh; if (!(*A == fresh)) { c.violation("moved_from.operator_eq", sig, "moved-from tree != empty tree"); return; }
      if (!two_way(A, ME, C, MC)) return;
      break;
    }
    case 4: {  // move assignment
      *B = std::move(*A); MB = MA; ComplexModel ME;
      if (!stc::full_check(c, *B, MB, uni, sig + ",moved_to", true, "move.")) return;
      if (!stc::check_filtration_range(c, *B, MB, sig + ",moved_to", "move.")) return;
      if (!stc::full_check(c, *A, ME, uni, sig + ",moved_from", true, "moved_from.")) return;
      if (!stc::check_filtration_range(c, *A, ME, sig + ",moved_from", "moved_from.")) return;
      ST fresh; if (!(*A == fresh)) { c.violation("moved_from.operator_eq", sig, "moved-from tree != empty tree"); return; }
      if (!two_way(A, ME, B, MB)) return;
      break;
    }
    case 5: {  // swap
      using std::swap;
      swap(*A, *B); std::swap(MA, MB);
      if (!stc::full_check(c, *A, MA, uni, sig + ",swapped", true, "swap.")) return;
      if (!stc::check_filtration_range(c, *A, MA, sig + ",swapped", "swap.")) return;
      if (!stc::full_check(c, *B, MB, uni, sig + ",swapped", true, "swap.")) return;
      if (!stc::check_filtration_range(c, *B, MB, sig + ",swapped", "swap.")) return;
      if (!two_way(A, MA, B, MB)) return;
      break;
    }
    case 8: {  // self move assignment
      ST& ref = *A;
      *A = std::move(ref);
      if (!stc::full_check(c, *A, MA, uni, sig + ",self", true, "self.")) return;
      if (!stc::check_filtration_range(c, *A, MA, sig + ",self", "self.")) return;
      break;
    }
    case 6: {  // binary serialisation
      const std::size_t size = A->get_serialization_size();
      // exact-size heap buffer with canaries checked by ASan red zones
      std::unique_ptr<char[]> buf(new char[size]);
      std::memset(buf.get(), 0x5a, size);
      try { A->serialize(buf.get(), size); }
      catch (const std::exception& e) { c.violation("serialize.size", sig, std::string("serialize threw with the announced size: ") + e.what()); return; }
      c.count("cmp.serialize");
      {
        ST D;
        try { D.deserialize(buf.get(), size); }
        catch (const std::exception& e) { c.violation("deserialize.roundtrip", sig, std::string("deserialize of own serialisation threw: ") + e.what()); return; }
        ComplexModel MD = MA;
        if (!stc::full_check(c, D, MD, uni, sig + ",deserialized", true, "deserialize.")) return;
      if (!stc::check_filtration_range(c, D, MD, sig + ",deserialized", "deserialize.")) return;
        if (!(D == *A)) { c.violation("deserialize.operator_eq", sig, "deserialized tree != source"); return; }
        if (!diverge(c, D, MD, *A, MA, uni, g, "D", sig, 6)) return;
      }
      // wrong lengths: every truncation / extension must be refused by an exception, without reading outside the buffer
      std::vector<long> deltas;
      for (long d = 1; d <= 16; ++d) { deltas.push_back(d); if ((std::size_t)d <= size) deltas.push_back(-d); }
      deltas.push_back(-(long)size); if (size > 3) deltas.push_back(-(long)size + 1);
      for (int t = 0; t < 6; ++t) if (size > 1) deltas.push_back(-(long)(1 + r.below(size - 1)));
      for (long d : deltas) {
        const std::size_t len = (std::size_t)((long)size + d);
        std::unique_ptr<char[]> wb(new char[len ? len : 1]);
        if (len) std::memcpy(wb.get(), buf.get(), std::min(len, size));
        if (len > size) std::memset(wb.get() + size, 0, len - size);
        c.log("deserialize with length " + vh::str(len) + " (announced " + vh::str(size) + ")");
        c.count(d < 0 ? "cmp.deserialize_truncated" : "cmp.deserialize_extended");
        bool threw = false;
        {
          ST E;
          try { E.deserialize(wb.get(), len); } catch (const std::invalid_argument&) { threw = true; } catch (const std::exception&) { threw = true; }
        }
        if (!threw) { c.violation("deserialize.wrong_length_accepted", sig + (d < 0 ? ",truncated" : ",extended"), "buffer of length " + vh::str(len) + " accepted, announced " + vh::str(size)); return; }
      }
      // serialize into a buffer announced with a wrong size must throw as documented (buffer itself is large enough)
      {
        std::unique_ptr<char[]> big(new char[size + 32]);
        bool threw = false;
        try { A->serialize(big.get(), size + 8); } catch (const std::invalid_argument&) { threw = true; }
        if (!threw) { c.violation("serialize.wrong_size_accepted", sig, "serialize accepted a wrong buffer_size"); return; }
      }
      break;
    }
    case 7: {  // text output re-read
      if constexpr (Options::store_filtration) {
        std::stringstream ss;
        ss.precision(std::numeric_limits<typename ST::Filtration_value>::max_digits10);
        ss << *A;
        ST T;
        ss >> T;
        ComplexModel MT = MA;
        c.count("cmp.text_io");
        if (!stc::full_check(c, T, MT, uni, sig + ",reread", true, "text_io.")) return;
      if (!stc::check_filtration_range(c, T, MT, sig + ",reread", "text_io.")) return;
        if (!(T == *A)) { c.violation("text_io.operator_eq", sig, "re-read tree != source"); return; }
        if (!diverge(c, T, MT, *A, MA, uni, g, "T", sig, 6)) return;
      } else {
        c.count("skip.text_io_without_filtration");
      }
      break;
    }
  }
  std::string hs; for (auto& op : ha.ops) hs += op.show() + ";";
  if (MA.dimension() >= 1 || scenario >= 3) c.nontrivial(vh::hash_str(hs + sig));
  c.sample("{\"options\":\"" + optname + "\",\"scenario\":\"" + sig + "\",\"source_history\":\"" + vh::jesc(hs.substr(0, 500)) + "\"}");
}

}  // namespace c15
#endif

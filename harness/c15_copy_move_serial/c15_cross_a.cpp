#include "c15_cross.h"
typedef Gudhi::Simplex_tree_options_full_featured Full;
static void full_mini(vh::Case& c) { c15::run_cross<Full, stc::Opt_mini>(c, c15::Gen{false, false, true}, "full_to_mini"); }
static void mini_full(vh::Case& c) { c15::run_cross<stc::Opt_mini, Full>(c, c15::Gen{false, false, true}, "mini_to_full"); }
VH_CONFIG("st_cross_full_mini", full_mini);
VH_CONFIG("st_cross_mini_full", mini_full);

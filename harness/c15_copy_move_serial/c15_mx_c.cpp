#include "c15_matrix.h"
using namespace c15m;
typedef Opt<3, Column_types::INTRUSIVE_LIST, true, 1, true, true, true, false, false> Chain_z2_ilist_map_vine;
typedef Opt<3, Column_types::SET, false, 1, false, false, false, true, false> Chain_z5_set_rep;
typedef Opt<3, Column_types::NAIVE_VECTOR, true, 2, false, true, false, false, false> Chain_z2_nvector_setrows_rem;
VH_CONFIG("mx_chain_z2_ilist_map_vine", [](vh::Case& c) { Driver<Chain_z2_ilist_map_vine>::run(c, "chain_z2_ilist_map_vine"); });
VH_CONFIG("mx_chain_z5_set_rep", [](vh::Case& c) { Driver<Chain_z5_set_rep>::run(c, "chain_z5_set_rep"); });
VH_CONFIG("mx_chain_z2_nvector_setrows_removable", [](vh::Case& c) { Driver<Chain_z2_nvector_setrows_rem>::run(c, "chain_z2_nvector_setrows_removable"); });

#include "c15_exec.h"
#include "c15_flag.h"
VH_CONFIG("st_fastcof", [](vh::Case& c) { c15::run_case<stc::Opt_fast_cofaces>(c, c15::Gen{0 != 0, 1 != 0, 0 != 0}, "fastcof"); });
VH_CONFIG("st_flag_fastcof", [](vh::Case& c) { c15::run_flag<stc::Opt_fast_cofaces>(c, "fastcof"); });

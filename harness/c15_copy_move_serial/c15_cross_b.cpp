#include "c15_cross.h"
static void default_stable(vh::Case& c) { c15::run_cross<Gudhi::Simplex_tree_options_default, stc::Opt_stable>(c, c15::Gen{false, true, false}, "default_to_stable"); }
static void fastcof_minimal(vh::Case& c) { c15::run_cross<stc::Opt_fast_cofaces, Gudhi::Simplex_tree_options_minimal>(c, c15::Gen{false, false, false}, "fastcof_to_minimal"); }
VH_CONFIG("st_cross_default_stable", default_stable);
VH_CONFIG("st_cross_fastcof_minimal", fastcof_minimal);

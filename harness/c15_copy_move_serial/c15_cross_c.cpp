#include "c15_cross.h"
static void fastp_lowfull(vh::Case& c) { c15::run_cross<Gudhi::Simplex_tree_options_fast_persistence, stc::Opt_low_full>(c, c15::Gen{true, true, true}, "fastp_to_lowfull"); }
static void lowfull_lowfull(vh::Case& c) { c15::run_cross<stc::Opt_low_full, stc::Opt_low_full>(c, c15::Gen{false, true, true}, "lowfull_to_lowfull_templated"); }
VH_CONFIG("st_cross_fastp_lowfull", fastp_lowfull);
VH_CONFIG("st_cross_lowfull_lowfull", lowfull_lowfull);

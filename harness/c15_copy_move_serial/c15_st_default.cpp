#include "c15_exec.h"
VH_CONFIG("st_default", [](vh::Case& c) { c15::run_case<Gudhi::Simplex_tree_options_default>(c, c15::Gen{0 != 0, 1 != 0, 0 != 0}, "default"); });

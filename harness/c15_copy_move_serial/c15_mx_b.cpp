#include "c15_matrix.h"
using namespace c15m;
typedef Opt<2, Column_types::INTRUSIVE_SET, true, 1, false, true, true, false, false> RU_z2_iset_vine_rem;
typedef Opt<2, Column_types::LIST, false, 0, false, false, false, true, false> RU_z5_list;
typedef Opt<2, Column_types::VECTOR, true, 0, true, true, false, true, false> RU_z2_vector_map_rep;
typedef Opt<1, Column_types::UNORDERED_SET, false, 0, false, false, false, false, false> Bnd_z5_uset;
VH_CONFIG("mx_ru_z2_iset_vine_removable", [](vh::Case& c) { Driver<RU_z2_iset_vine_rem>::run(c, "ru_z2_iset_vine_removable"); });
VH_CONFIG("mx_ru_z5_list", [](vh::Case& c) { Driver<RU_z5_list>::run(c, "ru_z5_list"); });
VH_CONFIG("mx_ru_z2_vector_map_rep", [](vh::Case& c) { Driver<RU_z2_vector_map_rep>::run(c, "ru_z2_vector_map_rep"); });
VH_CONFIG("mx_boundary_z5_uset", [](vh::Case& c) { Driver<Bnd_z5_uset>::run(c, "boundary_z5_uset"); });

#include "c15_exec.h"
VH_CONFIG("st_minimal", [](vh::Case& c) { c15::run_case<Gudhi::Simplex_tree_options_minimal>(c, c15::Gen{0 != 0, 0 != 0, 0 != 0}, "minimal"); });

_OPTS = ["default", "full", "minimal", "fastp", "fastcof", "stable", "mini", "lowfull", "data"]
_SRC = ["c15_main.cpp"] + ["c15_st_%s.cpp" % n for n in _OPTS]
# cross-option copy constructor (pairs of option sets), flag complexes grown by insert_edge_as_flag / expansion on the option sets with
# link_nodes_by_label, more vertices than the largest 16 bit vertex handle
_CROSS = ["st_cross_full_mini", "st_cross_mini_full", "st_cross_default_stable", "st_cross_fastcof_minimal", "st_cross_fastp_lowfull", "st_cross_lowfull_lowfull"]
_FLAG = ["st_flag_full", "st_flag_fastcof", "st_flag_lowfull"]
_MANY = ["st_many_vertices_mini", "st_many_vertices_lowfull"]
_XSRC = ["c15_main.cpp", "c15_cross_a.cpp", "c15_cross_b.cpp", "c15_cross_c.cpp"]
def _st_configs(q, t, qx, tx, qm, tm):
    d = {("st_" + n): {"quick": q, "thorough": t} for n in _OPTS}
    d.update({n: {"quick": qx, "thorough": tx} for n in _FLAG})
    d.update({n: {"quick": qm, "thorough": tm} for n in _MANY})
    return d
def _extra(ctx):
    """C15's last sentence ('in every other check of this suite no operation touches memory outside live objects or executes
    undefined behaviour'): summarise, from the evidence files the other checks wrote, how many cases each of them executed under
    which sanitizer build and whether any sanitizer report / crash was attributed to a case (those would have failed that check)."""
    import glob, json, os
    summ = {}
    for f in sorted(glob.glob(os.path.join(ctx["verif"], "evidence", "C*.json"))):
        try:
            e = json.load(open(f))
        except Exception:
            continue
        cov = e.get("coverage", {})
        summ[e.get("property_id", os.path.basename(f))] = {
            "tier": e.get("tier"), "cases": cov.get("evaluations"), "sanitizer_variants": cov.get("sanitizer_variants"),
            "process_restarts_after_crash_or_sanitizer_report": cov.get("process_restarts_after_crash"),
            "unlisted_violation_signatures": len(cov.get("new_violation_signatures", [])),
            "sanitizer_or_crash_signatures": [x for x in cov.get("new_violation_signatures", []) if x.startswith(("sanitizer", "crash"))][:10]}
    ctx["info"]["suite_wide_sanitizer_summary_from_other_evidence_files"] = summ


_MX = ["mx_base_z2_ilist_rows", "mx_base_z5_set_setrows", "mx_base_z2_iset_compression", "mx_base_z5_heap",
       "mx_ru_z2_iset_vine_removable", "mx_ru_z5_list", "mx_ru_z2_vector_map_rep", "mx_boundary_z5_uset",
       "mx_chain_z2_ilist_map_vine", "mx_chain_z5_set_rep", "mx_chain_z2_nvector_setrows_removable",
       "mx_chain_z2_iset_id_removable", "mx_chain_z5_list_pos_removable", "mx_boundary_z2_set_id_removable", "mx_chain_z5_vector_id_map_rep",
       "mx_base_z2_set_rows_removable", "mx_chain_z2_ilist_rows_removable", "mx_base_z5_list_rows_compression"]
_MXSRC = ["c15_main.cpp", "c15_mx_a.cpp", "c15_mx_b.cpp", "c15_mx_c.cpp", "c15_mx_d.cpp", "c15_mx_e.cpp"]
SPEC = {
    "property": "C15",
    "rule": "Simplex_tree: a source tree A is built by a random model-generated history (2-30 ops incl. removals/prunings, so cached dimension bounds may be stale; "
            "one value draw in 17 is +infinity), a target B is empty / small / large; keys (store_key) and Simplex_data (option set 'data': std::vector<int>) are attached to every "
            "simplex of A and B; one scenario of {copy ctor, copy assign, self copy assign, move ctor, move assign, std::swap, self move assign, self swap, "
            "binary serialise/deserialise incl. every length perturbation -16..+16 and random truncations on exact-size heap buffers, "
            "text operator<< / operator>>} is applied; the result and the source are compared with the model through every read interface (and with the attached keys / data), "
            "then both objects are driven through different random histories with the OTHER object (its content and its freshly re-attached keys / data) fully re-checked after every step, and one "
            "of them is destroyed before the other continues. 9 option sets, under ASan+UBSan. Cross-option copy constructor Simplex_tree(const Simplex_tree<Other>&, translate): six pairs "
            "(full->mini, mini->full, default->stable, fastcof->minimal, fastp->lowfull, lowfull->lowfull through the template), same comparison, keys carried over when both store keys, then the "
            "two-way divergence. Flag complexes (option sets with link_nodes_by_label: full, fastcof, lowfull): source and target are grown by insert_edge_as_flag (dim_max 1..4 or -1; expansion(d) "
            "from a 1-skeleton), one of {copy ctor, copy assign, move ctor, move assign, swap, deserialise, text re-read, self assign} is applied, then both objects keep growing through the same "
            "interface, each compared with the clique complex of its graph after every step (oracle/flag.h) while the other is re-checked. 16 bit Vertex_handle (mini, lowfull): copy and "
            "serialisation round trip of a tree with 32768..40767 vertices. "
            "Matrix: 18 instantiations (base with intrusive/set rows, removable rows, compression with and without row access, heap; RU with vine/rep/map container; boundary; chain with "
            "vine/rep/removable columns/removable rows; position / identifier overlays): source and target are each built by one of the three documented routes (default constructor + "
            "insertions, reserving constructor Matrix(n[,p]) + insertions, batch constructor Matrix(columns[,p])), the target over Z7 half of the time when the source is over Z5; the source is a "
            "prefix of a random filtered complex, for removable columns sometimes after surplus insertions undone by remove_last, for base matrices after 0-4 random column operations "
            "(zero_entry, zero_column, add_to, multiply_target_and_add_to: zero columns, empty rows, merged compression classes); it is copied / assigned / self-assigned / moved / self-move-assigned / "
            "swapped / self-swapped, the full dump (all columns of R and U, barcode, every row that exists; with removable rows every row index, absent rows told from empty ones) is compared, "
            "both objects are then driven differently (remaining cells, remove_last, for base matrices the same random column operations on copy and source) with the other re-dumped, barcodes are "
            "compared with an independent reduction, one object is destroyed before the other continues; a moved-from matrix must report 0 columns and be usable again after assignment. "
            "non-trivial = distinct (history, scenario) with source dimension >= 1 or a move/swap/serialisation scenario",
    "assumptions": ["a moved-from Matrix is made usable again by assigning a matrix to it (it owns no column settings; direct reuse is not offered by the library)",
                    "Matrix part: 18 pointer-rich instantiations (incl. the position / identifier indexing overlays); vine swaps and the column operations of RU / chain matrices on copies are left to C06 / C09 "
                    "(probed clean on copies by the audit); chain matrices with vine updates are not rebuilt after remove_last (they do not reuse the identifier of a removed cell: "
                    "insert_boundary without explicit identifier after remove_last throws out_of_range from the position map, independent of any copy)",
                    "oracle::ComplexModel is the trusted model; oracle::flag_complex for the flag scenarios", "stream precision set to max_digits10 by the caller (documented responsibility)",
                    "infinite values: +infinity only (the largest grid value stands for it; -infinity / NaN are exercised by C01, not here); flag scenarios insert edges in filtration order with finite values",
                    "keys and Simplex_data are not part of the serialised form (documented), so they are compared for copies / moves / swaps only; the cross-option constructor ignores Simplex_data (documented)",
                    "TSan thread workloads live in the C03 (Simplex_tree) and C10 (field tables) checks"],
    "units": [
        {"name": "st", "src": _SRC, "variant": "asan",
         "configs": _st_configs(700, 40000, 300, 20000, 3, 40), "chunk": 25},
        {"name": "st_cross", "src": _XSRC, "variant": "asan",
         "configs": {n: {"quick": 250, "thorough": 15000} for n in _CROSS}, "chunk": 25},
        {"name": "mx", "src": _MXSRC, "variant": "asan",
         "configs": {n: {"quick": 500, "thorough": 30000} for n in _MX}, "chunk": 25},
        {"name": "mx_gcc", "src": _MXSRC, "variant": "gasan", "tiers": ["thorough"],
         "configs": {n: {"thorough": 3000} for n in _MX}, "chunk": 25},
        {"name": "st_gcc", "src": _SRC, "variant": "gasan",
         "configs": {("st_" + n): {"quick": 100, "thorough": 5000} for n in _OPTS}, "chunk": 25},
        # valgrind memcheck: uses of uninitialised values in copied / moved-from / deserialised objects (invisible to ASan/UBSan)
        {"name": "st_memcheck", "src": _SRC, "variant": "memcheck",
         "configs": {("st_" + n): {"quick": 40, "thorough": 1200} for n in _OPTS if n != "data"}, "chunk": 10},
        {"name": "mx_memcheck", "src": _MXSRC, "variant": "memcheck",
         "configs": {n: {"quick": 24, "thorough": 800} for n in _MX}, "chunk": 8},
    ],
    "extra": _extra,
    # per-shard wall-clock watchdog (inconclusive by itself; a hang is reported as watchdog.hang): a seeded change that makes
    # a Z_p reduction loop for ever must not cost the default 1800 s per shard
    "timeout": {"quick": 600, "thorough": 3600},
    "floors": {"quick": {"scenario.copy_ctor": 200, "scenario.move_assign": 200, "scenario.self_copy_assign": 100, "scenario.serialize": 200,
                         "state.source_upper_bound_stale": 100, "cmp.deserialize_truncated": 1000, "steps.divergent": 5000,
                         "_distinct_nontrivial": 1000, "cmp.matrix_independence": 1500, "cmp.matrix_moved_from_reuse": 500, "op.matrix_remove_last": 100,
                         # audit gaps (about half of what seeds 1-3 measure in the ASan units alone)
                         "scenario.self_swap": 300, "scenario.text_io": 300, "scenario.cross_copy": 700, "cmp.cross_operator_eq": 350,
                         "state.source_has_infinite_value": 150, "cmp.text_io_with_infinite_value": 12, "cmp.keys": 40000, "cmp.simplex_data": 3500,
                         "cmp.many_vertices": 6, "steps.divergent_flag": 3000, "op.insert_edge_as_flag": 5000, "op.expansion": 150,
                         "matrix.src_ctor.reserve": 1400, "matrix.src_ctor.batch": 1400, "matrix.dst_other_characteristic": 350,
                         "matrix.scenario.self_move_assign": 500, "matrix.scenario.self_swap": 500, "cmp.matrix_rows": 2500,
                         "state.matrix_source_has_empty_row": 20, "op.matrix_source_column_op": 1500, "op.matrix_divergent_column_op": 900,
                         "state.matrix_source_after_remove_last": 400}},
    "manifest": {
        "text": "Runtime monitor under ASan+UBSan: copies, assignments (incl. self), moves, swaps, binary and text serialisation of Simplex_trees in reachable "
                "states (after removals/prunings, stale dimension caches, emptied trees) must yield objects observationally equal to the model through every "
                "read interface, and independent: both objects are then driven through different histories with the other one fully re-checked after every "
                "step and after the destruction of its sibling; every wrong buffer length must be refused by an exception with no out-of-bounds read "
                "(exact-size heap buffers under ASan). Source states include infinite filtration values, attached keys / Simplex_data, flag complexes grown by insert_edge_as_flag / expansion, "
                "more vertices than the largest 16 bit vertex handle; the cross-option copy constructor is exercised on six pairs of option sets. Persistence matrices (18 instantiations) built by "
                "each documented constructor, after column operations / remove_last, copied / assigned (also over another characteristic) / moved / swapped (incl. onto themselves) must dump equal "
                "(columns, barcode, every existing row) and stay independent. Memory-safety/UB monitoring of every other check of the suite is provided by building all harnesses "
                "with ASan+UBSan (and TSan for the thread workloads).",
        "note": "ASan is a red-zone tool (misses intra-object and pool-recycled accesses); MSan unusable here (uninstrumented libstdc++/boost); trusted: oracle::ComplexModel",
        "technique": "runtime monitoring: AddressSanitizer/UBSan/TSan + reference-model oracle on source, copy and moved-from objects along divergent histories",
    },
}

_OPTS = ["default", "full", "minimal", "fastp", "fastcof", "stable", "mini", "lowfull"]
_SRC = ["c15_main.cpp"] + ["c15_st_%s.cpp" % n for n in _OPTS]
def _extra(ctx):
    """C15's last sentence ('in every other check of this suite no operation touches memory outside live objects or executes
    undefined behaviour'): summarise, from the evidence files the other checks wrote, how many cases each of them executed under
    which sanitizer build and whether any sanitizer report / crash was attributed to a case (those would have failed that check)."""
    import glob, json, os
    summ = {}
    for f in sorted(glob.glob(os.path.join(ctx["verif"], "evidence", "C*.json"))):
        try:
            e = json.load(open(f))
        except Exception:
            continue
        cov = e.get("coverage", {})
        summ[e.get("property_id", os.path.basename(f))] = {
            "tier": e.get("tier"), "cases": cov.get("evaluations"), "sanitizer_variants": cov.get("sanitizer_variants"),
            "process_restarts_after_crash_or_sanitizer_report": cov.get("process_restarts_after_crash"),
            "unlisted_violation_signatures": len(cov.get("new_violation_signatures", [])),
            "sanitizer_or_crash_signatures": [x for x in cov.get("new_violation_signatures", []) if x.startswith(("sanitizer", "crash"))][:10]}
    ctx["info"]["suite_wide_sanitizer_summary_from_other_evidence_files"] = summ


_MX = ["mx_base_z2_ilist_rows", "mx_base_z5_set_setrows", "mx_base_z2_iset_compression", "mx_base_z5_heap",
       "mx_ru_z2_iset_vine_removable", "mx_ru_z5_list", "mx_ru_z2_vector_map_rep", "mx_boundary_z5_uset",
       "mx_chain_z2_ilist_map_vine", "mx_chain_z5_set_rep", "mx_chain_z2_nvector_setrows_removable",
       "mx_chain_z2_iset_id_removable", "mx_chain_z5_list_pos_removable", "mx_boundary_z2_set_id_removable", "mx_chain_z5_vector_id_map_rep"]
SPEC = {
    "property": "C15",
    "rule": "Simplex_tree: a source tree A is built by a random model-generated history (2-30 ops incl. removals/prunings, so cached dimension bounds may be stale), "
            "a target B is empty / small / large; one scenario of {copy ctor, copy assign, self copy assign, move ctor, move assign, std::swap, "
            "self move assign, binary serialise/deserialise incl. every length perturbation -16..+16 and random truncations on exact-size heap buffers, "
            "text operator<< / operator>>} is applied; the result and the source are compared with the model through every read interface, "
            "then both objects are driven through different random histories with the OTHER object fully re-checked after every step, and one "
            "of them is destroyed before the other continues. All 8 option sets, under ASan+UBSan. Matrix: 15 instantiations (base with intrusive/set rows, compression, heap; RU with vine/rep/map container; boundary; chain with vine/rep/removable columns): a matrix built on a random filtered complex prefix is copied / assigned / self-assigned / moved / swapped, the full dump (all columns of R and U, barcode, rows) is compared, both objects are then driven differently (remaining cells, remove_last) with the other re-dumped, barcodes are compared with an independent reduction, one object is destroyed before the other continues; a moved-from matrix must report 0 columns and be usable again after assignment. non-trivial = distinct (history, scenario) "
            "with source dimension >= 1 or a move/swap/serialisation scenario",
    "assumptions": ["a moved-from Matrix is made usable again by assigning a matrix to it (it owns no column settings; direct reuse is not offered by the library)", "Matrix part: 15 pointer-rich instantiations (incl. the position / identifier indexing overlays) (intrusive rows/columns, pools, Z_p operators pointer, compression, RU+vine, chain+map container, removable columns)", "oracle::ComplexModel is the trusted model", "stream precision set to max_digits10 by the caller (documented responsibility)",
                    "TSan thread workloads live in the C03 (Simplex_tree) and C10 (field tables) checks"],
    "units": [
        {"name": "st", "src": _SRC, "variant": "asan",
         "configs": {("st_" + n): {"quick": 700, "thorough": 40000} for n in _OPTS}, "chunk": 25},
        {"name": "mx", "src": ["c15_main.cpp", "c15_mx_a.cpp", "c15_mx_b.cpp", "c15_mx_c.cpp", "c15_mx_d.cpp"], "variant": "asan",
         "configs": {n: {"quick": 500, "thorough": 30000} for n in _MX}, "chunk": 25},
        {"name": "mx_gcc", "src": ["c15_main.cpp", "c15_mx_a.cpp", "c15_mx_b.cpp", "c15_mx_c.cpp", "c15_mx_d.cpp"], "variant": "gasan", "tiers": ["thorough"],
         "configs": {n: {"thorough": 3000} for n in _MX}, "chunk": 25},
        {"name": "st_gcc", "src": _SRC, "variant": "gasan",
         "configs": {("st_" + n): {"quick": 100, "thorough": 5000} for n in _OPTS}, "chunk": 25},
        # valgrind memcheck: uses of uninitialised values in copied / moved-from / deserialised objects (invisible to ASan/UBSan)
        {"name": "st_memcheck", "src": _SRC, "variant": "memcheck",
         "configs": {("st_" + n): {"quick": 40, "thorough": 1200} for n in _OPTS}, "chunk": 10},
        {"name": "mx_memcheck", "src": ["c15_main.cpp", "c15_mx_a.cpp", "c15_mx_b.cpp", "c15_mx_c.cpp", "c15_mx_d.cpp"], "variant": "memcheck",
         "configs": {n: {"quick": 24, "thorough": 800} for n in _MX}, "chunk": 8},
    ],
    "extra": _extra,
    "floors": {"quick": {"scenario.copy_ctor": 200, "scenario.move_assign": 200, "scenario.self_copy_assign": 100, "scenario.serialize": 200,
                         "state.source_upper_bound_stale": 100, "cmp.deserialize_truncated": 1000, "steps.divergent": 5000,
                         "_distinct_nontrivial": 1000, "cmp.matrix_independence": 1500, "cmp.matrix_moved_from_reuse": 500, "op.matrix_remove_last": 100}},
    "manifest": {
        "text": "Runtime monitor under ASan+UBSan: copies, assignments (incl. self), moves, swaps, binary and text serialisation of Simplex_trees in reachable "
                "states (after removals/prunings, stale dimension caches, emptied trees) must yield objects observationally equal to the model through every "
                "read interface, and independent: both objects are then driven through different histories with the other one fully re-checked after every "
                "step and after the destruction of its sibling; every wrong buffer length must be refused by an exception with no out-of-bounds read "
                "(exact-size heap buffers under ASan). Memory-safety/UB monitoring of every other check of the suite is provided by building all harnesses "
                "with ASan+UBSan (and TSan for the thread workloads).",
        "note": "ASan is a red-zone tool (misses intra-object and pool-recycled accesses); MSan unusable here (uninstrumented libstdc++/boost); trusted: oracle::ComplexModel",
        "technique": "runtime monitoring: AddressSanitizer/UBSan/TSan + reference-model oracle on source, copy and moved-from objects along divergent histories",
    },
}

_OPTS = ["default", "full", "minimal", "fastp", "fastcof", "stable", "mini", "lowfull"]
_SRC = ["c15_main.cpp"] + ["c15_st_%s.cpp" % n for n in _OPTS]
SPEC = {
    "property": "C15",
    "rule": "Simplex_tree: a source tree A is built by a random model-generated history (2-30 ops incl. removals/prunings, so cached dimension bounds may be stale), "
            "a target B is empty / small / large; one scenario of {copy ctor, copy assign, self copy assign, move ctor, move assign, std::swap, "
            "self move assign, binary serialise/deserialise incl. every length perturbation -16..+16 and random truncations on exact-size heap buffers, "
            "text operator<< / operator>>} is applied; the result and the source are compared with the model through every read interface, "
            "then both objects are driven through different random histories with the OTHER object fully re-checked after every step, and one "
            "of them is destroyed before the other continues. All 8 option sets, under ASan+UBSan. non-trivial = distinct (history, scenario) "
            "with source dimension >= 1 or a move/swap/serialisation scenario",
    "assumptions": ["oracle::ComplexModel is the trusted model", "stream precision set to max_digits10 by the caller (documented responsibility)",
                    "Matrix part of C15 and TSan runs: see the other units of this spec when present"],
    "units": [
        {"name": "st", "src": _SRC, "variant": "asan",
         "configs": {("st_" + n): {"quick": 700, "thorough": 40000} for n in _OPTS}, "chunk": 25},
        {"name": "st_gcc", "src": _SRC, "variant": "gasan", "tiers": ["thorough"],
         "configs": {("st_" + n): {"thorough": 5000} for n in _OPTS}, "chunk": 25},
    ],
    "floors": {"quick": {"scenario.copy_ctor": 200, "scenario.move_assign": 200, "scenario.self_copy_assign": 100, "scenario.serialize": 200,
                         "state.source_upper_bound_stale": 100, "cmp.deserialize_truncated": 1000, "steps.divergent": 5000,
                         "_distinct_nontrivial": 1000}},
}

#include "c15_exec.h"
#include "c15_many.h"
#include "c15_flag.h"
VH_CONFIG("st_lowfull", [](vh::Case& c) { c15::run_case<stc::Opt_low_full>(c, c15::Gen{0 != 0, 1 != 0, 1 != 0}, "lowfull"); });
VH_CONFIG("st_many_vertices_lowfull", [](vh::Case& c) { c15::run_many_vertices<stc::Opt_low_full>(c, "lowfull"); });
VH_CONFIG("st_flag_lowfull", [](vh::Case& c) { c15::run_flag<stc::Opt_low_full>(c, "lowfull"); });

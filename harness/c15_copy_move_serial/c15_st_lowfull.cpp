#include "c15_exec.h"
VH_CONFIG("st_lowfull", [](vh::Case& c) { c15::run_case<stc::Opt_low_full>(c, c15::Gen{0 != 0, 1 != 0, 1 != 0}, "lowfull"); });

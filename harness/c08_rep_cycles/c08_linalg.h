// C08 — linear-algebra backends for the semantic checks.  No GUDHI header.
//   Z2Backend: oracle/z2_linalg.h (bit vectors)
//   ZpBackend: dense vectors mod p with an echelon span (naive)
#ifndef VERIF_C08_LINALG_H_
#define VERIF_C08_LINALG_H_
#include "oracle/z2_linalg.h"
#include "oracle/zp_reduce.h"
#include <vector>

namespace c08 {

using oracle::i64;

struct Z2Backend {
  typedef oracle::BitVec Vec;
  struct Span {
    oracle::Span s;
    bool add(const Vec& v) { return s.add(v); }
    bool contains(const Vec& v) const { return s.contains(v); }
    size_t rank() const { return s.rank(); }
  };
  i64 p = 2;
  size_t n = 0;
  Z2Backend(i64, size_t n_) : n(n_) {}
  Vec zero() const { return Vec(n); }
  void add_to(Vec& v, size_t i, i64 coef) const { if (coef & 1) v.flip(i); }
  void axpy(Vec& y, i64 a, const Vec& x) const { if (a & 1) y ^= x; }
  bool is_zero(const Vec& v) const { return v.zero(); }
  i64 get(const Vec& v, size_t i) const { return v.get(i) ? 1 : 0; }
  // forget the coordinates < b
  Vec project(Vec v, size_t b) const { for (size_t i = 0; i < b && i < n; ++i) if (v.get(i)) v.flip(i); return v; }
  static const std::vector<Vec>& basis(const Span& s) { return s.s.basis; }
  static const std::vector<long>& tops(const Span& s) { return s.s.tops; }
};

struct ZpBackend {
  typedef std::vector<i64> Vec;
  struct Span {
    i64 p;
    std::vector<Vec> basis;       // each normalised to leading (highest index) coefficient 1
    std::vector<long> tops;
    explicit Span(i64 p_ = 3) : p(p_) {}
    static long top(const Vec& v) { for (size_t k = v.size(); k-- > 0;) if (v[k]) return (long)k; return -1; }
    bool reduce(Vec& v) const {
      for (;;) {
        long t = top(v);
        if (t < 0) return false;
        bool found = false;
        for (size_t i = 0; i < basis.size(); ++i)
          if (tops[i] == t) {
            i64 c = v[t];
            for (size_t k = 0; k < v.size(); ++k) v[k] = oracle::mod_norm(v[k] - c * basis[i][k], p);
            found = true; break;
          }
        if (!found) return true;
      }
    }
    bool add(Vec v) {
      if (!reduce(v)) return false;
      long t = top(v);
      i64 inv = oracle::mod_inv(v[t], p);
      for (auto& x : v) x = oracle::mod_norm(x * inv, p);
      tops.push_back(t); basis.push_back(v);
      return true;
    }
    bool contains(Vec v) const { return !reduce(v); }
    size_t rank() const { return basis.size(); }
  };
  i64 p; size_t n;
  ZpBackend(i64 p_, size_t n_) : p(p_), n(n_) {}
  Vec zero() const { return Vec(n, 0); }
  void add_to(Vec& v, size_t i, i64 coef) const { v[i] = oracle::mod_norm(v[i] + coef, p); }
  void axpy(Vec& y, i64 a, const Vec& x) const { for (size_t k = 0; k < n; ++k) y[k] = oracle::mod_norm(y[k] + a * x[k], p); }
  bool is_zero(const Vec& v) const { for (i64 x : v) if (x) return false; return true; }
  i64 get(const Vec& v, size_t i) const { return v[i]; }
  Vec project(Vec v, size_t b) const { for (size_t i = 0; i < b && i < n; ++i) v[i] = 0; return v; }
  static const std::vector<Vec>& basis(const Span& s) { return s.basis; }
  static const std::vector<long>& tops(const Span& s) { return s.tops; }
};

// kernel of the matrix whose columns are cols[0..m) (dense, length n) over Z_p: basis vectors of length m.
inline std::vector<std::vector<i64>> zp_kernel(std::vector<std::vector<i64>> cols, i64 p) {
  const size_t m = cols.size();
  const size_t n = m ? cols[0].size() : 0;
  // column operations tracked in T (m x m identity); eliminate from the highest row down
  std::vector<std::vector<i64>> T(m, std::vector<i64>(m, 0));
  for (size_t j = 0; j < m; ++j) T[j][j] = 1;
  std::vector<char> used(m, 0);
  for (size_t rr = n; rr-- > 0;) {
    long piv = -1;
    for (size_t j = 0; j < m; ++j) if (!used[j] && cols[j][rr]) { piv = (long)j; break; }
    if (piv < 0) continue;
    used[piv] = 1;
    i64 inv = oracle::mod_inv(cols[piv][rr], p);
    for (size_t j = 0; j < m; ++j) {
      if ((long)j == piv || used[j] || !cols[j][rr]) continue;
      i64 c = oracle::mod_norm(cols[j][rr] * inv, p);
      for (size_t k = 0; k < n; ++k) cols[j][k] = oracle::mod_norm(cols[j][k] - c * cols[piv][k], p);
      for (size_t k = 0; k < m; ++k) T[j][k] = oracle::mod_norm(T[j][k] - c * T[piv][k], p);
    }
  }
  std::vector<std::vector<i64>> ker;
  for (size_t j = 0; j < m; ++j) {
    if (used[j]) continue;
    bool z = true; for (i64 x : cols[j]) if (x) z = false;
    if (z) ker.push_back(T[j]);
  }
  return ker;
}

}  // namespace c08
#endif

// C08 harness translation unit: the instantiations of unit C08_UNIT (see c08_units.inc) of the body in c08_body.h.
#include "c08_rep_cycles/c08_body.h"
#include "c08_rep_cycles/c08_units.inc"
VH_MAIN()

import os as _os
import re

# (config name, unit) lists are parsed from c08_units.inc so that the spec and the instantiations cannot drift apart
_HERE = _os.path.dirname(_os.path.abspath(__file__))


def _units():
    txt = open(_os.path.join(_HERE, "c08_units.inc")).read()
    units, cur = {}, None
    for line in txt.splitlines():
        m = re.match(r"#(?:el)?if C08_UNIT == (\d+)", line)
        if m:
            cur = int(m.group(1))
            units[cur] = []
            continue
        m = re.match(r'C08_INST\("([^"]+)"', line)
        if m and cur is not None:
            units[cur].append(m.group(1))
    return units


_U = _units()
QUICK_UNITS = [k for k in sorted(_U) if k < 100]
THOROUGH_UNITS = [k for k in sorted(_U) if k >= 100]

_units_spec = []
for k in QUICK_UNITS:
    _units_spec.append({"name": "u%d" % k, "src": ["c08_main.cpp"], "variant": "asan", "defs": ["C08_UNIT=%d" % k],
                        "configs": {n: {"quick": 500, "thorough": 4000} for n in _U[k]}, "chunk": 60})
for k in THOROUGH_UNITS:
    _units_spec.append({"name": "t%d" % k, "src": ["c08_main.cpp"], "variant": "asan", "defs": ["C08_UNIT=%d" % k],
                        "tiers": ["thorough"],
                        "configs": {n: {"thorough": 2500} for n in _U[k]}, "chunk": 160})
# gcc ASan+UBSan build of two quick units (gcc's UBSan sees invalid-bool / enum loads clang's does not)
for k in (0, 5):
    _units_spec.append({"name": "g%d" % k, "src": ["c08_main.cpp"], "variant": "gasan", "defs": ["C08_UNIT=%d" % k],
                        "tiers": ["thorough"],
                        "configs": {n: {"thorough": 1500} for n in _U[k]}, "chunk": 100})

SPEC = {
    "property": "C08",
    "rule": "each case grows a filtered cell complex of 6-40 (thorough: 6-52) cells in the harness (classes: random subcomplexes of the full "
            "simplicial complex on 5-7 vertices; triangulated RP^2 / torus / Klein bottle / coned RP^2; 2-D and 3-D cubical grids; "
            "'algebraic' chain complexes whose k-cells are glued along random (k-1)-cycles, with coefficients other than +-1 over Z_p), "
            "p = 2 for the Z_2 instantiations and p in {2,3,5,7,11} for the Z_p ones, cell ids implicit / explicit = position / explicit with "
            "random gaps; the complex is given to Matrix<Options> (can_retrieve_representative_cycles; RU or chain flavour) by the batch "
            "constructor or by insert_boundary one cell at a time (sometimes observing in the middle), then 0-3 rounds of "
            "remove_last x k (k up to 10, sometimes down to the empty matrix) followed by the insertion of up to 12 other cells. "
            "After every phase: update_representative_cycles (the first observation half of the time relies on the lazy first get), "
            "get_representative_cycles() and get_representative_cycle(bar) for every bar. Decided by rank computations on the harness's "
            "own boundary matrix (echelon bases of B(K_t) for every t): the list has exactly one cycle per bar of the reference barcode "
            "(oracle/zp_reduce.h; the library's barcode must equal it), no cell repeated, all cells of the bar's dimension, youngest cell "
            "= birth cell, zero boundary, class outside the image of H(K_{birth-1}) in K_{death-1} (K_{n-1} if essential; monotone, so for "
            "every t in [birth, death-1]), inside it in K_death, chain flavour: a boundary of K_death; at every index t the alive "
            "representatives are independent in H(K_t) and as many as beta(K_t). Z_p, p > 2: the chain is the generator of the cycles "
            "supported in the returned support when that space has dimension 1 (then all of the above over Z_p), else: some cycle in "
            "the support is non-zero on every listed cell and some cycle in the support is born and dies with the bar. "
            "non-trivial = distinct history (hash) with >= 12 cells at some observation, >= 3 finite bars and a bar of dimension >= 1",
    "assumptions": [
        "cells are inserted in a valid filtration order, faces listed by increasing id, ids strictly increasing; explicit ids are never mixed with implicit ones",
        "get_representative_cycle(bar) is only called with bars of the current barcode (the library's own Bar objects when the barcode option is on, "
        "else Bar(birth, death, dim) built from the reference barcode)",
        "the cycles are never read after a modification without update_representative_cycles in between (documented to return the old cycles)",
        "entries of a Cycle are read as ids for the chain flavour and as positions for the RU flavour (what each returns; the documentation only says "
        "'row indices'); they differ only with gapped ids, where the other reading is accepted too if it makes every statement true",
        "the batch constructor is only used for simplicial prefixes with implicit ids (it deduces dimensions from boundary sizes)",
        "instantiations with the vine option are an extra beyond the option sets of the *_rep tests; no vine swap is performed; gapped ids are not used "
        "with them and chain + vine is instantiated without remove_last (both are C05/C06 matters: see the report)",
        "Z_p with p > 2: a Cycle has no coefficients, so the zero-boundary / birth / death statements are decided exactly only when the returned support "
        "carries a 1-dimensional space of cycles (about 3/4 of the bars); otherwise only necessary conditions",
        "the reference barcode (oracle/zp_reduce.h), oracle/z2_linalg.h and harness/c08_rep_cycles/c08_linalg.h are the trusted base",
    ],
    "units": _units_spec,
    "floors": {
        "quick": {"_distinct_nontrivial": 3500, "obs.complete": 15000, "state.complex_with_nested_reduction_in_a_cycle_column": 5000,
                  "state.bar_with_nested_sources": 15000, "op.remove_last": 30000, "obs.after.remove_and_reinsert": 5000,
                  "obs.after.remove_last": 2500, "obs.after.build_batch": 600, "obs.after.second_update": 1400,
                  "cmp.cycle.semantic.finite": 100000, "cmp.cycle.semantic.essential": 60000, "cmp.basis.index_checked": 300000,
                  "state.zp.chain_determined": 30000, "cmp.zp.some_chain_represents_bar": 10000, "idmode.2": 300,
                  "op.lazy_first_get": 2000, "state.empty_matrix": 150, "class.algebraic": 1200, "class.surface": 800},
        "thorough": {"_distinct_nontrivial": 50000, "obs.complete": 200000, "state.complex_with_nested_reduction_in_a_cycle_column": 70000,
                     "op.remove_last": 400000, "cmp.cycle.semantic.finite": 1500000, "cmp.basis.index_checked": 4000000,
                     "state.zp.chain_determined": 500000},
    },
    "exhaustive": {"quick": False, "thorough": False},
    "manifest": {
        "text": "Runtime monitor: for 18 (quick) / 42 (thorough) option sets of Matrix<Options> with representative cycles (RU and chain flavours, "
                "all 9 column types, Z_2 and Z_p, container/position/identifier indexing, with/without barcode, max-dimension access, map "
                "container, row access, and a few vine-capable sets) thousands of filtered simplicial, cubical, surface and general chain "
                "complexes are built, truncated with remove_last and re-extended under ASan+UBSan; after every phase every returned "
                "representative cycle (whole list and per-bar query) is decided semantically against the harness's own boundary matrix by rank "
                "computations: right dimension, youngest cell = birth cell, zero boundary, not in the image of earlier homology before the death, "
                "in it (chain flavour: a boundary) at the death, and the alive representatives form a basis of H(K_t) at every index t. "
                "Held-on-what-was-observed, not a proof.",
        "note": "trusted: zp_reduce / z2_linalg oracles and the harness's Z_p linear algebra; Z_p (p>2) cycles carry no coefficients, so they are decided "
                "exactly only when the support determines the chain (else necessary conditions); no vine swaps; preconditions as in 'assumptions'",
        "technique": "runtime monitoring: randomized build / remove_last / re-insert histories + independent linear-algebra oracle after every phase, "
                     "under AddressSanitizer/UBSan",
    },
}

import concurrent.futures as _cf
import os as _os
import re
import subprocess as _sp

# (config name, unit) lists are parsed from c08_units.inc so that the spec and the instantiations cannot drift apart
_HERE = _os.path.dirname(_os.path.abspath(__file__))


def _units():
    txt = open(_os.path.join(_HERE, "c08_units.inc")).read()
    units, cur = {}, None
    for line in txt.splitlines():
        m = re.match(r"#(?:el)?if C08_UNIT == (\d+)", line)
        if m:
            cur = int(m.group(1))
            units[cur] = []
            continue
        m = re.match(r'C08_INSTX?\("([^"]+)"', line)
        if m and cur is not None:
            units[cur].append(m.group(1))
    return units


_U = _units()
QUICK_UNITS = [k for k in sorted(_U) if k < 100]
THOROUGH_UNITS = [k for k in sorted(_U) if k >= 100]

_units_spec = []
for k in QUICK_UNITS:
    _units_spec.append({"name": "u%d" % k, "src": ["c08_main.cpp"], "variant": "asan", "defs": ["C08_UNIT=%d" % k],
                        "configs": {n: {"quick": 500, "thorough": 4000} for n in _U[k]}, "chunk": 60})
for k in THOROUGH_UNITS:
    _units_spec.append({"name": "t%d" % k, "src": ["c08_main.cpp"], "variant": "asan", "defs": ["C08_UNIT=%d" % k],
                        "tiers": ["thorough"],
                        "configs": {n: {"thorough": 2500} for n in _U[k]}, "chunk": 160})
# gcc ASan+UBSan build of two quick units (gcc's UBSan sees invalid-bool / enum loads clang's does not)
for k in (0, 5):
    _units_spec.append({"name": "g%d" % k, "src": ["c08_main.cpp"], "variant": "gasan", "defs": ["C08_UNIT=%d" % k],
                        "tiers": ["thorough"],
                        "configs": {n: {"thorough": 1500} for n in _U[k]}, "chunk": 100})

# Positive compile probes: every column type must be accepted by the representative-cycle code of both flavours, with and
# without the vine option / the stored barcode / the map container (the run-time units only instantiate a rotation of them).
_COLUMN_TYPES = ["INTRUSIVE_LIST", "INTRUSIVE_SET", "LIST", "SET", "UNORDERED_SET", "VECTOR", "NAIVE_VECTOR", "SMALL_VECTOR", "HEAP"]
_PROBE_SRC = r"""
#include <gudhi/Matrix.h>
#include <gudhi/persistence_matrix_options.h>
using namespace Gudhi::persistence_matrix;
template <Column_types ct, bool ru, bool vine, bool barcode, bool mapc> struct O : Default_options<ct, true> {
  static const bool is_of_boundary_type = ru; static const bool has_column_pairings = barcode; static const bool has_vine_update = vine;
  static const bool can_retrieve_representative_cycles = true; static const bool has_map_column_container = mapc;
  static const bool has_removable_columns = ru || !vine || mapc;
};
#define PROBE(ru, vine, barcode, mapc) \
  template void Matrix<O<Column_types::CT, ru, vine, barcode, mapc>>::update_representative_cycles(); \
  template const Matrix<O<Column_types::CT, ru, vine, barcode, mapc>>::Cycle& Matrix<O<Column_types::CT, ru, vine, barcode, mapc>>::get_representative_cycle(const Bar&);
#if VARIANT == 0 || VARIANT == -1
PROBE(false, true, true, false) PROBE(false, true, true, true)
#endif
#if VARIANT == 1 || VARIANT == -1
PROBE(false, true, false, false) PROBE(false, true, false, true)
#endif
#if VARIANT == 2 || VARIANT == -1
PROBE(false, false, true, false) PROBE(false, false, false, true)
#endif
#if VARIANT == 3 || VARIANT == -1
PROBE(true, true, true, false) PROBE(true, true, false, true) PROBE(true, false, true, true) PROBE(true, false, false, false)
#endif
int main() { return 0; }
"""
_PROBE_VARIANTS = ["chain,vine,barcode", "chain,vine,no_barcode", "chain,no_vine", "ru"]


def _extra(ctx):
    d = _os.path.join(ctx["build"], "c08_probes")
    _os.makedirs(d, exist_ok=True)
    src = _os.path.join(d, "probe.cpp")
    with open(src, "w") as f:
        f.write(_PROBE_SRC)

    def one(job):
        ct, v = job
        cmd = ["clang++-14", "-std=gnu++17", "-fsyntax-only", "-DNDEBUG", "-DCT=" + ct, "-DVARIANT=%d" % v] + ctx["includes"] + [src]
        p = _sp.run(cmd, stdout=_sp.PIPE, stderr=_sp.STDOUT)
        out = p.stdout.decode("utf-8", "replace")
        m = re.search(r"error: (.*)", out)
        return ct, v, p.returncode == 0, (m.group(1)[:300] if m else out[-300:])

    # one translation unit per column type with all the groups; the groups one by one only for a column type that fails
    with _cf.ThreadPoolExecutor(max_workers=9) as ex:
        first = list(ex.map(one, [(ct, -1) for ct in _COLUMN_TYPES]))
        failing = [ct for (ct, v, compiled, msg) in first if not compiled]
        res = list(ex.map(one, [(ct, v) for ct in failing for v in range(len(_PROBE_VARIANTS))]))
    jobs = [(ct, v) for ct in _COLUMN_TYPES for v in range(len(_PROBE_VARIANTS))]
    ok = len(jobs) - len(res)
    for i, (ct, v, compiled, msg) in enumerate(res):
        if compiled:
            ok += 1
            continue
        ctx["agg"]["viol"].append({"kind": "oracle", "unit": "compile_probe", "config": "compile_probe", "case": i,
                                   "check": "compile.representative_cycles", "sig": _PROBE_VARIANTS[v] + ",column=" + ct,
                                   "detail": "a documented option set with can_retrieve_representative_cycles does not compile: " + msg,
                                   "history": "explicit instantiation of update_representative_cycles / get_representative_cycle, "
                                              "column type " + ct + ", " + _PROBE_VARIANTS[v]})
    ctx["info"]["compile_probes"] = {"instantiation_groups": len(jobs), "compiled": ok}
    ctx["agg"]["counters"]["probe.option_set_groups_compiled"] = ok


SPEC = {
    "property": "C08",
    "rule": "each case grows a filtered cell complex of 6-40 (thorough: 6-52; thorough, 1 Z_2 case in 50: 150-300) cells in the harness (classes: "
            "random subcomplexes of the full simplicial complex on 5-7 (large: 9-10) vertices; triangulated RP^2 / torus / Klein bottle / coned "
            "RP^2; 2-D and 3-D cubical grids; 'algebraic' chain complexes whose k-cells are glued along random (k-1)-cycles, with coefficients "
            "other than +-1 over Z_p), p = 2 for the Z_2 instantiations and p in {2,3,5,7,11,251} (two cases per 500: 46349, 65521) for the Z_p "
            "ones; over Z_p half of the universe complexes are rescaled cell by cell with random units (coefficients spread over Z_p); cell ids "
            "implicit / explicit / explicit with random gaps; the complex is given to Matrix<Options> (can_retrieve_representative_cycles; RU or "
            "chain flavour; default, reserving, batch or comparator constructors) by the batch constructor or by insert_boundary one cell at a "
            "time (sometimes observing in the middle), then 0-3 rounds of k removals (k up to 10, large complexes up to 40, sometimes down to the "
            "empty matrix) followed by the insertion of up to 12 (60) other cells. A round removes with remove_last, or - where "
            "remove_maximal_cell exists (RU + vine; chain + vine + map container + barcode) - half of the time with remove_maximal_cell of "
            "random maximal cells, 3 out of 4 not the last one (chain: both overloads, the second with the ids of the younger cells). Between "
            "the phases the matrix is sometimes replaced by a copy, a moved object, an assigned or a swapped scratch matrix (which may hold "
            "cycles of its own); without a modification in between the cycles are then read without an update. "
            "After every phase: update_representative_cycles (the first observation half of the time relies on the lazy first get, and then "
            "half of the time triggers it through get_representative_cycle(bar)), get_representative_cycles() and "
            "get_representative_cycle(bar) for every bar. Decided by rank computations on the harness's "
            "own boundary matrix (echelon bases of B(K_t) for every t): the list has exactly one cycle per bar of the reference barcode "
            "(oracle/zp_reduce.h; the library's barcode must equal it), no cell repeated, all cells of the bar's dimension, youngest cell "
            "= birth cell, zero boundary, class outside the image of H(K_{birth-1}) in K_{death-1} (K_{n-1} if essential; monotone, so for "
            "every t in [birth, death-1]), inside it in K_death, chain flavour: a boundary of K_death; at every index t the alive "
            "representatives are independent in H(K_t) and as many as beta(K_t). Z_p, p > 2: in 7 observations of 8 the library's own column "
            "(RU: get_column(birth, false); chain: get_column(get_column_with_pivot(id))) is read AFTER the cycles as a witness of the "
            "coefficients: if its support is the returned cycle and it satisfies all of the above as a chain over Z_p, it is the chain of the "
            "bar; otherwise (and for RU + IDENTIFIER indexing, which offers no U column) the chain is the generator of the cycles "
            "supported in the returned support when that space has dimension 1 (then all of the above over Z_p), else: some cycle in "
            "the support is non-zero on every listed cell and some cycle in the support is born and dies with the bar. "
            "A python step compiles (syntax only) update_representative_cycles / get_representative_cycle for all 9 column types x "
            "{chain+vine+barcode, chain+vine without barcode, chain without vine, RU} x container kinds. "
            "non-trivial = distinct history (hash) with >= 12 cells at some observation, >= 3 finite bars and a bar of dimension >= 1",
    "assumptions": [
        "cells are inserted in a valid filtration order, faces listed by increasing id, ids strictly increasing; explicit ids are never mixed with implicit ones",
        "get_representative_cycle(bar) is only called with bars of the current barcode (the library's own Bar objects when the barcode option is on, "
        "else Bar(birth, death, dim) built from the reference barcode, births and deaths being positions in the current filtration)",
        "the cycles are never read after a modification without update_representative_cycles in between (documented to return the old cycles)",
        "entries of a Cycle are read as ids for the chain flavour and as positions for the RU flavour (what each returns; the documentation only says "
        "'row indices'); they differ only with gapped ids, where the other reading is accepted too if it makes every statement true",
        "the batch constructor is only used for simplicial prefixes with implicit ids (it deduces dimensions from boundary sizes)",
        "remove_maximal_cell is only called on cells without cofaces; the only vine swaps are those it performs internally (explicit vine_swap "
        "calls are C06's business). RU flavour: after such a removal the rows are labelled by the positions (ids = positions are used, gapped ids are not "
        "used with RU + vine: recorded C06 finding ru_*+gap); RU + IDENTIFIER indexing: a removal of a cell that is not the last one is never followed "
        "by an insertion (no admissible id exists: the implicit one collides with a living cell, a fresh one differs from its position). Chain flavour "
        "with vine + removable columns: ids are always explicit (last id + 1, possibly re-using the id of a removed last cell, or with gaps)",
        "chain + vine without stored barcode (comparator constructors): only remove_last is used, no swap is ever performed, the comparators are never "
        "called (info.comparator_called would count it); positions are the ranks of the cells in the current filtration",
        "Z_p with p > 2: a Cycle has no coefficients; the library's column is only a witness (an existence proof): a support differing from the cycle or a "
        "witness failing a statement is not an alarm, the support is then judged alone (exactly when it carries a 1-dimensional space of cycles, "
        "otherwise by necessary conditions)",
        "has_column_and_row_swaps = true (documented as ignored with representative cycles; it does enable the lazy row swap machinery underneath) and "
        "Index = int are instantiated once per flavour; large complexes (150-300 cells) only over Z_2 and in the thorough tier",
        "the reference barcode (oracle/zp_reduce.h), oracle/z2_linalg.h and harness/c08_rep_cycles/c08_linalg.h are the trusted base",
    ],
    "units": _units_spec,
    "floors": {
        "quick": {"_distinct_nontrivial": 5000, "obs.complete": 22000, "state.complex_with_nested_reduction_in_a_cycle_column": 8000,
                  "state.bar_with_nested_sources": 25000, "op.remove_last": 38000, "obs.after.remove_and_reinsert": 6500,
                  "obs.after.remove_last": 3000, "obs.after.build_batch": 850, "obs.after.second_update": 1800,
                  "cmp.cycle.semantic.finite": 180000, "cmp.cycle.semantic.essential": 90000, "cmp.basis.index_checked": 450000,
                  "state.zp.chain_from_witness": 50000, "obs.zp.witness_column": 50000,
                  "state.zp.chain_determined": 15000, "cmp.zp.some_chain_represents_bar": 2000, "idmode.2": 450,
                  "op.lazy_first_get": 2800, "op.lazy_first_get.through_per_bar_query": 1400,
                  "state.empty_matrix": 240, "class.algebraic": 1600, "class.surface": 1100, "class.rescaled_by_units": 500,
                  "op.remove_maximal_cell.not_last": 2300, "op.remove_maximal_cell.with_columns_to_swap": 500,
                  "op.insert_boundary.after_maximal_removal": 2500, "obs.after_maximal_cell_removal": 700,
                  "obs.chain_vine_after_removal": 450, "obs.chain_vine_comparators_after_removal": 500, "obs.ru_vine_after_removal": 900,
                  "op.remove_last.vine": 3000,
                  "op.transfer.copy_constructor": 1100, "op.transfer.move_constructor": 1100, "op.transfer.assignment": 1100,
                  "op.transfer.swap": 1100, "obs.after.transfer": 1400, "op.read_without_update_after_transfer": 700,
                  "p.251": 300, "p.46349": 5, "p.65521": 5, "probe.option_set_groups_compiled": 36},
        "thorough": {"_distinct_nontrivial": 50000, "obs.complete": 200000, "state.complex_with_nested_reduction_in_a_cycle_column": 70000,
                     "op.remove_last": 400000, "cmp.cycle.semantic.finite": 1500000, "cmp.basis.index_checked": 4000000,
                     "state.zp.chain_from_witness": 500000, "state.zp.chain_determined": 150000,
                     "op.remove_maximal_cell.not_last": 30000, "obs.chain_vine_comparators_after_removal": 5000,
                     "state.complex_with_ge150_cells": 3000, "op.transfer": 80000, "p.46349": 100, "p.65521": 100,
                     "probe.option_set_groups_compiled": 36},
    },
    "exhaustive": {"quick": False, "thorough": False},
    "extra": _extra,
    "manifest": {
        "text": "Runtime monitor: for 24 (quick) / 54 (thorough) option sets of Matrix<Options> with representative cycles (RU and chain flavours, "
                "all 9 column types, Z_2 and Z_p up to p = 65521, container/position/identifier indexing, with/without barcode, max-dimension access, "
                "map container, row access, vine-capable sets including the comparator-constructed chain matrix, lazy row swaps, Index = int) "
                "thousands of filtered simplicial, cubical, surface and general chain "
                "complexes are built, truncated with remove_last / remove_maximal_cell (cells in the middle of the filtration) and re-extended, "
                "copied / moved / assigned / swapped between the phases, under ASan+UBSan; after every phase every returned "
                "representative cycle (whole list and per-bar query) is decided semantically against the harness's own boundary matrix by rank "
                "computations: right dimension, youngest cell = birth cell, zero boundary, not in the image of earlier homology before the death, "
                "in it (chain flavour: a boundary) at the death, and the alive representatives form a basis of H(K_t) at every index t; over Z_p "
                "with the coefficients of the library's own column as a verified witness. Compile probes cover every column type. "
                "Held-on-what-was-observed, not a proof.",
        "note": "trusted: zp_reduce / z2_linalg oracles and the harness's Z_p linear algebra; Z_p (p>2) cycles carry no coefficients: decided with the "
                "library's column as a witness checked by the harness (else: exactly only when the support determines the chain, otherwise necessary "
                "conditions); no explicit vine swaps; preconditions as in 'assumptions'",
        "technique": "runtime monitoring: randomized build / removal / re-insert / transfer histories + independent linear-algebra oracle after every "
                     "phase, under AddressSanitizer/UBSan; syntax-only compile probes",
    },
}

// C08 — workload generator: filtered cell complexes that can be extended / truncated at the end.
// No GUDHI header here.  A "universe" is a finite regular cell complex (simplicial, cubical, a triangulated surface);
// a filtration is grown by repeatedly appending a universe cell that is absent and all of whose facets are present.
// A fourth class ("algebraic") grows an abstract chain complex: the boundary of a new k-cell is a random (k-1)-cycle
// of the current complex (polygonal 2-cells, cells glued along several cycles, over Z_p with coefficients != +-1).
#ifndef VERIF_C08_GEN_H_
#define VERIF_C08_GEN_H_
#include "common/vh.h"
#include "oracle/zp_reduce.h"
#include <map>
#include <vector>
#include <string>
#include <algorithm>

namespace c08 {

using oracle::i64;

struct UCell {
  int dim = 0;
  std::vector<std::pair<int, int>> facets;  // (universe index, +1 / -1)
};
struct Universe {
  std::string name;
  bool simplicial = false;
  std::vector<UCell> cells;
};

// ------------------------------------------------------------------ simplicial universes
inline Universe simplicial_closure(const std::string& name, const std::vector<std::vector<int>>& tops) {
  std::map<std::vector<int>, int> idx;
  std::vector<std::vector<int>> all;
  for (auto t : tops) {
    std::sort(t.begin(), t.end());
    for (unsigned m = 1; m < (1u << t.size()); ++m) {
      std::vector<int> f;
      for (size_t i = 0; i < t.size(); ++i) if (m >> i & 1) f.push_back(t[i]);
      if (!idx.count(f)) { idx[f] = -1; all.push_back(f); }
    }
  }
  std::sort(all.begin(), all.end(), [](const std::vector<int>& a, const std::vector<int>& b) {
    if (a.size() != b.size()) return a.size() < b.size();
    return a < b;
  });
  for (size_t i = 0; i < all.size(); ++i) idx[all[i]] = (int)i;
  Universe u; u.name = name; u.simplicial = true; u.cells.resize(all.size());
  for (size_t i = 0; i < all.size(); ++i) {
    const auto& s = all[i];
    u.cells[i].dim = (int)s.size() - 1;
    if (s.size() > 1)
      for (size_t k = 0; k < s.size(); ++k) {
        std::vector<int> f; for (size_t t = 0; t < s.size(); ++t) if (t != k) f.push_back(s[t]);
        u.cells[i].facets.emplace_back(idx.at(f), (k % 2 == 0) ? 1 : -1);
      }
    std::sort(u.cells[i].facets.begin(), u.cells[i].facets.end());
  }
  return u;
}

inline Universe full_simplicial(int nv, int maxdim) {
  std::vector<std::vector<int>> tops;
  for (unsigned m = 1; m < (1u << nv); ++m) {
    if (__builtin_popcount(m) != std::min(nv, maxdim + 1)) continue;
    std::vector<int> s; for (int v = 0; v < nv; ++v) if (m >> v & 1) s.push_back(v);
    tops.push_back(s);
  }
  return simplicial_closure("simplicial_full", tops);
}

// minimal triangulation of the real projective plane (6 vertices, 10 triangles)
inline Universe rp2() {
  return simplicial_closure("rp2", {{1, 2, 4}, {1, 2, 6}, {1, 3, 4}, {1, 3, 5}, {1, 5, 6}, {2, 3, 5}, {2, 3, 6}, {2, 4, 5}, {3, 4, 6}, {4, 5, 6}});
}
// 7-vertex torus
inline Universe torus7() {
  std::vector<std::vector<int>> t;
  for (int i = 0; i < 7; ++i) { t.push_back({i, (i + 1) % 7, (i + 3) % 7}); t.push_back({i, (i + 2) % 7, (i + 3) % 7}); }
  return simplicial_closure("torus7", t);
}
// 3x3 grid with opposite sides identified; flip = true glues one pair of sides with a reflection (Klein bottle)
inline Universe grid_surface(bool flip) {
  std::vector<std::vector<int>> t;
  for (int i = 0; i < 3; ++i) for (int j = 0; j < 3; ++j) {
    // vertex (a, b), a in 0..3, b in 0..3; column 3 is column 0 (reflected when flip), row 3 is row 0
    auto w = [&](int a, int b) {
      int wraps = (a >= 3) ? 1 : 0; a %= 3;
      int bb = b;  // b in 0..3
      if (flip && wraps) bb = 3 - bb;
      bb = ((bb % 3) + 3) % 3;
      return a * 3 + bb;
    };
    t.push_back({w(i, j), w(i + 1, j), w(i + 1, j + 1)});
    t.push_back({w(i, j), w(i, j + 1), w(i + 1, j + 1)});
  }
  return simplicial_closure(flip ? "klein9" : "torus9", t);
}
// RP^2 coned twice: a small 3-dimensional complex with Z_2 torsion in dimension 1 killed by the cone
inline Universe rp2_cone() {
  std::vector<std::vector<int>> t;
  for (auto s : std::vector<std::vector<int>>{{1, 2, 4}, {1, 2, 6}, {1, 3, 4}, {1, 3, 5}, {1, 5, 6}, {2, 3, 5}, {2, 3, 6}, {2, 4, 5}, {3, 4, 6}, {4, 5, 6}}) {
    s.push_back(0); t.push_back(s);
  }
  return simplicial_closure("rp2_cone", t);
}

// ------------------------------------------------------------------ cubical universes
// cells of the grid [0,a] x [0,b] x [0,c] in doubled coordinates (odd coordinate = interval)
inline Universe cubical(int a, int b, int c) {
  int ext[3] = {2 * a + 1, 2 * b + 1, 2 * c + 1};
  auto key = [&](int x, int y, int z) { return (x * ext[1] + y) * ext[2] + z; };
  std::vector<int> order;
  std::vector<std::array<int, 3>> coord;
  for (int d = 0; d <= 3; ++d)
    for (int x = 0; x < ext[0]; ++x) for (int y = 0; y < ext[1]; ++y) for (int z = 0; z < ext[2]; ++z)
      if ((x & 1) + (y & 1) + (z & 1) == d) { order.push_back(key(x, y, z)); coord.push_back({x, y, z}); }
  std::map<int, int> idx;
  for (size_t i = 0; i < order.size(); ++i) idx[order[i]] = (int)i;
  Universe u; u.name = "cubical"; u.simplicial = false; u.cells.resize(order.size());
  for (size_t i = 0; i < order.size(); ++i) {
    auto p = coord[i];
    u.cells[i].dim = (p[0] & 1) + (p[1] & 1) + (p[2] & 1);
    int sign = 1;
    for (int ax = 0; ax < 3; ++ax) {
      if (!(p[ax] & 1)) continue;
      auto q = p; q[ax] = p[ax] + 1; u.cells[i].facets.emplace_back(idx.at(key(q[0], q[1], q[2])), sign);
      q[ax] = p[ax] - 1; u.cells[i].facets.emplace_back(idx.at(key(q[0], q[1], q[2])), -sign);
      sign = -sign;
    }
    std::sort(u.cells[i].facets.begin(), u.cells[i].facets.end());
  }
  return u;
}

struct Library {
  std::vector<Universe> us;
  Library() {
    us.push_back(full_simplicial(5, 3));   // 0
    us.push_back(full_simplicial(6, 3));   // 1
    us.push_back(full_simplicial(7, 2));   // 2
    us.push_back(rp2());                   // 3
    us.push_back(torus7());                // 4
    us.push_back(grid_surface(false));     // 5
    us.push_back(grid_surface(true));      // 6
    us.push_back(rp2_cone());              // 7
    us.push_back(cubical(3, 3, 0));        // 8
    us.push_back(cubical(4, 2, 0));        // 9
    us.push_back(cubical(2, 2, 1));        // 10
    us.push_back(cubical(2, 1, 1));        // 11
    // large universes (thorough tier: complexes of 150-300 cells)
    us.push_back(full_simplicial(9, 3));   // 12: 255 cells
    us.push_back(full_simplicial(10, 2));  // 13: 175 cells
    us.push_back(cubical(4, 4, 1));        // 14: 243 cells
    us.push_back(cubical(3, 3, 2));        // 15: 245 cells
  }
  static constexpr int kFirstBig = 12, kNumBig = 4;
  static const Library& get() { static Library l; return l; }
};

// ------------------------------------------------------------------ the growing filtration
struct Filtration {
  i64 p = 2;
  const Universe* U = nullptr;          // null for the algebraic class
  std::vector<char> present;            // per universe cell
  std::vector<int> upos;                // universe cell -> position (valid when present)
  std::vector<oracle::Cell> cells;      // the filtered complex, boundaries by position
  std::vector<int> ucell;               // position -> universe index (or -1)
  // Z_p, universe classes: the basis cell at position j is s_j times the universe cell (s_j a unit), i.e. the coefficient of
  // face f in the boundary of j is sign * s_j / s_f.  A change of basis of the chain complex: dd = 0 is kept.
  bool rescale = false;
  std::vector<i64> scale;               // position -> s_j

  void init(const Universe* u, i64 p_) {
    U = u; p = p_; cells.clear(); ucell.clear(); scale.clear();
    if (U) { present.assign(U->cells.size(), 0); upos.assign(U->cells.size(), -1); }
  }
  size_t size() const { return cells.size(); }
  bool simplicial() const { return U && U->simplicial; }

  // appends a new cell; returns false when no cell can be added
  bool grow(vh::Rng& r) { return U ? grow_universe(r) : grow_algebraic(r); }

  void pop() {
    if (cells.empty()) return;
    if (U) { int u = ucell.back(); present[u] = 0; upos[u] = -1; }
    cells.pop_back(); ucell.pop_back(); scale.pop_back();
  }

  // no cell of the complex has the cell at position q in its boundary
  bool maximal(size_t q) const {
    for (size_t j = q + 1; j < cells.size(); ++j)
      for (auto& f : cells[j].bdry) if ((size_t)f.first == q) return false;
    return true;
  }
  // removes the (maximal) cell at position q; the younger cells move down by one position
  void erase_at(size_t q) {
    if (q + 1 == cells.size()) { pop(); return; }
    if (U) {
      int u = ucell[q]; present[u] = 0; upos[u] = -1;
      for (size_t j = q + 1; j < cells.size(); ++j) upos[ucell[j]] = (int)j - 1;
    }
    cells.erase(cells.begin() + q); ucell.erase(ucell.begin() + q); scale.erase(scale.begin() + q);
    for (size_t j = q; j < cells.size(); ++j)
      for (auto& f : cells[j].bdry) if ((size_t)f.first > q) --f.first;
  }

 private:
  bool grow_universe(vh::Rng& r) {
    std::vector<int> cand; int maxd = 0;
    for (size_t i = 0; i < U->cells.size(); ++i) {
      if (present[i]) continue;
      bool ok = true;
      for (auto& f : U->cells[i].facets) if (!present[f.first]) { ok = false; break; }
      if (ok) { cand.push_back((int)i); maxd = std::max(maxd, U->cells[i].dim); }
    }
    if (cand.empty()) return false;
    // bias towards cells of positive dimension so that cycles get created and killed
    unsigned mode = (unsigned)r.below(4);
    std::vector<int> sel;
    if (mode == 0 && maxd >= 1) { for (int c : cand) if (U->cells[c].dim == maxd) sel.push_back(c); }
    else if (mode == 1 && maxd >= 1) { for (int c : cand) if (U->cells[c].dim >= 1) sel.push_back(c); }
    if (sel.empty()) sel = cand;
    int u = sel[r.below(sel.size())];
    oracle::Cell c; c.dim = U->cells[u].dim;
    i64 sj = 1;
    if (rescale && p > 2 && r.chance(1, 3)) sj = 1 + (i64)r.below((uint64_t)(p - 1));
    for (auto& f : U->cells[u].facets) {
      i64 co = (i64)f.second;
      if (rescale && p > 2) {
        co = oracle::mod_norm(oracle::mod_norm(co, p) * sj % p * oracle::mod_inv(scale[upos[f.first]], p), p);
        if (co > p / 2) co -= p;
      }
      c.bdry.emplace_back(upos[f.first], co);
    }
    std::sort(c.bdry.begin(), c.bdry.end());
    present[u] = 1; upos[u] = (int)cells.size();
    cells.push_back(c); ucell.push_back(u); scale.push_back(sj);
    return true;
  }

  bool grow_algebraic(vh::Rng& r) {
    // cycles of the current complex, by dimension, from the oracle's own reduction
    std::vector<int> nd(4, 0);
    for (auto& c : cells) nd[c.dim]++;
    int k;
    if (nd[0] < 2) k = 0;
    else {
      unsigned x = (unsigned)r.below(100);
      k = x < 18 ? 0 : x < 55 ? 1 : x < 88 ? 2 : 3;
    }
    oracle::Cell c;
    if (k == 0) { c.dim = 0; cells.push_back(c); ucell.push_back(-1); scale.push_back(1); return true; }
    if (k == 1) {
      std::vector<int> vs; for (size_t i = 0; i < cells.size(); ++i) if (cells[i].dim == 0) vs.push_back((int)i);
      int a = vs[r.below(vs.size())], b = vs[r.below(vs.size())];
      if (a == b) { b = vs[(std::find(vs.begin(), vs.end(), a) - vs.begin() + 1) % vs.size()]; }
      c.dim = 1; c.bdry = {{std::min(a, b), -1}, {std::max(a, b), 1}};
      cells.push_back(c); ucell.push_back(-1); scale.push_back(1); return true;
    }
    oracle::Reduction red = oracle::reduce(cells, p, true);
    std::vector<int> zc;
    for (size_t j = 0; j < cells.size(); ++j) if (cells[j].dim == k - 1 && red.low[j] < 0) zc.push_back((int)j);
    if (zc.empty()) {  // no (k-1)-cycle to glue along: add a lower cell instead
      if (k == 3) return grow_algebraic_fallback(r, 2);
      return grow_algebraic_fallback(r, 1);
    }
    oracle::Col z;
    int terms = 1 + (int)r.below(3);
    for (int t = 0; t < terms; ++t) {
      int j = zc[r.below(zc.size())];
      i64 coef = (p == 2) ? 1 : (r.chance(3, 4) ? (r.chance(1, 2) ? 1 : p - 1) : 1 + (i64)r.below(p - 1));
      oracle::col_axpy(z, coef, red.V[j], p);
    }
    if (z.empty()) oracle::col_axpy(z, 1, red.V[zc[r.below(zc.size())]], p);
    c.dim = k;
    for (auto& kv : z) c.bdry.emplace_back(kv.first, kv.second > p / 2 ? kv.second - p : kv.second);
    cells.push_back(c); ucell.push_back(-1); scale.push_back(1);
    return true;
  }
  bool grow_algebraic_fallback(vh::Rng& r, int k) {
    oracle::Cell c;
    if (k == 2) {
      oracle::Reduction red = oracle::reduce(cells, p, true);
      std::vector<int> zc;
      for (size_t j = 0; j < cells.size(); ++j) if (cells[j].dim == 1 && red.low[j] < 0) zc.push_back((int)j);
      if (!zc.empty()) {
        oracle::Col z; oracle::col_axpy(z, 1, red.V[zc[r.below(zc.size())]], p);
        c.dim = 2;
        for (auto& kv : z) c.bdry.emplace_back(kv.first, kv.second > p / 2 ? kv.second - p : kv.second);
        cells.push_back(c); ucell.push_back(-1); scale.push_back(1);
        return true;
      }
    }
    std::vector<int> vs; for (size_t i = 0; i < cells.size(); ++i) if (cells[i].dim == 0) vs.push_back((int)i);
    int a = vs[r.below(vs.size())], b = vs[r.below(vs.size())];
    if (a == b) { b = vs[(std::find(vs.begin(), vs.end(), a) - vs.begin() + 1) % vs.size()]; }
    c.dim = 1; c.bdry = {{std::min(a, b), -1}, {std::max(a, b), 1}};
    cells.push_back(c); ucell.push_back(-1); scale.push_back(1);
    return true;
  }
};

}  // namespace c08
#endif

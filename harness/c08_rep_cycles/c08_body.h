// C08 — Representative cycles really represent their bars.
//
// One templated harness body, instantiated per option struct (see c08_units.inc).
// The harness owns a filtered cell complex (c08_gen.h), mirrors every insertion / removal into a GUDHI Matrix<Options>
// with can_retrieve_representative_cycles, and after every phase asks for the representative cycles (whole list and per bar)
// and decides the statements of the property by rank computations on the harness's own boundary matrix:
//   - every cell of the cycle has the bar's dimension, no cell repeated, the youngest cell is the birth cell
//   - the boundary of the chain is zero
//   - in K_{d-1} (K_{n-1} for an essential bar) the class is NOT in the image of H(K_{b-1})      [monotone in t, so this
//     decides every t in [b, d-1]]
//   - in K_d it is in that image; chain flavour: it is a boundary of K_d
//   - at every index t the representatives of the bars alive at t are independent in H(K_t) and as many as beta(K_t)
// "class of z in H(K_t) lies in the image of H(K_{b-1})"  <=>  z in Z(K_{b-1}) + B(K_t)  <=>  (z is a cycle)
// z in C(K_{b-1}) + B(K_t)  <=>  the residue of z modulo an echelon basis (pivot = youngest cell) of B(K_t) only
// uses cells older than b.
// For Z_p, p > 2, a Cycle carries no coefficients.  Most of the time the library's own column (U column of the birth cell /
// chain column whose pivot is the birth cell) is read, after the cycles, as a witness: when its support is the returned cycle
// and it passes everything above as a chain with coefficients, it is the chain of the bar.  Otherwise the chain is recovered
// as the generator of the cycles supported in the returned support when that space is 1-dimensional (then everything above
// is checked over Z_p); otherwise only the necessary conditions "some cycle in the support has a non-zero coefficient on the
// birth cell / on every listed cell / is born and dies with the bar".
// Removals: remove_last, and remove_maximal_cell (both overloads) of maximal cells in the middle of the filtration where the
// option set offers it (it performs vine swaps internally; no other swap is done here).  Between the phases the matrix is
// sometimes replaced by a copy / a moved object / an assigned or swapped scratch matrix.
#ifndef VERIF_C08_BODY_H_
#define VERIF_C08_BODY_H_

#include <gudhi/Matrix.h>
#include <gudhi/persistence_matrix_options.h>
#include <gudhi/Fields/Zp_field_operators.h>

#include <array>
#include <functional>
#include <memory>
#include <unordered_map>

#include "common/vh.h"
#include "oracle/z2_linalg.h"
#include "oracle/zp_reduce.h"
#include "c08_rep_cycles/c08_gen.h"
#include "c08_rep_cycles/c08_linalg.h"

namespace c08 {

using Gudhi::persistence_matrix::Column_indexation_types;
using Gudhi::persistence_matrix::Column_types;
using Gudhi::persistence_matrix::Matrix;

// row access: 0 none, 1 intrusive rows, 2 set rows
// xf: extra flags, 1: has_column_and_row_swaps (the lazy row swap machinery under the RU / chain matrix), 2: Index = int
template <bool z2, Column_types ct, bool ru, Column_indexation_types idx, bool barcode, bool maxdim, bool mapc, int ra,
          bool remrows, bool vine, int xf = 0>
struct Opt {
  using Field_coeff_operators = Gudhi::persistence_fields::Zp_field_operators<>;
  using Index = typename std::conditional<(xf & 2) != 0, int, unsigned int>::type;
  using Dimension = int;

  static const bool is_z2 = z2;
  static const Column_types column_type = ct;
  static const Column_indexation_types column_indexation_type = idx;

  static const bool is_of_boundary_type = ru;
  static const bool has_column_compression = false;
  static const bool has_column_and_row_swaps = (xf & 1) != 0;

  static const bool has_vine_update = vine;
  static const bool can_retrieve_representative_cycles = true;
  static const bool has_column_pairings = barcode;

  static const bool has_row_access = ra != 0;
  static const bool has_intrusive_rows = ra == 1;
  static const bool has_removable_rows = remrows;

  // chain matrices with vine updates only offer remove_last / remove_maximal_cell with a map container
  static const bool has_removable_columns = ru || !vine || mapc;
  static const bool has_map_column_container = mapc;
  static const bool has_matrix_maximal_dimension_access = maxdim;
};

// ------------------------------------------------------------------------------------------------------------------
// semantic oracle on the harness's own complex (no GUDHI type here)
struct Finding {
  bool bad = false;
  std::string check, sig, detail;
  static Finding ok() { return Finding(); }
  static Finding make(const std::string& c, const std::string& s, const std::string& d) { Finding f; f.bad = true; f.check = c; f.sig = s; f.detail = d; return f; }
};

inline typename Z2Backend::Span make_span(const Z2Backend&) { return Z2Backend::Span(); }
inline typename ZpBackend::Span make_span(const ZpBackend& b) { return ZpBackend::Span(b.p); }
inline long residue_top(const Z2Backend::Span& s, Z2Backend::Vec v) { s.s.reduce(v); return v.top(); }
inline long residue_top(const ZpBackend::Span& s, ZpBackend::Vec v) { s.reduce(v); return ZpBackend::Span::top(v); }

template <class BK>
struct Sem {
  typedef typename BK::Vec Vec;
  typedef typename BK::Span Span;
  BK bk;
  const std::vector<oracle::Cell>& cells;
  size_t n;
  std::vector<Vec> bd;                      // boundary of each cell
  std::vector<Span> E;                      // E[t]: echelon basis of B(K_t) = span of the boundaries of cells 0..t
  std::vector<std::array<int, 6>> rk, cnt;  // rk[t][k] = rank of d_k on K_t ; cnt[t][k] = number of k-cells of K_t

  Sem(const std::vector<oracle::Cell>& cells_, i64 p) : bk(p, cells_.size()), cells(cells_), n(cells_.size()) {
    bd.reserve(n);
    for (size_t j = 0; j < n; ++j) {
      Vec v = bk.zero();
      for (auto& f : cells[j].bdry) bk.add_to(v, (size_t)f.first, oracle::mod_norm(f.second, p));
      bd.push_back(v);
    }
    Span cur = make_span(bk);
    std::array<int, 6> r{}; std::array<int, 6> c{};
    for (size_t t = 0; t < n; ++t) {
      int k = std::min(cells[t].dim, 5);
      c[k]++;
      if (cur.add(bd[t])) r[k]++;
      E.push_back(cur); rk.push_back(r); cnt.push_back(c);
    }
  }
  int betti(size_t t, int k) const { return cnt[t][k] - rk[t][k] - (k + 1 < 6 ? rk[t][k + 1] : 0); }

  // z: chain (as a vector over the cells) returned for `bar`.  returns the id of the first failing statement or ""
  std::string check_chain(const Vec& z, const oracle::Bar& bar, bool chain_flavour, std::string& detail) const {
    Vec dz = bk.zero();
    for (size_t i = 0; i < n; ++i) { i64 a = bk.get(z, i); if (a) bk.axpy(dz, a, bd[i]); }
    if (!bk.is_zero(dz)) { detail = "the boundary of the returned chain is not zero"; return "cycle.zero_boundary"; }
    size_t tend = bar.death < 0 ? n - 1 : (size_t)bar.death - 1;
    long rt = residue_top(E[tend], z);
    if (rt < (long)bar.birth) {
      detail = "in K_" + vh::str(tend) + " the class already lies in the image of H(K_{birth-1}) (residue youngest cell " + vh::str(rt) + ")";
      return "cycle.alive_until_death";
    }
    if (bar.death >= 0) {
      long rd = residue_top(E[(size_t)bar.death], z);
      if (rd >= (long)bar.birth) { detail = "in K_death the class is still not in the image of H(K_{birth-1}) (residue youngest cell " + vh::str(rd) + ")"; return "cycle.dies_at_death"; }
      if (chain_flavour && rd >= 0) { detail = "chain flavour: the cycle is not a boundary in K_death (residue youngest cell " + vh::str(rd) + ")"; return "cycle.chain_boundary_at_death"; }
    }
    return "";
  }

  // dim( pi_b(W) ) and dim( pi_b(W) ^ pi_b(B(K_t)) ), pi_b = forget the cells older than b
  void inter_dims(const std::vector<Vec>& W, size_t b, size_t t, long& dimW, long& dimInter) const {
    Span s = make_span(bk); long dimP = 0;
    const auto& eb = BK::basis(E[t]); const auto& et = BK::tops(E[t]);
    // the echelon vectors with youngest cell >= b keep distinct youngest cells after the projection: they are a basis
    // of pi_b(B(K_t)), the others project to 0
    for (size_t i = 0; i < eb.size(); ++i) if (et[i] >= (long)b) { s.add(bk.project(eb[i], b)); ++dimP; }
    Span w = make_span(bk); dimW = 0;
    for (auto& v : W) if (w.add(bk.project(v, b))) ++dimW;
    long dimSum = dimP;
    for (auto& v : BK::basis(w)) if (s.add(v)) ++dimSum;
    dimInter = dimW + dimP - dimSum;
  }
  // W: a space of cycles (all the cycles with a given support).  Is there a chain in W that represents the bar, i.e. whose class
  // is outside the image of H(K_{b-1}) in K_{d-1} (K_{n-1}) and inside it in K_d ?
  bool some_chain_represents(const std::vector<Vec>& W, const oracle::Bar& bar) const {
    long dimW, in_before, in_at;
    size_t tend = bar.death < 0 ? n - 1 : (size_t)bar.death - 1;
    inter_dims(W, (size_t)bar.birth, tend, dimW, in_before);
    if (bar.death < 0) return dimW > in_before;
    inter_dims(W, (size_t)bar.birth, (size_t)bar.death, dimW, in_at);
    return in_at > in_before;
  }

  // reps[i] = chain of bars[i] (have[i] false: undetermined).  returns "" or the failing statement
  std::string check_basis(const std::vector<oracle::Bar>& bars, const std::vector<Vec>& reps, const std::vector<char>& have,
                          std::string& detail, uint64_t& checked_t, uint64_t& skipped_t) const {
    for (size_t t = 0; t < n; ++t) {
      std::array<int, 6> alive{};
      bool undetermined = false;
      std::vector<size_t> al;
      for (size_t i = 0; i < bars.size(); ++i) {
        if ((size_t)bars[i].birth <= t && (bars[i].death < 0 || (size_t)bars[i].death > t)) {
          alive[std::min(bars[i].dim, 5)]++; al.push_back(i);
          if (!have[i]) undetermined = true;
        }
      }
      for (int k = 0; k < 6; ++k)
        if (alive[k] != betti(t, k)) { detail = "t=" + vh::str(t) + " dim " + vh::str(k) + ": " + vh::str(alive[k]) + " bars alive, beta=" + vh::str(betti(t, k)); return "basis.count"; }
      if (undetermined) { ++skipped_t; continue; }
      Span s = E[t];
      for (size_t i : al)
        if (!s.add(reps[i])) {
          detail = "t=" + vh::str(t) + ": representative of bar (" + vh::str(bars[i].dim) + ";" + vh::str(bars[i].birth) + "," + vh::str(bars[i].death) +
                   ") depends on the other alive representatives modulo B(K_t)";
          return "basis.independent";
        }
      ++checked_t;
    }
    return "";
  }
};

// coverage statistic only: naive reduction recording whether a reducing column had itself been reduced before
struct NestStat { bool any = false; std::vector<char> nested_zero; int finite = 0, chain3 = 0; };
inline NestStat nest_stat(const std::vector<oracle::Cell>& cells, i64 p) {
  const int n = (int)cells.size();
  NestStat st; st.nested_zero.assign(n, 0);
  std::vector<oracle::Col> R(n); std::vector<int> owner(n, -1); std::vector<char> reduced(n, 0);
  for (int j = 0; j < n; ++j) {
    oracle::Col& c = R[j];
    for (auto& f : cells[j].bdry) { i64 v = oracle::mod_norm((c.count(f.first) ? c[f.first] : 0) + f.second, p); if (v == 0) c.erase(f.first); else c[f.first] = v; }
    bool nested = false; int steps = 0;
    while (!c.empty()) {
      int l = c.rbegin()->first, o = owner[l];
      if (o < 0) break;
      i64 coef = oracle::mod_norm(-(c.rbegin()->second * oracle::mod_inv(R[o].rbegin()->second, p)), p);
      oracle::col_axpy(c, coef, R[o], p);
      reduced[j] = 1; ++steps;
      if (reduced[o]) nested = true;
    }
    if (steps >= 3) st.chain3++;
    if (nested) st.any = true;
    if (c.empty()) { if (nested) st.nested_zero[j] = 1; } else { owner[c.rbegin()->first] = j; st.finite++; }
  }
  return st;
}

// ------------------------------------------------------------------------------------------------------------------
template <class O>
struct Driver {
  typedef Matrix<O> M;
  typedef typename M::ID_index ID;
  typedef typename M::Index MIdx;
  typedef typename M::Pos_index Pos;
  typedef typename M::Bar GBar;
  typedef typename M::Element Element;
  typedef typename std::conditional<O::is_z2, std::vector<ID>, std::vector<std::pair<ID, Element>>>::type Boundary;
  static constexpr bool kRU = O::is_of_boundary_type;
  static constexpr bool kZ2 = O::is_z2;
  static constexpr bool kBarcode = O::has_column_pairings;
  static constexpr bool kRemovable = O::has_removable_columns;
  static constexpr bool kVine = O::has_vine_update;
  static constexpr bool kMap = O::has_map_column_container;
  static constexpr bool kById = O::column_indexation_type == Column_indexation_types::IDENTIFIER;
  static constexpr bool kByPos = O::column_indexation_type == Column_indexation_types::POSITION;
  // chain + vine without stored barcode: only the constructors with comparators exist
  static constexpr bool kCmp = !kRU && kVine && !kBarcode;
  // remove_maximal_cell(index) and remove_maximal_cell(id, columnsToSwap).  Both perform vine swaps, which need truthful
  // comparators in a matrix without stored barcode: not used there (the comparator-constructed configuration only sees
  // remove_last, which performs no swap).
  static constexpr bool kRmc1 = kRemovable && kVine && (kRU || (kMap && kBarcode));
  static constexpr bool kRmc2 = kRemovable && kVine && !kRU && kMap && kBarcode && !kByPos;
  // the library's own column as a witness of the coefficients (Z_p): U column of an RU matrix (not offered with IDENTIFIER
  // indexing), column with the birth cell as pivot of a chain matrix
  static constexpr bool kWitness = !kZ2 && (!kRU || !kById);

  vh::Case& c;
  Filtration F;
  i64 p = 2;
  int idmode = 0;            // 0: ids implicit (= position), 1: explicit ids (position / last id + 1), 2: explicit ids with gaps
  bool omit_dim = false;
  // position -> label of the cell in the boundaries and in the rows.  Chain flavour: the id given at the insertion, it stays
  // with the cell.  RU flavour: rows are relabelled by the swaps of remove_maximal_cell, the labels stay with the positions.
  std::vector<ID> ids;
  std::vector<ID> cids;      // RU flavour: position -> id given at the insertion (column handle with IDENTIFIER indexing)
  std::unique_ptr<M> m;
  std::shared_ptr<long> cmp_calls = std::make_shared<long>(0);
  std::string base_sig;
  // per case statistics for the non-triviality rule
  int obs_done = 0, max_finite = 0, max_dim_bar = 0; bool saw_nested = false, saw_removal = false, saw_max_removal = false;
  bool no_more_insertions = false;
  size_t max_cells = 0;

  explicit Driver(vh::Case& c_) : c(c_) {}

  Boundary make_boundary(const oracle::Cell& cell) const {
    Boundary b;
    for (auto& f : cell.bdry) {
      if constexpr (kZ2) b.push_back(ids[f.first]);
      else b.emplace_back(ids[f.first], (Element)oracle::mod_norm(f.second, p));
    }
    return b;
  }
  static std::string show_boundary(const oracle::Cell& cell) {
    std::string s = "[";
    for (size_t i = 0; i < cell.bdry.size(); ++i) { if (i) s += ","; s += vh::str(cell.bdry[i].first); if (cell.bdry[i].second != 1) s += "*" + vh::str(cell.bdry[i].second); }
    return s + "]";
  }
  ID next_id(vh::Rng& r) const {
    if (idmode != 2) {
      if (kRU || ids.empty()) return (ID)ids.size();
      return (ID)(ids.back() + 1);   // = ids.size() unless a cell that was not the last one has been removed
    }
    ID last = ids.empty() ? (ID)r.below(3) : (ID)(ids.back() + 1);
    return (ID)(last + (ID)r.below(4));
  }

  // ---------------------------------------------------------------- construction
  // how: 0 default constructor + set_characteristic, 1 reserving constructor, 2 from the ordered boundaries `cols`
  std::unique_ptr<M> make_matrix(int how, unsigned res, const std::vector<Boundary>* cols) {
    std::unique_ptr<M> x;
    typedef typename M::Characteristic Ch;
    if constexpr (kCmp) {
      std::shared_ptr<long> calls = cmp_calls;
      std::function<bool(Pos, Pos)> bc = [calls](Pos a, Pos b) { ++*calls; return a < b; };
      std::function<bool(Pos, Pos)> dc = [calls](Pos a, Pos b) { ++*calls; return a < b; };
      if (how == 0) { x.reset(new M(bc, dc)); if constexpr (!kZ2) x->set_characteristic((Ch)p); }
      else if (how == 1) x.reset(new M(res, bc, dc, (Ch)p));
      else x.reset(new M(*cols, bc, dc, (Ch)p));
    } else {
      if (how == 0) { x.reset(new M()); if constexpr (!kZ2) x->set_characteristic((Ch)p); }
      else if (how == 1) { if constexpr (kZ2) x.reset(new M(res)); else x.reset(new M(res, (Ch)p)); }
      else { if constexpr (kZ2) x.reset(new M(*cols)); else x.reset(new M(*cols, (Ch)p)); }
    }
    return x;
  }

  // a matrix with a little content of its own and computed cycles, to be overwritten / swapped away
  std::unique_ptr<M> make_scratch(vh::Rng& r) {
    std::unique_ptr<M> x = make_matrix(r.chance(1, 2) ? 0 : 1, 4, nullptr);
    if (r.chance(1, 2)) {
      Boundary e;
      x->insert_boundary((ID)0, e, 0); x->insert_boundary((ID)1, e, 0);
      if constexpr (kZ2) { e.push_back((ID)0); e.push_back((ID)1); }
      else { e.emplace_back((ID)0, (Element)(p - 1)); e.emplace_back((ID)1, (Element)1); }
      x->insert_boundary((ID)2, e, 1);
      if (r.chance(1, 2)) (void)x->get_representative_cycles().size();
      c.count("op.scratch_with_content");
    }
    return x;
  }

  // replaces the matrix by a copy / a moved object / an assigned or swapped scratch matrix
  void transfer(vh::Rng& r) {
    unsigned how = (unsigned)r.below(4);
    if (p > 1000 && how >= 2) how -= 2;   // the table of inverses of a scratch matrix costs seconds for a large prime
    if (how == 0) {
      c.log("transfer: matrix replaced by a copy of itself (copy constructor), original destroyed");
      std::unique_ptr<M> x(new M(*m)); m = std::move(x); c.count("op.transfer.copy_constructor");
    } else if (how == 1) {
      c.log("transfer: matrix replaced by a moved object (move constructor), moved-from object destroyed");
      std::unique_ptr<M> x(new M(std::move(*m))); m = std::move(x); c.count("op.transfer.move_constructor");
    } else if (how == 2) {
      c.log("transfer: scratch matrix = matrix (assignment), original destroyed");
      std::unique_ptr<M> x = make_scratch(r); *x = *m; m = std::move(x); c.count("op.transfer.assignment");
    } else {
      c.log("transfer: swap(scratch matrix, matrix), the scratch matrix is destroyed");
      std::unique_ptr<M> x = make_scratch(r); swap(*x, *m); m = std::move(x); c.count("op.transfer.swap");
    }
    c.count("op.transfer");
  }

  void insert_last() {
    size_t pos = F.size() - 1;
    const oracle::Cell& cell = F.cells[pos];
    ID id = next_id(c.rng);
    ids.push_back(id);
    if constexpr (kRU) cids.push_back(id);
    Boundary b = make_boundary(cell);
    if (idmode == 0) {
      if (omit_dim && F.simplicial()) { c.log("insert_boundary " + show_boundary(cell)); m->insert_boundary(b); }
      else { c.log("insert_boundary " + show_boundary(cell) + " dim=" + vh::str(cell.dim)); m->insert_boundary(b, cell.dim); }
    } else {
      c.log("insert_boundary id=" + vh::str(id) + " " + show_boundary(cell) + " dim=" + vh::str(cell.dim) + "   (faces by position)");
      m->insert_boundary(id, b, cell.dim);
    }
    c.count("op.insert_boundary");
    c.count("op.insert_boundary.dim" + vh::str(std::min(cell.dim, 3)));
    if (saw_max_removal) c.count("op.insert_boundary.after_maximal_removal");
  }

  void remove_last() {
    if constexpr (kRemovable) {
      c.log("remove_last");
      m->remove_last();
      F.pop(); ids.pop_back();
      if constexpr (kRU) cids.pop_back();
      c.count("op.remove_last");
      if (kVine) c.count("op.remove_last.vine");
      saw_removal = true;
    }
  }

  // removes the maximal cell at position q with remove_maximal_cell
  void remove_maximal(size_t q, vh::Rng& r) {
    if constexpr (kRmc1) {
      const bool last = q + 1 == F.size();
      bool two_args = false;
      if constexpr (kRmc2) two_args = r.chance(1, 2);
      if (two_args) {
        if constexpr (kRmc2) {
          std::vector<ID> after(ids.begin() + q + 1, ids.end());
          c.log("remove_maximal_cell(id " + vh::str(ids[q]) + ", ids after it " + vh::vstr(after) + ")   position " + vh::str(q) + " of " + vh::str(F.size()));
          m->remove_maximal_cell(ids[q], after);
          c.count("op.remove_maximal_cell.with_columns_to_swap");
        }
      } else {
        MIdx arg;
        if constexpr (kRU) arg = kById ? (MIdx)cids[q] : (MIdx)q;   // MatIdx
        else arg = kByPos ? (MIdx)q : (MIdx)ids[q];                  // chain: IDIdx (position with POSITION indexing)
        c.log("remove_maximal_cell(" + vh::str(arg) + ")   position " + vh::str(q) + " of " + vh::str(F.size()));
        m->remove_maximal_cell(arg);
      }
      F.erase_at(q);
      if constexpr (kRU) { ids.pop_back(); cids.erase(cids.begin() + q); }
      else ids.erase(ids.begin() + q);
      c.count("op.remove_maximal_cell");
      c.count(last ? "op.remove_maximal_cell.last" : "op.remove_maximal_cell.not_last");
      saw_removal = true;
      if (!last) saw_max_removal = true;
    }
  }

  // ---------------------------------------------------------------- observation
  // turns a returned cycle into sorted positions; interp 0: entries are ids, 1: entries are positions
  bool to_positions(const std::vector<ID>& cyc, int interp, const std::unordered_map<ID, int>& id2pos, std::vector<int>& out,
                    std::string& why) const {
    out.clear();
    for (ID x : cyc) {
      int pos;
      if (interp == 1) { if ((size_t)x >= F.size()) { why = "entry " + vh::str(x) + " is not a position of the filtration"; return false; } pos = (int)x; }
      else { auto it = id2pos.find(x); if (it == id2pos.end()) { why = "entry " + vh::str(x) + " is not the id of a cell"; return false; } pos = it->second; }
      out.push_back(pos);
    }
    std::sort(out.begin(), out.end());
    if (out.empty()) { why = "empty cycle"; return false; }
    for (size_t i = 1; i < out.size(); ++i) if (out[i] == out[i - 1]) { why = "cell " + vh::str(out[i]) + " listed twice"; return false; }
    return true;
  }

  // A cell listed several times is reported once per case (check cycle.repeated_cell); the monitor then resynchronises
  // by reading the list as a chain (Z_2: multiplicities modulo 2; Z_p: as a support) so that the semantic statements
  // are still decided for the rest of the history.
  bool dup_reported = false;
  void normalise_repeats(std::vector<ID>& cyc, const std::string& sig, const char* which) {
    std::vector<ID> s(cyc);
    std::sort(s.begin(), s.end());
    bool dup = false;
    for (size_t i = 1; i < s.size(); ++i) if (s[i] == s[i - 1]) dup = true;
    c.count("cmp.cycle.repeated_cell");
    if (!dup) return;
    if (!dup_reported) {
      dup_reported = true;
      c.violation("cycle.repeated_cell", sig + "," + which, "a cell is listed more than once in the returned cycle " + vh::vstr(cyc));
    }
    std::vector<ID> out;
    for (size_t i = 0; i < s.size();) {
      size_t j = i; while (j < s.size() && s[j] == s[i]) ++j;
      if (p != 2 || ((j - i) & 1)) out.push_back(s[i]);
      i = j;
    }
    cyc.swap(out);
  }

  // Z_p: the library's own column for the bar (row label -> coefficient), read after the cycles.  It is only a witness: when
  // its support is the returned cycle and it passes every statement as a chain with coefficients, the chain of the bar is
  // determined and "some chain with this support represents the bar" is proved; otherwise the support alone is judged.
  typedef std::vector<std::pair<ID, i64>> Witness;

  template <class BK>
  Finding check_one(const Sem<BK>& sem, const oracle::Bar& bar, const std::vector<int>& pos, const std::string& sig,
                    typename BK::Vec& chain, bool& have_chain, const Witness* wit, int interp,
                    const std::unordered_map<ID, int>& id2pos) {
    have_chain = false;
    std::string at = " bar (" + vh::str(bar.dim) + ";" + vh::str(bar.birth) + "," + vh::str(bar.death) + ") cycle(positions)=" + vh::vstr(pos);
    for (int x : pos) if (F.cells[x].dim != bar.dim) return Finding::make("cycle.dimension", sig, "cell " + vh::str(x) + " has dimension " + vh::str(F.cells[x].dim) + at);
    c.count("cmp.cycle.dimension");
    if (pos.back() != bar.birth) return Finding::make("cycle.youngest_is_birth", sig, "youngest cell " + vh::str(pos.back()) + at);
    c.count("cmp.cycle.youngest_is_birth");
    chain = sem.bk.zero();
    if (p == 2) {
      for (int x : pos) sem.bk.add_to(chain, (size_t)x, 1);
      have_chain = true;
    } else {
      if (wit != nullptr) {
        // the witness as a chain over the positions
        bool usable = true;
        std::vector<int> sp; typename BK::Vec w = sem.bk.zero();
        for (auto& e : *wit) {
          int x;
          if (interp == 1) { if ((size_t)e.first >= F.size()) { usable = false; break; } x = (int)e.first; }
          else { auto it = id2pos.find(e.first); if (it == id2pos.end()) { usable = false; break; } x = it->second; }
          sp.push_back(x); sem.bk.add_to(w, (size_t)x, e.second);
        }
        std::sort(sp.begin(), sp.end());
        if (usable && sp == pos) {
          std::string detail;
          std::string id = sem.check_chain(w, bar, !kRU, detail);
          if (id.empty()) {
            chain = w; have_chain = true;
            c.count("state.zp.chain_from_witness"); c.count("cmp.cycle.semantic");
            if (bar.death >= 0) c.count("cmp.cycle.semantic.finite"); else c.count("cmp.cycle.semantic.essential");
            return Finding::ok();
          }
          c.count("info.zp.witness_chain_rejected." + id);
        } else c.count("info.zp.witness_support_differs_from_cycle");
      }
      // recover the coefficients: cycles supported in the returned support
      std::vector<std::vector<i64>> cols;
      for (int x : pos) { std::vector<i64> col(F.size(), 0); for (auto& f : F.cells[x].bdry) col[f.first] = oracle::mod_norm(col[f.first] + f.second, p); cols.push_back(col); }
      std::vector<std::vector<i64>> ker = zp_kernel(cols, p);
      c.count("cmp.zp.support_kernel");
      bool birth_nz = false;
      for (auto& kv : ker) if (kv.back()) birth_nz = true;
      if (!birth_nz) return Finding::make("zp.birth_coefficient", sig, "no Z_p cycle supported in the returned support has a non-zero coefficient on the birth cell" + at);
      for (size_t i = 0; i < pos.size(); ++i) {
        bool nz = false; for (auto& kv : ker) if (kv[i]) nz = true;
        if (!nz) return Finding::make("zp.support", sig, "every Z_p cycle supported in the returned support vanishes on listed cell " + vh::str(pos[i]) + at);
      }
      if (ker.size() == 1) {
        for (size_t i = 0; i < pos.size(); ++i) sem.bk.add_to(chain, (size_t)pos[i], ker[0][i]);
        have_chain = true; c.count("state.zp.chain_determined");
      } else {
        // several independent cycles live in the support (always the case for 0-chains): necessary condition
        // "some chain with this support represents the bar"
        c.count("state.zp.chain_undetermined");
        std::vector<typename BK::Vec> W;
        for (auto& kv : ker) { typename BK::Vec w = sem.bk.zero(); for (size_t i = 0; i < pos.size(); ++i) sem.bk.add_to(w, (size_t)pos[i], kv[i]); W.push_back(w); }
        c.count("cmp.zp.some_chain_represents_bar");
        if (!sem.some_chain_represents(W, bar))
          return Finding::make("zp.some_chain_represents_bar", sig, "no Z_p cycle supported in the returned support is born with the bar and dies with it" + at);
      }
    }
    if (have_chain) {
      std::string detail;
      std::string id = sem.check_chain(chain, bar, !kRU, detail);
      c.count("cmp.cycle.semantic");
      if (bar.death >= 0) c.count("cmp.cycle.semantic.finite"); else c.count("cmp.cycle.semantic.essential");
      if (!id.empty()) return Finding::make(id, sig, detail + at);
    }
    return Finding::ok();
  }

  // ---- stage 1: the whole list.  One cycle per bar; every cycle checked against its bar; basis statement with these cycles.
  template <class BK>
  struct ListEval {
    std::vector<std::vector<int>> pos;            // per bar: the list's cycle in positions
    std::vector<typename BK::Vec> reps;           // per bar: the chain (when determined)
    std::vector<char> have;
  };
  template <class BK>
  Finding evaluate_list(const Sem<BK>& sem, int interp, const std::vector<std::vector<ID>>& all, const std::vector<oracle::Bar>& bars,
                        const NestStat& ns, const std::string& sig0, ListEval<BK>& le, const std::vector<Witness>* wits) {
    std::unordered_map<ID, int> id2pos;
    for (size_t i = 0; i < ids.size(); ++i) id2pos[ids[i]] = (int)i;
    std::map<int, size_t> bar_of_birth;
    for (size_t i = 0; i < bars.size(); ++i) bar_of_birth[bars[i].birth] = i;
    le.pos.assign(bars.size(), std::vector<int>()); le.reps.assign(bars.size(), sem.bk.zero()); le.have.assign(bars.size(), 0);
    std::vector<char> seen(bars.size(), 0);
    c.count("cmp.cycles.count");
    if (all.size() != bars.size())
      return Finding::make("cycles.count", sig0 + (all.size() > bars.size() ? ",more_cycles_than_bars" : ",fewer_cycles_than_bars"),
                           "get_representative_cycles() has " + vh::str(all.size()) + " cycles, the barcode has " + vh::str(bars.size()) + " bars");
    for (auto& cyc : all) {
      std::vector<int> pos; std::string why;
      if (!to_positions(cyc, interp, id2pos, pos, why)) return Finding::make("cycle.malformed", sig0 + ",list", why + " in " + vh::vstr(cyc));
      auto it = bar_of_birth.find(pos.back());
      if (it == bar_of_birth.end()) return Finding::make("cycle.youngest_is_birth", sig0 + ",list,no_bar_born_at_youngest_cell", "cycle " + vh::vstr(pos) + ": no bar is born at its youngest cell");
      if (seen[it->second]) return Finding::make("cycles.count", sig0 + ",two_cycles_same_birth", "two cycles of the list have youngest cell " + vh::str(pos.back()));
      seen[it->second] = 1; le.pos[it->second] = pos;
    }
    for (size_t i = 0; i < bars.size(); ++i) {
      bool hv = false;
      Finding f = check_one(sem, bars[i], le.pos[i], bar_sig(sig0, ns, bars[i]) + ",list", le.reps[i], hv, wits ? &(*wits)[i] : nullptr, interp, id2pos);
      if (f.bad) return f;
      le.have[i] = hv;
    }
    std::string detail; uint64_t ck = 0, sk = 0;
    std::string id = sem.check_basis(bars, le.reps, le.have, detail, ck, sk);
    c.count("cmp.basis.index_checked", ck); c.count("skip.basis.index_with_undetermined_zp_chain", sk);
    if (!id.empty()) return Finding::make(id, sig0 + ",list", detail);
    return Finding::ok();
  }
  static std::string bar_sig(const std::string& sig0, const NestStat& ns, const oracle::Bar& b) {
    return sig0 + (ns.nested_zero[b.birth] ? ",nested_sources" : ",plain_sources");
  }

  // ---- stage 2: get_representative_cycle(bar) for every bar
  template <class BK>
  Finding evaluate_per_bar(const Sem<BK>& sem, int interp, const std::vector<std::vector<ID>>& perbar, const std::vector<oracle::Bar>& bars,
                           const NestStat& ns, const std::string& sig0, const ListEval<BK>& le, const std::vector<Witness>* wits) {
    std::unordered_map<ID, int> id2pos;
    for (size_t i = 0; i < ids.size(); ++i) id2pos[ids[i]] = (int)i;
    std::vector<typename BK::Vec> reps(le.reps); std::vector<char> have(le.have);
    bool any_diff = false;
    for (size_t i = 0; i < bars.size(); ++i) {
      std::vector<int> pos; std::string why;
      if (!to_positions(perbar[i], interp, id2pos, pos, why)) return Finding::make("cycle.malformed", bar_sig(sig0, ns, bars[i]) + ",per_bar", why + " in " + vh::vstr(perbar[i]));
      if (pos == le.pos[i]) { c.count("cmp.per_bar_equals_list"); continue; }
      any_diff = true; c.count("info.per_bar_differs_from_list");
      bool hv = false;
      Finding f = check_one(sem, bars[i], pos, bar_sig(sig0, ns, bars[i]) + ",per_bar", reps[i], hv, wits ? &(*wits)[i] : nullptr, interp, id2pos);
      if (f.bad) return f;
      have[i] = hv;
    }
    if (any_diff) {
      std::string detail; uint64_t ck = 0, sk = 0;
      std::string id = sem.check_basis(bars, reps, have, detail, ck, sk);
      c.count("cmp.basis.index_checked", ck);
      if (!id.empty()) return Finding::make(id, sig0 + ",per_bar", detail);
    }
    return Finding::ok();
  }

  // reads the library's column for every bar (Z_p only, after the cycles have been returned)
  void read_witnesses(const std::vector<oracle::Bar>& bars, std::vector<Witness>& wits) {
    if constexpr (kWitness) {
      ID maxlabel = 0;
      for (ID x : ids) maxlabel = std::max(maxlabel, x);
      const int len = (int)std::max<size_t>(F.size(), (size_t)maxlabel + 1);
      wits.assign(bars.size(), Witness());
      for (size_t i = 0; i < bars.size(); ++i) {
        std::vector<Element> content;
        if constexpr (kRU) {
          c.log("get_column(" + vh::str(bars[i].birth) + ", false)");
          content = m->get_column((MIdx)bars[i].birth, false).get_content(len);
        } else {
          c.log("get_column(get_column_with_pivot(" + vh::str(ids[bars[i].birth]) + "))");
          content = m->get_column(m->get_column_with_pivot(ids[bars[i].birth])).get_content(len);
        }
        for (size_t x = 0; x < content.size(); ++x) {
          i64 v = oracle::mod_norm((i64)content[x], p);
          if (v) wits[i].emplace_back((ID)x, v);
        }
        c.count("obs.zp.witness_column");
      }
    }
  }

  template <class BK>
  bool observe_with(const std::string& sig0, const std::vector<oracle::Bar>& bars, const NestStat& ns, const std::map<int, GBar>& gbar,
                    bool per_bar_first) {
    Sem<BK> sem(F.cells, p);
    std::vector<std::vector<ID>> all, perbar;
    auto fetch_list = [&]() {
      c.log("get_representative_cycles");
      const auto& got = m->get_representative_cycles();
      for (const auto& cy : got) all.emplace_back(cy.begin(), cy.end());
      c.count("obs.get_representative_cycles");
    };
    auto fetch_per_bar = [&]() {
      for (const auto& b : bars) {
        GBar gb((Pos)b.birth, b.death < 0 ? GBar::inf : (Pos)b.death, b.dim);
        if constexpr (kBarcode) gb = gbar.at(b.birth);
        c.log("get_representative_cycle (" + vh::str(b.dim) + ";" + vh::str(b.birth) + "," + vh::str(b.death) + ")");
        const auto& cy = m->get_representative_cycle(gb);
        perbar.emplace_back(cy.begin(), cy.end());
        c.count("obs.get_representative_cycle");
      }
    };
    // the first (lazy) computation is triggered by the per-bar query half of the time
    if (per_bar_first) { fetch_per_bar(); fetch_list(); c.count("op.lazy_first_get.through_per_bar_query"); }
    else { fetch_list(); }
    for (auto& cy : all) normalise_repeats(cy, sig0, "list");

    std::vector<Witness> wits;
    const std::vector<Witness>* wp = nullptr;
    // (one observation in eight judges the supports alone, as for the flavour that offers no witness)
    if (p != 2 && kWitness && !c.rng.chance(1, 8)) {
      if (!per_bar_first) { fetch_per_bar(); }
      read_witnesses(bars, wits); wp = &wits;
    }

    // interpretation of the entries: the documentation says "row indices" (ids); RU matrices return positions.  With
    // ids == positions both agree.  With gapped ids either reading is accepted as long as it makes every statement true
    // for the whole observation.
    int interp = kRU ? 1 : 0;
    ListEval<BK> le;
    Finding f = evaluate_list(sem, interp, all, bars, ns, sig0, le, wp);
    if (f.bad && idmode == 2) {
      ListEval<BK> le2;
      Finding g = evaluate_list(sem, 1 - interp, all, bars, ns, sig0, le2, wp);
      if (!g.bad) { f = g; le = le2; interp = 1 - interp; c.count("info.gapped_ids.other_index_reading_accepted"); }
    }
    if (f.bad) { c.violation(f.check, f.sig, f.detail); return false; }
    if (idmode == 2) c.count(interp ? "info.gapped_ids.cycle_entries_read_as_positions" : "info.gapped_ids.cycle_entries_read_as_ids");

    if (perbar.empty() && !bars.empty()) fetch_per_bar();
    for (auto& cy : perbar) normalise_repeats(cy, sig0, "per_bar");
    f = evaluate_per_bar(sem, interp, perbar, bars, ns, sig0, le, wp);
    if (f.bad) { c.violation(f.check, f.sig, f.detail); return false; }
    return true;
  }

  // returns false after reporting a violation.  call_update false: the cycles are read without update_representative_cycles
  // (first lazy computation, or nothing was modified since the last update)
  bool observe(const std::string& phase, bool call_update) {
    const size_t n = F.size();
    oracle::Reduction red = oracle::reduce(F.cells, p, false);
    const std::vector<oracle::Bar>& bars = red.bars;
    NestStat ns = nest_stat(F.cells, p);
    // signature: flavour, field, [vine], [comparators], [gapped ids], which kind of removal happened earlier in the history;
    // the phase goes to the detail
    std::string sig0 = base_sig + (saw_max_removal ? ",after_maximal_cell_removal" : saw_removal ? ",after_removal" : ",no_removal");
    c.log("observe after " + phase);

    std::map<int, GBar> gbar;  // birth -> the library's bar object
    if constexpr (kBarcode) {
      c.log("get_current_barcode");
      std::vector<oracle::Bar> got;
      for (const auto& b : m->get_current_barcode()) {
        got.push_back(oracle::Bar{(int)b.dim, (int)b.birth, b.death == GBar::inf ? -1 : (int)b.death});
        gbar.emplace((int)b.birth, b);
      }
      std::sort(got.begin(), got.end());
      c.count("cmp.barcode");
      if (got != bars) {
        c.violation("barcode.prerequisite", sig0, "get_current_barcode()=" + oracle::show(got) + " reference=" + oracle::show(bars));
        return false;
      }
    }
    bool per_bar_first = false;
    if (call_update) { c.log("update_representative_cycles"); m->update_representative_cycles(); c.count("op.update_representative_cycles"); }
    else if (obs_done == 0) { c.count("op.lazy_first_get"); per_bar_first = !bars.empty() && c.rng.chance(1, 2); }
    else c.count("op.read_without_update_after_transfer");
    if (!((p == 2) ? observe_with<Z2Backend>(sig0, bars, ns, gbar, per_bar_first) : observe_with<ZpBackend>(sig0, bars, ns, gbar, per_bar_first))) return false;

    // statistics
    ++obs_done; c.count("obs.complete");
    c.count("obs.after." + phase);
    if (saw_max_removal) c.count("obs.after_maximal_cell_removal");
    if (kVine && saw_removal) c.count(kRU ? "obs.ru_vine_after_removal" : kCmp ? "obs.chain_vine_comparators_after_removal" : "obs.chain_vine_after_removal");
    c.count("obs.bars", bars.size());
    int fin = 0, dmax = 0;
    for (auto& b : bars) { if (b.death >= 0) ++fin; dmax = std::max(dmax, b.dim); if (ns.nested_zero[b.birth]) c.count("state.bar_with_nested_sources"); }
    max_finite = std::max(max_finite, fin); max_dim_bar = std::max(max_dim_bar, dmax); max_cells = std::max(max_cells, n);
    if (ns.any) { saw_nested = true; c.count("state.complex_with_nested_reduction"); }
    bool nz = false; for (char x : ns.nested_zero) if (x) nz = true;
    if (nz) c.count("state.complex_with_nested_reduction_in_a_cycle_column");
    if (ns.chain3) c.count("state.complex_with_reduction_chain_ge3");
    if (fin >= 3) c.count("state.complex_with_ge3_finite_bars");
    if (n == 0) c.count("state.empty_matrix");
    if (n >= 150) c.count("state.complex_with_ge150_cells");
    return true;
  }

  // ---------------------------------------------------------------- one case
  void run(const char* name) {
    vh::Rng& r = c.rng;
    const Library& L = Library::get();
    if (kZ2) p = 2;
    else {
      // two cases per 500 use a prime close to 2^15.5 / 2^16 (their table of inverses costs seconds)
      long km = c.k % 500;
      if (km == 17) p = 46349;
      else if (km == 283) p = 65521;
      else { unsigned x = (unsigned)r.below(100); p = x < 15 ? 2 : x < 42 ? 3 : x < 57 ? 5 : x < 69 ? 7 : x < 80 ? 11 : 251; }
    }
    // thorough tier: some large complexes (Z_2 linear algebra only)
    const bool big = c.thorough && p == 2 && r.chance(1, 50);
    unsigned cls = (unsigned)r.below(100);
    const Universe* U = nullptr; std::string clsname;
    if (big) { U = &L.us[Library::kFirstBig + r.below(Library::kNumBig)]; clsname = U->simplicial ? "simplicial" : "cubical"; c.count("class.big"); }
    else if (cls < 30) { U = &L.us[r.below(3)]; clsname = "simplicial"; }
    else if (cls < 50) { U = &L.us[3 + r.below(5)]; clsname = "surface"; }
    else if (cls < 70) { U = &L.us[8 + r.below(4)]; clsname = "cubical"; }
    else { clsname = "algebraic"; }
    F.init(U, p);
    F.rescale = U != nullptr && p > 2 && r.chance(1, 2);
    if (F.rescale) c.count("class.rescaled_by_units");
    unsigned im = (unsigned)r.below(100);
    idmode = im < 8 ? 2 : im < 35 ? 1 : 0;
    // RU matrices with the vine option and row identifiers different from the positions are a recorded finding of C06
    // (known_findings.json, config ru_*+gap): not used here
    if (kVine && kRU && idmode == 2) { idmode = 1; c.count("skip.gapped_ids_with_ru_vine_option"); }
    // chain + vine with removals: ids are always given explicitly (what an implicit id is after a removal is not defined
    // consistently: "the n-th insertion" / "the position")
    if (kVine && !kRU && kRemovable && idmode == 0) idmode = r.chance(1, 4) ? 2 : 1;
    omit_dim = r.chance(1, 2);
    size_t n0 = big ? 150 + (size_t)r.below(151) : 6 + (size_t)r.below(c.thorough ? 46 : 34);
    bool batch = (U && U->simplicial && idmode == 0 && r.chance(1, 2));
    base_sig = std::string(kRU ? "ru" : "chain") + (kZ2 ? ",z2" : (p == 2 ? ",zp_p2" : ",zp")) + (kVine ? ",vine" : "") +
               (kCmp ? ",comparators_no_barcode" : "") + (idmode == 2 ? ",gapped_ids" : "");
    c.log(std::string("config ") + name + " class=" + clsname + (U ? "/" + U->name : "") + " p=" + vh::str(p) + " idmode=" + vh::str(idmode) +
          (F.rescale ? " cells rescaled by units" : ""));
    c.count("class." + clsname); c.count("idmode." + vh::str(idmode)); c.count("p." + vh::str(p));

    std::string phase;
    if (batch) {
      for (size_t i = 0; i < n0; ++i) if (!F.grow(r)) break;
      std::vector<Boundary> cols;
      for (size_t i = 0; i < F.size(); ++i) { ids.push_back((ID)i); if constexpr (kRU) cids.push_back((ID)i); cols.push_back(make_boundary(F.cells[i])); c.log("column " + show_boundary(F.cells[i])); }
      c.log("construct from " + vh::str(cols.size()) + " ordered boundaries");
      m = make_matrix(2, 0, &cols);
      c.count("op.construct_batch");
      phase = "build_batch";
    } else {
      if (r.chance(1, 2)) {
        c.log("construct empty + set_characteristic");
        m = make_matrix(0, 0, nullptr);
      } else {
        unsigned res = (unsigned)r.below(2 * n0 + 1);
        c.log("construct with reserve " + vh::str(res));
        m = make_matrix(1, res, nullptr);
      }
      c.count("op.construct_incremental");
      // optionally observe once in the middle of the construction, so that the final update replaces older cycles
      size_t mid = r.chance(1, 3) ? 1 + (size_t)r.below(n0) : 0;
      for (size_t i = 0; i < n0; ++i) {
        if (!F.grow(r)) break;
        insert_last();
        if (i + 1 == mid && i + 1 < n0) {
          if (!observe("build_partial", r.chance(1, 2))) return;
          if (r.chance(1, 6)) transfer(r);
        }
      }
      phase = "build_incremental";
    }
    if (r.chance(1, 6)) transfer(r);   // before the cycles of the final complex are computed
    if (!observe(phase, obs_done > 0 || r.chance(1, 2))) return;
    // nothing is modified between the observation and the transfer: the cycles may be read without an update
    if (r.chance(1, 4)) { transfer(r); if (!observe("transfer", r.chance(1, 2))) return; }
    if (r.chance(1, 3)) { if (!observe("second_update", true)) return; }

    if constexpr (kRemovable) {
      int rounds = (int)r.below(4);
      for (int rd = 0; rd < rounds && !no_more_insertions; ++rd) {
        const size_t kmax = big ? 40 : 10, jmax = big ? 61 : 13;
        size_t k = r.chance(1, 6) ? 0 : 1 + (size_t)r.below(std::min<size_t>(F.size(), kmax));
        if (r.chance(1, 25) && !big) k = F.size();  // down to the empty matrix
        k = std::min(k, F.size());
        // with remove_maximal_cell: half of the rounds remove random maximal cells (preferably not the last one)
        bool use_rmc = false;
        if constexpr (kRmc1) use_rmc = r.chance(1, 2);
        // RU + IDENTIFIER indexing: after the removal of a cell that is not the last one no id is admissible for a new cell
        // (the implicit one collides with a living cell, a fresh one differs from its position: the recorded C06 finding),
        // so that such removals only happen in a last round without insertions
        if (use_rmc && kRU && kById) { if (rd + 1 == rounds) no_more_insertions = true; else use_rmc = false; }
        for (size_t i = 0; i < k; ++i) {
          if (use_rmc) {
            std::vector<size_t> cand;
            for (size_t q = 0; q < F.size(); ++q) if (F.maximal(q)) cand.push_back(q);
            size_t q = cand[r.below(cand.size())];
            if (q + 1 == F.size() && cand.size() > 1 && r.chance(3, 4)) q = cand[r.below(cand.size() - 1)];
            remove_maximal(q, r);
          } else remove_last();
        }
        if (k > 0 && r.chance(1, 5)) transfer(r);
        if (k > 0 && (no_more_insertions || r.chance(1, 2))) { if (!observe(use_rmc ? "remove_maximal_cell" : "remove_last", true)) return; }
        if (no_more_insertions) break;
        size_t j = (size_t)r.below(jmax);
        if (F.size() == 0 && j == 0) j = 3;
        for (size_t i = 0; i < j; ++i) { if (!F.grow(r)) break; insert_last(); }
        if (k > 0 && r.chance(1, 8)) transfer(r);
        if (!observe(k > 0 ? "remove_and_reinsert" : "insert_more", true)) return;
      }
    }
    if (kCmp && *cmp_calls) c.count("info.comparator_called", (uint64_t)*cmp_calls);
    if (obs_done >= 1 && max_cells >= 12 && max_finite >= 3 && max_dim_bar >= 1) c.nontrivial(vh::hash_str(vh::G().history));
    if (saw_nested) c.count("case.with_nested_reduction");
    if (saw_removal) c.count("case.with_removal");
    if (saw_max_removal) c.count("case.with_maximal_cell_removal");
    c.count("case.complete");
    c.sample("{\"config\":\"" + std::string(name) + "\",\"history\":\"" + vh::jesc(vh::G().history.substr(0, 900)) + "\"}");
  }
};

template <class O>
void run_case(vh::Case& c, const char* name) {
  Driver<O> d(c);
  try {
    d.run(name);
  } catch (const std::exception& e) {
    c.violation("library.exception", d.base_sig + (d.saw_max_removal ? ",after_maximal_cell_removal" : d.saw_removal ? ",after_removal" : ",no_removal") + ",what=" + e.what(),
                std::string("exception from the library: ") + e.what());
  }
}

}  // namespace c08

#define C08_CT(x) Gudhi::persistence_matrix::Column_types::x
#define C08_IX(x) Gudhi::persistence_matrix::Column_indexation_types::x
// C08_INST(config name, Z2?, column type, RU? (else chain), indexing, barcode?, max-dim access?, map container?, row access 0/1/2,
//          removable rows?, vine option?)
// C08_INSTX: the same + extra flags (1: has_column_and_row_swaps, 2: Index = int)
#define C08_INSTX(name, z2, ct, ru, ix, bc, md, mc, ra, rr, vn, xf)                                     \
  typedef c08::Opt<z2, C08_CT(ct), ru, C08_IX(ix), bc, md, mc, ra, rr, vn, xf> VH_CAT(c08_opt_, __LINE__); \
  static void VH_CAT(c08_fn_, __LINE__)(vh::Case& c) { c08::run_case<VH_CAT(c08_opt_, __LINE__)>(c, name); } \
  VH_CONFIG(name, VH_CAT(c08_fn_, __LINE__))
#define C08_INST(name, z2, ct, ru, ix, bc, md, mc, ra, rr, vn) C08_INSTX(name, z2, ct, ru, ix, bc, md, mc, ra, rr, vn, 0)

#endif  // VERIF_C08_BODY_H_

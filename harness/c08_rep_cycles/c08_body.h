// C08 — Representative cycles really represent their bars.
//
// One templated harness body, instantiated per option struct (see c08_units.inc).
// The harness owns a filtered cell complex (c08_gen.h), mirrors every insertion / removal into a GUDHI Matrix<Options>
// with can_retrieve_representative_cycles, and after every phase asks for the representative cycles (whole list and per bar)
// and decides the statements of the property by rank computations on the harness's own boundary matrix:
//   - every cell of the cycle has the bar's dimension, no cell repeated, the youngest cell is the birth cell
//   - the boundary of the chain is zero
//   - in K_{d-1} (K_{n-1} for an essential bar) the class is NOT in the image of H(K_{b-1})      [monotone in t, so this
//     decides every t in [b, d-1]]
//   - in K_d it is in that image; chain flavour: it is a boundary of K_d
//   - at every index t the representatives of the bars alive at t are independent in H(K_t) and as many as beta(K_t)
// "class of z in H(K_t) lies in the image of H(K_{b-1})"  <=>  z in Z(K_{b-1}) + B(K_t)  <=>  (z is a cycle)
// z in C(K_{b-1}) + B(K_t)  <=>  the residue of z modulo an echelon basis (pivot = youngest cell) of B(K_t) only
// uses cells older than b.
// For Z_p, p > 2, a Cycle carries no coefficients: the chain is recovered as the generator of the cycles supported in the
// returned support when that space is 1-dimensional (then everything above is checked over Z_p); otherwise only the
// necessary conditions "some cycle in the support has a non-zero coefficient on the birth cell / on every listed cell".
#ifndef VERIF_C08_BODY_H_
#define VERIF_C08_BODY_H_

#include <gudhi/Matrix.h>
#include <gudhi/persistence_matrix_options.h>
#include <gudhi/Fields/Zp_field_operators.h>

#include <array>
#include <memory>
#include <unordered_map>

#include "common/vh.h"
#include "oracle/z2_linalg.h"
#include "oracle/zp_reduce.h"
#include "c08_rep_cycles/c08_gen.h"
#include "c08_rep_cycles/c08_linalg.h"

namespace c08 {

using Gudhi::persistence_matrix::Column_indexation_types;
using Gudhi::persistence_matrix::Column_types;
using Gudhi::persistence_matrix::Matrix;

// row access: 0 none, 1 intrusive rows, 2 set rows
template <bool z2, Column_types ct, bool ru, Column_indexation_types idx, bool barcode, bool maxdim, bool mapc, int ra,
          bool remrows, bool vine>
struct Opt {
  using Field_coeff_operators = Gudhi::persistence_fields::Zp_field_operators<>;
  using Index = unsigned int;
  using Dimension = int;

  static const bool is_z2 = z2;
  static const Column_types column_type = ct;
  static const Column_indexation_types column_indexation_type = idx;

  static const bool is_of_boundary_type = ru;
  static const bool has_column_compression = false;
  static const bool has_column_and_row_swaps = false;

  static const bool has_vine_update = vine;
  static const bool can_retrieve_representative_cycles = true;
  static const bool has_column_pairings = barcode;

  static const bool has_row_access = ra != 0;
  static const bool has_intrusive_rows = ra == 1;
  static const bool has_removable_rows = remrows;

  // chain matrices with vine updates only offer remove_last with a map container
  static const bool has_removable_columns = ru || !vine || mapc;
  static const bool has_map_column_container = mapc;
  static const bool has_matrix_maximal_dimension_access = maxdim;
};

// ------------------------------------------------------------------------------------------------------------------
// semantic oracle on the harness's own complex (no GUDHI type here)
struct Finding {
  bool bad = false;
  std::string check, sig, detail;
  static Finding ok() { return Finding(); }
  static Finding make(const std::string& c, const std::string& s, const std::string& d) { Finding f; f.bad = true; f.check = c; f.sig = s; f.detail = d; return f; }
};

inline typename Z2Backend::Span make_span(const Z2Backend&) { return Z2Backend::Span(); }
inline typename ZpBackend::Span make_span(const ZpBackend& b) { return ZpBackend::Span(b.p); }
inline long residue_top(const Z2Backend::Span& s, Z2Backend::Vec v) { s.s.reduce(v); return v.top(); }
inline long residue_top(const ZpBackend::Span& s, ZpBackend::Vec v) { s.reduce(v); return ZpBackend::Span::top(v); }

template <class BK>
struct Sem {
  typedef typename BK::Vec Vec;
  typedef typename BK::Span Span;
  BK bk;
  const std::vector<oracle::Cell>& cells;
  size_t n;
  std::vector<Vec> bd;                      // boundary of each cell
  std::vector<Span> E;                      // E[t]: echelon basis of B(K_t) = span of the boundaries of cells 0..t
  std::vector<std::array<int, 6>> rk, cnt;  // rk[t][k] = rank of d_k on K_t ; cnt[t][k] = number of k-cells of K_t

  Sem(const std::vector<oracle::Cell>& cells_, i64 p) : bk(p, cells_.size()), cells(cells_), n(cells_.size()) {
    bd.reserve(n);
    for (size_t j = 0; j < n; ++j) {
      Vec v = bk.zero();
      for (auto& f : cells[j].bdry) bk.add_to(v, (size_t)f.first, oracle::mod_norm(f.second, p));
      bd.push_back(v);
    }
    Span cur = make_span(bk);
    std::array<int, 6> r{}; std::array<int, 6> c{};
    for (size_t t = 0; t < n; ++t) {
      int k = std::min(cells[t].dim, 5);
      c[k]++;
      if (cur.add(bd[t])) r[k]++;
      E.push_back(cur); rk.push_back(r); cnt.push_back(c);
    }
  }
  int betti(size_t t, int k) const { return cnt[t][k] - rk[t][k] - (k + 1 < 6 ? rk[t][k + 1] : 0); }

  // z: chain (as a vector over the cells) returned for `bar`.  returns the id of the first failing statement or ""
  std::string check_chain(const Vec& z, const oracle::Bar& bar, bool chain_flavour, std::string& detail) const {
    Vec dz = bk.zero();
    for (size_t i = 0; i < n; ++i) { i64 a = bk.get(z, i); if (a) bk.axpy(dz, a, bd[i]); }
    if (!bk.is_zero(dz)) { detail = "the boundary of the returned chain is not zero"; return "cycle.zero_boundary"; }
    size_t tend = bar.death < 0 ? n - 1 : (size_t)bar.death - 1;
    long rt = residue_top(E[tend], z);
    if (rt < (long)bar.birth) {
      detail = "in K_" + vh::str(tend) + " the class already lies in the image of H(K_{birth-1}) (residue youngest cell " + vh::str(rt) + ")";
      return "cycle.alive_until_death";
    }
    if (bar.death >= 0) {
      long rd = residue_top(E[(size_t)bar.death], z);
      if (rd >= (long)bar.birth) { detail = "in K_death the class is still not in the image of H(K_{birth-1}) (residue youngest cell " + vh::str(rd) + ")"; return "cycle.dies_at_death"; }
      if (chain_flavour && rd >= 0) { detail = "chain flavour: the cycle is not a boundary in K_death (residue youngest cell " + vh::str(rd) + ")"; return "cycle.chain_boundary_at_death"; }
    }
    return "";
  }

  // dim( pi_b(W) ) and dim( pi_b(W) ^ pi_b(B(K_t)) ), pi_b = forget the cells older than b
  void inter_dims(const std::vector<Vec>& W, size_t b, size_t t, long& dimW, long& dimInter) const {
    Span s = make_span(bk); long dimP = 0;
    const auto& eb = BK::basis(E[t]); const auto& et = BK::tops(E[t]);
    // the echelon vectors with youngest cell >= b keep distinct youngest cells after the projection: they are a basis
    // of pi_b(B(K_t)), the others project to 0
    for (size_t i = 0; i < eb.size(); ++i) if (et[i] >= (long)b) { s.add(bk.project(eb[i], b)); ++dimP; }
    Span w = make_span(bk); dimW = 0;
    for (auto& v : W) if (w.add(bk.project(v, b))) ++dimW;
    long dimSum = dimP;
    for (auto& v : BK::basis(w)) if (s.add(v)) ++dimSum;
    dimInter = dimW + dimP - dimSum;
  }
  // W: a space of cycles (all the cycles with a given support).  Is there a chain in W that represents the bar, i.e. whose class
  // is outside the image of H(K_{b-1}) in K_{d-1} (K_{n-1}) and inside it in K_d ?
  bool some_chain_represents(const std::vector<Vec>& W, const oracle::Bar& bar) const {
    long dimW, in_before, in_at;
    size_t tend = bar.death < 0 ? n - 1 : (size_t)bar.death - 1;
    inter_dims(W, (size_t)bar.birth, tend, dimW, in_before);
    if (bar.death < 0) return dimW > in_before;
    inter_dims(W, (size_t)bar.birth, (size_t)bar.death, dimW, in_at);
    return in_at > in_before;
  }

  // reps[i] = chain of bars[i] (have[i] false: undetermined).  returns "" or the failing statement
  std::string check_basis(const std::vector<oracle::Bar>& bars, const std::vector<Vec>& reps, const std::vector<char>& have,
                          std::string& detail, uint64_t& checked_t, uint64_t& skipped_t) const {
    for (size_t t = 0; t < n; ++t) {
      std::array<int, 6> alive{};
      bool undetermined = false;
      std::vector<size_t> al;
      for (size_t i = 0; i < bars.size(); ++i) {
        if ((size_t)bars[i].birth <= t && (bars[i].death < 0 || (size_t)bars[i].death > t)) {
          alive[std::min(bars[i].dim, 5)]++; al.push_back(i);
          if (!have[i]) undetermined = true;
        }
      }
      for (int k = 0; k < 6; ++k)
        if (alive[k] != betti(t, k)) { detail = "t=" + vh::str(t) + " dim " + vh::str(k) + ": " + vh::str(alive[k]) + " bars alive, beta=" + vh::str(betti(t, k)); return "basis.count"; }
      if (undetermined) { ++skipped_t; continue; }
      Span s = E[t];
      for (size_t i : al)
        if (!s.add(reps[i])) {
          detail = "t=" + vh::str(t) + ": representative of bar (" + vh::str(bars[i].dim) + ";" + vh::str(bars[i].birth) + "," + vh::str(bars[i].death) +
                   ") depends on the other alive representatives modulo B(K_t)";
          return "basis.independent";
        }
      ++checked_t;
    }
    return "";
  }
};

// coverage statistic only: naive reduction recording whether a reducing column had itself been reduced before
struct NestStat { bool any = false; std::vector<char> nested_zero; int finite = 0, chain3 = 0; };
inline NestStat nest_stat(const std::vector<oracle::Cell>& cells, i64 p) {
  const int n = (int)cells.size();
  NestStat st; st.nested_zero.assign(n, 0);
  std::vector<oracle::Col> R(n); std::vector<int> owner(n, -1); std::vector<char> reduced(n, 0);
  for (int j = 0; j < n; ++j) {
    oracle::Col& c = R[j];
    for (auto& f : cells[j].bdry) { i64 v = oracle::mod_norm((c.count(f.first) ? c[f.first] : 0) + f.second, p); if (v == 0) c.erase(f.first); else c[f.first] = v; }
    bool nested = false; int steps = 0;
    while (!c.empty()) {
      int l = c.rbegin()->first, o = owner[l];
      if (o < 0) break;
      i64 coef = oracle::mod_norm(-(c.rbegin()->second * oracle::mod_inv(R[o].rbegin()->second, p)), p);
      oracle::col_axpy(c, coef, R[o], p);
      reduced[j] = 1; ++steps;
      if (reduced[o]) nested = true;
    }
    if (steps >= 3) st.chain3++;
    if (nested) st.any = true;
    if (c.empty()) { if (nested) st.nested_zero[j] = 1; } else { owner[c.rbegin()->first] = j; st.finite++; }
  }
  return st;
}

// ------------------------------------------------------------------------------------------------------------------
template <class O>
struct Driver {
  typedef Matrix<O> M;
  typedef typename M::ID_index ID;
  typedef typename M::Bar GBar;
  typedef typename M::Element Element;
  typedef typename std::conditional<O::is_z2, std::vector<ID>, std::vector<std::pair<ID, Element>>>::type Boundary;
  static constexpr bool kRU = O::is_of_boundary_type;
  static constexpr bool kZ2 = O::is_z2;
  static constexpr bool kBarcode = O::has_column_pairings;
  static constexpr bool kRemovable = O::has_removable_columns;

  vh::Case& c;
  Filtration F;
  i64 p = 2;
  int idmode = 0;            // 0: ids implicit (= position), 1: explicit ids equal to the position, 2: explicit ids with gaps
  bool omit_dim = false;
  std::vector<ID> ids;       // position -> id
  std::unique_ptr<M> m;
  std::string base_sig;
  // per case statistics for the non-triviality rule
  int obs_done = 0, max_finite = 0, max_dim_bar = 0; bool saw_nested = false, saw_removal = false;
  size_t max_cells = 0;

  explicit Driver(vh::Case& c_) : c(c_) {}

  Boundary make_boundary(const oracle::Cell& cell) const {
    Boundary b;
    for (auto& f : cell.bdry) {
      if constexpr (kZ2) b.push_back(ids[f.first]);
      else b.emplace_back(ids[f.first], (Element)oracle::mod_norm(f.second, p));
    }
    return b;
  }
  static std::string show_boundary(const oracle::Cell& cell) {
    std::string s = "[";
    for (size_t i = 0; i < cell.bdry.size(); ++i) { if (i) s += ","; s += vh::str(cell.bdry[i].first); if (cell.bdry[i].second != 1) s += "*" + vh::str(cell.bdry[i].second); }
    return s + "]";
  }
  ID next_id(vh::Rng& r) const {
    if (idmode != 2) return (ID)ids.size();
    ID last = ids.empty() ? (ID)r.below(3) : ids.back() + 1;
    return last + (ID)r.below(4);
  }

  void insert_last() {
    size_t pos = F.size() - 1;
    const oracle::Cell& cell = F.cells[pos];
    ID id = next_id(c.rng);
    ids.push_back(id);
    Boundary b = make_boundary(cell);
    if (idmode == 0) {
      if (omit_dim && F.simplicial()) { c.log("insert_boundary " + show_boundary(cell)); m->insert_boundary(b); }
      else { c.log("insert_boundary " + show_boundary(cell) + " dim=" + vh::str(cell.dim)); m->insert_boundary(b, cell.dim); }
    } else {
      c.log("insert_boundary id=" + vh::str(id) + " " + show_boundary(cell) + " dim=" + vh::str(cell.dim) + "   (faces by position)");
      m->insert_boundary(id, b, cell.dim);
    }
    c.count("op.insert_boundary");
    c.count("op.insert_boundary.dim" + vh::str(std::min(cell.dim, 3)));
  }

  void remove_last() {
    if constexpr (kRemovable) {
      c.log("remove_last");
      m->remove_last();
      F.pop(); ids.pop_back();
      c.count("op.remove_last");
      saw_removal = true;
    }
  }

  // ---------------------------------------------------------------- observation
  // turns a returned cycle into sorted positions; interp 0: entries are ids, 1: entries are positions
  bool to_positions(const std::vector<ID>& cyc, int interp, const std::unordered_map<ID, int>& id2pos, std::vector<int>& out,
                    std::string& why) const {
    out.clear();
    for (ID x : cyc) {
      int pos;
      if (interp == 1) { if ((size_t)x >= F.size()) { why = "entry " + vh::str(x) + " is not a position of the filtration"; return false; } pos = (int)x; }
      else { auto it = id2pos.find(x); if (it == id2pos.end()) { why = "entry " + vh::str(x) + " is not the id of a cell"; return false; } pos = it->second; }
      out.push_back(pos);
    }
    std::sort(out.begin(), out.end());
    if (out.empty()) { why = "empty cycle"; return false; }
    for (size_t i = 1; i < out.size(); ++i) if (out[i] == out[i - 1]) { why = "cell " + vh::str(out[i]) + " listed twice"; return false; }
    return true;
  }

  // A cell listed several times is reported once per case (check cycle.repeated_cell); the monitor then resynchronises
  // by reading the list as a chain (Z_2: multiplicities modulo 2; Z_p: as a support) so that the semantic statements
  // are still decided for the rest of the history.
  bool dup_reported = false;
  void normalise_repeats(std::vector<ID>& cyc, const std::string& sig, const char* which) {
    std::vector<ID> s(cyc);
    std::sort(s.begin(), s.end());
    bool dup = false;
    for (size_t i = 1; i < s.size(); ++i) if (s[i] == s[i - 1]) dup = true;
    c.count("cmp.cycle.repeated_cell");
    if (!dup) return;
    if (!dup_reported) {
      dup_reported = true;
      c.violation("cycle.repeated_cell", sig + "," + which, "a cell is listed more than once in the returned cycle " + vh::vstr(cyc));
    }
    std::vector<ID> out;
    for (size_t i = 0; i < s.size();) {
      size_t j = i; while (j < s.size() && s[j] == s[i]) ++j;
      if (p != 2 || ((j - i) & 1)) out.push_back(s[i]);
      i = j;
    }
    cyc.swap(out);
  }

  template <class BK>
  Finding check_one(const Sem<BK>& sem, const oracle::Bar& bar, const std::vector<int>& pos, const std::string& sig,
                    typename BK::Vec& chain, bool& have_chain) {
    have_chain = false;
    std::string at = " bar (" + vh::str(bar.dim) + ";" + vh::str(bar.birth) + "," + vh::str(bar.death) + ") cycle(positions)=" + vh::vstr(pos);
    for (int x : pos) if (F.cells[x].dim != bar.dim) return Finding::make("cycle.dimension", sig, "cell " + vh::str(x) + " has dimension " + vh::str(F.cells[x].dim) + at);
    c.count("cmp.cycle.dimension");
    if (pos.back() != bar.birth) return Finding::make("cycle.youngest_is_birth", sig, "youngest cell " + vh::str(pos.back()) + at);
    c.count("cmp.cycle.youngest_is_birth");
    chain = sem.bk.zero();
    if (p == 2) {
      for (int x : pos) sem.bk.add_to(chain, (size_t)x, 1);
      have_chain = true;
    } else {
      // recover the coefficients: cycles supported in the returned support
      std::vector<std::vector<i64>> cols;
      for (int x : pos) { std::vector<i64> col(F.size(), 0); for (auto& f : F.cells[x].bdry) col[f.first] = oracle::mod_norm(col[f.first] + f.second, p); cols.push_back(col); }
      std::vector<std::vector<i64>> ker = zp_kernel(cols, p);
      c.count("cmp.zp.support_kernel");
      bool birth_nz = false;
      for (auto& kv : ker) if (kv.back()) birth_nz = true;
      if (!birth_nz) return Finding::make("zp.birth_coefficient", sig, "no Z_p cycle supported in the returned support has a non-zero coefficient on the birth cell" + at);
      for (size_t i = 0; i < pos.size(); ++i) {
        bool nz = false; for (auto& kv : ker) if (kv[i]) nz = true;
        if (!nz) return Finding::make("zp.support", sig, "every Z_p cycle supported in the returned support vanishes on listed cell " + vh::str(pos[i]) + at);
      }
      if (ker.size() == 1) {
        for (size_t i = 0; i < pos.size(); ++i) sem.bk.add_to(chain, (size_t)pos[i], ker[0][i]);
        have_chain = true; c.count("state.zp.chain_determined");
      } else {
        // several independent cycles live in the support (always the case for 0-chains): necessary condition
        // "some chain with this support represents the bar"
        c.count("state.zp.chain_undetermined");
        std::vector<typename BK::Vec> W;
        for (auto& kv : ker) { typename BK::Vec w = sem.bk.zero(); for (size_t i = 0; i < pos.size(); ++i) sem.bk.add_to(w, (size_t)pos[i], kv[i]); W.push_back(w); }
        c.count("cmp.zp.some_chain_represents_bar");
        if (!sem.some_chain_represents(W, bar))
          return Finding::make("zp.some_chain_represents_bar", sig, "no Z_p cycle supported in the returned support is born with the bar and dies with it" + at);
      }
    }
    if (have_chain) {
      std::string detail;
      std::string id = sem.check_chain(chain, bar, !kRU, detail);
      c.count("cmp.cycle.semantic");
      if (bar.death >= 0) c.count("cmp.cycle.semantic.finite"); else c.count("cmp.cycle.semantic.essential");
      if (!id.empty()) return Finding::make(id, sig, detail + at);
    }
    return Finding::ok();
  }

  // ---- stage 1: the whole list.  One cycle per bar; every cycle checked against its bar; basis statement with these cycles.
  template <class BK>
  struct ListEval {
    std::vector<std::vector<int>> pos;            // per bar: the list's cycle in positions
    std::vector<typename BK::Vec> reps;           // per bar: the chain (when determined)
    std::vector<char> have;
  };
  template <class BK>
  Finding evaluate_list(const Sem<BK>& sem, int interp, const std::vector<std::vector<ID>>& all, const std::vector<oracle::Bar>& bars,
                        const NestStat& ns, const std::string& sig0, ListEval<BK>& le) {
    std::unordered_map<ID, int> id2pos;
    for (size_t i = 0; i < ids.size(); ++i) id2pos[ids[i]] = (int)i;
    std::map<int, size_t> bar_of_birth;
    for (size_t i = 0; i < bars.size(); ++i) bar_of_birth[bars[i].birth] = i;
    le.pos.assign(bars.size(), std::vector<int>()); le.reps.assign(bars.size(), sem.bk.zero()); le.have.assign(bars.size(), 0);
    std::vector<char> seen(bars.size(), 0);
    c.count("cmp.cycles.count");
    if (all.size() != bars.size())
      return Finding::make("cycles.count", sig0 + (all.size() > bars.size() ? ",more_cycles_than_bars" : ",fewer_cycles_than_bars"),
                           "get_representative_cycles() has " + vh::str(all.size()) + " cycles, the barcode has " + vh::str(bars.size()) + " bars");
    for (auto& cyc : all) {
      std::vector<int> pos; std::string why;
      if (!to_positions(cyc, interp, id2pos, pos, why)) return Finding::make("cycle.malformed", sig0 + ",list", why + " in " + vh::vstr(cyc));
      auto it = bar_of_birth.find(pos.back());
      if (it == bar_of_birth.end()) return Finding::make("cycle.youngest_is_birth", sig0 + ",list,no_bar_born_at_youngest_cell", "cycle " + vh::vstr(pos) + ": no bar is born at its youngest cell");
      if (seen[it->second]) return Finding::make("cycles.count", sig0 + ",two_cycles_same_birth", "two cycles of the list have youngest cell " + vh::str(pos.back()));
      seen[it->second] = 1; le.pos[it->second] = pos;
    }
    for (size_t i = 0; i < bars.size(); ++i) {
      bool hv = false;
      Finding f = check_one(sem, bars[i], le.pos[i], bar_sig(sig0, ns, bars[i]) + ",list", le.reps[i], hv);
      if (f.bad) return f;
      le.have[i] = hv;
    }
    std::string detail; uint64_t ck = 0, sk = 0;
    std::string id = sem.check_basis(bars, le.reps, le.have, detail, ck, sk);
    c.count("cmp.basis.index_checked", ck); c.count("skip.basis.index_with_undetermined_zp_chain", sk);
    if (!id.empty()) return Finding::make(id, sig0 + ",list", detail);
    return Finding::ok();
  }
  static std::string bar_sig(const std::string& sig0, const NestStat& ns, const oracle::Bar& b) {
    return sig0 + (ns.nested_zero[b.birth] ? ",nested_sources" : ",plain_sources");
  }

  // ---- stage 2: get_representative_cycle(bar) for every bar
  template <class BK>
  Finding evaluate_per_bar(const Sem<BK>& sem, int interp, const std::vector<std::vector<ID>>& perbar, const std::vector<oracle::Bar>& bars,
                           const NestStat& ns, const std::string& sig0, const ListEval<BK>& le) {
    std::unordered_map<ID, int> id2pos;
    for (size_t i = 0; i < ids.size(); ++i) id2pos[ids[i]] = (int)i;
    std::vector<typename BK::Vec> reps(le.reps); std::vector<char> have(le.have);
    bool any_diff = false;
    for (size_t i = 0; i < bars.size(); ++i) {
      std::vector<int> pos; std::string why;
      if (!to_positions(perbar[i], interp, id2pos, pos, why)) return Finding::make("cycle.malformed", bar_sig(sig0, ns, bars[i]) + ",per_bar", why + " in " + vh::vstr(perbar[i]));
      if (pos == le.pos[i]) { c.count("cmp.per_bar_equals_list"); continue; }
      any_diff = true; c.count("info.per_bar_differs_from_list");
      bool hv = false;
      Finding f = check_one(sem, bars[i], pos, bar_sig(sig0, ns, bars[i]) + ",per_bar", reps[i], hv);
      if (f.bad) return f;
      have[i] = hv;
    }
    if (any_diff) {
      std::string detail; uint64_t ck = 0, sk = 0;
      std::string id = sem.check_basis(bars, reps, have, detail, ck, sk);
      c.count("cmp.basis.index_checked", ck);
      if (!id.empty()) return Finding::make(id, sig0 + ",per_bar", detail);
    }
    return Finding::ok();
  }

  template <class BK>
  bool observe_with(const std::string& sig0, const std::vector<oracle::Bar>& bars, const NestStat& ns, const std::map<int, GBar>& gbar) {
    Sem<BK> sem(F.cells, p);
    std::vector<std::vector<ID>> all;
    c.log("get_representative_cycles");
    {
      const auto& got = m->get_representative_cycles();
      for (const auto& cy : got) all.emplace_back(cy.begin(), cy.end());
    }
    c.count("obs.get_representative_cycles");
    for (auto& cy : all) normalise_repeats(cy, sig0, "list");

    // interpretation of the entries: the documentation says "row indices" (ids); RU matrices return positions.  With
    // ids == positions both agree.  With gapped ids either reading is accepted as long as it makes every statement true
    // for the whole observation.
    int interp = kRU ? 1 : 0;
    ListEval<BK> le;
    Finding f = evaluate_list(sem, interp, all, bars, ns, sig0, le);
    if (f.bad && idmode == 2) {
      ListEval<BK> le2;
      Finding g = evaluate_list(sem, 1 - interp, all, bars, ns, sig0, le2);
      if (!g.bad) { f = g; le = le2; interp = 1 - interp; c.count("info.gapped_ids.other_index_reading_accepted"); }
    }
    if (f.bad) { c.violation(f.check, f.sig, f.detail); return false; }
    if (idmode == 2) c.count(interp ? "info.gapped_ids.cycle_entries_read_as_positions" : "info.gapped_ids.cycle_entries_read_as_ids");

    std::vector<std::vector<ID>> perbar;
    for (const auto& b : bars) {
      GBar gb((typename M::Pos_index)b.birth, b.death < 0 ? GBar::inf : (typename M::Pos_index)b.death, b.dim);
      if constexpr (kBarcode) gb = gbar.at(b.birth);
      c.log("get_representative_cycle (" + vh::str(b.dim) + ";" + vh::str(b.birth) + "," + vh::str(b.death) + ")");
      const auto& cy = m->get_representative_cycle(gb);
      perbar.emplace_back(cy.begin(), cy.end());
      c.count("obs.get_representative_cycle");
    }
    for (auto& cy : perbar) normalise_repeats(cy, sig0, "per_bar");
    f = evaluate_per_bar(sem, interp, perbar, bars, ns, sig0, le);
    if (f.bad) { c.violation(f.check, f.sig, f.detail); return false; }
    return true;
  }

  // returns false after reporting a violation
  bool observe(const std::string& phase, bool call_update) {
    const size_t n = F.size();
    oracle::Reduction red = oracle::reduce(F.cells, p, false);
    const std::vector<oracle::Bar>& bars = red.bars;
    NestStat ns = nest_stat(F.cells, p);
    // signature: flavour, field, [gapped ids], whether a removal happened earlier in the history; the phase goes to the detail
    std::string sig0 = base_sig + (saw_removal ? ",after_removal" : ",no_removal");
    c.log("observe after " + phase);

    std::map<int, GBar> gbar;  // birth -> the library's bar object
    if constexpr (kBarcode) {
      c.log("get_current_barcode");
      std::vector<oracle::Bar> got;
      for (const auto& b : m->get_current_barcode()) {
        got.push_back(oracle::Bar{(int)b.dim, (int)b.birth, b.death == GBar::inf ? -1 : (int)b.death});
        gbar.emplace((int)b.birth, b);
      }
      std::sort(got.begin(), got.end());
      c.count("cmp.barcode");
      if (got != bars) {
        c.violation("barcode.prerequisite", sig0, "get_current_barcode()=" + oracle::show(got) + " reference=" + oracle::show(bars));
        return false;
      }
    }
    if (call_update) { c.log("update_representative_cycles"); m->update_representative_cycles(); c.count("op.update_representative_cycles"); }
    else c.count("op.lazy_first_get");
    if (!((p == 2) ? observe_with<Z2Backend>(sig0, bars, ns, gbar) : observe_with<ZpBackend>(sig0, bars, ns, gbar))) return false;

    // statistics
    ++obs_done; c.count("obs.complete");
    c.count("obs.after." + phase);
    c.count("obs.bars", bars.size());
    int fin = 0, dmax = 0;
    for (auto& b : bars) { if (b.death >= 0) ++fin; dmax = std::max(dmax, b.dim); if (ns.nested_zero[b.birth]) c.count("state.bar_with_nested_sources"); }
    max_finite = std::max(max_finite, fin); max_dim_bar = std::max(max_dim_bar, dmax); max_cells = std::max(max_cells, n);
    if (ns.any) { saw_nested = true; c.count("state.complex_with_nested_reduction"); }
    bool nz = false; for (char x : ns.nested_zero) if (x) nz = true;
    if (nz) c.count("state.complex_with_nested_reduction_in_a_cycle_column");
    if (ns.chain3) c.count("state.complex_with_reduction_chain_ge3");
    if (fin >= 3) c.count("state.complex_with_ge3_finite_bars");
    if (n == 0) c.count("state.empty_matrix");
    return true;
  }

  // ---------------------------------------------------------------- one case
  void run(const char* name) {
    vh::Rng& r = c.rng;
    const Library& L = Library::get();
    unsigned cls = (unsigned)r.below(100);
    const Universe* U = nullptr; std::string clsname;
    if (cls < 30) { U = &L.us[r.below(3)]; clsname = "simplicial"; }
    else if (cls < 50) { U = &L.us[3 + r.below(5)]; clsname = "surface"; }
    else if (cls < 70) { U = &L.us[8 + r.below(4)]; clsname = "cubical"; }
    else { clsname = "algebraic"; }
    if (kZ2) p = 2;
    else { unsigned x = (unsigned)r.below(100); p = x < 15 ? 2 : x < 50 ? 3 : x < 70 ? 5 : x < 85 ? 7 : 11; }
    F.init(U, p);
    unsigned im = (unsigned)r.below(100);
    idmode = im < 8 ? 2 : im < 35 ? 1 : 0;
    // instantiations with the vine option are an extra beyond the option sets of the *_rep tests: ids with gaps are not
    // used there (removal with ids != positions is the business of C05/C06; see spec.py "assumptions")
    if (O::has_vine_update && idmode == 2) { idmode = 1; c.count("skip.gapped_ids_with_vine_option"); }
    omit_dim = r.chance(1, 2);
    size_t n0 = 6 + (size_t)r.below(c.thorough ? 46 : 34);
    bool batch = (U && U->simplicial && idmode == 0 && r.chance(1, 2));
    base_sig = std::string(kRU ? "ru" : "chain") + (kZ2 ? ",z2" : (p == 2 ? ",zp_p2" : ",zp")) + (idmode == 2 ? ",gapped_ids" : "");
    c.log(std::string("config ") + name + " class=" + clsname + (U ? "/" + U->name : "") + " p=" + vh::str(p) + " idmode=" + vh::str(idmode));
    c.count("class." + clsname); c.count("idmode." + vh::str(idmode)); c.count("p." + vh::str(p));

    std::string phase;
    if (batch) {
      for (size_t i = 0; i < n0; ++i) if (!F.grow(r)) break;
      std::vector<Boundary> cols;
      for (size_t i = 0; i < F.size(); ++i) { ids.push_back((ID)i); cols.push_back(make_boundary(F.cells[i])); c.log("column " + show_boundary(F.cells[i])); }
      c.log("construct from " + vh::str(cols.size()) + " ordered boundaries");
      if constexpr (kZ2) m.reset(new M(cols)); else m.reset(new M(cols, (typename M::Characteristic)p));
      c.count("op.construct_batch");
      phase = "build_batch";
    } else {
      if (r.chance(1, 2)) {
        c.log("construct empty + set_characteristic");
        m.reset(new M());
        if constexpr (!kZ2) m->set_characteristic((typename M::Characteristic)p);
      } else {
        unsigned res = (unsigned)r.below(2 * n0 + 1);
        c.log("construct with reserve " + vh::str(res));
        if constexpr (kZ2) m.reset(new M(res)); else m.reset(new M(res, (typename M::Characteristic)p));
      }
      c.count("op.construct_incremental");
      // optionally observe once in the middle of the construction, so that the final update replaces older cycles
      size_t mid = r.chance(1, 3) ? 1 + (size_t)r.below(n0) : 0;
      for (size_t i = 0; i < n0; ++i) {
        if (!F.grow(r)) break;
        insert_last();
        if (i + 1 == mid && i + 1 < n0) { if (!observe("build_partial", r.chance(1, 2))) return; }
      }
      phase = "build_incremental";
    }
    if (!observe(phase, obs_done > 0 || r.chance(1, 2))) return;
    if (r.chance(1, 3)) { if (!observe("second_update", true)) return; }

    if constexpr (kRemovable) {
      int rounds = (int)r.below(4);
      for (int rd = 0; rd < rounds; ++rd) {
        size_t k = r.chance(1, 6) ? 0 : 1 + (size_t)r.below(std::min<size_t>(F.size(), 10));
        if (r.chance(1, 25)) k = F.size();  // down to the empty matrix
        k = std::min(k, F.size());
        for (size_t i = 0; i < k; ++i) remove_last();
        if (k > 0 && r.chance(1, 2)) { if (!observe("remove_last", true)) return; }
        size_t j = (size_t)r.below(13);
        if (F.size() == 0 && j == 0) j = 3;
        for (size_t i = 0; i < j; ++i) { if (!F.grow(r)) break; insert_last(); }
        if (!observe(k > 0 ? "remove_and_reinsert" : "insert_more", true)) return;
      }
    }
    if (obs_done >= 1 && max_cells >= 12 && max_finite >= 3 && max_dim_bar >= 1) c.nontrivial(vh::hash_str(vh::G().history));
    if (saw_nested) c.count("case.with_nested_reduction");
    if (saw_removal) c.count("case.with_removal");
    c.count("case.complete");
    c.sample("{\"config\":\"" + std::string(name) + "\",\"history\":\"" + vh::jesc(vh::G().history.substr(0, 900)) + "\"}");
  }
};

template <class O>
void run_case(vh::Case& c, const char* name) {
  Driver<O> d(c);
  try {
    d.run(name);
  } catch (const std::exception& e) {
    c.violation("library.exception", d.base_sig + ",what=" + e.what(), std::string("exception from the library: ") + e.what());
  }
}

}  // namespace c08

#define C08_CT(x) Gudhi::persistence_matrix::Column_types::x
#define C08_IX(x) Gudhi::persistence_matrix::Column_indexation_types::x
// C08_INST(config name, Z2?, column type, RU? (else chain), indexing, barcode?, max-dim access?, map container?, row access 0/1/2,
//          removable rows?, vine option?)
#define C08_INST(name, z2, ct, ru, ix, bc, md, mc, ra, rr, vn)                                      \
  typedef c08::Opt<z2, C08_CT(ct), ru, C08_IX(ix), bc, md, mc, ra, rr, vn> VH_CAT(c08_opt_, __LINE__); \
  static void VH_CAT(c08_fn_, __LINE__)(vh::Case& c) { c08::run_case<VH_CAT(c08_opt_, __LINE__)>(c, name); } \
  VH_CONFIG(name, VH_CAT(c08_fn_, __LINE__))

#endif  // VERIF_C08_BODY_H_

// C06 harness translation unit: the instantiations of unit C06_UNIT (see c06_units.inc) of the body in c06_body.h.
#include "c06_body.h"
#include "c06_units.inc"
VH_MAIN()

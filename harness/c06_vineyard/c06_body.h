// C06 — vineyard swaps and removals of maximal cells leave a persistence matrix as if it had been rebuilt from scratch.
// One templated harness body, instantiated per option struct (see c06_units.inc), a few instantiations per binary.
//
// Per case: a random filtered cell complex (simplices, plus multi-cells and squares in "cellular" cases; <= 40 cells,
// dim <= 3) in a random admissible order; a matrix is built on it (batch constructor / incremental, natural / gapped ids)
// and then driven through a random walk of adjacent transpositions (vine_swap, vine_swap_with_z_eq_1_case where its
// precondition holds), insertions at the end, remove_last, remove_maximal_cell (both overloads) and forks (a fresh matrix
// is built on the current order and both are driven by the same suffix).  After EVERY step, for every live matrix:
//   * get_current_barcode() (when stored) as a multiset of (dim, birth, death) in positions == zp_reduce of the current order
//   * the defining identities: RU: R reduced, pivot maps inverse of each other, barcode read off R == oracle,
//     a unit-triangular stored factor M with one of B = R.M, B = R.M^T, R = B.M, R = B.M^T; chain: distinct pivots equal to
//     the latest cell of each chain, homogeneous dimension, boundary of every chain zero or exactly another (earlier) chain,
//     barcode read off that pairing == oracle
//   * the returned value of the swap is truthful (see check_swap_return).
//   * matrices with row access: get_row of every live cell == the transpose of the columns (see rows_ok)
//   * matrices with representative cycles: after update_representative_cycles, one cycle per bar, and the cycle of every bar
//     is a non-empty chain of the bar's dimension with zero boundary whose youngest cell is the birth cell (see observe_rep).
// Two-argument swaps pass the later cell first in half of the calls.  1 case in 6 runs on a general Z_2 chain complex (cells of
// positive dimension with empty / odd / shared boundaries), 1 case in 8 on a tiny complex that is emptied and refilled; chain
// matrices with explicit ids re-use the ids of removed cells in half of the instances.  An RU matrix with identifier indexing
// is accompanied by a position indexed twin (same options, same history) from which the precondition of
// vine_swap_with_z_eq_1_case is read.
#ifndef VERIF_C06_BODY_H_
#define VERIF_C06_BODY_H_

#include <gudhi/Matrix.h>
#include <gudhi/persistence_matrix_options.h>

#include <functional>
#include <memory>
#include <stdexcept>
#include <type_traits>

#include "common/vh.h"
#include "oracle/zp_reduce.h"
#include "c06_world.h"

namespace c06 {

using Gudhi::persistence_matrix::Column_indexation_types;
using Gudhi::persistence_matrix::Column_types;
typedef Column_indexation_types CI;

// RA: 0 = no row access, 1 = intrusive rows, 2 = set rows
template <Column_types CT, bool RU, CI IDX, bool BAR, bool REM, bool MAPC, int RA = 0, bool RR = false, bool DIMACC = false, bool REP = false>
struct Opt {
  using Field_coeff_operators = Gudhi::persistence_fields::Zp_field_operators<>;
  using Index = unsigned int;
  using Dimension = int;
  static const bool is_z2 = true;
  static const Column_types column_type = CT;
  static const Column_indexation_types column_indexation_type = IDX;
  static const bool is_of_boundary_type = RU;
  static const bool has_column_compression = false;
  static const bool has_column_and_row_swaps = false;
  static const bool has_vine_update = true;
  static const bool can_retrieve_representative_cycles = REP;
  static const bool has_row_access = (RA != 0);
  static const bool has_intrusive_rows = (RA != 2);
  static const bool has_removable_rows = RR;
  static const bool has_removable_columns = REM;
  static const bool has_map_column_container = MAPC;
  static const bool has_matrix_maximal_dimension_access = DIMACC;
  static const bool has_column_pairings = BAR;
};

// the same options with container (= position, for RU matrices) indexing: the "twin" of an RU matrix with identifier indexing
template <class O>
struct TwinOpt : O {
  static const Column_indexation_types column_indexation_type = Column_indexation_types::CONTAINER;
};
struct NoTwin {};

template <class O>
struct Flavour {
  static constexpr bool ru = O::is_of_boundary_type;
  static constexpr bool by_id = O::column_indexation_type == CI::IDENTIFIER;
  static constexpr bool by_pos = O::column_indexation_type == CI::POSITION || (ru && O::column_indexation_type == CI::CONTAINER);
  static constexpr bool by_mat = !ru && O::column_indexation_type == CI::CONTAINER;
  static constexpr bool bar = O::has_column_pairings;
  static constexpr bool rem = O::has_removable_columns;
  static constexpr bool mapc = O::has_map_column_container;
  static constexpr bool can_remove_last = rem && (ru || mapc);
  static constexpr bool can_rmc1 = rem && (ru || (mapc && bar));
  static constexpr bool can_rmc2 = rem && !ru && mapc && O::column_indexation_type != CI::POSITION;
  static constexpr bool need_cmp = !ru && !bar;
  static constexpr bool has_u = ru && !by_id;
  static constexpr bool dimacc = O::has_matrix_maximal_dimension_access;
  static constexpr bool rep = O::can_retrieve_representative_cycles;
  static constexpr bool ra = O::has_row_access;
  static constexpr bool rr = O::has_removable_rows;
  // RU with identifier indexing: U cannot be read, a position indexed twin driven through the same history is read instead
  static constexpr bool twin = ru && by_id;
  // two-argument vine swaps whose arguments may come in either order (a chain matrix without stored barcode knows no position)
  static constexpr bool can_reverse = !by_pos && (ru || bar);
  // chain matrix without stored barcode behind the position overlay: the harness mirrors position -> internal column index
  static constexpr bool mirror = need_cmp && by_pos;
  static std::string name() {
    return std::string(ru ? "ru" : "chain") + (by_id ? ",idx=id" : O::column_indexation_type == CI::POSITION ? ",idx=pos" : ",idx=cont") +
           (bar ? ",bar" : ",nobar") + (rep ? ",rep" : "");
  }
};

// ------------------------------------------------------------------------------------------------------------------
// comparators handed to a chain matrix that does not store the barcode.  The library calls them with the (internal)
// indices of two columns; the answers are derived from the model order and the oracle barcode only.
struct CmpCtx {
  std::function<unsigned(unsigned)> pivot_of;  // column index -> id of its pivot cell (decoding of the arguments only)
  const World* w = nullptr;
  const std::vector<unsigned>* ids = nullptr;  // ids in the order that was current when the running operation started
  int moving_pos = -1;                         // position (in that order) of the cell being moved up
  uint64_t birth_calls = 0, death_calls = 0, unexpected = 0;

  int pos0(unsigned id) const {
    for (size_t i = 0; i < ids->size(); ++i) if ((*ids)[i] == id) return (int)i;
    return -1;
  }
  // births are the positions of positive cells; the relative order of two cells none of which is the moving one does not
  // change while a cell is moved up, and the moving cell is always just before the other one when it is compared
  bool birth(unsigned a, unsigned b) {
    ++birth_calls;
    if (vh::G().verbose) fprintf(stderr, "    birthComp(col %u [pivot pos %d], col %u [pivot pos %d])\n", a, pos0(pivot_of(a)), b, pos0(pivot_of(b)));
    return pos0(pivot_of(a)) < pos0(pivot_of(b));
  }
  // deaths of the bars born at the two cells, in the order that is current for this very transposition
  bool death(unsigned a, unsigned b) {
    ++death_calls;
    int p1 = pos0(pivot_of(a)), p2 = pos0(pivot_of(b));
    int t = 0;
    std::vector<oracle::Cell> cells;
    World tmp;
    tmp.order = w->order;
    if (p1 == moving_pos && p2 > p1) {
      t = p2 - p1 - 1;
      for (int s = 0; s < t; ++s) std::swap(tmp.order[p1 + s], tmp.order[p1 + s + 1]);
      p1 += t; p2 = p1 + 1;
    } else if (!(p2 == p1 + 1)) {
      ++unexpected;
    }
    auto bars = tmp.bars();
    long d1 = -2, d2 = -2;
    for (auto& x : bars) { if (x.birth == p1) d1 = x.death; if (x.birth == p2) d2 = x.death; }
    if (d1 == -2 || d2 == -2) { ++unexpected; return false; }
    if (vh::G().verbose) fprintf(stderr, "    deathComp(col %u [pivot pos %d], col %u [pivot pos %d]) deaths %ld %ld\n", a, p1, b, p2, d1, d2);
    if (d1 < 0) return false;       // infinite death is never strictly smaller
    if (d2 < 0) return true;
    return d1 < d2;
  }
};

inline std::string ids_name(bool gapped, bool implicit) { return gapped ? "gapped" : implicit ? "implicit" : "counter"; }

template <class O>
struct Inst {
  typedef Gudhi::persistence_matrix::Matrix<O> M;
  typedef Flavour<O> F;
  typedef typename std::conditional<F::twin, Gudhi::persistence_matrix::Matrix<TwinOpt<O>>, NoTwin>::type Twin;
  std::unique_ptr<M> m;
  std::unique_ptr<Twin> twin;   // RU with identifier indexing, natural numbering only
  std::vector<unsigned> mirror; // chain, position indexing, no stored barcode: internal column index at each position
  unsigned next_index = 0;      //   ... and the internal index the next inserted column gets
  bool reuse_ids = false;       // chain, explicit ids: a new cell gets (largest live id) + 1, i.e. ids of removed cells come back
  std::vector<unsigned> ids;    // id of the cell at each position (parallel to World::order)
  std::vector<unsigned> rowid;  // RU: row index attached to each position
  unsigned next_id = 0;         // every id used so far is < next_id
  bool gapped = false, implicit = false;
  bool fresh = false;           // built by a fork
  bool did_swap = false, did_remove = false, did_insert = false;
  std::shared_ptr<CmpCtx> ctx;
  std::string note;             // per-instance classification of the running operation
  bool ever_shifted = false;    // RU: some cell was inserted with a row index different from its position
  int unread_steps = 0;         // RU: steps since the columns were last read

  std::string prior() const {
    bool shifted = ever_shifted;
    return (note.empty() ? std::string("") : note + ",") + (F::ru ? (shifted ? "rowids=shifted," : "rowids=pos,") : "") + (unread_steps > 0 ? "delayed," : "") + std::string("prior=") + (did_swap ? "s" : "") + (did_remove ? "r" : "") + (did_insert ? "i" : "") + ",ids=" +
           ids_name(gapped, implicit) + (fresh ? ",fresh" : ",walked");
  }
  // public column index of the cell at position p
  unsigned col(int p) {
    if constexpr (F::by_pos) return (unsigned)p;
    else if constexpr (F::by_id) return ids[p];
    else return m->get_column_with_pivot(ids[p]);
  }
  int pos_of_id(unsigned id) const {
    for (size_t i = 0; i < ids.size(); ++i) if (ids[i] == id) return (int)i;
    return -1;
  }
  int pos_of_row(unsigned row) const {
    for (size_t i = 0; i < rowid.size(); ++i) if (rowid[i] == row) return (int)i;
    return -1;
  }
};

template <class Col>
std::vector<unsigned> content(const Col& c, unsigned len) {
  std::vector<unsigned> out;
  auto v = c.get_content((int)len);
  for (unsigned i = 0; i < v.size(); ++i) if (v[i]) out.push_back(i);
  return out;
}

inline void xor_into(std::set<int>& acc, const std::set<int>& x) {
  for (int v : x) { auto it = acc.find(v); if (it == acc.end()) acc.insert(v); else acc.erase(it); }
}
inline std::string show_set(const std::set<int>& s) {
  std::string o = "{"; bool f = true;
  for (int v : s) { if (!f) o += ","; f = false; o += std::to_string(v); }
  return o + "}";
}

// ------------------------------------------------------------------------------------------------------------------
template <class O>
struct Driver {
  typedef Inst<O> I;
  typedef typename I::M M;
  typedef Flavour<O> F;

  vh::Case& c;
  vh::Rng& r;
  World w;
  std::vector<std::unique_ptr<I>> insts;
  std::vector<oracle::Bar> bars;  // oracle barcode of the current order
  bool pass_dim = false;
  bool gapped_ids = false;  // explicit ids with random gaps (config "...+gap") instead of the natural numbering
  bool cellular = false;
  int max_vertices = 6;
  std::string lastop = "build", lastcls = "";
  bool full_step = true;  // RU: read the columns after this step
  // per-case statistics for the non-triviality rule
  int n_swaps = 0, n_samedim = 0, n_exch = 0, n_removed = 0, n_inserted = 0, n_forks = 0, n_steps = 0;

  explicit Driver(vh::Case& c_) : c(c_), r(c_.rng) {}

  std::string sig(const I& in) const { return F::name() + ",op=" + lastop + (lastcls.empty() ? "" : "," + lastcls) + "," + in.prior(); }
  bool fail(const I& in, const std::string& check, const std::string& detail) {
    c.violation(check, sig(in), detail + " | order:" + show_order(in));
    return false;
  }
  std::string show_order(const I& in) const {
    std::string o;
    for (int i = 0; i < w.size(); ++i) {
      o += " " + std::to_string(i) + ":k" + std::to_string(w.order[i].key) + "/id" + std::to_string(in.ids[i]) + "/d" + std::to_string(w.order[i].dim) + "[";
      for (size_t t = 0; t < w.order[i].faces.size(); ++t) o += (t ? "," : "") + std::to_string(w.pos_of_key(w.order[i].faces[t]));
      o += "]";
    }
    return o;
  }

  // ------------------------------------------------------------------------------------------------ construction
  std::vector<unsigned> boundary_for(const I& in, const ACell& cell) const {
    std::vector<unsigned> b;
    for (int f : cell.faces) {
      int p = w.pos_of_key(f);
      if constexpr (F::ru) b.push_back(in.rowid[p]); else b.push_back(in.ids[p]);
    }
    std::sort(b.begin(), b.end());
    return b;
  }
  int dim_arg(const ACell& cell) const {
    bool deducible = cell.dim == 0 ? cell.faces.empty() : (int)cell.faces.size() == cell.dim + 1;
    return (pass_dim || !deducible) ? cell.dim : -1;
  }
  bool all_deducible() const {
    for (auto& cell : w.order) if (cell.dim != 0 && (int)cell.faces.size() != cell.dim + 1) return false;
    return true;
  }

  void make_matrix(I& in, int how, const std::vector<std::vector<unsigned>>& cols) {
    if constexpr (F::need_cmp) {
      in.ctx = std::make_shared<CmpCtx>();
      std::shared_ptr<CmpCtx> ctx = in.ctx;
      std::function<bool(unsigned, unsigned)> bc = [ctx](unsigned a, unsigned b) { return ctx->birth(a, b); };
      std::function<bool(unsigned, unsigned)> dc = [ctx](unsigned a, unsigned b) { return ctx->death(a, b); };
      if (how == 0) in.m.reset(new M(cols, bc, dc));
      else if (how == 1) in.m.reset(new M(bc, dc));
      else in.m.reset(new M((unsigned)(w.size() + 3), bc, dc));
      if constexpr (F::mirror) {
        // behind the position overlay the internal index of a column is only known through the mirror (the n-th inserted
        // column has index n; a swap that returns true exchanges the columns of the two positions)
        I* inp = &in;
        CmpCtx* cp = ctx.get();
        ctx->pivot_of = [inp, cp](unsigned k) {
          for (size_t i = 0; i < inp->mirror.size() && i < cp->ids->size(); ++i) if (inp->mirror[i] == k) return (*cp->ids)[i];
          return ~0u;
        };
      } else {
        M* mp = in.m.get();
        ctx->pivot_of = [mp](unsigned k) { return (unsigned)mp->get_pivot(k); };
      }
    } else {
      if (how == 0) in.m.reset(new M(cols));
      else if (how == 1) in.m.reset(new M());
      else in.m.reset(new M((unsigned)(w.size() + 3)));
    }
    if constexpr (F::twin) {
      typedef typename I::Twin T;
      if (!in.gapped) {
        if (how == 0) in.twin.reset(new T(cols));
        else if (how == 1) in.twin.reset(new T());
        else in.twin.reset(new T((unsigned)(w.size() + 3)));
      }
    }
  }

  // insertion of the cell that is last in the world (already pushed) into one instance
  void insert_into(I& in, const ACell& cell) {
    int p = w.size() - 1;  // its position
    unsigned id;
    if (in.implicit) {
      if constexpr (F::ru) id = (unsigned)p; else id = in.next_id;
    } else {
      id = in.next_id + (in.gapped ? (unsigned)r.below(4) : 0u);
      if constexpr (!F::ru) {
        if (in.reuse_ids) {
          id = 0;
          for (unsigned v : in.ids) id = std::max(id, v + 1);
          if (id < in.next_id) c.count("op.insert.id_reused");
        }
      }
      if constexpr (F::ru && F::by_id) {
        // natural numbering with identifier indexing: the identifier equal to the position when no live cell carries it
        if (!in.gapped && in.pos_of_id((unsigned)p) < 0) id = (unsigned)p;
      }
    }
    std::vector<unsigned> b;
    for (int f : cell.faces) {
      int q = w.pos_of_key(f);
      if constexpr (F::ru) b.push_back(in.rowid[q]); else b.push_back(in.ids[q]);
    }
    std::sort(b.begin(), b.end());
    int d = dim_arg(cell);
    c.log("  [" + std::string(in.fresh ? "fresh" : "walked") + "] insert_boundary(" + (in.implicit ? std::string("") : "id=" + std::to_string(id) + ", ") +
          vh::vstr(b) + ", dim=" + std::to_string(d) + ")");
    if (in.implicit) {
      if (d < 0) in.m->insert_boundary(b); else in.m->insert_boundary(b, d);
    } else {
      if (d < 0) in.m->insert_boundary(id, b); else in.m->insert_boundary(id, b, d);
    }
    if constexpr (F::twin) {
      if (in.twin) { if (d < 0) in.twin->insert_boundary(b); else in.twin->insert_boundary(b, d); }
    }
    if constexpr (F::mirror) in.mirror.push_back(in.next_index++);
    in.ids.push_back(id);
    if constexpr (F::ru) { in.rowid.push_back(id); if (id != (unsigned)p) in.ever_shifted = true; }
    in.next_id = std::max(in.next_id, id + 1);
  }

  // build a new instance on the current world order
  std::unique_ptr<I> build(bool fresh) {
    std::unique_ptr<I> in(new I());
    in->fresh = fresh;
    in->gapped = gapped_ids;
    int how = (int)r.below(3);  // 0 batch constructor, 1 default constructor + insertions, 2 reserving constructor + insertions
    if (in->gapped && how == 0) how = 1;
    if (how == 0 && !all_deducible()) how = 2;  // the batch constructor deduces dimensions from boundary sizes
    if (!in->gapped) {
      // implicit ids (insert_boundary without id): positions for RU by position, the insertion counter for chain matrices.
      // RU with identifier indexing always gets explicit, never reused ids.
      // RU by position always uses them (so that row indices stay equal to positions: the natural numbering).
      if constexpr (F::ru && F::by_id) in->implicit = false;
      else if constexpr (F::ru) in->implicit = true;
      else in->implicit = r.chance(1, 2);
      if constexpr (!F::ru && F::rem) in->reuse_ids = !in->implicit && r.chance(1, 2);
    }
    c.log(std::string("BUILD ") + (fresh ? "fresh" : "walked") + " how=" + std::to_string(how) + " ids=" + ids_name(in->gapped, in->implicit) +
          (in->reuse_ids ? "(reused)" : "") + " n=" + std::to_string(w.size()));
    if (how == 0) {
      std::vector<std::vector<unsigned>> cols;
      for (int i = 0; i < w.size(); ++i) {
        std::vector<unsigned> b;
        for (int f : w.order[i].faces) b.push_back((unsigned)w.pos_of_key(f));
        std::sort(b.begin(), b.end());
        cols.push_back(b);
        in->ids.push_back((unsigned)i);
        if constexpr (F::ru) in->rowid.push_back((unsigned)i);
        if constexpr (F::mirror) in->mirror.push_back((unsigned)i);
      }
      in->next_index = (unsigned)w.size();
      in->next_id = (unsigned)w.size();
      make_matrix(*in, 0, cols);
    } else {
      make_matrix(*in, how, {});
      World full = w;
      std::vector<ACell> cells = w.order;
      w.order.clear();
      for (auto& cell : cells) { w.order.push_back(cell); insert_into(*in, cell); }
      w = full;
    }
    return in;
  }

  // ------------------------------------------------------------------------------------------------ observation
  bool observe(I& in) {
    try {
      return observe_inner(in);
    } catch (const std::exception& e) {
      return fail(in, "observe.exception", std::string("exception while reading the matrix: ") + e.what());
    }
  }
  bool observe_inner(I& in) {
    const int n = w.size();
    M& m = *in.m;
    c.count("cmp.ncols");
    if ((int)m.get_number_of_columns() != n) return fail(in, "ncols", "get_number_of_columns=" + vh::str(m.get_number_of_columns()) + " model=" + vh::str(n));
    if constexpr (F::bar) {
      std::vector<oracle::Bar> got;
      for (const auto& b : m.get_current_barcode()) {
        oracle::Bar x; x.dim = b.dim; x.birth = (int)b.birth;
        x.death = (b.death == M::template get_null_value<typename M::Pos_index>()) ? -1 : (int)b.death;
        got.push_back(x);
      }
      std::sort(got.begin(), got.end());
      c.count("cmp.barcode");
      if (got != bars) return fail(in, "barcode", "get_current_barcode=" + show_bars(got) + " oracle=" + show_bars(bars));
    }
    if constexpr (F::dimacc) {
      int md = -1; for (auto& cell : w.order) md = std::max(md, cell.dim);
      c.count("cmp.max_dim");
      if (n > 0 && m.get_max_dimension() != md) return fail(in, "max_dimension", "get_max_dimension=" + vh::str(m.get_max_dimension()) + " model=" + vh::str(md));
    }
    if constexpr (F::ru) {
      // RU matrices apply row swaps lazily, and every read of a column or of a pivot flushes them: the columns are therefore
      // read only after about half of the steps (always after a build and at the end of the case), so that histories in
      // which several operations run on top of pending swaps are exercised too.  A mismatch found by a delayed read carries
      // "delayed" in its signature: the operation named there is the last one, not necessarily the faulty one.
      if (!full_step) { c.count("obs.ru.light_only"); ++in.unread_steps; return true; }
      bool ok = observe_ru(in);
      in.unread_steps = 0;
      if constexpr (F::rep && F::bar) ok = ok && observe_rep(in);
      return ok;
    } else {
      bool ok = observe_chain(in);
      if constexpr (F::rep && F::bar) ok = ok && observe_rep(in);
      return ok;
    }
  }

  // Rows (matrices with row access): the row of every live cell lists exactly the entries the columns have in that row.
  // fromCols: row label -> column indices (as used with get_column) having an entry there.  `native`: the column indices
  // stored in the entries are the ones of the public interface (no overlay in between); otherwise only the number of
  // entries is compared.  Rows kept in a vector (no removable rows) exist up to the last one that ever received an entry:
  // labels beyond the last currently non-empty row are skipped.
  template <class GetRow>
  bool rows_ok(I& in, const std::map<unsigned, std::set<unsigned>>& fromCols, const std::vector<unsigned>& labels, bool native,
               const std::string& what, GetRow&& get_row) {
    unsigned maxLabel = 0; bool any = false;
    for (auto& kv : fromCols) if (!kv.second.empty()) { maxLabel = std::max(maxLabel, kv.first); any = true; }
    static const std::set<unsigned> none;
    for (unsigned label : labels) {
      if constexpr (!F::rr) { if (!any || label > maxLabel) { c.count("skip.row.maybe_unallocated"); continue; } }
      auto it = fromCols.find(label);
      const std::set<unsigned>& want = it == fromCols.end() ? none : it->second;
      std::set<unsigned> got; size_t cnt = 0; bool missing = false, wrong_label = false;
      try {
        for (auto& e : get_row(label)) { ++cnt; got.insert((unsigned)e.get_column_index()); if ((unsigned)e.get_row_index() != label) wrong_label = true; }
      } catch (const std::out_of_range&) { missing = true; }
      c.count("cmp.row");
      if (missing) {
        if (!F::rr || !want.empty()) return fail(in, "rows." + what + ".missing", "get_row(" + vh::str(label) + ") throws out_of_range but the columns have " + vh::str(want.size()) + " entries in that row");
        continue;
      }
      if (wrong_label) return fail(in, "rows." + what + ".row_index", "an entry of get_row(" + vh::str(label) + ") reports another row index");
      bool bad = native ? (got != want || cnt != want.size()) : cnt != want.size();
      if (bad) {
        std::set<int> g(got.begin(), got.end()), x(want.begin(), want.end());
        return fail(in, "rows." + what, "get_row(" + vh::str(label) + ") has " + vh::str(cnt) + " entries in columns " + show_set(g) + " but the columns with an entry in that row are " + show_set(x));
      }
    }
    return true;
  }

  // Representative cycles after the history (C08 performs no vine swap): by definition the representative of a bar is a
  // non-empty chain of cells of the bar's dimension with zero boundary over Z_2 whose youngest cell is the bar's birth cell.
  bool cycle_positions(I& in, const std::vector<unsigned>& cyc, std::set<int>& pos, std::string& why) {
    for (unsigned rw : cyc) {
      int p;
      if constexpr (F::ru) p = in.pos_of_row(rw); else p = in.pos_of_id(rw);
      if (p < 0) { why = "contains row " + vh::str(rw) + " which is no current cell"; return false; }
      if (!pos.insert(p).second) { why = "lists row " + vh::str(rw) + " twice"; return false; }
    }
    return true;
  }
  bool observe_rep(I& in) {
    try {
      return observe_rep_inner(in);
    } catch (const std::exception& e) {
      return fail(in, "repcycle.exception", std::string("exception from update_representative_cycles / get_representative_cycle(s): ") + e.what());
    }
  }
  bool observe_rep_inner(I& in) {
    M& m = *in.m;
    m.update_representative_cycles();
    // the whole family first: one cycle per bar, the youngest cells are the birth cells
    std::vector<int> births;
    for (const auto& b : bars) births.push_back(b.birth);
    std::sort(births.begin(), births.end());
    std::vector<int> youngest;
    const auto& all = m.get_representative_cycles();
    c.count("cmp.repcycle.family");
    for (const auto& cyc : all) {
      std::set<int> pos; std::string why;
      if (!cycle_positions(in, std::vector<unsigned>(cyc.begin(), cyc.end()), pos, why)) return fail(in, "repcycle.row_unknown", "a cycle of get_representative_cycles() " + why);
      if (pos.empty()) return fail(in, "repcycle.empty", "get_representative_cycles() contains an empty cycle");
      youngest.push_back(*pos.rbegin());
    }
    std::sort(youngest.begin(), youngest.end());
    if (youngest != births) {
      std::set<int> y(youngest.begin(), youngest.end()), b(births.begin(), births.end());
      return fail(in, "repcycle.family", vh::str(all.size()) + " cycles for " + vh::str(births.size()) + " bars; youngest cells of the cycles " + show_set(y) + " births of the bars " + show_set(b));
    }
    for (const auto& bar : m.get_current_barcode()) {
      c.count("cmp.repcycle");
      const auto& cyc = m.get_representative_cycle(bar);
      std::set<int> pos; std::string why;
      std::string bs = "representative of the bar (dim " + vh::str(bar.dim) + ", birth " + vh::str(bar.birth) + ") ";
      if (!cycle_positions(in, std::vector<unsigned>(cyc.begin(), cyc.end()), pos, why)) return fail(in, "repcycle.row_unknown", bs + why);
      if (pos.empty()) return fail(in, "repcycle.empty", bs + "is empty");
      if (*pos.rbegin() != (int)bar.birth) return fail(in, "repcycle.youngest_not_birth", bs + "is " + show_set(pos) + " (positions): its youngest cell is not the birth cell");
      std::set<int> bd;
      for (int p : pos) {
        if (w.order[p].dim != bar.dim) return fail(in, "repcycle.dimension", bs + "= " + show_set(pos) + " contains a cell of dimension " + vh::str(w.order[p].dim));
        std::set<int> b; for (int f : w.order[p].faces) b.insert(w.pos_of_key(f));
        xor_into(bd, b);
      }
      if (!bd.empty()) return fail(in, "repcycle.not_a_cycle", bs + "= " + show_set(pos) + " has boundary " + show_set(bd));
    }
    return true;
  }

  bool derived_bars_ok(I& in, const std::vector<int>& partner_birth, const std::string& what) {
    // partner_birth[j] = position of the birth cell killed by j, or -1
    const int n = w.size();
    std::vector<oracle::Bar> got;
    std::vector<char> killed(n, 0);
    for (int j = 0; j < n; ++j) if (partner_birth[j] >= 0) { killed[partner_birth[j]] = 1; got.push_back(oracle::Bar{w.order[partner_birth[j]].dim, partner_birth[j], j}); }
    for (int j = 0; j < n; ++j) if (partner_birth[j] < 0 && !killed[j]) got.push_back(oracle::Bar{w.order[j].dim, j, -1});
    std::sort(got.begin(), got.end());
    c.count("cmp.derived_barcode");
    if (got != bars) return fail(in, what, "pairing read off the columns=" + show_bars(got) + " oracle=" + show_bars(bars));
    return true;
  }

  bool observe_ru(I& in) {
    const int n = w.size();
    M& m = *in.m;
    const unsigned len = in.next_id + 1;
    const unsigned null_idx = M::template get_null_value<unsigned>();
    std::vector<std::set<int>> R(n), U(n), U2(n), B(n);
    std::vector<int> low(n, -1);
    std::map<int, int> owner;
    std::map<unsigned, std::set<unsigned>> rowsR, rowsU;  // row label -> columns with an entry there (row access only)
    for (int j = 0; j < n; ++j) {
      unsigned cj = in.col(j);
      for (int f : w.order[j].faces) B[j].insert(w.pos_of_key(f));
      std::vector<unsigned> rows;
      if constexpr (F::has_u) rows = content(m.get_column(cj, true), len); else rows = content(m.get_column(cj), len);
      for (unsigned row : rows) {
        if constexpr (F::ra) rowsR[row].insert(cj);
        int p = in.pos_of_row(row);
        if (p < 0) return fail(in, "ru.R_row_unknown", "R column of position " + vh::str(j) + " has an entry in row " + vh::str(row) + " which is no current row");
        R[j].insert(p);
      }
      c.count("cmp.ru.column");
      if (m.get_column_dimension(cj) != w.order[j].dim) return fail(in, "ru.column_dimension", "position " + vh::str(j) + " dim " + vh::str(m.get_column_dimension(cj)) + " model " + vh::str(w.order[j].dim));
      bool zc = m.is_zero_column(cj);
      if (zc != R[j].empty()) return fail(in, "ru.is_zero_column", "position " + vh::str(j) + " is_zero_column=" + vh::str(zc) + " content " + show_set(R[j]));
      unsigned pv = m.get_pivot(cj);
      if (R[j].empty()) {
        if (pv != null_idx) return fail(in, "ru.get_pivot", "zero column at position " + vh::str(j) + " has pivot " + vh::str(pv));
      } else {
        low[j] = *R[j].rbegin();
        if (pv != in.rowid[low[j]]) return fail(in, "ru.get_pivot", "position " + vh::str(j) + " get_pivot=" + vh::str(pv) + " but lowest entry is row " + vh::str(in.rowid[low[j]]));
        if (owner.count(low[j])) return fail(in, "ru.R_not_reduced", "positions " + vh::str(owner[low[j]]) + " and " + vh::str(j) + " share the pivot at position " + vh::str(low[j]));
        owner[low[j]] = j;
        unsigned back = m.get_column_with_pivot(pv);
        if (back != cj) return fail(in, "ru.get_column_with_pivot", "get_column_with_pivot(" + vh::str(pv) + ")=" + vh::str(back) + " expected " + vh::str(cj));
      }
      if constexpr (F::has_u) {
        // The row labels of the stored factor are read in both possible conventions (the row index attached to a position,
        // or the position itself); entries in rows that belong to no current cell (left behind by a removal) are ignored
        // here - if they ever become live again the factorisation below fails.
        for (unsigned row : content(m.get_column(cj, false), len)) {
          if constexpr (F::ra) rowsU[row].insert(cj);
          int p = in.pos_of_row(row);
          if (p >= 0) U[j].insert(p); else c.count("obs.ru.U_entry_in_dead_row");
          if ((int)row < n) U2[j].insert((int)row);
        }
      }
    }
    if (vh::G().verbose && !F::has_u) {
      std::string d = "    state[" + std::string(in.fresh ? "fresh" : "walked") + "] R:";
      for (int j = 0; j < n; ++j) d += " " + vh::str(j) + ":" + show_set(R[j]);
      fprintf(stderr, "%s\n", d.c_str());
    }
    if (!derived_bars_ok(in, low, "ru.barcode_from_R")) return false;
    if constexpr (F::has_u) {
      c.count("cmp.ru.factorisation");
      auto factor_ok = [&](const std::vector<std::set<int>>& Mx, std::string& why) {
        bool upper = true, lower = true;  // as stored: column j of M within rows <= j (upper) / >= j (lower), unit diagonal
        for (int j = 0; j < n; ++j) {
          if (!Mx[j].count(j)) { upper = lower = false; break; }
          if (*Mx[j].rbegin() > j) upper = false;
          if (*Mx[j].begin() < j) lower = false;
        }
        if (!upper && !lower) { why = "stored factor is neither upper nor lower unit triangular"; return false; }
        auto times = [&](const std::vector<std::set<int>>& A, bool transpose_m) {  // A * M or A * M^T
          std::vector<std::set<int>> P(n);
          for (int j = 0; j < n; ++j) for (int k : Mx[j]) { if (transpose_m) xor_into(P[k], A[j]); else xor_into(P[j], A[k]); }
          return P;
        };
        bool ok = false;
        if (upper) ok = ok || times(R, false) == B || times(B, false) == R;
        if (lower) ok = ok || times(R, true) == B || times(B, true) == R;
        if (!ok) why = "none of B=R.M, R=B.M (M upper) / B=R.M^T, R=B.M^T (M lower) holds";
        return ok;
      };
      std::string why1, why2;
      if (vh::G().verbose) {
        std::string d = "    state[" + std::string(in.fresh ? "fresh" : "walked") + "] U:";
        for (int j = 0; j < n; ++j) d += " " + vh::str(j) + ":" + show_set(U2[j]);
        d += "; R:";
        for (int j = 0; j < n; ++j) d += " " + vh::str(j) + ":" + show_set(R[j]);
        fprintf(stderr, "%s\n", d.c_str());
      }
      if (!factor_ok(U, why1) && !factor_ok(U2, why2)) {
        std::string d = "U read with row labels: " + why1 + "; read with positions: " + why2 + "; stored columns:";
        for (int j = 0; j < n; ++j) d += " " + vh::str(j) + ":" + show_set(U2[j]);
        d += "; R:";
        for (int j = 0; j < n; ++j) d += " " + vh::str(j) + ":" + show_set(R[j]);
        return fail(in, "ru.factorisation", d);
      }
    }
    if constexpr (F::ra) {
      if constexpr (F::has_u) {
        if (!rows_ok(in, rowsR, in.rowid, true, "R", [&](unsigned label) -> decltype(auto) { return m.get_row(label, true); })) return false;
        if (!rows_ok(in, rowsU, in.rowid, true, "U", [&](unsigned label) -> decltype(auto) { return m.get_row(label, false); })) return false;
      } else {
        if (!rows_ok(in, rowsR, in.rowid, false, "R", [&](unsigned label) -> decltype(auto) { return m.get_row(label); })) return false;
      }
    }
    return true;
  }

  bool observe_chain(I& in) {
    const int n = w.size();
    M& m = *in.m;
    const unsigned len = in.next_id + 1;
    std::vector<std::set<int>> C(n), D(n);  // chains and their boundaries, as sets of positions
    std::map<std::set<int>, int> chain_at;
    std::map<unsigned, std::set<unsigned>> rowsC;  // row label (cell id) -> columns with an entry there (row access only)
    std::vector<unsigned> cols(n);
    for (int p = 0; p < n; ++p) {
      unsigned id = in.ids[p];
      unsigned k;
      c.count("cmp.chain.column");
      if constexpr (F::by_mat) k = m.get_column_with_pivot(id); else k = in.col(p);
      if constexpr (F::by_pos) {
        unsigned kp = m.get_column_with_pivot(id);
        if (kp != (unsigned)p) return fail(in, "chain.get_column_with_pivot", "get_column_with_pivot(" + vh::str(id) + ")=" + vh::str(kp) + " but the cell is at position " + vh::str(p));
      }
      cols[p] = k;
      unsigned pv = m.get_pivot(k);
      if (pv != id) return fail(in, "chain.get_pivot", "column " + vh::str(k) + " of cell id " + vh::str(id) + " has get_pivot=" + vh::str(pv));
      auto& col = m.get_column(k);
      for (unsigned row : content(col, len)) {
        if constexpr (F::ra) rowsC[row].insert(k);
        int q = in.pos_of_id(row);
        if (q < 0) return fail(in, "chain.row_unknown", "chain with pivot id " + vh::str(id) + " contains row " + vh::str(row) + " which is no current cell");
        C[p].insert(q);
      }
      if (C[p].empty() || *C[p].rbegin() != p) return fail(in, "chain.pivot_not_latest", "chain of the cell at position " + vh::str(p) + " is " + show_set(C[p]));
      if (m.get_column_dimension(k) != w.order[p].dim) return fail(in, "chain.column_dimension", "position " + vh::str(p) + " dim " + vh::str(m.get_column_dimension(k)) + " model " + vh::str(w.order[p].dim));
      for (int q : C[p]) {
        if (w.order[q].dim != w.order[p].dim) return fail(in, "chain.mixed_dimension", "chain at position " + vh::str(p) + " = " + show_set(C[p]));
        std::set<int> b; for (int f : w.order[q].faces) b.insert(w.pos_of_key(f));
        xor_into(D[p], b);
      }
      if (m.is_zero_column(k)) return fail(in, "chain.is_zero_column", "is_zero_column true for column " + vh::str(k));
      chain_at[C[p]] = p;
    }
    std::vector<int> partner_birth(n, -1);
    std::vector<int> killer(n, -1);
    for (int p = 0; p < n; ++p) {
      if (D[p].empty()) continue;
      auto it = chain_at.find(D[p]);
      if (it == chain_at.end()) return fail(in, "chain.boundary_not_a_chain", "boundary of the chain at position " + vh::str(p) + " = " + show_set(D[p]) + " is neither zero nor a stored chain");
      int g = it->second;
      if (g >= p) return fail(in, "chain.boundary_not_earlier", "boundary of chain " + vh::str(p) + " is chain " + vh::str(g));
      if (killer[g] >= 0) return fail(in, "chain.double_pairing", "chain " + vh::str(g) + " is the boundary of chains " + vh::str(killer[g]) + " and " + vh::str(p));
      killer[g] = p; partner_birth[p] = g;
    }
    // pairing flags stored in the columns
    for (int p = 0; p < n; ++p) {
      auto& col = m.get_column(cols[p]);
      bool paired = partner_birth[p] >= 0 || killer[p] >= 0;
      c.count("cmp.chain.is_paired");
      if (col.is_paired() != paired) return fail(in, "chain.is_paired", "position " + vh::str(p) + " is_paired=" + vh::str(col.is_paired()) + " but boundary pairing says " + vh::str(paired));
      if constexpr (F::by_mat) {
        if (paired) {
          int q = partner_birth[p] >= 0 ? partner_birth[p] : killer[p];
          if (col.get_paired_chain_index() != cols[q]) return fail(in, "chain.paired_chain_index", "position " + vh::str(p) + " paired index " + vh::str(col.get_paired_chain_index()) + " expected column " + vh::str(cols[q]));
        }
      }
    }
    if constexpr (F::ra) {
      if (!rows_ok(in, rowsC, in.ids, F::by_mat, "chain", [&](unsigned label) -> decltype(auto) { return m.get_row(label); })) return false;
    }
    return derived_bars_ok(in, partner_birth, "chain.barcode_from_chains");
  }

  // ------------------------------------------------------------------------------------------------ swap
  // class of the transposition (i, i+1) from the oracle's point of view
  std::string swap_class(int i, bool& samedim) const {
    auto sign = [&](int p, bool& paired) {
      for (auto& b : bars) { if (b.birth == p) { paired = b.death >= 0; return 'p'; } if (b.death == p) { paired = true; return 'n'; } }
      paired = false; return '?';
    };
    bool pa, pb;
    char a = sign(i, pa), b = sign(i + 1, pb);
    samedim = w.order[i].dim == w.order[i + 1].dim;
    std::string s; s += a; s += b;
    s += samedim ? ",samedim" : ",diffdim";
    if (a == 'p' && b == 'p') s += pa && pb ? ",both_paired" : (pa || pb) ? ",one_paired" : ",unpaired";
    return s;
  }

  // is the documented precondition of vine_swap_with_z_eq_1_case ("the swap is non trivial") fulfilled at (i, i+1)?
  // returns -1 when this cannot be decided through the public interface
  int z1_precondition(I& in, int i) {
    if (w.order[i].dim != w.order[i + 1].dim) return 0;
    if constexpr (F::ru) {
      if constexpr (F::has_u) return in.m->is_zero_entry(in.col(i), in.rowid[i + 1], false) ? 0 : 1;
      else if constexpr (F::twin) {
        // identifier indexing: the entry of U is read in the position indexed twin that went through the same history
        if (!in.twin) return -1;
        return in.twin->is_zero_entry((unsigned)i, in.rowid[i + 1], false) ? 0 : 1;
      }
      else return -1;
    } else {
      return in.m->is_zero_entry(in.col(i + 1), in.ids[i]) ? 0 : 1;
    }
  }

  // c1, c2: the arguments as passed; c_early: the column of the cell that was at the earlier position
  struct SwapRet { bool is_bool = true; bool b = false; unsigned idx = 0; unsigned c1 = 0, c2 = 0, c_early = 0; bool rev = false; bool threw = false; std::string what; };

  void set_ctx(I& in, int moving_pos, const std::vector<unsigned>& ids_before, const World& w_before) {
    if constexpr (F::need_cmp) {
      in.ctx->w = &w_before; in.ctx->ids = &ids_before; in.ctx->moving_pos = moving_pos;
    }
  }

  SwapRet do_swap(I& in, int i, bool z1, bool rev) {
    SwapRet ret;
    M& m = *in.m;
    try {
      if constexpr (F::by_pos) {
        ret.is_bool = true;
        c.log(std::string("  [") + (in.fresh ? "fresh" : "walked") + "] " + (z1 ? "vine_swap_with_z_eq_1_case(" : "vine_swap(") + std::to_string(i) + ")");
        ret.b = z1 ? m.vine_swap_with_z_eq_1_case((unsigned)i) : m.vine_swap((unsigned)i);
      } else {
        ret.is_bool = false;
        ret.c_early = in.col(i);
        ret.c1 = ret.c_early; ret.c2 = in.col(i + 1);
        ret.rev = rev;
        if (rev) std::swap(ret.c1, ret.c2);
        c.log(std::string("  [") + (in.fresh ? "fresh" : "walked") + "] " + (z1 ? "vine_swap_with_z_eq_1_case(" : "vine_swap(") + std::to_string(ret.c1) + "," + std::to_string(ret.c2) + ")");
        ret.idx = z1 ? m.vine_swap_with_z_eq_1_case(ret.c1, ret.c2) : m.vine_swap(ret.c1, ret.c2);
      }
      if constexpr (F::twin) {
        if (in.twin) { if (z1) in.twin->vine_swap_with_z_eq_1_case((unsigned)i); else in.twin->vine_swap((unsigned)i); }
      }
    } catch (const std::exception& e) {
      ret.threw = true; ret.what = e.what();
    }
    return ret;
  }

  // Truthfulness of the returned value.  kept = the two cells kept their bars (new barcode = old one with the two positions
  // exchanged), exchanged = they traded them (barcode in positions unchanged); exactly one holds (decided by the oracle).
  //  - bool interface (RU by position, chain with position indexing): true <=> kept.
  //  - RU with identifier indexing, arguments given as (earlier cell, later cell): first argument <=> kept, second argument
  //    <=> exchanged.  With the arguments in the other order no convention is documented ("first argument" and "the cell
  //    that was earlier" are both defensible): there the value only has to be one of the two arguments.
  //  - chain, container indexing: the returned column r is one of the two arguments, it now carries the cell that moved to
  //    the later position (get_pivot(r) == that cell), and r == the column of the cell that was earlier <=> kept (the
  //    columns carry the pairing), whatever the order of the arguments.
  //  - chain, identifier indexing: indices are cell ids, so "the column which now has the later position" is the cell that
  //    moved there, i.e. the first argument, whatever happened to the bars.
  bool check_swap_return(I& in, const SwapRet& ret, bool kept, bool determined, unsigned id_moved_up) {
    c.count(determined ? "cmp.swap_return" : "cmp.swap_return.undetermined");
    if (ret.is_bool) {
      if (determined && ret.b != kept) return fail(in, "swap.return", std::string("returned ") + (ret.b ? "true" : "false") + " but the oracle says the cells " + (kept ? "kept" : "exchanged") + " their bars");
      return true;
    }
    if (ret.idx != ret.c1 && ret.idx != ret.c2) return fail(in, "swap.return_not_an_argument", "returned " + vh::str(ret.idx) + " for arguments (" + vh::str(ret.c1) + "," + vh::str(ret.c2) + ")");
    if constexpr (F::ru) {
      if (ret.rev) { c.count("cmp.swap_return.ru_id_reversed_unjudged"); return true; }
      if (determined && (ret.idx == ret.c1) != kept) return fail(in, "swap.return", "returned " + vh::str(ret.idx) + " for arguments (" + vh::str(ret.c1) + "," + vh::str(ret.c2) + ") but the oracle says the cells " + (kept ? "kept" : "exchanged") + " their bars");
    } else if constexpr (F::by_mat) {
      unsigned pv = in.m->get_pivot(ret.idx);
      if (pv != id_moved_up) return fail(in, "swap.return_pivot", "returned column " + vh::str(ret.idx) + " has pivot " + vh::str(pv) + " but the cell now at the later position is id " + vh::str(id_moved_up));
      if (determined && (ret.idx == ret.c_early) != kept) return fail(in, "swap.return", "returned " + vh::str(ret.idx) + " for arguments (" + vh::str(ret.c1) + "," + vh::str(ret.c2) + ") but the oracle says the cells " + (kept ? "kept" : "exchanged") + " their bars");
    } else {
      if (ret.idx != id_moved_up) return fail(in, "swap.return", "returned " + vh::str(ret.idx) + " but the cell now at the later position is id " + vh::str(id_moved_up));
    }
    return true;
  }

  bool step_swap(int i, bool z1) {
    bool samedim;
    std::string cls = swap_class(i, samedim);
    // expected outcome from the oracle alone
    World w_before = w;
    std::vector<oracle::Bar> old_bars = bars;
    World w_after = w; std::swap(w_after.order[i], w_after.order[i + 1]);
    std::vector<oracle::Bar> new_bars = w_after.bars();
    bool kept = new_bars == transpose_bars(old_bars, i);
    bool exch = new_bars == old_bars;
    // Both hold exactly when the two cells carry two essential bars of the same dimension (the barcode cannot tell which
    // cell owns which bar): then either returned value is truthful.  Neither can only be an oracle / harness error.
    if (!kept && !exch) { c.violation("harness.oracle_dichotomy", "swap", "oracle barcodes are neither kept nor exchanged: old " + show_bars(old_bars) + " new " + show_bars(new_bars)); return false; }
    const bool determined = kept != exch;
    // two-argument interfaces: the documentation does not fix an order of the two cells, so half of the calls pass the
    // later cell first (not for a chain matrix without stored barcode, which has no way to know the positions)
    bool rev = false;
    if constexpr (F::can_reverse) rev = r.chance(1, 2);
    lastop = z1 ? "swap_z1" : "swap";
    lastcls = cls + (!determined ? ",exp=any" : kept ? ",exp=kept" : ",exp=exchanged") + (rev ? ",args=reversed" : "");
    c.log(std::string(z1 ? "SWAP_Z1 " : "SWAP ") + std::to_string(i) + " cls=" + lastcls);
    std::vector<SwapRet> rets;
    std::vector<std::vector<unsigned>> ids_before;
    for (auto& in : insts) ids_before.push_back(in->ids);
    for (size_t k = 0; k < insts.size(); ++k) {
      I& in = *insts[k];
      if constexpr (F::ru && F::has_u) {
        if (k == 0) c.count(std::string(F::ru ? "swapcls.ru." : "swapcls.chain.") + (z1 ? "z1." : "") + cls + (in.m->is_zero_entry(in.col(i), in.rowid[i + 1], false) ? ",u0" : ",u1") + (!determined ? ",any" : kept ? ",kept" : ",exch"));
      } else if constexpr (!F::ru) {
        if (k == 0) c.count(std::string(F::ru ? "swapcls.ru." : "swapcls.chain.") + (z1 ? "z1." : "") + cls + (in.m->is_zero_entry(in.col(i + 1), in.ids[i]) ? ",e0" : ",e1") + (!determined ? ",any" : kept ? ",kept" : ",exch"));
      } else {
        if (k == 0) c.count(std::string(F::ru ? "swapcls.ru." : "swapcls.chain.") + (z1 ? "z1." : "") + cls + (!determined ? ",any" : kept ? ",kept" : ",exch"));
      }
      set_ctx(in, i, ids_before[k], w_before);
      rets.push_back(do_swap(in, i, z1, rev));
    }
    w = w_after; bars = new_bars;
    for (size_t k = 0; k < insts.size(); ++k) {
      I& in = *insts[k];
      unsigned moved_up = in.ids[i];
      std::swap(in.ids[i], in.ids[i + 1]);
      in.did_swap = true;
      if (rets[k].threw) return fail(in, "swap.exception", "exception: " + rets[k].what);
      if constexpr (F::mirror) { if (rets[k].b) std::swap(in.mirror[i], in.mirror[i + 1]); }
      if (!check_swap_return(in, rets[k], kept, determined, moved_up)) return false;
      if (!observe(in)) return false;
    }
    c.count(z1 ? "op.swap_z1" : "op.swap");
    if (rev) c.count(z1 ? "op.swap_z1.args_reversed" : "op.swap.args_reversed");
    if constexpr (F::twin) { if (z1) c.count("op.swap_z1.ru_id"); }
    if constexpr (F::mirror) c.count("op.swap.chain_pos_nobar");
    if constexpr (F::ru && !F::rem) c.count("op.swap.ru_norem");
    if constexpr (!F::ru && F::rem && !F::mapc) c.count("op.swap.chain_rem_vec");
    if (w.general) c.count("op.swap.general_complex");
    ++n_swaps; if (samedim) ++n_samedim; if (exch && determined) ++n_exch;
    return true;
  }

  // ------------------------------------------------------------------------------------------------ other steps
  bool step_insert() {
    ACell cell;
    if (w.size() >= 44 || !w.propose(r, cellular, max_vertices, cell)) { c.count("skip.insert"); return true; }
    if constexpr (F::ru && F::by_id) {
      // natural numbering: the identifier of a new cell is its position; after swaps and removals that identifier can
      // still be carried by a live cell, and any other choice makes row indices differ from positions, which is the
      // domain of the "+gap" configurations
      if (!gapped_ids) for (auto& in : insts) if (in->pos_of_id((unsigned)w.size()) >= 0) { c.count("skip.insert.natural_id_taken"); --w.next_key; return true; }
    }
    if constexpr (!F::ru) {
      // A chain matrix reduces an inserted boundary by decreasing identifier; insert_boundary documents that "all IDs have
      // to be strictly increasing in the order of filtration".  Once vine swaps have made the identifiers of the live cells
      // non-monotone along the filtration, a matrix that stores the barcode still has the positions at hand (so the
      // property's "later insertions behave as on the fresh matrix" is demanded, and the situation is recorded in the
      // signature); a matrix without stored barcode has no way to know the order, so there the documented restriction is
      // respected and the insertion is skipped.
      bool unsorted = false;
      for (auto& in : insts) {
        bool u = false;
        for (size_t i = 0; i + 1 < in->ids.size(); ++i) if (in->ids[i] > in->ids[i + 1]) u = true;
        in->note = u ? "idorder=unsorted" : "idorder=sorted";
        unsorted = unsorted || u;
      }
      if constexpr (!F::bar) {
        if (unsorted) { c.count("skip.insert.nobar_chain_ids_unsorted"); --w.next_key; return true; }
      }
      c.count(unsorted ? "op.insert.idorder_unsorted" : "op.insert.idorder_sorted");
    }
    lastop = "insert"; lastcls = "dim" + std::to_string(cell.dim);
    if (w.size() == 0 && was_emptied) c.count("op.insert.into_emptied");
    if (cell.dim > 0 && cell.faces.empty()) c.count("op.insert.empty_boundary_dim_gt0");
    else if (cell.dim > 0 && (int)cell.faces.size() != cell.dim + 1) c.count("op.insert.non_simplicial_boundary");
    c.log("INSERT key=" + std::to_string(cell.key) + " dim=" + std::to_string(cell.dim));
    w.push(cell);
    for (auto& in : insts) {
      try { insert_into(*in, cell); } catch (const std::exception& e) { return fail(*in, "insert.exception", std::string("exception: ") + e.what()); }
      in->did_insert = true;
    }
    bars = w.bars();
    for (auto& in : insts) if (!observe(*in)) return false;
    c.count("op.insert"); ++n_inserted;
    return true;
  }

  bool step_remove_last() {
    if constexpr (!F::can_remove_last) { c.count("skip.remove_last.unavailable"); return true; }
    else {
      if (w.size() == 0) { c.count("skip.remove_last.empty"); return true; }
      int p = w.size() - 1;
      lastop = "remove_last"; lastcls = "";
      for (auto& in : insts) {
        unsigned maxid = 0; for (unsigned id : in->ids) maxid = std::max(maxid, id);
        in->note = in->ids[p] == maxid ? "last_has_max_id" : "last_not_max_id";
      }
      if constexpr (!F::ru && !F::bar) {
        // without a stored barcode a chain matrix has no position map: remove_last() can only find the last cell of the
        // filtration when it carries the largest identifier.  Otherwise it is called only once in a while (see above).
        bool bad = false;
        for (auto& in : insts) if (in->note == "last_not_max_id") bad = true;
        // (behind the position overlay it is the same known defect: never called there)
        if (bad && (F::mirror || !r.chance(1, 12))) { c.count("skip.remove_last.nobar_chain_last_not_max_id"); return true; }
      }
      for (auto& in : insts) c.count("op.remove_last." + in->note);
      c.log("REMOVE_LAST " + insts[0]->note);
      if (lastswap_step == n_steps - 2) c.count("op.remove_last.right_after_swap");
      World w_before = w;
      std::vector<std::vector<unsigned>> ids_before;
      for (auto& in : insts) ids_before.push_back(in->ids);
      for (size_t k = 0; k < insts.size(); ++k) {
        I& in = *insts[k];
        set_ctx(in, p, ids_before[k], w_before);
        c.log(std::string("  [") + (in.fresh ? "fresh" : "walked") + "] remove_last()");
        try {
          in.m->remove_last();
          if constexpr (F::twin) { if (in.twin) in.twin->remove_last(); }
        } catch (const std::exception& e) { return fail(in, "remove_last.exception", std::string("exception: ") + e.what()); }
      }
      w.erase_at(p);
      bars = w.bars();
      if (w.size() == 0) { c.count("state.emptied"); was_emptied = true; }
      for (auto& in : insts) {
        in->ids.pop_back();
        if constexpr (F::mirror) in->mirror.pop_back();
        if constexpr (F::ru) in->rowid.pop_back();
        in->did_remove = true;
        if (!observe(*in)) return false;
      }
      c.count("op.remove_last"); ++n_removed;
      return true;
    }
  }

  bool step_remove_maximal() {
    if constexpr (!F::can_rmc1 && !F::can_rmc2) { c.count("skip.remove_maximal.unavailable"); return true; }
    else {
      std::vector<int> cand;
      for (int p = 0; p < w.size(); ++p) if (w.maximal(p)) cand.push_back(p);
      if (cand.empty()) { c.count("skip.remove_maximal.none"); return true; }
      // prefer a cell that is not the last one
      int p = cand[r.below(cand.size())];
      if (p == w.size() - 1 && cand.size() > 1 && r.chance(3, 4)) p = cand[r.below(cand.size() - 1)];
      int variant;  // 1: one-argument overload, 2: (id, columnsToSwap) overload, 3: (id, {}) for the last cell
      if constexpr (F::can_rmc1 && F::can_rmc2) variant = r.chance(1, 2) ? 1 : 2;
      else if constexpr (F::can_rmc1) variant = 1;
      else variant = 2;
      bool last = p == w.size() - 1;
      lastop = variant == 1 ? "remove_maximal_cell" : "remove_maximal_cell2";
      lastcls = last ? "last" : "not_last";
      c.log("REMOVE_MAXIMAL pos=" + std::to_string(p) + " variant=" + std::to_string(variant));
      World w_before = w;
      std::vector<std::vector<unsigned>> ids_before;
      for (auto& in : insts) ids_before.push_back(in->ids);
      for (size_t k = 0; k < insts.size(); ++k) {
        I& in = *insts[k];
        set_ctx(in, p, ids_before[k], w_before);
        try {
          if (variant == 1) {
            if constexpr (F::can_rmc1) {
              unsigned arg;
              if constexpr (F::ru) arg = in.col(p);                 // MatIdx (position, or id with identifier indexing)
              else if constexpr (F::by_pos) arg = (unsigned)p;      // position overlay
              else arg = in.ids[p];                                 // chain: IDIdx
              c.log(std::string("  [") + (in.fresh ? "fresh" : "walked") + "] remove_maximal_cell(" + std::to_string(arg) + ")");
              in.m->remove_maximal_cell(arg);
              if constexpr (F::twin) { if (in.twin) in.twin->remove_maximal_cell((unsigned)p); }
            }
          } else {
            if constexpr (F::can_rmc2) {
              std::vector<unsigned> after;
              for (int q = p + 1; q < w.size(); ++q) after.push_back(in.ids[q]);
              c.log(std::string("  [") + (in.fresh ? "fresh" : "walked") + "] remove_maximal_cell(" + std::to_string(in.ids[p]) + ", " + vh::vstr(after) + ")");
              in.m->remove_maximal_cell(in.ids[p], after);
            }
          }
        } catch (const std::exception& e) { return fail(in, "remove_maximal.exception", std::string("exception: ") + e.what()); }
      }
      w.erase_at(p);
      bars = w.bars();
      if (w.size() == 0) { c.count("state.emptied"); was_emptied = true; }
      for (auto& in : insts) {
        in->ids.erase(in->ids.begin() + p);
        if constexpr (F::ru) in->rowid.pop_back();
        in->did_remove = true;
        if (!last) in->did_swap = true;
        if (!observe(*in)) return false;
      }
      c.count(std::string("op.remove_maximal.") + lastcls); ++n_removed;
      return true;
    }
  }

  bool step_fork() {
    lastop = "fork"; lastcls = "";
    c.log("FORK");
    std::unique_ptr<I> in;
    try { in = build(true); } catch (const std::exception& e) { c.violation("fork.exception", F::name(), e.what()); return false; }
    if (insts.size() >= 2) insts.pop_back();
    insts.push_back(std::move(in));
    full_step = true;
    for (auto& i2 : insts) if (!observe(*i2)) return false;
    c.count("op.fork"); ++n_forks;
    return true;
  }

  int lastswap_step = -10;
  bool was_emptied = false;  // the complex went down to 0 cells at some point

  void run() {
    cellular = r.chance(1, 3);
    pass_dim = r.chance(1, 2);
    max_vertices = 4 + (int)r.below(4);
    int n0;
    { unsigned x = (unsigned)r.below(10); n0 = x < 3 ? (int)r.range(2, 8) : x < 8 ? (int)r.range(8, 20) : (int)r.range(20, 36); }
    // 1 case in 6: a general Z_2 chain complex instead of a simplicial / CW one (see World::propose_general);
    // 1 case in 8: a tiny complex (0-3 cells) with as many removals as insertions, so that the matrix is emptied and refilled
    const bool general = r.chance(1, 6);
    const bool small = r.chance(1, 8);
    w.general = general;
    if (general) cellular = false;
    if (small) n0 = (int)r.range(0, 3);
    if (general) c.count("case.general_complex");
    if (small) c.count("case.small");
    const unsigned t_swap = small ? 30 : 60, t_insert = small ? 58 : 72, t_rlast = small ? 80 : 82, t_rmax = 94;
    w.generate(r, n0, cellular, max_vertices);
    bars = w.bars();
    c.log("WORLD cellular=" + std::to_string(cellular) + " general=" + std::to_string(general) + " small=" + std::to_string(small) + " pass_dim=" + std::to_string(pass_dim) + " n=" + std::to_string(w.size()));
    lastop = "build"; lastcls = "";
    try { insts.push_back(build(false)); } catch (const std::exception& e) { c.violation("build.exception", F::name(), e.what()); return; }
    if (!observe(*insts[0])) return;
    int steps = (int)r.range(10, c.thorough ? 80 : 60);
    for (int s = 0; s < steps; ++s) {
      n_steps = s + 1;
      for (auto& in : insts) in->note.clear();
      full_step = (s + 1 == steps) || r.chance(1, 2);
      unsigned x = (unsigned)r.below(100);
      bool ok = true;
      if (x < t_swap) {
        // a transposition; prefer same-dimension pairs (the only ones with a case analysis)
        std::vector<int> adm, same;
        for (int i = 0; i + 1 < w.size(); ++i) if (w.swap_admissible(i)) { adm.push_back(i); if (w.order[i].dim == w.order[i + 1].dim) same.push_back(i); }
        if (adm.empty()) { c.count("skip.swap.none_admissible"); continue; }
        int i = (!same.empty() && r.chance(3, 4)) ? same[r.below(same.size())] : adm[r.below(adm.size())];
        // sometimes continue to push the same cell upwards (long vines)
        if (lastswap_step == s - 1 && lastswap_pos + 1 < w.size() - 1 && w.swap_admissible(lastswap_pos + 1) && r.chance(1, 3)) i = lastswap_pos + 1;
        bool z1 = false;
        if (x < t_swap / 4) {
          // vine_swap_with_z_eq_1_case only where every live matrix fulfils its precondition
          int okc = 1;
          for (auto& in : insts) { int q = z1_precondition(*in, i); if (q <= 0) okc = q; }
          if (okc == 1) z1 = true;
          else {
            // look for another admissible position where it holds
            for (int j : same) { int all = 1; for (auto& in : insts) if (z1_precondition(*in, j) <= 0) all = 0; if (all) { i = j; z1 = true; break; } }
            if (!z1) c.count(okc < 0 ? "skip.swap_z1.undecidable" : "skip.swap_z1.precondition");
          }
        }
        ok = step_swap(i, z1);
        lastswap_step = s; lastswap_pos = i;
      } else if (x < t_insert) ok = step_insert();
      else if (x < t_rlast) ok = step_remove_last();
      else if (x < t_rmax) ok = step_remove_maximal();
      else ok = step_fork();
      if (!ok) return;
    }
    if constexpr (F::need_cmp) {
      for (auto& in : insts) { c.count("cmp_calls.birth", in->ctx->birth_calls); c.count("cmp_calls.death", in->ctx->death_calls); c.count("cmp_calls.unexpected_args", in->ctx->unexpected); }
    }
    c.count("steps", (uint64_t)n_steps);
    if (n_swaps >= 4 && n_samedim >= 2 && n_exch >= 1 && (n_removed + n_inserted) >= 1) c.nontrivial(vh::hash_str(vh::G().history));
    c.sample("{\"history\":\"" + vh::jesc(vh::G().history.substr(0, 900)) + "\"}");
  }
  int lastswap_pos = -10;
};

template <class O, bool GAPPED>
void run_case(vh::Case& c) {
  Driver<O> d(c);
  d.gapped_ids = GAPPED;
  try {
    d.run();
  } catch (const std::exception& e) {
    // an exception thrown by one of the read-only queries the harness uses to classify a step (is_zero_entry, ...)
    std::string sg = d.insts.empty() ? Flavour<O>::name() : d.sig(*d.insts[0]);
    c.violation("query.exception", sg, std::string("exception from a read-only query: ") + e.what());
  }
}

}  // namespace c06

#define C06_INST(name, ...)                                              \
  VH_CONFIG(name, (c06::run_case<c06::Opt<__VA_ARGS__>, false>));        \
  VH_CONFIG(name "+gap", (c06::run_case<c06::Opt<__VA_ARGS__>, true>))

#endif

// C06 — abstract filtered cell complex used as the model ("world") of the vineyard harness.  No GUDHI header here.
// A world is a sequence of cells in their CURRENT filtration order; each cell has an abstract key, a dimension and the keys
// of its facets.  Admissibility of every operation (transposition of two adjacent cells that are not face/coface, removal
// of a maximal cell, insertion of a cell whose facets are present) is decided here, and the expected barcode is the
// textbook reduction (oracle/zp_reduce.h) of the current order.
#ifndef VERIF_C06_WORLD_H_
#define VERIF_C06_WORLD_H_
#include <algorithm>
#include <map>
#include <set>
#include <string>
#include <vector>

#include "common/vh.h"
#include "oracle/zp_reduce.h"

namespace c06 {

struct ACell {
  int key = -1;
  int dim = 0;
  std::vector<int> faces;  // keys of the facets
  std::vector<int> verts;  // vertex labels (sorted) -- bookkeeping of the generator only
};

struct World {
  std::vector<ACell> order;                    // current filtration order
  int next_key = 0;
  int next_vertex = 0;
  bool general = false;  // cells are proposed by propose_general (general Z_2 chain complex) instead of simplices / CW cells
  std::map<std::vector<int>, int> simplex_key;  // sorted vertex set -> key of the (first) cell carrying it

  int size() const { return (int)order.size(); }
  int pos_of_key(int key) const {
    for (int i = 0; i < size(); ++i) if (order[i].key == key) return i;
    return -1;
  }
  bool is_facet(int face_pos, int coface_pos) const {
    const ACell& b = order[coface_pos];
    return std::find(b.faces.begin(), b.faces.end(), order[face_pos].key) != b.faces.end();
  }
  // adjacent transposition (i, i+1) keeps a valid filtration iff cell i is not a facet of cell i+1
  bool swap_admissible(int i) const { return i >= 0 && i + 1 < size() && !is_facet(i, i + 1); }
  bool maximal(int p) const {
    for (int q = p + 1; q < size(); ++q) if (is_facet(p, q)) return false;
    return true;
  }
  std::vector<oracle::Cell> oracle_cells() const {
    std::map<int, int> pos;
    for (int i = 0; i < size(); ++i) pos[order[i].key] = i;
    std::vector<oracle::Cell> cells(order.size());
    for (int i = 0; i < size(); ++i) {
      cells[i].dim = order[i].dim;
      for (int f : order[i].faces) cells[i].bdry.emplace_back(pos.at(f), 1);
    }
    return cells;
  }
  std::vector<oracle::Bar> bars() const { return oracle::reduce(oracle_cells(), 2).bars; }

  void push(const ACell& c) {
    order.push_back(c);
    if (!c.verts.empty() && !simplex_key.count(c.verts)) simplex_key[c.verts] = c.key;
  }
  void erase_at(int p) {
    const ACell& c = order[p];
    auto it = simplex_key.find(c.verts);
    if (it != simplex_key.end() && it->second == c.key) {
      simplex_key.erase(it);
      // another (parallel) cell with the same vertex set may still be there: re-register it
      for (int q = 0; q < size(); ++q)
        if (q != p && order[q].verts == c.verts && order[q].dim == c.dim) { simplex_key[c.verts] = order[q].key; break; }
    }
    order.erase(order.begin() + p);
  }
  bool key_present(int key) const { return pos_of_key(key) >= 0; }

  // ---------------------------------------------------------------- generation
  // proposes one new cell all of whose facets are present (not added yet).  returns false if nothing could be proposed.
  bool propose(vh::Rng& r, bool cellular, int max_vertices, ACell& out) {
    if (general) return propose_general(r, out);
    for (int attempt = 0; attempt < 12; ++attempt) {
      std::vector<int> vs;  // present vertex labels
      for (auto& kv : simplex_key) if (kv.first.size() == 1) vs.push_back(kv.first[0]);
      int d;
      { unsigned x = (unsigned)r.below(10); d = x < 1 ? 0 : x < 4 ? 1 : x < 8 ? 2 : 3; }
      if ((int)vs.size() < 2) d = 0;
      if (d == 0) {
        if ((int)vs.size() >= max_vertices) continue;
        out = ACell(); out.key = next_key++; out.dim = 0; out.verts = {next_vertex++};
        return true;
      }
      if ((int)vs.size() < d + 1) d = (int)vs.size() - 1;
      r.shuffle(vs);
      if (cellular && vs.size() >= 4 && r.chance(1, 6)) {
        // a square 2-cell on the 4-cycle a-b-c-d (4 facets: its dimension cannot be deduced from the boundary size)
        int cyc[4] = {vs[0], vs[1], vs[2], vs[3]};
        std::vector<int> fk;
        std::vector<int> miss;
        for (int t = 0; t < 4; ++t) {
          std::vector<int> e = {cyc[t], cyc[(t + 1) % 4]};
          std::sort(e.begin(), e.end());
          auto it = simplex_key.find(e);
          if (it == simplex_key.end()) { miss = e; break; }
          fk.push_back(it->second);
        }
        out = ACell(); out.key = next_key++;
        if (!miss.empty()) {
          out.dim = 1; out.verts = miss;
          out.faces = {simplex_key.at(std::vector<int>{miss[0]}), simplex_key.at(std::vector<int>{miss[1]})};
        } else {
          out.dim = 2; out.faces = fk;  // verts left empty: never registered as a simplex
        }
        return true;
      }
      std::vector<int> s(vs.begin(), vs.begin() + d + 1);
      std::sort(s.begin(), s.end());
      // smallest missing face of s (all its facets are then present)
      std::vector<int> missing;
      for (int sz = 2; sz <= (int)s.size() && missing.empty(); ++sz) {
        std::vector<std::vector<int>> cands;
        for (unsigned mask = 1; mask < (1u << s.size()); ++mask) {
          if (__builtin_popcount(mask) != sz) continue;
          std::vector<int> f;
          for (size_t t = 0; t < s.size(); ++t) if (mask >> t & 1) f.push_back(s[t]);
          if (!simplex_key.count(f)) cands.push_back(f);
        }
        if (!cands.empty()) missing = cands[r.below(cands.size())];
      }
      if (missing.empty()) {
        // s is present.  In cellular mode add a parallel cell with the same boundary (a regular CW complex: multi-edges,
        // two discs glued along the same circle, ...), at most in dimension <= 2
        if (!cellular || (int)s.size() > 3 || !r.chance(1, 2)) continue;
        int k = simplex_key.at(s);
        int p = pos_of_key(k);
        out = ACell(); out.key = next_key++; out.dim = order[p].dim; out.faces = order[p].faces; out.verts = s;
        return true;
      }
      out = ACell(); out.key = next_key++; out.dim = (int)missing.size() - 1; out.verts = missing;
      for (size_t t = 0; t < missing.size(); ++t) {
        std::vector<int> f;
        for (size_t u = 0; u < missing.size(); ++u) if (u != t) f.push_back(missing[u]);
        out.faces.push_back(simplex_key.at(f));
      }
      return true;
    }
    return false;
  }

  // General Z_2 chain complex (Morse-like complexes: insert_boundary takes the dimension explicitly when it cannot be deduced
  // from the size of the boundary): a new cell of dimension d > 0 gets as boundary a random (d-1)-cycle, namely the sum of
  // 1-3 elements of { 0, boundary of a present d-cell, a (d-1)-cell with empty boundary, two (d-1)-cells with the same
  // boundary }.  So cells of positive dimension with an empty boundary, with an odd number of facets or with the boundary
  // of another cell all occur, and d o d = 0 holds by induction.
  bool propose_general(vh::Rng& r, ACell& out) {
    int d;
    { unsigned x = (unsigned)r.below(10); d = x < 3 ? 0 : x < 6 ? 1 : x < 9 ? 2 : 3; }
    out = ACell(); out.key = next_key++; out.dim = d;
    if (d == 0) return true;
    auto bd = [](const ACell& c) { return std::set<int>(c.faces.begin(), c.faces.end()); };
    std::vector<std::set<int>> pool;
    pool.push_back({});
    for (auto& c : order) if (c.dim == d) pool.push_back(bd(c));
    for (auto& c : order) if (c.dim == d - 1 && c.faces.empty()) pool.push_back({c.key});
    for (size_t i = 0; i < order.size(); ++i)
      for (size_t j = i + 1; j < order.size(); ++j)
        if (order[i].dim == d - 1 && order[j].dim == d - 1 && bd(order[i]) == bd(order[j])) pool.push_back({order[i].key, order[j].key});
    std::set<int> b;
    int k = 1 + (int)r.below(3);
    for (int t = 0; t < k; ++t)
      for (int x : pool[r.below(pool.size())]) { auto it = b.find(x); if (it == b.end()) b.insert(x); else b.erase(it); }
    out.faces.assign(b.begin(), b.end());
    return true;
  }

  // random complex with about n cells, then a uniformly-greedy random linear extension of the face order
  void generate(vh::Rng& r, int n, bool cellular, int max_vertices) {
    int guard = 0;
    while (size() < n && guard++ < 20 * n + 50) {
      ACell c;
      if (propose(r, cellular, max_vertices, c)) push(c);
    }
    std::vector<ACell> all = order, out;
    std::set<int> placed;
    while (!all.empty()) {
      std::vector<int> avail;
      for (int i = 0; i < (int)all.size(); ++i) {
        bool ok = true;
        for (int f : all[i].faces) if (!placed.count(f)) ok = false;
        if (ok) avail.push_back(i);
      }
      int pick = avail[r.below(avail.size())];
      // bias towards keeping the generation order half of the time, so that both "sorted by dimension"-like and
      // thoroughly mixed orders occur
      if (r.chance(1, 3)) pick = avail[0];
      placed.insert(all[pick].key);
      out.push_back(all[pick]);
      all.erase(all.begin() + pick);
    }
    order = out;
  }
};

inline std::string show_bars(const std::vector<oracle::Bar>& b) { return oracle::show(b); }

// sigma = transposition of positions i and i+1 applied to a barcode in positions
inline std::vector<oracle::Bar> transpose_bars(std::vector<oracle::Bar> b, int i) {
  auto t = [i](int x) { return x == i ? i + 1 : x == i + 1 ? i : x; };
  for (auto& x : b) { x.birth = t(x.birth); if (x.death >= 0) x.death = t(x.death); }
  std::sort(b.begin(), b.end());
  return b;
}

}  // namespace c06
#endif

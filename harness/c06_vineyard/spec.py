import os as _os
import re

_HERE = _os.path.dirname(_os.path.abspath(__file__))


def _units():
    txt = open(_os.path.join(_HERE, "c06_units.inc")).read()
    units, cur = {}, None
    for line in txt.splitlines():
        m = re.match(r"#(?:el)?if C06_UNIT == (\d+)", line)
        if m:
            cur = int(m.group(1))
            units[cur] = []
            continue
        m = re.match(r'C06_INST\("([^"]+)"', line)
        if m and cur is not None:
            units[cur].append(m.group(1))
    return units


_U = _units()

# "+gap" configurations (explicit identifiers with random gaps).  For RU matrices they only witness one known defect
# (row indices different from positions are not supported by the vine swaps) and every case ends at its first symptom, so
# only two of them are kept, with few cases.
_RU_GAP_PROBES = {"ru_cont_bar_rem_map_ISET": {"quick": 40, "thorough": 200}, "ru_id_bar_rem_vec_SET": {"quick": 40, "thorough": 200}}


def _gap(name, counts):
    if name.startswith("ru_"):
        return _RU_GAP_PROBES.get(name)
    return counts
_units_spec = []
for k in sorted(_U):
    if k < 100:
        _units_spec.append({"name": "u%d" % k, "src": ["c06_main.cpp"], "variant": "asan", "defs": ["C06_UNIT=%d" % k],
                            "configs": dict([(n, {"quick": 400, "thorough": 6000}) for n in _U[k]] +
                                            [(n + "+gap", _gap(n, {"quick": 150, "thorough": 2000})) for n in _U[k]
                                             if _gap(n, 1)]), "chunk": 50})
    else:
        _units_spec.append({"name": "t%d" % k, "src": ["c06_main.cpp"], "variant": "asan", "defs": ["C06_UNIT=%d" % k],
                            "tiers": ["thorough"],
                            "configs": dict([(n, {"thorough": 3000}) for n in _U[k]] +
                                            [(n + "+gap", _gap(n, {"thorough": 1000})) for n in _U[k] if _gap(n, 1)]),
                            "chunk": 200})

SPEC = {
    "property": "C06",
    "rule": "TODO",
    "assumptions": [],
    "units": _units_spec,
    "floors": {"quick": {}, "thorough": {}},
    "exhaustive": {"quick": False, "thorough": False},
    "manifest": {"text": "TODO", "note": "TODO", "technique": "runtime monitoring"},
}

import os as _os
import re

_HERE = _os.path.dirname(_os.path.abspath(__file__))


def _units():
    txt = open(_os.path.join(_HERE, "c06_units.inc")).read()
    units, cur = {}, None
    for line in txt.splitlines():
        m = re.match(r"#(?:el)?if C06_UNIT == (\d+)", line)
        if m:
            cur = int(m.group(1))
            units[cur] = []
            continue
        m = re.match(r'C06_INST\("([^"]+)"', line)
        if m and cur is not None:
            units[cur].append(m.group(1))
    return units


_U = _units()

# "+gap" configurations (explicit identifiers with random gaps).  For RU matrices they only witness one known defect
# (row indices different from positions are not supported by the vine swaps) and every case ends at its first symptom, so
# only two of them are kept, with few cases.
_RU_GAP_PROBES = {"ru_cont_bar_rem_map_ISET": {"quick": 40, "thorough": 200}, "ru_id_bar_rem_vec_SET": {"quick": 40, "thorough": 200}}


def _gap(name, counts):
    if name.startswith("ru_"):
        return _RU_GAP_PROBES.get(name)
    return counts
_units_spec = []
for k in sorted(_U):
    if k < 100:
        _units_spec.append({"name": "u%d" % k, "src": ["c06_main.cpp"], "variant": "asan", "defs": ["C06_UNIT=%d" % k],
                            "configs": dict([(n, {"quick": 400, "thorough": 4000}) for n in _U[k]] +
                                            [(n + "+gap", _gap(n, {"quick": 150, "thorough": 1200})) for n in _U[k]
                                             if _gap(n, 1)]), "chunk": 50})
    else:
        _units_spec.append({"name": "t%d" % k, "src": ["c06_main.cpp"], "variant": "asan", "defs": ["C06_UNIT=%d" % k],
                            "tiers": ["thorough"],
                            "configs": dict([(n, {"thorough": 2000}) for n in _U[k]] +
                                            [(n + "+gap", _gap(n, {"thorough": 600})) for n in _U[k] if _gap(n, 1)]),
                            "chunk": 200})

_QUICK_FLOORS = {
    "_distinct_nontrivial": 4000,
    "op.swap": 70000, "op.swap_z1": 15000, "op.insert": 15000, "op.insert.idorder_unsorted": 6000,
    "op.remove_last": 10000, "op.remove_last.right_after_swap": 5000, "op.remove_last.last_not_max_id": 3000,
    "op.remove_maximal.not_last": 10000, "op.fork": 8000,
    "cmp.barcode": 150000, "cmp.derived_barcode": 200000, "cmp.ru.factorisation": 40000, "cmp.chain.column": 1500000,
    "cmp.swap_return": 100000, "cmp_calls.birth": 4000, "cmp_calls.death": 700,
    # state classes of the transpositions (sign of the two cells, same dimension, pairing, U / chain entry present,
    # outcome according to the oracle), per flavour
    "swapcls.ru.nn,samedim,u1,exch": 500, "swapcls.ru.nn,samedim,u1,kept": 150, "swapcls.ru.np,samedim,u1,exch": 2500,
    "swapcls.ru.pn,samedim,u1,kept": 40, "swapcls.ru.pp,samedim,both_paired,u0,exch": 700,
    "swapcls.ru.pp,samedim,both_paired,u0,kept": 2000, "swapcls.ru.pp,samedim,one_paired,u0,exch": 4000,
    "swapcls.ru.pp,samedim,one_paired,u0,kept": 1000, "swapcls.ru.pp,samedim,unpaired,u0,any": 4000,
    "swapcls.ru.z1.nn,samedim,u1,exch": 1000, "swapcls.ru.z1.np,samedim,u1,exch": 3000,
    "swapcls.chain.nn,samedim,e1,exch": 1200, "swapcls.chain.nn,samedim,e1,kept": 500, "swapcls.chain.np,samedim,e1,exch": 5000,
    "swapcls.chain.pn,samedim,e1,kept": 80, "swapcls.chain.pp,samedim,both_paired,e1,exch": 2000,
    "swapcls.chain.pp,samedim,both_paired,e1,kept": 600, "swapcls.chain.pp,samedim,one_paired,e1,exch": 7000,
    "swapcls.chain.pp,samedim,unpaired,e1,any": 1000, "swapcls.chain.z1.nn,samedim,e1,exch": 400,
    "swapcls.chain.z1.pp,samedim,both_paired,e1,exch": 600,
    # input classes added after the audit of the harness assumptions (see "rule")
    "op.swap.args_reversed": 24000, "op.swap_z1.args_reversed": 6000, "cmp.swap_return.ru_id_reversed_unjudged": 10000,
    "op.swap_z1.ru_id": 2200, "op.swap.chain_pos_nobar": 10000, "op.swap.ru_norem": 15000, "op.swap.chain_rem_vec": 10000,
    "cmp.row": 850000, "cmp.repcycle": 320000, "cmp.repcycle.family": 37000,
    "case.general_complex": 1300, "op.swap.general_complex": 23000, "op.insert.empty_boundary_dim_gt0": 1700,
    "op.insert.non_simplicial_boundary": 1900, "case.small": 950, "state.emptied": 2900, "op.insert.into_emptied": 2400,
    "op.insert.id_reused": 1500,
}

SPEC = {
    "property": "C06",
    "rule": "per case: a random filtered cell complex (simplices on <= 7 vertices; in 1/3 of the cases also parallel cells and square "
            "2-cells; 2-36 cells, dim <= 3) in a random admissible order; a Matrix<Options> with vine updates is built on it (batch / "
            "default / reserving constructor; ids implicit, counted, or - configs '+gap' - explicit with gaps) and driven through a "
            "random walk of 10-60 (thorough 10-80) steps: 60% adjacent transpositions of cells that are not face/coface (vine_swap; "
            "vine_swap_with_z_eq_1_case only where the stored U / chain entry it presupposes is present; same-dimension pairs "
            "preferred, sometimes pushing one cell upwards for several steps), 12% insertion of a cell at the end, 10% remove_last, "
            "12% remove_maximal_cell of a random maximal cell (one-argument and (id, columnsToSwap) overloads), 6% fork = a fresh "
            "matrix is built on the current order and both matrices are driven by the same suffix. After EVERY step, for every live "
            "matrix: get_number_of_columns; get_current_barcode (when stored) as a multiset of (dim, birth, death) in positions == "
            "textbook reduction (oracle/zp_reduce.h, Z_2) of the current order; the defining identities (RU: R reduced, get_pivot / "
            "get_column_with_pivot inverse of each other, column dimensions, barcode read off the pivots of R == oracle, stored factor "
            "unit triangular with one of B=R.M, R=B.M, B=R.M^T, R=B.M^T exactly; chain: one column per cell with that cell as pivot and "
            "latest element, homogeneous dimension, boundary of each chain zero or exactly an earlier stored chain, no chain killed "
            "twice, is_paired / get_paired_chain_index consistent, barcode read off that pairing == oracle); and the returned value of "
            "the swap: 'kept' (new barcode = old one with the two positions exchanged) vs 'exchanged' (barcode in positions unchanged) "
            "is decided by the oracle alone and compared with the bool (position interfaces), with first/second argument (RU, "
            "identifier indexing), with the returned column and its pivot (chain, container indexing) or with the id of the cell that "
            "moved up (chain, identifier indexing); when both hold (two essential bars of one dimension) any value is accepted. "
            "Chain matrices without stored barcode get birth/death comparators answering from the model order and the oracle barcode. "
            "non-trivial = distinct history with >= 4 transpositions, >= 2 of them between cells of equal dimension, >= 1 whose oracle "
            "outcome is 'exchanged', and >= 1 insertion or removal. "
            "Added after the audit of the assumptions: (a) the two-argument swaps (chain with container / identifier indexing and stored "
            "barcode, RU with identifier indexing) receive the LATER cell first in half of the calls (signature flag 'args=reversed'); "
            "(b) 1 case in 6 runs on a general Z_2 chain complex (cells of dimension > 0 whose boundary is empty, another cell's "
            "boundary, or a sum of such cycles; dimensions passed explicitly), 1 case in 8 on a complex of 0-3 cells with as many "
            "removals as insertions, so that matrices go down to 0 columns and are refilled; chain matrices with explicit ids give a new "
            "cell (largest live id)+1 in half of the instances, so ids of removed cells come back; (c) instantiations: RU without "
            "removable columns (4), chain with position indexing and no stored barcode (2; the harness mirrors position -> internal "
            "column index from the bool returns to decode the comparator arguments), chain with removable columns in a vector "
            "container (2), can_retrieve_representative_cycles (2 RU + 2 chain); (d) an RU matrix with identifier indexing is "
            "accompanied by a twin with the same options but position indexing, driven by the same calls, in which the U entry that "
            "vine_swap_with_z_eq_1_case presupposes is read: so the z=1 swap is exercised there too; (e) with row access, at every full "
            "observation get_row of every live cell (R and U for RU matrices) == the set of columns having an entry in that row (set of "
            "column indices where the indexing is native, number of entries behind an overlay; every entry reports the right row "
            "index); (f) with representative cycles, at every full observation update_representative_cycles, then "
            "get_representative_cycles has exactly one cycle per bar whose youngest cell is the bar's birth cell, and "
            "get_representative_cycle(bar) of every bar is a non-empty chain of cells of the bar's dimension with zero boundary over Z_2 "
            "whose youngest cell is the birth cell",
    "assumptions": [
        "Z_2 only (the library static_asserts it for vine updates); a chain matrix WITHOUT stored barcode is always called as "
        "vine_swap(earlier cell, later cell): it keeps no position map, so it cannot know the order of its two arguments",
        "RU with identifier indexing called with the later cell first: the returned value only has to be one of the two arguments "
        "(the documentation fixes no convention for that order); called in order, first argument <=> the cells kept their bars",
        "rows kept in a vector (no removable rows) are only read up to the last row that currently has an entry (rows beyond may not "
        "be allocated); behind the position / identifier overlays only the number of entries of a row is compared",
        "chain matrix with position indexing and no stored barcode: remove_last() only when the last cell carries the largest id "
        "(otherwise the known defect of the container-indexed flavour would fire under another signature), no remove_maximal_cell "
        "(not offered)",
        "general chain complexes and emptied matrices are not combined with the batch constructor when a dimension cannot be deduced "
        "from the boundary size (it has no dimension argument)",
        "RU matrices: rows stay attached to positions (documented: 'the rows also swap IDs'), so the boundary of a cell inserted after "
        "swaps is expressed with the row index of the current position of each face; the row labels of the stored factor U are "
        "accepted in either convention (position or row index) and entries of U in rows of removed cells are ignored",
        "RU by position in the natural configs always uses insert_boundary without id (row index == position); RU with identifier "
        "indexing inserts a cell only when the identifier equal to its position is free (otherwise skipped): identifiers different "
        "from positions are the domain of the '+gap' configs, of which only two RU ones are kept as witnesses of a known defect",
        "chain matrix without stored barcode: no insertion while the identifiers of the live cells are not increasing along the "
        "filtration (documented restriction of insert_boundary; such a matrix has no position map), and remove_last() is called only "
        "once in 12 opportunities when the last cell does not carry the largest identifier (known defect, it ends the case); its "
        "comparators decode their arguments (internal column indices, although documented as positions) with get_pivot, which "
        "restricts this flavour to container indexing",
        "vine_swap_with_z_eq_1_case for RU with identifier indexing: its precondition is read from a position indexed twin (same "
        "options and history, natural numbering only; not in the '+gap' configs)",
        "a transposition of two cells carrying two essential bars of the same dimension does not determine the returned value",
        "trusted: oracle/zp_reduce.h and the cell-complex model in c06_world.h",
    ],
    "units": _units_spec,
    "floors": {"quick": _QUICK_FLOORS,
               "thorough": dict((k, v * 8) for k, v in _QUICK_FLOORS.items())},
    "exhaustive": {"quick": False, "thorough": False},
    "manifest": {
        "text": "Runtime monitor: for RU and chain persistence matrices with vine updates (container / position / identifier indexing, with "
                "and without stored barcode, all 9 column types, removable columns on and off, row access variants, representative cycles: "
                "32 instantiations in the quick tier, 64 in the thorough tier) thousands of random histories of adjacent transpositions, z=1 transpositions, "
                "insertions, remove_last, remove_maximal_cell (both overloads) and forks onto freshly rebuilt matrices are executed under "
                "ASan+UBSan, on simplicial, CW and general Z_2 chain complexes, with two-argument swaps called in both argument orders; after every single step the stored barcode, the barcode read off the columns, the RU factorisation / chain "
                "compatibility identities, the rows (row access), the representative cycles of all bars (where offered) and the truthfulness of "
                "the value returned by the swap are compared with an independent textbook "
                "Z_2 reduction of the current filtration order. Held on what was observed (every reachable class of the vineyard case "
                "analysis is counted and has a coverage floor), not a proof.",
        "note": "trusted: oracle/zp_reduce.h, the cell-complex model of the harness; identifiers different from positions are exercised "
                "for chain matrices only (for RU matrices two small witness configs); chain matrices without stored barcode only with "
                "container / position indexing and with the id-order restrictions listed in the assumptions",
        "technique": "runtime monitoring: randomized operation histories + independent reduction oracle and defining-identity checks after "
                     "every step, under AddressSanitizer/UBSan/_GLIBCXX_ASSERTIONS",
    },
}

// Independent model of the Freudenthal-Kuhn triangulation of Z^d (no GUDHI headers here).
//
// Definition used (textbook): the vertices are the points of Z^d; a finite set of lattice points is a simplex of the
// triangulation iff it is a chain for the componentwise order (u_0 < u_1 < ... < u_k) that fits in one unit cube
// (u_k - u_0 in {0,1}^d).  The top simplices are therefore { y, y+e_p(1), y+e_p(1)+e_p(2), ... } for y in Z^d and p a
// permutation; every simplex is a face of one of them.
//
// A permutahedral representation (v ; P_0,...,P_k) of an ordered partition of {0..d} with d in P_k denotes the simplex
// with vertices v_0 = v, v_{j+1} = v_j + sum_{i in P_j} e_i   (j < k).          (from_rep / to_rep below)
#ifndef C20_FK_ORACLE_H_
#define C20_FK_ORACLE_H_

#include <vector>
#include <set>
#include <algorithm>
#include <cstdint>
#include <cstddef>
#include <string>

namespace fk {

using Vertex = std::vector<int>;
using Simplex = std::vector<Vertex>;  // lexicographically sorted, distinct points

inline bool leq(const Vertex& a, const Vertex& b) {
  for (std::size_t i = 0; i < a.size(); ++i) if (a[i] > b[i]) return false;
  return true;
}

inline Simplex normalized(Simplex s) { std::sort(s.begin(), s.end()); return s; }

inline bool all_distinct(const Simplex& sorted) {
  for (std::size_t i = 1; i < sorted.size(); ++i) if (sorted[i] == sorted[i - 1]) return false;
  return true;
}

// s must be lexicographically sorted.  For a chain of the componentwise order the lexicographic order is the chain order.
inline bool is_simplex(const Simplex& s) {
  if (s.empty()) return false;
  const std::size_t d = s[0].size();
  for (auto& v : s) if (v.size() != d) return false;
  for (std::size_t i = 1; i < s.size(); ++i) {
    if (s[i] == s[i - 1]) return false;
    if (!leq(s[i - 1], s[i])) return false;
  }
  for (std::size_t i = 0; i < d; ++i) {
    int w = s.back()[i] - s.front()[i];
    if (w < 0 || w > 1) return false;
  }
  return true;
}

// a subset of b (both sorted)
inline bool subset(const Simplex& a, const Simplex& b) { return std::includes(b.begin(), b.end(), a.begin(), a.end()); }

inline Simplex translated(const Simplex& s, const Vertex& t) {
  Simplex o = s;
  for (auto& v : o) for (std::size_t i = 0; i < v.size(); ++i) v[i] += t[i];
  return o;
}

// all (m)-element subsets of s (s sorted => subsets sorted)
inline void subsets_of_size(const Simplex& s, std::size_t m, std::set<Simplex>& out) {
  const std::size_t n = s.size();
  for (unsigned mask = 1; mask < (1u << n); ++mask) {
    if ((std::size_t)__builtin_popcount(mask) != m) continue;
    Simplex f;
    for (std::size_t i = 0; i < n; ++i) if (mask >> i & 1) f.push_back(s[i]);
    out.insert(f);
  }
}

// All simplices of dimension l of the triangulation that contain tau (tau sorted, a simplex).  Naive search: candidate points are the
// lattice points of the box [max-1, min+1]; supersets are grown by adding candidates in increasing candidate order and
// re-validated with is_simplex at every step.
// cur (sorted) is a simplex; is cur + {p} still one?  (p comparable with every vertex, all of them in one unit cube)
inline bool compatible(const Simplex& cur, const Vertex& p) {
  for (auto& q : cur) { if (q == p) return false; if (!leq(p, q) && !leq(q, p)) return false; }
  for (std::size_t i = 0; i < p.size(); ++i) {
    int lo = std::min(cur.front()[i], p[i]), hi = std::max(cur.back()[i], p[i]);
    if (hi - lo > 1) return false;
  }
  return true;
}

inline std::vector<Vertex> candidates(const Simplex& tau) {
  const std::size_t d = tau[0].size();
  const Vertex& lo = tau.front();
  const Vertex& hi = tau.back();
  std::vector<Vertex> cand;
  Vertex p(d);
  std::vector<int> a(d), b(d);
  for (std::size_t i = 0; i < d; ++i) { a[i] = hi[i] - 1; b[i] = lo[i] + 1; }
  for (std::size_t i = 0; i < d; ++i) p[i] = a[i];
  for (;;) {
    if (!std::binary_search(tau.begin(), tau.end(), p)) {
      Simplex t = tau; t.push_back(p); std::sort(t.begin(), t.end());
      if (is_simplex(t)) cand.push_back(p);
    }
    std::size_t i = 0;
    for (; i < d; ++i) { if (p[i] < b[i]) { ++p[i]; break; } p[i] = a[i]; }
    if (i == d) break;
  }
  return cand;
}

inline void cofaces(const Simplex& tau, std::size_t l, std::set<Simplex>& out) {
  if (l + 1 < tau.size()) return;
  std::vector<Vertex> cand = candidates(tau);
  struct Rec {
    const std::vector<Vertex>& cand; std::size_t want; std::set<Simplex>& out;
    void go(const Simplex& cur, std::size_t from) {
      if (cur.size() == want) { out.insert(cur); return; }
      for (std::size_t j = from; j < cand.size(); ++j) {
        if (cand.size() - j < want - cur.size()) break;
        if (!compatible(cur, cand[j])) continue;
        Simplex t = cur; t.insert(std::upper_bound(t.begin(), t.end(), cand[j]), cand[j]);
        go(t, j + 1);
      }
    }
  } rec{cand, l + 1, out};
  rec.go(tau, 0);
}

// Second, differently phrased definition (used only to cross-check `cofaces` on the star of the origin):
// subsets containing the origin of the top simplices { y, y+e_p(1), ... }, y in {-1,0}^d, p a permutation.
inline void star_of_origin_by_permutations(std::size_t d, std::set<Simplex>& out) {
  Vertex origin(d, 0);
  for (unsigned corner = 0; corner < (1u << d); ++corner) {
    Vertex y(d);
    for (std::size_t i = 0; i < d; ++i) y[i] = (corner >> i & 1) ? -1 : 0;
    std::vector<std::size_t> perm(d);
    for (std::size_t i = 0; i < d; ++i) perm[i] = i;
    do {
      Simplex T; T.push_back(y);
      for (std::size_t j = 0; j < d; ++j) { Vertex n = T.back(); n[perm[j]]++; T.push_back(n); }
      std::sort(T.begin(), T.end());
      if (!std::binary_search(T.begin(), T.end(), origin)) continue;
      for (unsigned mask = 1; mask < (1u << (d + 1)); ++mask) {
        Simplex f;
        for (std::size_t i = 0; i <= d; ++i) if (mask >> i & 1) f.push_back(T[i]);
        if (std::binary_search(f.begin(), f.end(), origin)) out.insert(f);
      }
    } while (std::next_permutation(perm.begin(), perm.end()));
  }
}

// ---------------------------------------------------------------- permutahedral representation <-> vertex set
struct Rep {
  Vertex v;
  std::vector<std::vector<std::size_t>> parts;
};

inline Simplex from_rep(const Rep& r) {
  const std::size_t d = r.v.size();
  Simplex s; s.push_back(r.v);
  for (std::size_t j = 0; j + 1 < r.parts.size(); ++j) {
    Vertex n = s.back();
    for (std::size_t i : r.parts[j]) {
      if (i < d) n[i]++;
      else for (std::size_t t = 0; t < d; ++t) n[t]--;
    }
    s.push_back(n);
  }
  return s;  // in chain order (== sorted when d is in the last part)
}

inline Rep to_rep(const Simplex& s) {  // s sorted, a simplex
  const std::size_t d = s[0].size();
  Rep r; r.v = s[0];
  for (std::size_t j = 0; j + 1 < s.size(); ++j) {
    std::vector<std::size_t> part;
    for (std::size_t i = 0; i < d; ++i) if (s[j + 1][i] != s[j][i]) part.push_back(i);
    r.parts.push_back(part);
  }
  std::vector<std::size_t> last;
  for (std::size_t i = 0; i < d; ++i) if (s.back()[i] == s.front()[i]) last.push_back(i);
  last.push_back(d);
  r.parts.push_back(last);
  return r;
}

// ---------------------------------------------------------------- closed-form count of cofaces (cross-check of `cofaces`)
// A simplex whose ordered partition has part sizes n_0..n_k has  sum_{m_0+..+m_k = l-k} prod_i (m_i+1)! S(n_i, m_i+1)
// cofaces of dimension l  (each part is refined into an ordered partition with m_i+1 blocks; S = Stirling numbers of the 2nd kind).
inline std::uint64_t stirling2(unsigned n, unsigned k) {
  static std::uint64_t T[20][20]; static bool init = false;
  if (!init) {
    for (auto& row : T) for (auto& x : row) x = 0;
    T[0][0] = 1;
    for (unsigned i = 1; i < 20; ++i) for (unsigned j = 1; j <= i; ++j) T[i][j] = j * T[i - 1][j] + T[i - 1][j - 1];
    init = true;
  }
  return (n < 20 && k < 20) ? T[n][k] : 0;
}
inline std::uint64_t factorial(unsigned n) { std::uint64_t f = 1; for (unsigned i = 2; i <= n; ++i) f *= i; return f; }

inline std::uint64_t coface_count(const std::vector<std::size_t>& part_sizes, std::size_t l) {
  const std::size_t k = part_sizes.size() - 1;
  if (l < k) return 0;
  const std::size_t extra = l - k;
  std::vector<std::uint64_t> dp(extra + 1, 0); dp[0] = 1;
  for (std::size_t n : part_sizes) {
    std::vector<std::uint64_t> nd(extra + 1, 0);
    for (std::size_t used = 0; used <= extra; ++used) if (dp[used])
      for (std::size_t m = 0; m + 1 <= n && used + m <= extra; ++m)
        nd[used + m] += dp[used] * factorial((unsigned)m + 1) * stirling2((unsigned)n, (unsigned)m + 1);
    dp.swap(nd);
  }
  return dp[extra];
}

inline std::uint64_t binom(unsigned n, unsigned k) {
  if (k > n) return 0;
  std::uint64_t r = 1;
  for (unsigned i = 1; i <= k; ++i) r = r * (n - k + i) / i;
  return r;
}

inline std::string show(const Vertex& v) {
  std::string o = "(";
  for (std::size_t i = 0; i < v.size(); ++i) { if (i) o += ","; o += std::to_string(v[i]); }
  return o + ")";
}
inline std::string show(const Simplex& s) {
  std::string o = "{";
  for (std::size_t i = 0; i < s.size(); ++i) { if (i) o += " "; o += show(s[i]); }
  return o + "}";
}

}  // namespace fk

#endif  // C20_FK_ORACLE_H_

// C20 — monitor assertions on one simplex given in permutahedral representation (shared by the lattice and the locate units).
#ifndef C20_CHECKS_H_
#define C20_CHECKS_H_

#include <iostream>
#include <gudhi/Permutahedral_representation.h>
#include "common/vh.h"
#include "fk_oracle.h"

// like vh::Case::expect, but the detail text is only built when the comparison fails
#define C20_EXPECT(c, cond, check, sig, detail) ((cond) ? ((c).count(std::string("cmp.") + (check)), true) : (c).expect(false, (check), (sig), (detail)))

namespace c20 {

using Vertex = std::vector<int>;
using Part = std::vector<std::size_t>;
using Partition = std::vector<Part>;
using PR = Gudhi::coxeter_triangulation::Permutahedral_representation<Vertex, Partition>;

inline PR make_pr(const fk::Rep& r) { return PR(r.v, r.parts); }
inline PR make_pr(const fk::Simplex& s) { return make_pr(fk::to_rep(s)); }

inline std::string show(const PR& s) {
  std::string o = fk::show(s.vertex()) + "[";
  for (std::size_t j = 0; j < s.partition().size(); ++j) {
    if (j) o += "|";
    for (std::size_t i = 0; i < s.partition()[j].size(); ++i) { if (i) o += ","; o += std::to_string(s.partition()[j][i]); }
  }
  return o + "]";
}

// vertices in the order the library enumerates them
inline std::vector<Vertex> raw_vertices(const PR& s) {
  std::vector<Vertex> out;
  for (auto& v : s.vertex_range()) out.push_back(v);
  return out;
}

inline std::string sg(std::size_t d, std::size_t dim) { return "d=" + std::to_string(d) + ",dim=" + std::to_string(dim); }

// is the representation an ordered partition of {0..d} into non-empty parts with d in the last part?  (precondition of the
// iterators; used as a guard before a library-produced representation is fed back to the library, and as a check on locate_point)
inline bool wellformed(const PR& s, std::size_t d) {
  if (s.vertex().size() != d || s.partition().empty()) return false;
  std::vector<int> seen(d + 1, 0);
  for (auto& p : s.partition()) {
    if (p.empty()) return false;
    for (auto i : p) { if (i > d || seen[i]) return false; seen[i] = 1; }
  }
  for (int x : seen) if (!x) return false;
  auto& last = s.partition().back();
  return std::find(last.begin(), last.end(), d) != last.end();
}

// Vertex set of s, validated: dimension+1 distinct lattice points forming a simplex of the triangulation.  false => reported.
inline bool vertex_checks(vh::Case& c, const PR& s, std::size_t d, const std::string& origin, fk::Simplex& V, const fk::Simplex* model) {
  const std::size_t dim = s.dimension();
  const std::string sig = origin + "," + sg(d, dim);
  std::vector<Vertex> raw = raw_vertices(s);
  c.count("obs.vertex_range");
  if (!C20_EXPECT(c, raw.size() == dim + 1, "vertices.count", sig, show(s) + " enumerates " + vh::str(raw.size()) + " vertices, dimension()+1 = " + vh::str(dim + 1))) return false;
  for (auto& v : raw) if (!C20_EXPECT(c, v.size() == d, "vertices.ambient_dimension", sig, show(s) + " vertex of size " + vh::str(v.size()))) return false;
  V = fk::normalized(raw);
  if (!C20_EXPECT(c, fk::all_distinct(V), "vertices.distinct", sig, show(s) + " -> " + fk::show(V))) return false;
  if (!C20_EXPECT(c, fk::is_simplex(V), "vertices.valid_simplex", sig, show(s) + " -> " + fk::show(V) + " is not a chain in a unit cube")) return false;
  if (model && !C20_EXPECT(c, V == *model, "vertices.match_model", sig, show(s) + " -> " + fk::show(V) + " expected " + fk::show(*model))) return false;
  if (!C20_EXPECT(c, s.vertex() == V.front(), "rep.vertex_lexmin", sig, show(s) + ": vertex() is not the lexicographically minimal vertex " + fk::show(V.front()))) return false;
  return true;
}

// face_range(k) for every k, facet_range: exactly the (k+1)-subsets, each recognised by is_face_of.
inline bool face_checks(vh::Case& c, const PR& s, std::size_t d, const std::string& origin, const fk::Simplex& V, std::vector<PR>* all_faces) {
  const std::size_t dim = s.dimension();
  for (std::size_t k = 0; k <= dim; ++k) {
    const std::string sig = origin + "," + sg(d, dim) + ",k=" + std::to_string(k);
    std::vector<PR> faces;
    for (auto& f : s.face_range(k)) faces.push_back(f);
    c.count("obs.face_range");
    c.count("obs.faces_listed", faces.size());
    std::set<fk::Simplex> want, got;
    fk::subsets_of_size(V, k + 1, want);
    if (!C20_EXPECT(c, faces.size() == fk::binom((unsigned)dim + 1, (unsigned)k + 1), "faces.count", sig,
                  show(s) + " face_range(" + vh::str(k) + ") lists " + vh::str(faces.size()) + " faces")) return false;
    for (auto& f : faces) {
      if (!C20_EXPECT(c, f.dimension() == k, "faces.dimension", sig, show(f) + " has dimension " + vh::str(f.dimension()))) return false;
      std::vector<Vertex> raw = raw_vertices(f);
      fk::Simplex Vf = fk::normalized(raw);
      if (!C20_EXPECT(c, raw.size() == k + 1 && fk::all_distinct(Vf), "faces.vertices_distinct", sig, show(f) + " -> " + fk::show(Vf))) return false;
      if (!C20_EXPECT(c, want.count(Vf) == 1, "faces.set_equal", sig + ",not_a_subset", show(s) + " lists face " + show(f) + " -> " + fk::show(Vf) + " which is not a vertex subset of " + fk::show(V))) return false;
      if (!C20_EXPECT(c, got.insert(Vf).second, "faces.set_equal", sig + ",duplicate", show(s) + " lists face " + fk::show(Vf) + " twice")) return false;
      c.count("obs.is_face_of");
      if (!C20_EXPECT(c, f.is_face_of(s), "faces.is_face_of", sig, show(f) + " listed by face_range of " + show(s) + " but is_face_of says false")) return false;
      if (k < dim) {
        c.count("obs.is_face_of");
        if (!C20_EXPECT(c, !s.is_face_of(f), "is_face_of.matches_subset", sig + ",want=false,larger_in_smaller", show(s) + ".is_face_of(" + show(f) + ") is true")) return false;
      }
    }
    if (!C20_EXPECT(c, got == want, "faces.set_equal", sig + ",missing", show(s) + " face_range(" + vh::str(k) + ") misses a subset")) return false;
    if (k + 1 == dim) {
      std::set<fk::Simplex> fg;
      for (auto& f : s.facet_range()) fg.insert(fk::normalized(raw_vertices(f)));
      c.count("obs.facet_range");
      if (!C20_EXPECT(c, fg == want, "facets.set_equal", sig, show(s) + " facet_range differs from the " + vh::str(dim) + "-subsets")) return false;
    }
    if (all_faces) for (auto& f : faces) all_faces->push_back(f);
  }
  return true;
}

struct CofaceOpts {
  std::uint64_t cap = 3000;        // coface sets larger than this (closed-form count) are skipped
  std::size_t converse_sample = 48;  // how many listed cofaces are checked back through face_range
  std::size_t face_sample = 1000;    // how many listed faces are checked back through coface_range
};

// coface_range(l) for l = dim..d, cofacet_range: contains s, right dimension, valid, recognised, and the set equals the oracle's.
inline bool coface_checks(vh::Case& c, const PR& s, std::size_t d, const std::string& origin, const fk::Simplex& V, const CofaceOpts& o,
                          std::vector<PR>* sample_out) {
  const std::size_t dim = s.dimension();
  std::vector<std::size_t> sizes;
  for (auto& p : s.partition()) sizes.push_back(p.size());
  for (std::size_t l = dim; l <= d; ++l) {
    const std::string sig = origin + "," + sg(d, dim) + ",l=" + std::to_string(l);
    std::uint64_t expect_n = fk::coface_count(sizes, l);
    if (expect_n > o.cap) { c.count("skip.coface_set_too_large"); continue; }
    std::set<fk::Simplex> want;
    fk::cofaces(V, l, want);
    if (!C20_EXPECT(c, want.size() == expect_n, "oracle.selfcheck", "coface_count_formula", "oracle enumerates " + vh::str(want.size()) + " cofaces, closed form says " + vh::str(expect_n) + " for " + fk::show(V) + " l=" + vh::str(l))) return false;
    std::vector<PR> cof;
    for (auto& x : s.coface_range(l)) {
      cof.push_back(x);
      if (cof.size() > 4 * expect_n + 16) break;  // a runaway iterator is reported below as a wrong set, not as a hang
    }
    c.count("obs.coface_range");
    c.count("obs.cofaces_listed", cof.size());
    if (l > dim && expect_n > 1) c.count("obs.coface_range.proper_nontrivial");
    std::set<fk::Simplex> got;
    for (auto& x : cof) {
      if (!C20_EXPECT(c, x.dimension() == l, "cofaces.dimension", sig, show(x) + " listed by coface_range(" + vh::str(l) + ") of " + show(s) + " has dimension " + vh::str(x.dimension()))) return false;
      if (!C20_EXPECT(c, wellformed(x, d), "cofaces.wellformed", sig, show(x) + " listed as coface of " + show(s) + " is not an ordered partition of 0..d with d in the last part")) return false;
      std::vector<Vertex> raw = raw_vertices(x);
      fk::Simplex Vx = fk::normalized(raw);
      if (!C20_EXPECT(c, raw.size() == l + 1 && fk::is_simplex(Vx), "cofaces.valid_simplex", sig, show(x) + " -> " + fk::show(Vx))) return false;
      if (!C20_EXPECT(c, fk::subset(V, Vx), "cofaces.contains", sig, "coface " + show(x) + " -> " + fk::show(Vx) + " does not contain " + fk::show(V))) return false;
      c.count("obs.is_face_of");
      if (!C20_EXPECT(c, s.is_face_of(x), "cofaces.is_face_of", sig, show(s) + ".is_face_of(" + show(x) + ") is false for a listed coface")) return false;
      if (!C20_EXPECT(c, got.insert(Vx).second, "cofaces.set_equal", sig + ",duplicate", "coface " + fk::show(Vx) + " of " + show(s) + " listed twice")) return false;
    }
    if (got != want) {
      std::string det = show(s) + " coface_range(" + vh::str(l) + "): listed " + vh::str(got.size()) + ", oracle " + vh::str(want.size());
      bool missing = false, extra = false;
      for (auto& w : want) if (!got.count(w)) { if (!missing) det += "; missing " + fk::show(w); missing = true; }
      for (auto& g : got) if (!want.count(g)) { if (!extra) det += "; extra " + fk::show(g); extra = true; }
      c.count("cmp.cofaces.set_equal");
      c.violation("cofaces.set_equal", sig + (missing ? ",missing" : "") + (extra ? ",extra" : ""), det);
      return false;
    }
    c.count("cmp.cofaces.set_equal");
    if (l == dim + 1) {
      std::set<fk::Simplex> cg;
      for (auto& x : s.cofacet_range()) { cg.insert(fk::normalized(raw_vertices(x))); if (cg.size() > 4 * expect_n + 16) break; }
      c.count("obs.cofacet_range");
      if (!C20_EXPECT(c, cg == want, "cofacets.set_equal", sig, show(s) + " cofacet_range differs from the oracle's cofacets")) return false;
    }
    // converse: s is listed among the dim-faces of each listed coface
    std::size_t stride = std::max<std::size_t>(1, cof.size() / std::max<std::size_t>(1, o.converse_sample));
    for (std::size_t i = c.rng.below(stride); i < cof.size(); i += stride) {
      bool found = false;
      for (auto& f : cof[i].face_range(dim)) if (fk::normalized(raw_vertices(f)) == V) found = true;
      c.count("obs.converse.face_of_coface");
      if (!C20_EXPECT(c, found, "converse.face_of_coface", sig, show(s) + " is not among face_range(" + vh::str(dim) + ") of its listed coface " + show(cof[i]))) return false;
      if (sample_out && sample_out->size() < 64 && c.rng.chance(1, 4)) sample_out->push_back(cof[i]);
    }
  }
  return true;
}

// converse the other way: s is listed among the dim-cofaces of each of its faces
inline bool coface_of_face_checks(vh::Case& c, const PR& s, std::size_t d, const std::string& origin, const fk::Simplex& V,
                                  const std::vector<PR>& faces, const CofaceOpts& o) {
  const std::size_t dim = s.dimension();
  const std::size_t stride = std::max<std::size_t>(1, faces.size() / std::max<std::size_t>(1, o.face_sample));
  for (std::size_t fi = c.rng.below(stride); fi < faces.size(); fi += stride) {
    const PR& f = faces[fi];
    std::vector<std::size_t> sizes;
    for (auto& p : f.partition()) sizes.push_back(p.size());
    if (!wellformed(f, d)) { c.count("skip.face_rep_not_wellformed"); continue; }
    if (fk::coface_count(sizes, dim) > o.cap) { c.count("skip.coface_set_too_large"); continue; }
    bool found = false;
    std::size_t n = 0;
    for (auto& x : f.coface_range(dim)) { if (fk::normalized(raw_vertices(x)) == V) found = true; if (++n > 4 * o.cap + 16) break; }
    c.count("obs.converse.coface_of_face");
    if (!C20_EXPECT(c, found, "converse.coface_of_face", origin + "," + sg(d, dim) + ",k=" + std::to_string(f.dimension()),
                  show(s) + " is not among coface_range(" + vh::str(dim) + ") of its listed face " + show(f))) return false;
  }
  return true;
}

// is_face_of(a, b) must be the subset relation of the vertex sets
inline bool is_face_of_check(vh::Case& c, const PR& a, const fk::Simplex& Va, const PR& b, const fk::Simplex& Vb, std::size_t d, const std::string& relation) {
  bool want = fk::subset(Va, Vb);
  bool got = a.is_face_of(b);
  c.count("obs.is_face_of");
  c.count(want ? "obs.is_face_of.want_true" : "obs.is_face_of.want_false");
  return C20_EXPECT(c, got == want, "is_face_of.matches_subset", "d=" + std::to_string(d) + ",want=" + (want ? "true" : "false") + "," + relation,
                  show(a) + ".is_face_of(" + show(b) + ") = " + vh::str(got) + "; vertex sets " + fk::show(Va) + " vs " + fk::show(Vb));
}

}  // namespace c20

#endif  // C20_CHECKS_H_

// C20 — monitor assertions on one simplex given in permutahedral representation (shared by the lattice and the locate units).
#ifndef C20_CHECKS_H_
#define C20_CHECKS_H_

#include <iostream>
#include <gudhi/Permutahedral_representation.h>
#include "common/vh.h"
#include "fk_oracle.h"

// like vh::Case::expect, but the detail text is only built when the comparison fails
#define C20_EXPECT(c, cond, check, sig, detail) ((cond) ? ((c).count(std::string("cmp.") + (check)), true) : (c).expect(false, (check), (sig), (detail)))

// the instantiation under test: coordinate type of a vertex / index type inside a part (the alternate unit sets long / unsigned)
#ifndef C20_COORD
#define C20_COORD int
#endif
#ifndef C20_INDEX
#define C20_INDEX std::size_t
#endif

namespace c20 {

using Vertex = std::vector<C20_COORD>;
using Part = std::vector<C20_INDEX>;
using Partition = std::vector<Part>;
using PR = Gudhi::coxeter_triangulation::Permutahedral_representation<Vertex, Partition>;

inline PR make_pr(const fk::Rep& r) {
  Partition P;
  for (auto& p : r.parts) P.emplace_back(p.begin(), p.end());
  return PR(Vertex(r.v.begin(), r.v.end()), P);
}
inline PR make_pr(const fk::Simplex& s) { return make_pr(fk::to_rep(s)); }  // to_rep lists every part in increasing order

inline fk::Vertex to_fk(const Vertex& v) { return fk::Vertex(v.begin(), v.end()); }

inline std::string show(const PR& s) {
  std::string o = fk::show(to_fk(s.vertex())) + "[";
  for (std::size_t j = 0; j < s.partition().size(); ++j) {
    if (j) o += "|";
    for (std::size_t i = 0; i < s.partition()[j].size(); ++i) { if (i) o += ","; o += std::to_string(s.partition()[j][i]); }
  }
  return o + "]";
}

// vertices in the order the library enumerates them
inline std::vector<fk::Vertex> raw_vertices(const PR& s) {
  std::vector<fk::Vertex> out;
  for (auto& v : s.vertex_range()) out.emplace_back(v.begin(), v.end());
  return out;
}

inline std::string sg(std::size_t d, std::size_t dim) { return "d=" + std::to_string(d) + ",dim=" + std::to_string(dim); }

// is the representation an ordered partition of {0..d} into non-empty parts with d in the last part?  (precondition of the
// iterators; used as a guard before a library-produced representation is fed back to the library, and as a check on locate_point)
inline bool wellformed(const PR& s, std::size_t d) {
  if (s.vertex().size() != d || s.partition().empty()) return false;
  std::vector<int> seen(d + 1, 0);
  for (auto& p : s.partition()) {
    if (p.empty()) return false;
    for (auto i : p) { if (i > d || seen[i]) return false; seen[i] = 1; }
  }
  for (int x : seen) if (!x) return false;
  auto& last = s.partition().back();
  return std::find(last.begin(), last.end(), d) != last.end();
}

inline bool parts_sorted(const PR& s) {
  for (auto& p : s.partition()) if (!std::is_sorted(p.begin(), p.end())) return false;
  return true;
}

// a finding that does not end the case (the state has not diverged): reported once per (case, check, signature)
inline void soft_violation(vh::Case& c, const std::string& check, const std::string& sig, const std::string& detail) {
  static std::set<std::string> reported; static long reported_case = -1;
  c.count("cmp." + check);
  if (reported_case != c.k) { reported.clear(); reported_case = c.k; }
  if (reported.insert(check + "|" + sig).second) c.violation(check, sig, detail);
  else c.failed = true;
}

// operator== is documented as "true if and only if both vertex and the ordered set partition coincide", and the library lists the
// elements of every part in increasing order (face_range, coface_range; the module's own tests expect the same of locate_point).
// A LIBRARY-PRODUCED representation s of the vertex set V must therefore compare equal to the representation of V whose parts are
// listed in increasing order - otherwise one simplex reached by two routes of the library is not == to itself.
inline bool canonical_check(vh::Case& c, const PR& s, const fk::Simplex& V, const std::string& origin) {
  PR canon = make_pr(V);
  const bool eq = (s == canon), ne = (s != canon);
  if (eq && !ne) { c.count("cmp.rep.canonical"); return true; }
  soft_violation(c, "rep.canonical", origin + (eq != ne ? (parts_sorted(s) ? ",parts_sorted" : ",part_not_sorted") : ",operators_inconsistent"),
                 show(s) + " (" + origin + ") is not operator== to " + show(canon) + ", the representation of the same vertex set " + fk::show(V) +
                 " with every part in increasing order; == says " + vh::str(eq) + ", != says " + vh::str(ne));
  return false;
}

// Vertex set of s, validated: dimension+1 distinct lattice points forming a simplex of the triangulation.  false => reported.
inline bool vertex_checks(vh::Case& c, const PR& s, std::size_t d, const std::string& origin, fk::Simplex& V, const fk::Simplex* model) {
  const std::size_t dim = s.dimension();
  const std::string sig = origin + "," + sg(d, dim);
  std::vector<fk::Vertex> raw = raw_vertices(s);
  c.count("obs.vertex_range");
  if (!C20_EXPECT(c, raw.size() == dim + 1, "vertices.count", sig, show(s) + " enumerates " + vh::str(raw.size()) + " vertices, dimension()+1 = " + vh::str(dim + 1))) return false;
  for (auto& v : raw) if (!C20_EXPECT(c, v.size() == d, "vertices.ambient_dimension", sig, show(s) + " vertex of size " + vh::str(v.size()))) return false;
  V = fk::normalized(raw);
  if (!C20_EXPECT(c, fk::all_distinct(V), "vertices.distinct", sig, show(s) + " -> " + fk::show(V))) return false;
  if (!C20_EXPECT(c, fk::is_simplex(V), "vertices.valid_simplex", sig, show(s) + " -> " + fk::show(V) + " is not a chain in a unit cube")) return false;
  if (model && !C20_EXPECT(c, V == *model, "vertices.match_model", sig, show(s) + " -> " + fk::show(V) + " expected " + fk::show(*model))) return false;
  if (!C20_EXPECT(c, to_fk(s.vertex()) == V.front(), "rep.vertex_lexmin", sig, show(s) + ": vertex() is not the lexicographically minimal vertex " + fk::show(V.front()))) return false;
  return true;
}

// face_range(k) for every k, facet_range: exactly the (k+1)-subsets, each recognised by is_face_of.
inline bool face_checks(vh::Case& c, const PR& s, std::size_t d, const std::string& origin, const fk::Simplex& V, std::vector<PR>* all_faces) {
  const std::size_t dim = s.dimension();
  for (std::size_t k = 0; k <= dim; ++k) {
    const std::string sig = origin + "," + sg(d, dim) + ",k=" + std::to_string(k);
    std::vector<PR> faces;
    for (auto& f : s.face_range(k)) faces.push_back(f);
    c.count("obs.face_range");
    c.count("obs.faces_listed", faces.size());
    std::set<fk::Simplex> want, got;
    fk::subsets_of_size(V, k + 1, want);
    if (!C20_EXPECT(c, faces.size() == fk::binom((unsigned)dim + 1, (unsigned)k + 1), "faces.count", sig,
                  show(s) + " face_range(" + vh::str(k) + ") lists " + vh::str(faces.size()) + " faces")) return false;
    for (auto& f : faces) {
      if (!C20_EXPECT(c, f.dimension() == k, "faces.dimension", sig, show(f) + " has dimension " + vh::str(f.dimension()))) return false;
      std::vector<fk::Vertex> raw = raw_vertices(f);
      fk::Simplex Vf = fk::normalized(raw);
      if (!C20_EXPECT(c, raw.size() == k + 1 && fk::all_distinct(Vf), "faces.vertices_distinct", sig, show(f) + " -> " + fk::show(Vf))) return false;
      if (!C20_EXPECT(c, want.count(Vf) == 1, "faces.set_equal", sig + ",not_a_subset", show(s) + " lists face " + show(f) + " -> " + fk::show(Vf) + " which is not a vertex subset of " + fk::show(V))) return false;
      if (!C20_EXPECT(c, got.insert(Vf).second, "faces.set_equal", sig + ",duplicate", show(s) + " lists face " + fk::show(Vf) + " twice")) return false;
      canonical_check(c, f, Vf, "from_face_range");
      c.count("obs.is_face_of");
      if (!C20_EXPECT(c, f.is_face_of(s), "faces.is_face_of", sig, show(f) + " listed by face_range of " + show(s) + " but is_face_of says false")) return false;
      if (k < dim) {
        c.count("obs.is_face_of");
        if (!C20_EXPECT(c, !s.is_face_of(f), "is_face_of.matches_subset", sig + ",want=false,larger_in_smaller", show(s) + ".is_face_of(" + show(f) + ") is true")) return false;
      }
    }
    if (!C20_EXPECT(c, got == want, "faces.set_equal", sig + ",missing", show(s) + " face_range(" + vh::str(k) + ") misses a subset")) return false;
    if (k + 1 == dim) {
      std::set<fk::Simplex> fg;
      for (auto& f : s.facet_range()) fg.insert(fk::normalized(raw_vertices(f)));
      c.count("obs.facet_range");
      if (!C20_EXPECT(c, fg == want, "facets.set_equal", sig, show(s) + " facet_range differs from the " + vh::str(dim) + "-subsets")) return false;
    }
    if (all_faces) for (auto& f : faces) all_faces->push_back(f);
  }
  return true;
}

struct CofaceOpts {
  std::uint64_t cap = 3000;        // coface sets larger than this (closed-form count) are skipped
  std::size_t converse_sample = 48;  // how many listed cofaces are checked back through face_range
  std::size_t face_sample = 1000;    // how many listed faces are checked back through coface_range
};

// coface_range(l) for l = dim..d, cofacet_range: contains s, right dimension, valid, recognised, and the set equals the oracle's.
inline bool coface_checks(vh::Case& c, const PR& s, std::size_t d, const std::string& origin, const fk::Simplex& V, const CofaceOpts& o,
                          std::vector<PR>* sample_out) {
  const std::size_t dim = s.dimension();
  // representation-level converse (operator==) is demanded of representations the library produced itself and of built ones whose
  // parts are listed in increasing order; a built representation with shuffled parts is only compared as a vertex set
  const bool demand_eq = origin != "built" || parts_sorted(s);
  const std::string eq_tag = origin + (parts_sorted(s) ? "" : ",part_not_sorted");
  std::vector<std::size_t> sizes;
  for (auto& p : s.partition()) sizes.push_back(p.size());
  for (std::size_t l = dim; l <= d; ++l) {
    const std::string sig = origin + "," + sg(d, dim) + ",l=" + std::to_string(l);
    std::uint64_t expect_n = fk::coface_count(sizes, l);
    if (expect_n > o.cap) { c.count("skip.coface_set_too_large"); continue; }
    std::set<fk::Simplex> want;
    fk::cofaces(V, l, want);
    if (!C20_EXPECT(c, want.size() == expect_n, "oracle.selfcheck", "coface_count_formula", "oracle enumerates " + vh::str(want.size()) + " cofaces, closed form says " + vh::str(expect_n) + " for " + fk::show(V) + " l=" + vh::str(l))) return false;
    std::vector<PR> cof;
    for (auto& x : s.coface_range(l)) {
      cof.push_back(x);
      if (cof.size() > 4 * expect_n + 16) break;  // a runaway iterator is reported below as a wrong set, not as a hang
    }
    c.count("obs.coface_range");
    c.count("obs.cofaces_listed", cof.size());
    if (l > dim && expect_n > 1) c.count("obs.coface_range.proper_nontrivial");
    std::set<fk::Simplex> got;
    for (auto& x : cof) {
      if (!C20_EXPECT(c, x.dimension() == l, "cofaces.dimension", sig, show(x) + " listed by coface_range(" + vh::str(l) + ") of " + show(s) + " has dimension " + vh::str(x.dimension()))) return false;
      if (!C20_EXPECT(c, wellformed(x, d), "cofaces.wellformed", sig, show(x) + " listed as coface of " + show(s) + " is not an ordered partition of 0..d with d in the last part")) return false;
      std::vector<fk::Vertex> raw = raw_vertices(x);
      fk::Simplex Vx = fk::normalized(raw);
      if (!C20_EXPECT(c, raw.size() == l + 1 && fk::is_simplex(Vx), "cofaces.valid_simplex", sig, show(x) + " -> " + fk::show(Vx))) return false;
      if (!C20_EXPECT(c, fk::subset(V, Vx), "cofaces.contains", sig, "coface " + show(x) + " -> " + fk::show(Vx) + " does not contain " + fk::show(V))) return false;
      c.count("obs.is_face_of");
      if (!C20_EXPECT(c, s.is_face_of(x), "cofaces.is_face_of", sig, show(s) + ".is_face_of(" + show(x) + ") is false for a listed coface")) return false;
      if (!C20_EXPECT(c, got.insert(Vx).second, "cofaces.set_equal", sig + ",duplicate", "coface " + fk::show(Vx) + " of " + show(s) + " listed twice")) return false;
      canonical_check(c, x, Vx, "from_coface_range");
    }
    if (got != want) {
      std::string det = show(s) + " coface_range(" + vh::str(l) + "): listed " + vh::str(got.size()) + ", oracle " + vh::str(want.size());
      bool missing = false, extra = false;
      for (auto& w : want) if (!got.count(w)) { if (!missing) det += "; missing " + fk::show(w); missing = true; }
      for (auto& g : got) if (!want.count(g)) { if (!extra) det += "; extra " + fk::show(g); extra = true; }
      c.count("cmp.cofaces.set_equal");
      c.violation("cofaces.set_equal", sig + (missing ? ",missing" : "") + (extra ? ",extra" : ""), det);
      return false;
    }
    c.count("cmp.cofaces.set_equal");
    if (l == dim + 1) {
      std::set<fk::Simplex> cg;
      for (auto& x : s.cofacet_range()) { cg.insert(fk::normalized(raw_vertices(x))); if (cg.size() > 4 * expect_n + 16) break; }
      c.count("obs.cofacet_range");
      if (!C20_EXPECT(c, cg == want, "cofacets.set_equal", sig, show(s) + " cofacet_range differs from the oracle's cofacets")) return false;
    }
    // converse: s is listed among the dim-faces of each listed coface
    std::size_t stride = std::max<std::size_t>(1, cof.size() / std::max<std::size_t>(1, o.converse_sample));
    for (std::size_t i = c.rng.below(stride); i < cof.size(); i += stride) {
      bool found = false, found_eq = false;
      for (auto& f : cof[i].face_range(dim)) if (fk::normalized(raw_vertices(f)) == V) { found = true; if (f == s) found_eq = true; }
      c.count("obs.converse.face_of_coface");
      if (!C20_EXPECT(c, found, "converse.face_of_coface", sig, show(s) + " is not among face_range(" + vh::str(dim) + ") of its listed coface " + show(cof[i]))) return false;
      if (demand_eq) {
        c.count("obs.converse.face_of_coface_eq");
        if (found_eq) c.count("cmp.converse.face_of_coface_eq");
        else soft_violation(c, "converse.face_of_coface_eq", eq_tag, show(s) + " is among face_range(" + vh::str(dim) + ") of its listed coface " + show(cof[i]) + " as a vertex set, but no listed face is operator== to it");
      }
      if (sample_out && sample_out->size() < 64 && c.rng.chance(1, 4)) sample_out->push_back(cof[i]);
    }
  }
  return true;
}

// converse the other way: s is listed among the dim-cofaces of each of its faces
inline bool coface_of_face_checks(vh::Case& c, const PR& s, std::size_t d, const std::string& origin, const fk::Simplex& V,
                                  const std::vector<PR>& faces, const CofaceOpts& o) {
  const std::size_t dim = s.dimension();
  const bool demand_eq = origin != "built" || parts_sorted(s);
  const std::string eq_tag = origin + (parts_sorted(s) ? "" : ",part_not_sorted");
  const std::size_t stride = std::max<std::size_t>(1, faces.size() / std::max<std::size_t>(1, o.face_sample));
  for (std::size_t fi = c.rng.below(stride); fi < faces.size(); fi += stride) {
    const PR& f = faces[fi];
    std::vector<std::size_t> sizes;
    for (auto& p : f.partition()) sizes.push_back(p.size());
    if (!wellformed(f, d)) { c.count("skip.face_rep_not_wellformed"); continue; }
    if (fk::coface_count(sizes, dim) > o.cap) { c.count("skip.coface_set_too_large"); continue; }
    bool found = false, found_eq = false;
    std::size_t n = 0;
    for (auto& x : f.coface_range(dim)) { if (fk::normalized(raw_vertices(x)) == V) { found = true; if (x == s) found_eq = true; } if (++n > 4 * o.cap + 16) break; }
    c.count("obs.converse.coface_of_face");
    if (!C20_EXPECT(c, found, "converse.coface_of_face", origin + "," + sg(d, dim) + ",k=" + std::to_string(f.dimension()),
                  show(s) + " is not among coface_range(" + vh::str(dim) + ") of its listed face " + show(f))) return false;
    if (demand_eq) {
      c.count("obs.converse.coface_of_face_eq");
      if (found_eq) c.count("cmp.converse.coface_of_face_eq");
      else soft_violation(c, "converse.coface_of_face_eq", eq_tag, show(s) + " is among coface_range(" + vh::str(dim) + ") of its listed face " + show(f) + " as a vertex set, but no listed coface is operator== to it");
    }
  }
  return true;
}

// Light representation-level checks of one LIBRARY-PRODUCED representation s (used on every located simplex): s must be operator== to
// itself as listed by the other routes of the library - the one face and the one coface of its own dimension, a listed face of
// (a sample of) its cofacets, a listed coface of (a sample of) its facets.  Findings do not end the case.
inline void route_eq_checks(vh::Case& c, const PR& s, std::size_t d, const std::string& origin, const fk::Simplex& V, std::uint64_t cap) {
  const std::size_t dim = s.dimension();
  const std::string tag = origin + (parts_sorted(s) ? "" : ",part_not_sorted");
  std::vector<std::size_t> sizes;
  for (auto& p : s.partition()) sizes.push_back(p.size());
  {
    std::size_t n = 0, eq = 0;
    for (auto& f : s.face_range(dim)) { if (f == s) ++eq; if (++n > 4) break; }
    c.count("obs.rep_eq.self_face");
    if (n == 1 && eq == 1) c.count("cmp.rep.eq_self_listed");
    else soft_violation(c, "rep.eq_self_listed", tag + ",route=face_range", show(s) + ": face_range(" + vh::str(dim) + ") lists " + vh::str(n) + " faces of its own dimension, " + vh::str(eq) + " of them operator== to it");
  }
  {
    std::size_t n = 0, eq = 0;
    for (auto& x : s.coface_range(dim)) { if (x == s) ++eq; if (++n > 4) break; }
    c.count("obs.rep_eq.self_coface");
    if (n == 1 && eq == 1) c.count("cmp.rep.eq_self_listed");
    else soft_violation(c, "rep.eq_self_listed", tag + ",route=coface_range", show(s) + ": coface_range(" + vh::str(dim) + ") lists " + vh::str(n) + " cofaces of its own dimension, " + vh::str(eq) + " of them operator== to it");
  }
  if (dim < d) {
    if (fk::coface_count(sizes, dim + 1) > cap) c.count("skip.coface_set_too_large");
    else {
      std::vector<PR> cof;
      for (auto& x : s.cofacet_range()) { cof.push_back(x); if (cof.size() > 4 * cap + 16) break; }
      const std::size_t stride = std::max<std::size_t>(1, cof.size() / 6);
      for (std::size_t i = c.rng.below(stride); i < cof.size(); i += stride) {
        bool found = false, found_eq = false;
        for (auto& f : cof[i].face_range(dim)) if (fk::normalized(raw_vertices(f)) == V) { found = true; if (f == s) found_eq = true; }
        c.count("obs.converse.face_of_coface");
        c.count("obs.converse.face_of_coface_eq");
        if (!found) soft_violation(c, "converse.face_of_coface", origin + "," + sg(d, dim) + ",l=" + std::to_string(dim + 1), show(s) + " is not among face_range(" + vh::str(dim) + ") of its listed cofacet " + show(cof[i]));
        else if (!found_eq) soft_violation(c, "converse.face_of_coface_eq", tag, show(s) + " is among face_range(" + vh::str(dim) + ") of its listed cofacet " + show(cof[i]) + " as a vertex set, but no listed face is operator== to it");
        else c.count("cmp.converse.face_of_coface_eq");
      }
    }
  }
  if (dim > 0) {
    std::vector<PR> fac;
    for (auto& f : s.facet_range()) { fac.push_back(f); if (fac.size() > dim + 8) break; }
    const std::size_t stride = std::max<std::size_t>(1, fac.size() / 4);
    for (std::size_t i = c.rng.below(stride); i < fac.size(); i += stride) {
      const PR& f = fac[i];
      if (!wellformed(f, d)) { c.count("skip.face_rep_not_wellformed"); continue; }
      std::vector<std::size_t> fs;
      for (auto& p : f.partition()) fs.push_back(p.size());
      if (fk::coface_count(fs, dim) > cap) { c.count("skip.coface_set_too_large"); continue; }
      bool found = false, found_eq = false;
      std::size_t n = 0;
      for (auto& x : f.coface_range(dim)) { if (fk::normalized(raw_vertices(x)) == V) { found = true; if (x == s) found_eq = true; } if (++n > 4 * cap + 16) break; }
      c.count("obs.converse.coface_of_face");
      c.count("obs.converse.coface_of_face_eq");
      if (!found) soft_violation(c, "converse.coface_of_face", origin + "," + sg(d, dim) + ",k=" + std::to_string(dim - 1), show(s) + " is not among cofacet_range of its listed facet " + show(f));
      else if (!found_eq) soft_violation(c, "converse.coface_of_face_eq", tag, show(s) + " is among the cofacets of its listed facet " + show(f) + " as a vertex set, but no listed cofacet is operator== to it");
      else c.count("cmp.converse.coface_of_face_eq");
    }
  }
}

// is_face_of(a, b) must be the subset relation of the vertex sets
inline bool is_face_of_check(vh::Case& c, const PR& a, const fk::Simplex& Va, const PR& b, const fk::Simplex& Vb, std::size_t d, const std::string& relation) {
  bool want = fk::subset(Va, Vb);
  bool got = a.is_face_of(b);
  c.count("obs.is_face_of");
  c.count(want ? "obs.is_face_of.want_true" : "obs.is_face_of.want_false");
  return C20_EXPECT(c, got == want, "is_face_of.matches_subset", "d=" + std::to_string(d) + ",want=" + (want ? "true" : "false") + "," + relation,
                  show(a) + ".is_face_of(" + show(b) + ") = " + vh::str(got) + "; vertex sets " + fk::show(Va) + " vs " + fk::show(Vb));
}

}  // namespace c20

#endif  // C20_CHECKS_H_

SPEC = {
    "property": "C20",
    "rule": "LATTICE unit: a case is one simplex in permutahedral representation (star_dN: the k-th simplex, in lexicographic order of vertex "
            "sets, of the oracle-enumerated star of a lattice vertex in ambient dimension N = 1..4 - round 0 at the origin, later rounds "
            "randomly translated and with shuffled part order; rand_lo / rand_hi: random ordered partition and vertex, d = 1..4 / 5..6). "
            "For it, for a sample of the simplices the library derives from it, and for located simplices: vertex_range gives dimension+1 "
            "distinct lattice points forming a chain in a unit cube; face_range(k) for every k and facet_range equal the (k+1)-subsets of "
            "the vertex set (compared as sets of integer vectors, no duplicates) and each is recognised by is_face_of; coface_range(l) for "
            "every l (closed-form size <= cap) and cofacet_range equal the oracle's set of all l-simplices of the Freudenthal-Kuhn "
            "triangulation containing it (naive chain search, cross-checked against a closed form and against the permutation phrasing of "
            "the definition), each contains it, has dimension l, is recognised by is_face_of; conversely the simplex is listed among the "
            "faces of its listed cofaces and among the cofaces of its listed faces; is_face_of equals vertex-set inclusion against every "
            "simplex of the same star (both directions) and against random faces / cofaces / cofaces of faces / translates / neighbours. "
            "LOCATE units: a case is one triangulation (Freudenthal default / matrix+offset through every constructor and change_* path / "
            "Coxeter type A, d = 1..6, scale in {.5,1,2,3,4}) queried at ~25 points: lattice vertices, generic points, barycenter() and "
            "dyadic-weight points of faces of a located simplex, points with weight 2^-18 resp. 2^-40 on the extra vertices of a coface. "
            "For each: the returned representation is an ordered partition of 0..d with d last, its vertices form a simplex, the point is a "
            "convex combination of their Cartesian coordinates (Eigen least squares, residual and weights at 1e-7), no returned vertex has "
            "weight <= 1e-10 (documented snapping 1e-9), every vertex with weight > 1e-6 in any top simplex {y, y+e_p(1), ...} containing "
            "the point (all permutations, all unit cubes within 1e-6) is returned, and in the exact set-up (identity map, power-of-two "
            "scale, dyadic weights) the returned vertex set is exactly the expected face. cartesian_coordinates and barycenter are compared "
            "with M v / scale + b and the vertex mean. "
            "non-trivial = lattice case whose simplex has 0 < dimension < d (proper faces and proper cofaces), locate case that located a "
            "face point of a face with 0 < dimension < d; distinct by hash of the case history.",
    "assumptions": [
        "simplices handed to the library are ordered partitions of {0..d} into non-empty parts with d in the last part (what locate_point, "
        "face_range and coface_range produce, and what Coface_iterator requires); the order inside a part is arbitrary",
        "face_range / coface_range are called with dimensions inside their documented ranges only",
        "lattice coordinates stay below 2^11, matrices have condition number < ~30, scales in [0.5, 4]",
        "a returned vertex is called negligible below weight 1e-10 and mandatory above 1e-6; the library's own merging threshold is 1e-9 in "
        "lattice coordinates, weights in between are accepted either way",
        "trusted: fk_oracle.h (chains in a unit cube), Eigen's dense solvers, libstdc++",
    ],
    "units": [
        {"name": "lattice", "src": ["c20_lattice.cpp"], "variant": "asan",
         "configs": {"star_d1": {"quick": 30, "thorough": 300}, "star_d2": {"quick": 130, "thorough": 1300},
                     "star_d3": {"quick": 300, "thorough": 3000}, "star_d4": {"quick": 541, "thorough": 2705},
                     "rand_lo": {"quick": 1500, "thorough": 30000}, "rand_hi": {"quick": 400, "thorough": 6000}},
         "chunk": 10},
        {"name": "locate_fk", "src": ["c20_locate.cpp"], "variant": "asan",
         "configs": {"fk_identity": {"quick": 400, "thorough": 8000}, "fk_affine": {"quick": 400, "thorough": 8000}}, "chunk": 10},
        {"name": "locate_cox", "src": ["c20_locate.cpp"], "variant": "asan", "defs": ["C20_COX"],
         "configs": {"coxeter": {"quick": 400, "thorough": 8000}}, "chunk": 10},
    ],
    "floors": {
        "quick": {"exh.star_d1.round0": 3, "exh.star_d2.round0": 13, "exh.star_d3.round0": 75, "exh.star_d4.round0": 541,
                  "obs.coface_range.proper_nontrivial": 15000, "obs.cofaces_listed": 500000, "obs.faces_listed": 100000,
                  "obs.is_face_of.want_true": 40000, "obs.is_face_of.want_false": 300000,
                  "obs.converse.face_of_coface": 100000, "obs.converse.coface_of_face": 12000,
                  "level2.face": 5000, "level2.coface": 2000, "shape.dim3.d6": 8, "shape.dim0.d5": 10,
                  "obs.locate_point": 14000, "obs.locate_point.lattice_vertex": 1000, "obs.locate_point.generic": 1000,
                  "obs.locate_point.face_barycenter": 4000, "obs.locate_point.face_dyadic_point": 4000,
                  "obs.locate_point.near_face_2e-18": 1200, "obs.locate_point.near_face_2e-40": 1200,
                  "obs.enumeration": 10000, "obs.barycenter": 4000, "obs.cartesian_coordinates": 1000,
                  "setup.fk_identity,exact": 120, "setup.fk_identity,scale3": 30, "setup.fk_affine.shear": 60,
                  "setup.fk_affine.rot_scale": 90, "setup.fk_affine.ctor2": 40, "setup.coxeter.offset": 80, "setup.coxeter.origin": 80,
                  "shape.located_dim6": 150, "shape.face_point_dim3": 600,
                  "_distinct_nontrivial": 1200},
        "thorough": {"exh.star_d1.round0": 3, "exh.star_d2.round0": 13, "exh.star_d3.round0": 75, "exh.star_d4.round0": 541,
                     "obs.coface_range.proper_nontrivial": 200000, "obs.cofaces_listed": 6000000, "obs.is_face_of.want_true": 500000,
                     "obs.locate_point": 400000, "obs.enumeration": 200000, "obs.locate_point.near_face_2e-40": 40000,
                     "_distinct_nontrivial": 20000},
    },
    "exhaustive": {"quick": False, "thorough": True},
    "exhaustive_note": "exhaustive only for this sub-space: every simplex of every dimension incident to one lattice vertex, ambient dimension "
                       "1..4 (3 / 13 / 75 / 541 simplices = every ordered set partition shape of {0..d}); each with all its faces, all its "
                       "cofaces of every dimension and the full is_face_of table of the star. Everything else (d = 5, 6, point location) is sampled.",
    "manifest": {
        "text": "Runtime monitor under ASan+UBSan. Face lattice: every simplex around a lattice vertex for ambient dimension <= 4 (exhaustive: all "
                "ordered set partition shapes) plus random simplices up to dimension 6 are pushed through vertex_range / face_range / "
                "facet_range / coface_range / cofacet_range / is_face_of and compared, as sets of integer vertices, with an independent model of "
                "the Freudenthal-Kuhn triangulation (simplices = chains of Z^d inside a unit cube), including the coface<->face converse in "
                "both directions. Point location: thousands of lattice vertices, generic points, face barycentres and points 2^-40 / 2^-18 "
                "away from faces, in Freudenthal (identity and random affine maps, every constructor / change_* path) and Coxeter "
                "triangulations, d <= 6, scales .5..4: the returned simplex must be a simplex, contain the point (barycentric solve in "
                "Cartesian coordinates), keep every vertex of non-negligible weight in every top simplex containing the point (brute-force "
                "enumeration), carry no vertex of weight <= 1e-10, and be exactly the constructed face where arithmetic is exact. "
                "Held-on-what-was-observed, not a proof; adequate because the combinatorics depend only on the ordered-partition shape "
                "(all enumerated up to d = 4) and point location only on the order and gaps of d fractional parts, which the constructed "
                "points hit on every face type.",
        "note": "trusted base: harness/c20_coxeter/fk_oracle.h, Eigen dense solvers, libstdc++. Inputs are ordered partitions with d in the last "
                "part; coordinates small; matrices well conditioned; weights between 1e-10 and 1e-6 are accepted either way.",
        "technique": "runtime monitoring: exhaustive small-scope enumeration + randomized inputs against a reference-model oracle, under AddressSanitizer/UBSan",
    },
}

SPEC = {
    "property": "C20",
    "rule": "LATTICE unit: a case is one simplex in permutahedral representation (star_dN: the k-th simplex, in lexicographic order of vertex "
            "sets, of the oracle-enumerated star of a lattice vertex in ambient dimension N = 1..4 - round 0 at the origin, later rounds "
            "randomly translated and with shuffled part order; rand_lo / rand_hi: random ordered partition and vertex, d = 1..4 / 5..6). "
            "For it, for a sample of the simplices the library derives from it, and for located simplices: vertex_range gives dimension+1 "
            "distinct lattice points forming a chain in a unit cube; face_range(k) for every k and facet_range equal the (k+1)-subsets of "
            "the vertex set (compared as sets of integer vectors, no duplicates) and each is recognised by is_face_of; coface_range(l) for "
            "every l (closed-form size <= cap) and cofacet_range equal the oracle's set of all l-simplices of the Freudenthal-Kuhn "
            "triangulation containing it (naive chain search, cross-checked against a closed form and against the permutation phrasing of "
            "the definition), each contains it, has dimension l, is recognised by is_face_of; conversely the simplex is listed among the "
            "faces of its listed cofaces and among the cofaces of its listed faces; is_face_of equals vertex-set inclusion against every "
            "simplex of the same star (both directions) and against random faces / cofaces / cofaces of faces / translates / neighbours. "
            "shapes: EVERY composition of d+1 as part sizes, d = 5, 6 (7 in thorough), random element assignment, ALL coface dimensions "
            "without a cap, judged by listed count == closed form sum prod (m_i+1)! S(n_i, m_i+1), every listed coface valid and all pairwise "
            "distinct (exact 2-bit-per-coordinate encoding) instead of an oracle set. box_d2 / box_d3: the full is_face_of table of all simplices "
            "whose minimal vertex lies in {-1,0,1}^d (54 / 702 simplices, every ordered pair, both directions) against vertex-set inclusion. "
            "The lattice translation unit is also built with g++'s ASan+UBSan (unit lattice_gcc, configs g_*: g++ reports loads of invalid bool "
            "values in copied end iterators, clang does not) and with Vertex = vector<long>, parts = vector<unsigned> (unit lattice_alt, alt_*). "
            "REPRESENTATION LEVEL (operator==, documented as equality of vertex and ordered partition): every face-listed, coface-listed and "
            "located representation is == to the representation of its vertex set whose parts are listed in increasing order; a located simplex "
            "is == to the one face and the one coface of its own dimension, to a listed face of its listed cofacets and to a listed cofacet of "
            "its listed facets; the same in the coface<->face converse of the lattice unit for every library-produced simplex. "
            "LOCATE units: a case is one triangulation (Freudenthal default / matrix+offset through every constructor and change_* path / "
            "Coxeter type A, d = 1..6, scale in {.5,1,2,3,4}; fk_scales: identity map, d in {1..6,8,10}, scale in {2^-10, 1e-3, 1000, 2^20}; "
            "fk_aniso: singular values 1e-2..1e2 between two random rotations, minimality judged only above the conditioning noise "
            "64 eps scale (|x|+|b|) / s_min) queried at ~25 points: lattice vertices, generic points, barycenter() and "
            "dyadic-weight points of faces of a located simplex, points with weight 2^-18 resp. 2^-40 on the extra vertices of a coface. "
            "For each: the returned representation is an ordered partition of 0..d with d last, its vertices form a simplex, the point is a "
            "convex combination of their Cartesian coordinates (Eigen least squares, residual and weights at 1e-7), no returned vertex has "
            "weight <= 1e-10 (documented snapping 1e-9), every vertex with weight > 1e-6 in any top simplex {y, y+e_p(1), ...} containing "
            "the point (all permutations, all unit cubes within 1e-6) is returned, and in the exact set-up (identity map, power-of-two "
            "scale, dyadic weights) the returned vertex set is exactly the expected face. cartesian_coordinates and barycenter are compared "
            "with M v / scale + b and the vertex mean. Every query is repeated through another documented argument form (Eigen::VectorXd, "
            "std::array, std::deque, scale argument omitted when it is 1) and must return the == representation. "
            "fk_wide: identity map, scale 2^-10..2^20, d in {1..6,8,10}, lattice coordinates up to 2^30 with fractional parts in 1/1024 "
            "(vertices, generic, tied sixteenths; also as vector<float> where representable): the returned vertex set must equal an integer-only "
            "oracle (floor vertex plus one vertex per distinct positive fractional value); cartesian_coordinates exact. "
            "non-trivial = lattice case whose simplex has 0 < dimension < d (proper faces and proper cofaces), locate case that located a "
            "face point of a face with 0 < dimension < d; distinct by hash of the case history.",
    "assumptions": [
        "simplices handed to the library are ordered partitions of {0..d} into non-empty parts with d in the last part (what locate_point, "
        "face_range and coface_range produce, and what Coface_iterator requires); the order inside a part of a harness-built simplex is "
        "arbitrary. Representations with d outside the last part are NOT exercised",
        "the canonical representation of a simplex lists every part in increasing order (what face_range / coface_range produce and what the "
        "module's own freud_triang_test expects of locate_point); operator== is only demanded between library-produced representations and "
        "harness-built ones in that form, never of a harness-built representation with shuffled parts",
        "face_range / coface_range are called with dimensions inside their documented ranges only (face_range(k > dim) is not exercised)",
        "lattice coordinates stay below 2^31 (Vertex coordinates are int; up to 2^30 in the exact class fk_wide, below 2^11 where a floating "
        "point solve judges the answer); matrices have condition number < ~30 except the fk_aniso class (1e4, tolerance scaled); scales in "
        "[0.5, 4] with matrices, in [2^-10, 2^20] with the identity map",
        "a returned vertex is called negligible below weight 1e-10 and mandatory above 1e-6; the library's own merging threshold is 1e-9 in "
        "lattice coordinates, weights in between are accepted either way",
        "trusted: fk_oracle.h (chains in a unit cube), Eigen's dense solvers, libstdc++",
    ],
    "units": [
        {"name": "lattice", "src": ["c20_lattice.cpp"], "variant": "asan",
         "configs": {"star_d1": {"quick": 30, "thorough": 300}, "star_d2": {"quick": 130, "thorough": 1300},
                     "star_d3": {"quick": 300, "thorough": 3000}, "star_d4": {"quick": 541, "thorough": 2705},
                     "rand_lo": {"quick": 1500, "thorough": 30000}, "rand_hi": {"quick": 400, "thorough": 6000},
                     "shapes": {"quick": 192, "thorough": 1120},
                     "box_d2": {"quick": 108, "thorough": 540}, "box_d3": {"quick": 702, "thorough": 3510}},
         "chunk": 10},
        # the same translation unit under g++'s sanitizers (invalid bool loads in copied end iterators are only reported by g++)
        {"name": "lattice_gcc", "src": ["c20_lattice.cpp"], "variant": "gasan", "defs": ["C20_GCC"],
         "configs": {"g_star_d3": {"quick": 75, "thorough": 300}, "g_rand_lo": {"quick": 120, "thorough": 3000},
                     "g_rand_hi": {"quick": 30, "thorough": 600}, "g_shapes": {"quick": 32, "thorough": 224}},
         "chunk": 10},
        # the same translation unit with Vertex = vector<long>, parts = vector<unsigned>
        {"name": "lattice_alt", "src": ["c20_lattice.cpp"], "variant": "asan", "defs": ["C20_ALT", "C20_COORD=long", "C20_INDEX=unsigned"],
         "configs": {"alt_star_d1": {"quick": 3, "thorough": 30}, "alt_star_d2": {"quick": 13, "thorough": 130},
                     "alt_star_d3": {"quick": 75, "thorough": 750}, "alt_rand_lo": {"quick": 200, "thorough": 3000},
                     "alt_rand_hi": {"quick": 40, "thorough": 600}, "alt_shapes": {"quick": 96, "thorough": 224},
                     "alt_box_d2": {"quick": 54, "thorough": 108}},
         "chunk": 10},
        {"name": "locate_fk", "src": ["c20_locate.cpp"], "variant": "asan",
         "configs": {"fk_identity": {"quick": 400, "thorough": 8000}, "fk_affine": {"quick": 400, "thorough": 8000},
                     "fk_scales": {"quick": 240, "thorough": 2400}, "fk_aniso": {"quick": 160, "thorough": 2000},
                     "fk_wide": {"quick": 240, "thorough": 4000}}, "chunk": 10},
        {"name": "locate_cox", "src": ["c20_locate.cpp"], "variant": "asan", "defs": ["C20_COX"],
         "configs": {"coxeter": {"quick": 400, "thorough": 8000}}, "chunk": 10},
    ],
    "floors": {
        "quick": {"exh.star_d1.round0": 3, "exh.star_d2.round0": 13, "exh.star_d3.round0": 75, "exh.star_d4.round0": 541,
                  "obs.coface_range.proper_nontrivial": 20000, "obs.cofaces_listed": 800000, "obs.faces_listed": 200000,
                  "obs.is_face_of.want_true": 60000, "obs.is_face_of.want_false": 850000,
                  "obs.converse.face_of_coface": 240000, "obs.converse.coface_of_face": 70000,
                  "level2.face": 7000, "level2.coface": 3000, "shape.dim3.d6": 8, "shape.dim0.d5": 10,
                  "obs.locate_point": 23000, "obs.locate_point.lattice_vertex": 1000, "obs.locate_point.generic": 1000,
                  "obs.locate_point.face_barycenter": 4000, "obs.locate_point.face_dyadic_point": 4000,
                  "obs.locate_point.near_face_2e-18": 1200, "obs.locate_point.near_face_2e-40": 1200,
                  "obs.enumeration": 10000, "obs.barycenter": 4000, "obs.cartesian_coordinates": 1000,
                  "setup.fk_identity,exact": 120, "setup.fk_identity,scale3": 30, "setup.fk_affine.shear": 60,
                  "setup.fk_affine.rot_scale": 90, "setup.fk_affine.ctor2": 40, "setup.coxeter.offset": 80, "setup.coxeter.origin": 80,
                  "shape.located_dim6": 150, "shape.face_point_dim3": 600,
                  # audit gaps now exercised (floors ~ half of what seeds 1-3 measure; the exh.* ones are exact)
                  "exh.shapes_d5.round0": 32, "exh.shapes_d6.round0": 64, "exh.box_d2.round0": 54, "exh.box_d3.round0": 702,
                  "exh.g_star_d3.round0": 75, "exh.g_shapes_d5.round0": 32,
                  "exh.alt_star_d3.round0": 75, "exh.alt_shapes_d6.round0": 64, "exh.alt_box_d2.round0": 54,
                  "obs.coface_range.uncapped": 600, "obs.cofaces_listed.shapes": 110000, "pairs.box_table_entries": 500000,
                  "cmp.rep.canonical": 1000000, "cmp.rep.eq_self_listed": 45000,
                  "obs.converse.face_of_coface_eq": 230000, "obs.converse.coface_of_face_eq": 70000,
                  "cmp.locate.argument_form_independent": 20000, "obs.locate_point.form.eigen_vector": 6500,
                  "obs.locate_point.form.std_array": 5900, "obs.locate_point.form.std_deque": 6800,
                  "obs.locate_point.form.eigen_vector,scale_omitted": 900, "obs.locate_point.form.float_vector": 90,
                  "obs.locate_point.coordinate_bits30": 900, "obs.locate_point.wide.tied_16ths": 900,
                  "obs.locate_point.wide.generic_1024ths": 900, "obs.locate_point.wide.lattice_vertex": 900,
                  "setup.d_8_10": 50, "shape.located_dim10": 19, "shape.located_dim8": 28, "shape.wide_located_dim10": 130,
                  "setup.fk_affine.aniso_cond1e4": 80, "setup.fk_identity,exact,scale_extreme": 55, "setup.fk_identity,scale_nondyadic": 55,
                  "setup.scale_index0": 25, "setup.scale_index1": 25, "setup.scale_index2": 25, "setup.scale_index3": 25,
                  "_distinct_nontrivial": 2000},
        "thorough": {"exh.star_d1.round0": 3, "exh.star_d2.round0": 13, "exh.star_d3.round0": 75, "exh.star_d4.round0": 541,
                     "exh.shapes_d5.round0": 32, "exh.shapes_d6.round0": 64, "exh.shapes_d7.round0": 128,
                     "exh.box_d2.round0": 54, "exh.box_d3.round0": 702, "exh.g_shapes_d7.round0": 128,
                     "obs.coface_range.proper_nontrivial": 200000, "obs.cofaces_listed": 6000000, "obs.is_face_of.want_true": 500000,
                     "obs.locate_point": 400000, "obs.enumeration": 200000, "obs.locate_point.near_face_2e-40": 40000,
                     "_distinct_nontrivial": 20000},
    },
    "exhaustive": {"quick": False, "thorough": True},
    "exhaustive_note": "exhaustive only for this sub-space: every simplex of every dimension incident to one lattice vertex, ambient dimension "
                       "1..4 (3 / 13 / 75 / 541 simplices = every ordered set partition shape of {0..d}); each with all its faces, all its "
                       "cofaces of every dimension and the full is_face_of table of the star; every part-size composition of d+1 for d = 5..7 "
                       "with all its coface sets (one random element assignment per round); the is_face_of table of all simplices based in "
                       "{-1,0,1}^d for d = 2, 3. Everything else (random simplices of d = 5, 6, point location) is sampled.",
    "manifest": {
        "text": "Runtime monitor under ASan+UBSan. Face lattice: every simplex around a lattice vertex for ambient dimension <= 4 (exhaustive: all "
                "ordered set partition shapes) plus random simplices up to dimension 6 are pushed through vertex_range / face_range / "
                "facet_range / coface_range / cofacet_range / is_face_of and compared, as sets of integer vertices, with an independent model of "
                "the Freudenthal-Kuhn triangulation (simplices = chains of Z^d inside a unit cube), including the coface<->face converse in "
                "both directions. Point location: thousands of lattice vertices, generic points, face barycentres and points 2^-40 / 2^-18 "
                "away from faces, in Freudenthal (identity and random affine maps, every constructor / change_* path) and Coxeter "
                "triangulations, d <= 6, scales .5..4: the returned simplex must be a simplex, contain the point (barycentric solve in "
                "Cartesian coordinates), keep every vertex of non-negligible weight in every top simplex containing the point (brute-force "
                "enumeration), carry no vertex of weight <= 1e-10, and be exactly the constructed face where arithmetic is exact. "
                "Also: all part-size compositions for d = 5..7 with uncapped coface sets (count / validity / distinctness), the is_face_of "
                "table of a 3^d box of base vertices, a g++-sanitizer build and a vector<long> / vector<unsigned> instantiation of the "
                "lattice unit, scales 2^-10..2^20, d = 8 and 10, lattice coordinates up to 2^30 against an integer oracle, a condition-1e4 "
                "map, Eigen / std::array / std::deque / float points and the defaulted scale, and operator== between the representations "
                "that locate_point, face_range and coface_range give of one simplex. "
                "Held-on-what-was-observed, not a proof; adequate because the combinatorics depend only on the ordered-partition shape "
                "(all enumerated up to d = 4) and point location only on the order and gaps of d fractional parts, which the constructed "
                "points hit on every face type.",
        "note": "trusted base: harness/c20_coxeter/fk_oracle.h, Eigen dense solvers, libstdc++. Inputs are ordered partitions with d in the last "
                "part; int coordinates; matrices well conditioned (one condition-1e4 class with scaled tolerance); weights between 1e-10 and 1e-6 "
                "are accepted either way; canonical representation = parts listed in increasing order.",
        "technique": "runtime monitoring: exhaustive small-scope enumeration + randomized inputs against a reference-model oracle, under AddressSanitizer/UBSan (clang and g++)",
    },
}

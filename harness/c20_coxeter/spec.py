SPEC = {
    "property": "C20",
    "rule": "TODO",
    "assumptions": [],
    "units": [
        {"name": "lattice", "src": ["c20_lattice.cpp"], "variant": "asan",
         "configs": {"star_d1": {"quick": 30, "thorough": 300}, "star_d2": {"quick": 130, "thorough": 1300},
                     "star_d3": {"quick": 300, "thorough": 3000}, "star_d4": {"quick": 541, "thorough": 2705},
                     "rand_lo": {"quick": 1500, "thorough": 60000}, "rand_hi": {"quick": 400, "thorough": 12000}},
         "chunk": 10},
        {"name": "locate_fk", "src": ["c20_locate.cpp"], "variant": "asan",
         "configs": {"fk_identity": {"quick": 400, "thorough": 20000}, "fk_affine": {"quick": 400, "thorough": 20000}}, "chunk": 10},
        {"name": "locate_cox", "src": ["c20_locate.cpp"], "variant": "asan", "defs": ["C20_COX"],
         "configs": {"coxeter": {"quick": 400, "thorough": 20000}}, "chunk": 10},
    ],
    "floors": {"quick": {}, "thorough": {}},
    "exhaustive": {"quick": False, "thorough": False},
    "manifest": {"text": "TODO", "note": "TODO", "technique": "runtime monitoring"},
}

// C20 (lattice part) — face lattice of simplices in permutahedral representation: vertices, faces, cofaces, is_face_of.
// Oracle: fk_oracle.h (simplices = chains of Z^d inside a unit cube, compared as sets of integer vertices).
// The same source is built three times (spec.py): clang ASan+UBSan with vector<int> / vector<vector<size_t>> (unit lattice), g++ ASan+UBSan
// (-DC20_GCC, unit lattice_gcc: g++'s UBSan reports loads of invalid bool values that clang optimises away) and with
// vector<long> / vector<vector<unsigned>> (-DC20_ALT -DC20_COORD=long -DC20_INDEX=unsigned, unit lattice_alt).
#include <array>
#include "c20_checks.h"

#if defined(C20_GCC)
#define C20_PFX "g_"
#elif defined(C20_ALT)
#define C20_PFX "alt_"
#else
#define C20_PFX ""
#endif

using namespace c20;

namespace {

// every simplex of every dimension incident to the origin vertex, ambient dimension d (oracle enumeration, cross-checked once
// against the permutation phrasing of the definition)
const std::vector<fk::Simplex>& star_of_origin(std::size_t d, vh::Case& c) {
  static std::map<std::size_t, std::vector<fk::Simplex>> cache;
  auto it = cache.find(d);
  if (it != cache.end()) return it->second;
  std::set<fk::Simplex> all, alt;
  fk::Simplex o{fk::Vertex(d, 0)};
  for (std::size_t l = 0; l <= d; ++l) fk::cofaces(o, l, all);
  fk::star_of_origin_by_permutations(d, alt);
  C20_EXPECT(c, all == alt, "oracle.selfcheck", "star_two_definitions", "chain enumeration " + vh::str(all.size()) + " vs permutation enumeration " + vh::str(alt.size()));
  auto& v = cache[d];
  v.assign(all.begin(), all.end());
  return v;
}

void shuffle_inside_parts(vh::Rng& r, fk::Rep& rep) {
  for (auto& p : rep.parts) r.shuffle(p);
}

fk::Rep random_rep(vh::Rng& r, std::size_t d, int span) {
  fk::Rep rep;
  rep.v.resize(d);
  for (auto& x : rep.v) x = (int)r.range(-span, span);
  std::size_t k = (std::size_t)r.below(d + 1);  // dimension
  std::vector<std::size_t> perm(d);
  for (std::size_t i = 0; i < d; ++i) perm[i] = i;
  r.shuffle(perm);
  // cut perm into k non-empty parts followed by a possibly empty remainder that joins d in the last part
  std::vector<std::size_t> cuts;  // k cut positions 1..d, strictly increasing
  {
    std::vector<std::size_t> pos(d);
    for (std::size_t i = 0; i < d; ++i) pos[i] = i + 1;
    r.shuffle(pos);
    cuts.assign(pos.begin(), pos.begin() + k);
    std::sort(cuts.begin(), cuts.end());
  }
  std::size_t from = 0;
  for (std::size_t j = 0; j < k; ++j) {
    rep.parts.emplace_back(perm.begin() + from, perm.begin() + cuts[j]);
    std::sort(rep.parts.back().begin(), rep.parts.back().end());
    from = cuts[j];
  }
  std::vector<std::size_t> last(perm.begin() + from, perm.end());
  last.push_back(d);
  std::sort(last.begin(), last.end());
  rep.parts.push_back(last);
  return rep;
}

// a simplex related to S in a chosen way (sorted vertex set); `kind` names the relation for the signature
fk::Simplex related(vh::Rng& r, const fk::Simplex& S, std::size_t d, std::string& kind) {
  auto random_face = [&](const fk::Simplex& T) {
    fk::Simplex f;
    while (f.empty()) { f.clear(); for (auto& v : T) if (r.chance(1, 2)) f.push_back(v); }
    return f;
  };
  auto grow = [&](fk::Simplex T, std::size_t steps) {
    for (std::size_t s = 0; s < steps && T.size() <= d; ++s) {
      auto cand = fk::candidates(T);
      if (cand.empty()) break;
      T.push_back(r.pick(cand));
      std::sort(T.begin(), T.end());
    }
    return T;
  };
  switch (r.below(7)) {
    case 0: kind = "rel=face"; return random_face(S);
    case 1: kind = "rel=coface"; return grow(S, 1 + r.below(3));
    case 2: kind = "rel=coface_of_face"; return grow(random_face(S), 1 + r.below(3));
    case 3: {
      kind = "rel=translate";
      fk::Vertex t(d, 0);
      if (r.chance(1, 3)) for (auto& x : t) x = 1;
      else if (r.chance(1, 2)) for (auto& x : t) x = -1;
      else t[r.below(d)] = r.chance(1, 2) ? 1 : -1;
      return fk::translated(S, t);
    }
    case 4: {
      kind = "rel=neighbour";
      fk::Rep rep = random_rep(r, d, 0);
      for (std::size_t i = 0; i < d; ++i) rep.v[i] = S[0][i] + (int)r.range(-1, 1);
      return fk::normalized(fk::from_rep(rep));
    }
    case 5: {
      kind = "rel=swap_vertex";  // replace one vertex of a coface by another candidate
      fk::Simplex T = grow(S, 1);
      fk::Simplex f = T;
      f.erase(f.begin() + r.below(f.size()));
      if (f.empty()) return T;
      return grow(f, 1);
    }
    default: kind = "rel=self"; return S;
  }
}

void full_checks(vh::Case& c, const PR& s, std::size_t d, const fk::Simplex& model, const CofaceOpts& o, std::size_t n_related) {
  vh::Rng& r = c.rng;
  fk::Simplex V;
  if (!vertex_checks(c, s, d, "built", V, &model)) return;
  std::vector<PR> faces, cofs;
  if (!face_checks(c, s, d, "built", V, &faces)) return;
  if (!coface_checks(c, s, d, "built", V, o, &cofs)) return;
  if (!coface_of_face_checks(c, s, d, "built", V, faces, o)) return;
  // library-produced representations are simplices too: vertices, faces, (small) coface sets of a sample of them
  CofaceOpts small = o; small.cap = std::min<std::uint64_t>(o.cap, 200); small.converse_sample = 6;
  r.shuffle(faces);
  for (std::size_t i = 0; i < faces.size() && i < 6; ++i) {
    fk::Simplex Vf;
    if (!wellformed(faces[i], d)) { c.violation("faces.wellformed", sg(d, s.dimension()), show(faces[i]) + " listed as face of " + show(s)); return; }
    if (!vertex_checks(c, faces[i], d, "from_face_range", Vf, nullptr)) return;
    if (!face_checks(c, faces[i], d, "from_face_range", Vf, nullptr)) return;
    if (!coface_checks(c, faces[i], d, "from_face_range", Vf, small, nullptr)) return;
    c.count("level2.face");
  }
  r.shuffle(cofs);
  for (std::size_t i = 0; i < cofs.size() && i < 6; ++i) {
    fk::Simplex Vx;
    if (!vertex_checks(c, cofs[i], d, "from_coface_range", Vx, nullptr)) return;
    if (!face_checks(c, cofs[i], d, "from_coface_range", Vx, nullptr)) return;
    if (!coface_checks(c, cofs[i], d, "from_coface_range", Vx, small, nullptr)) return;
    c.count("level2.coface");
  }
  // is_face_of against related simplices, both directions
  for (std::size_t i = 0; i < n_related; ++i) {
    std::string kind;
    fk::Simplex R = related(r, model, d, kind);
    fk::Rep rr = fk::to_rep(R);
    if (r.chance(1, 2)) shuffle_inside_parts(r, rr);
    PR p = make_pr(rr);
    if (!is_face_of_check(c, s, V, p, R, d, kind + ",dir=self_in_other")) return;
    if (!is_face_of_check(c, p, R, s, V, d, kind + ",dir=other_in_self")) return;
  }
}

void star_case(vh::Case& c, std::size_t d) {
  vh::Rng& r = c.rng;
  const auto& S = star_of_origin(d, c);
  if (c.failed) return;
  const std::size_t idx = (std::size_t)c.k % S.size();
  const std::size_t round = (std::size_t)c.k / S.size();
  fk::Vertex t(d, 0);
  if (round > 0) for (auto& x : t) x = (int)r.range(-9, 9);
  fk::Simplex model = fk::translated(S[idx], t);
  fk::Rep rep = fk::to_rep(model);
  if (round > 0 && r.chance(1, 2)) shuffle_inside_parts(r, rep);
  PR s = make_pr(rep);
  c.log("star d=" + vh::str(d) + " index=" + vh::str(idx) + " round=" + vh::str(round) + " simplex=" + show(s) + " = " + fk::show(model));
  CofaceOpts o; o.cap = 1000000; o.converse_sample = c.thorough ? 600 : 64;
  full_checks(c, s, d, model, o, 24);
  if (c.failed) return;
  // is_face_of against every simplex incident to the same vertex, both directions (exhaustive pair table of the star)
  fk::Simplex V = model;
  for (std::size_t j = 0; j < S.size(); ++j) {
    fk::Simplex R = fk::translated(S[j], t);
    PR p = make_pr(R);
    if (!is_face_of_check(c, s, V, p, R, d, "rel=star_pair,dir=self_in_other")) return;
    if (!is_face_of_check(c, p, R, s, V, d, "rel=star_pair,dir=other_in_self")) return;
  }
  c.count("pairs.star_table_rows");
  if (round == 0) c.count(std::string("exh.") + C20_PFX + "star_d" + vh::str(d) + ".round0");
  c.count("shape.dim" + vh::str(model.size() - 1) + ".d" + vh::str(d));
  if (model.size() > 1 && model.size() <= d) c.nontrivial(vh::hash_str(vh::G().history));
  c.sample("{\"history\":\"" + vh::jesc(vh::G().history.substr(0, 400)) + "\"}");
}

void rand_case(vh::Case& c, std::size_t dlo, std::size_t dhi, int span) {
  vh::Rng& r = c.rng;
  std::size_t d = (std::size_t)r.range((long)dlo, (long)dhi);
  fk::Rep rep = random_rep(r, d, span);
  fk::Simplex model = fk::normalized(fk::from_rep(rep));
  if (r.chance(1, 2)) shuffle_inside_parts(r, rep);
  PR s = make_pr(rep);
  c.log("rand d=" + vh::str(d) + " simplex=" + show(s) + " = " + fk::show(model));
  CofaceOpts o; o.cap = c.thorough ? 6000 : 1300; o.converse_sample = c.thorough ? 64 : 24; o.face_sample = c.thorough ? 32 : 12;
  full_checks(c, s, d, model, o, 40);
  if (c.failed) return;
  c.count("shape.dim" + vh::str(model.size() - 1) + ".d" + vh::str(d));
  if (model.size() > 1 && model.size() <= d) c.nontrivial(vh::hash_str(vh::G().history));
  c.sample("{\"history\":\"" + vh::jesc(vh::G().history.substr(0, 400)) + "\"}");
}

// ---------------------------------------------------------------------------------------------------------------- shapes
// Every composition (n_0,...,n_k) of d+1 as the part sizes of the ordered partition, d = 5, 6 (7 in the thorough tier), with a random
// assignment of the elements, and ALL coface dimensions without a cap.  The coface sets are too large for the oracle's chain search, so
// they are judged by: listed count == closed form, every listed coface valid (dimension, well-formed, chain in a unit cube, contains the
// simplex, recognised by is_face_of, canonical representation), all listed cofaces pairwise distinct.  count + valid + distinct => the set.
std::array<std::uint64_t, 2> encode_relative(const fk::Simplex& Vx, const fk::Vertex& base) {
  // exact encoding: every vertex of a coface lies in base + {-1,0,1}^d: 2 bits per coordinate, <= 8 vertices of <= 7 coordinates
  std::array<std::uint64_t, 2> code{0, 0};
  unsigned bit = 0;
  for (auto& v : Vx) for (std::size_t i = 0; i < v.size(); ++i) {
    std::uint64_t t = (std::uint64_t)(v[i] - base[i] + 1) & 3u;
    code[bit / 64] |= t << (bit % 64);
    bit += 2;
  }
  return code;
}

void shapes_case(vh::Case& c) {
  vh::Rng& r = c.rng;
  const std::size_t per_round = c.thorough ? 32 + 64 + 128 : 32 + 64;
  const std::size_t idx = (std::size_t)c.k % per_round, round = (std::size_t)c.k / per_round;
  std::size_t d; unsigned mask;
  if (idx < 32) { d = 5; mask = (unsigned)idx; } else if (idx < 96) { d = 6; mask = (unsigned)idx - 32; } else { d = 7; mask = (unsigned)idx - 96; }
  std::vector<std::size_t> sizes;  // composition of d+1: cut after position i iff bit i of mask
  { std::size_t run = 1; for (std::size_t i = 0; i < d; ++i) { if (mask >> i & 1) { sizes.push_back(run); run = 1; } else ++run; } sizes.push_back(run); }
  fk::Rep rep;
  rep.v.resize(d);
  for (auto& x : rep.v) x = (int)r.range(-10, 10);
  std::vector<std::size_t> perm(d);
  for (std::size_t i = 0; i < d; ++i) perm[i] = i;
  r.shuffle(perm);
  std::size_t pos = 0;
  for (std::size_t j = 0; j < sizes.size(); ++j) {
    const bool last = j + 1 == sizes.size();
    std::vector<std::size_t> part(perm.begin() + pos, perm.begin() + pos + sizes[j] - (last ? 1 : 0));
    pos += part.size();
    if (last) part.push_back(d);
    std::sort(part.begin(), part.end());
    rep.parts.push_back(part);
  }
  fk::Simplex model = fk::normalized(fk::from_rep(rep));
  if (round > 0 && r.chance(1, 2)) shuffle_inside_parts(r, rep);
  PR s = make_pr(rep);
  std::string shape;
  for (auto z : sizes) shape += (shape.empty() ? "" : "+") + vh::str(z);
  c.log("shape d=" + vh::str(d) + " composition=" + shape + " round=" + vh::str(round) + " simplex=" + show(s) + " = " + fk::show(model));
  fk::Simplex V;
  if (!vertex_checks(c, s, d, "built", V, &model)) return;
  if (!face_checks(c, s, d, "built", V, nullptr)) return;
  const std::size_t dim = s.dimension();
  const bool demand_eq = parts_sorted(s);
  for (std::size_t l = dim; l <= d; ++l) {
    const std::string sig = "shape," + sg(d, dim) + ",l=" + std::to_string(l);
    const std::uint64_t want_n = fk::coface_count(sizes, l);
    std::set<std::array<std::uint64_t, 2>> seen;
    std::uint64_t n = 0;
    for (auto& x : s.coface_range(l)) {
      if (++n > 4 * want_n + 16) break;
      if (!C20_EXPECT(c, x.dimension() == l, "cofaces.dimension", sig, show(x) + " listed by coface_range(" + vh::str(l) + ") of " + show(s) + " has dimension " + vh::str(x.dimension()))) return;
      if (!C20_EXPECT(c, wellformed(x, d), "cofaces.wellformed", sig, show(x) + " listed as coface of " + show(s) + " is not an ordered partition of 0..d with d in the last part")) return;
      fk::Simplex Vx = fk::normalized(raw_vertices(x));
      if (!C20_EXPECT(c, Vx.size() == l + 1 && fk::is_simplex(Vx), "cofaces.valid_simplex", sig, show(x) + " -> " + fk::show(Vx))) return;
      if (!C20_EXPECT(c, fk::subset(V, Vx), "cofaces.contains", sig, "coface " + show(x) + " -> " + fk::show(Vx) + " does not contain " + fk::show(V))) return;
      c.count("obs.is_face_of");
      if (!C20_EXPECT(c, s.is_face_of(x), "cofaces.is_face_of", sig, show(s) + ".is_face_of(" + show(x) + ") is false for a listed coface")) return;
      if (!C20_EXPECT(c, seen.insert(encode_relative(Vx, V.front())).second, "cofaces.set_equal", sig + ",duplicate", "coface " + fk::show(Vx) + " of " + show(s) + " listed twice")) return;
      canonical_check(c, x, Vx, "from_coface_range");
      if (n % 97 == 1) {
        bool found = false, found_eq = false;
        for (auto& f : x.face_range(dim)) if (fk::normalized(raw_vertices(f)) == V) { found = true; if (f == s) found_eq = true; }
        c.count("obs.converse.face_of_coface");
        if (!C20_EXPECT(c, found, "converse.face_of_coface", sig, show(s) + " is not among face_range(" + vh::str(dim) + ") of its listed coface " + show(x))) return;
        if (demand_eq) {
          c.count("obs.converse.face_of_coface_eq");
          if (found_eq) c.count("cmp.converse.face_of_coface_eq");
          else soft_violation(c, "converse.face_of_coface_eq", "built", show(s) + " is among the faces of its listed coface " + show(x) + " as a vertex set, but no listed face is operator== to it");
        }
      }
    }
    c.count("obs.coface_range");
    c.count("obs.coface_range.uncapped");
    c.count("obs.cofaces_listed", n);
    c.count("obs.cofaces_listed.shapes", n);
    if (l > dim && want_n > 1) c.count("obs.coface_range.proper_nontrivial");
    // all listed cofaces are valid and pairwise distinct: the listed set is the set of all l-cofaces iff the count is the closed form's
    if (!C20_EXPECT(c, n == want_n, "cofaces.count_closed_form", sig + (n < want_n ? ",missing" : ",extra"),
                    show(s) + " (part sizes " + shape + ") coface_range(" + vh::str(l) + ") lists " + vh::str(n) + " distinct valid cofaces, closed form sum prod (m_i+1)! S(n_i, m_i+1) = " + vh::str(want_n))) return;
  }
  if (c.failed) return;
  if (round == 0) c.count(std::string("exh.") + C20_PFX + "shapes_d" + vh::str(d) + ".round0");
  c.count("shape.dim" + vh::str(dim) + ".d" + vh::str(d));
  if (dim > 0 && dim < d) c.nontrivial(vh::hash_str(vh::G().history));
  c.sample("{\"history\":\"" + vh::jesc(vh::G().history.substr(0, 400)) + "\"}");
}

// ---------------------------------------------------------------------------------------------------------------- box
// Exhaustive is_face_of table over a box: every simplex whose lexicographically minimal vertex lies in {-1,0,1}^d (every ordered partition
// of {0..d} with d in the last part at each of the 3^d base vertices), against every other one, both directions.  Unlike the star table
// the two simplices need not share a vertex, and their base vertices differ in every possible direction.
struct Box { std::vector<fk::Simplex> V; std::vector<PR> rep; };
const Box& box_of(std::size_t d, vh::Case& c) {
  static std::map<std::size_t, Box> cache;
  auto it = cache.find(d);
  if (it != cache.end()) return it->second;
  const auto& S = star_of_origin(d, c);
  Box& B = cache[d];
  fk::Vertex v(d, -1), origin(d, 0);
  for (;;) {
    for (auto& s : S) if (s.front() == origin) { B.V.push_back(fk::translated(s, v)); B.rep.push_back(make_pr(B.V.back())); }
    std::size_t i = 0;
    for (; i < d; ++i) { if (v[i] < 1) { ++v[i]; break; } v[i] = -1; }
    if (i == d) break;
  }
  return B;
}

void box_case(vh::Case& c, std::size_t d) {
  vh::Rng& r = c.rng;
  const Box& B = box_of(d, c);
  if (c.failed) return;
  const std::size_t a = (std::size_t)c.k % B.V.size(), round = (std::size_t)c.k / B.V.size();
  fk::Rep rep = fk::to_rep(B.V[a]);
  if (round > 0) shuffle_inside_parts(r, rep);
  PR s = make_pr(rep);
  c.log("box d=" + vh::str(d) + " row=" + vh::str(a) + " round=" + vh::str(round) + " simplex=" + show(s) + " = " + fk::show(B.V[a]) + " against all " + vh::str(B.V.size()) + " simplices based in {-1,0,1}^d");
  fk::Simplex V;
  if (!vertex_checks(c, s, d, "built", V, &B.V[a])) return;
  for (std::size_t b = 0; b < B.V.size(); ++b) {
    if (!is_face_of_check(c, s, V, B.rep[b], B.V[b], d, "rel=box_pair,dir=self_in_other")) return;
    if (!is_face_of_check(c, B.rep[b], B.V[b], s, V, d, "rel=box_pair,dir=other_in_self")) return;
  }
  c.count("pairs.box_table_rows");
  c.count("pairs.box_table_entries", 2 * B.V.size());
  if (round == 0) c.count(std::string("exh.") + C20_PFX + "box_d" + vh::str(d) + ".round0");
  if (V.size() > 1 && V.size() <= d) c.nontrivial(vh::hash_str(vh::G().history));
  c.sample("{\"history\":\"" + vh::jesc(vh::G().history.substr(0, 400)) + "\"}");
}

}  // namespace

VH_CONFIG(C20_PFX "star_d1", [](vh::Case& c) { star_case(c, 1); });
VH_CONFIG(C20_PFX "star_d2", [](vh::Case& c) { star_case(c, 2); });
VH_CONFIG(C20_PFX "star_d3", [](vh::Case& c) { star_case(c, 3); });
VH_CONFIG(C20_PFX "star_d4", [](vh::Case& c) { star_case(c, 4); });
VH_CONFIG(C20_PFX "rand_lo", [](vh::Case& c) { rand_case(c, 1, 4, 1000); });
VH_CONFIG(C20_PFX "rand_hi", [](vh::Case& c) { rand_case(c, 5, 6, 40); });
VH_CONFIG(C20_PFX "shapes", shapes_case);
VH_CONFIG(C20_PFX "box_d2", [](vh::Case& c) { box_case(c, 2); });
VH_CONFIG(C20_PFX "box_d3", [](vh::Case& c) { box_case(c, 3); });
VH_MAIN()

// C20 (lattice part) — face lattice of simplices in permutahedral representation: vertices, faces, cofaces, is_face_of.
// Oracle: fk_oracle.h (simplices = chains of Z^d inside a unit cube, compared as sets of integer vertices).
#include "c20_checks.h"

using namespace c20;

namespace {

// every simplex of every dimension incident to the origin vertex, ambient dimension d (oracle enumeration, cross-checked once
// against the permutation phrasing of the definition)
const std::vector<fk::Simplex>& star_of_origin(std::size_t d, vh::Case& c) {
  static std::map<std::size_t, std::vector<fk::Simplex>> cache;
  auto it = cache.find(d);
  if (it != cache.end()) return it->second;
  std::set<fk::Simplex> all, alt;
  fk::Simplex o{Vertex(d, 0)};
  for (std::size_t l = 0; l <= d; ++l) fk::cofaces(o, l, all);
  fk::star_of_origin_by_permutations(d, alt);
  C20_EXPECT(c, all == alt, "oracle.selfcheck", "star_two_definitions", "chain enumeration " + vh::str(all.size()) + " vs permutation enumeration " + vh::str(alt.size()));
  auto& v = cache[d];
  v.assign(all.begin(), all.end());
  return v;
}

void shuffle_inside_parts(vh::Rng& r, fk::Rep& rep) {
  for (auto& p : rep.parts) r.shuffle(p);
}

fk::Rep random_rep(vh::Rng& r, std::size_t d, int span) {
  fk::Rep rep;
  rep.v.resize(d);
  for (auto& x : rep.v) x = (int)r.range(-span, span);
  std::size_t k = (std::size_t)r.below(d + 1);  // dimension
  std::vector<std::size_t> perm(d);
  for (std::size_t i = 0; i < d; ++i) perm[i] = i;
  r.shuffle(perm);
  // cut perm into k non-empty parts followed by a possibly empty remainder that joins d in the last part
  std::vector<std::size_t> cuts;  // k cut positions 1..d, strictly increasing
  {
    std::vector<std::size_t> pos(d);
    for (std::size_t i = 0; i < d; ++i) pos[i] = i + 1;
    r.shuffle(pos);
    cuts.assign(pos.begin(), pos.begin() + k);
    std::sort(cuts.begin(), cuts.end());
  }
  std::size_t from = 0;
  for (std::size_t j = 0; j < k; ++j) {
    rep.parts.emplace_back(perm.begin() + from, perm.begin() + cuts[j]);
    std::sort(rep.parts.back().begin(), rep.parts.back().end());
    from = cuts[j];
  }
  std::vector<std::size_t> last(perm.begin() + from, perm.end());
  last.push_back(d);
  std::sort(last.begin(), last.end());
  rep.parts.push_back(last);
  return rep;
}

// a simplex related to S in a chosen way (sorted vertex set); `kind` names the relation for the signature
fk::Simplex related(vh::Rng& r, const fk::Simplex& S, std::size_t d, std::string& kind) {
  auto random_face = [&](const fk::Simplex& T) {
    fk::Simplex f;
    while (f.empty()) { f.clear(); for (auto& v : T) if (r.chance(1, 2)) f.push_back(v); }
    return f;
  };
  auto grow = [&](fk::Simplex T, std::size_t steps) {
    for (std::size_t s = 0; s < steps && T.size() <= d; ++s) {
      auto cand = fk::candidates(T);
      if (cand.empty()) break;
      T.push_back(r.pick(cand));
      std::sort(T.begin(), T.end());
    }
    return T;
  };
  switch (r.below(7)) {
    case 0: kind = "rel=face"; return random_face(S);
    case 1: kind = "rel=coface"; return grow(S, 1 + r.below(3));
    case 2: kind = "rel=coface_of_face"; return grow(random_face(S), 1 + r.below(3));
    case 3: {
      kind = "rel=translate";
      Vertex t(d, 0);
      if (r.chance(1, 3)) for (auto& x : t) x = 1;
      else if (r.chance(1, 2)) for (auto& x : t) x = -1;
      else t[r.below(d)] = r.chance(1, 2) ? 1 : -1;
      return fk::translated(S, t);
    }
    case 4: {
      kind = "rel=neighbour";
      fk::Rep rep = random_rep(r, d, 0);
      for (std::size_t i = 0; i < d; ++i) rep.v[i] = S[0][i] + (int)r.range(-1, 1);
      return fk::normalized(fk::from_rep(rep));
    }
    case 5: {
      kind = "rel=swap_vertex";  // replace one vertex of a coface by another candidate
      fk::Simplex T = grow(S, 1);
      fk::Simplex f = T;
      f.erase(f.begin() + r.below(f.size()));
      if (f.empty()) return T;
      return grow(f, 1);
    }
    default: kind = "rel=self"; return S;
  }
}

void full_checks(vh::Case& c, const PR& s, std::size_t d, const fk::Simplex& model, const CofaceOpts& o, std::size_t n_related) {
  vh::Rng& r = c.rng;
  fk::Simplex V;
  if (!vertex_checks(c, s, d, "built", V, &model)) return;
  std::vector<PR> faces, cofs;
  if (!face_checks(c, s, d, "built", V, &faces)) return;
  if (!coface_checks(c, s, d, "built", V, o, &cofs)) return;
  if (!coface_of_face_checks(c, s, d, "built", V, faces, o)) return;
  // library-produced representations are simplices too: vertices, faces, (small) coface sets of a sample of them
  CofaceOpts small = o; small.cap = std::min<std::uint64_t>(o.cap, 200); small.converse_sample = 6;
  r.shuffle(faces);
  for (std::size_t i = 0; i < faces.size() && i < 6; ++i) {
    fk::Simplex Vf;
    if (!wellformed(faces[i], d)) { c.violation("faces.wellformed", sg(d, s.dimension()), show(faces[i]) + " listed as face of " + show(s)); return; }
    if (!vertex_checks(c, faces[i], d, "from_face_range", Vf, nullptr)) return;
    if (!face_checks(c, faces[i], d, "from_face_range", Vf, nullptr)) return;
    if (!coface_checks(c, faces[i], d, "from_face_range", Vf, small, nullptr)) return;
    c.count("level2.face");
  }
  r.shuffle(cofs);
  for (std::size_t i = 0; i < cofs.size() && i < 6; ++i) {
    fk::Simplex Vx;
    if (!vertex_checks(c, cofs[i], d, "from_coface_range", Vx, nullptr)) return;
    if (!face_checks(c, cofs[i], d, "from_coface_range", Vx, nullptr)) return;
    if (!coface_checks(c, cofs[i], d, "from_coface_range", Vx, small, nullptr)) return;
    c.count("level2.coface");
  }
  // is_face_of against related simplices, both directions
  for (std::size_t i = 0; i < n_related; ++i) {
    std::string kind;
    fk::Simplex R = related(r, model, d, kind);
    fk::Rep rr = fk::to_rep(R);
    if (r.chance(1, 2)) shuffle_inside_parts(r, rr);
    PR p = make_pr(rr);
    if (!is_face_of_check(c, s, V, p, R, d, kind + ",dir=self_in_other")) return;
    if (!is_face_of_check(c, p, R, s, V, d, kind + ",dir=other_in_self")) return;
  }
}

void star_case(vh::Case& c, std::size_t d) {
  vh::Rng& r = c.rng;
  const auto& S = star_of_origin(d, c);
  if (c.failed) return;
  const std::size_t idx = (std::size_t)c.k % S.size();
  const std::size_t round = (std::size_t)c.k / S.size();
  Vertex t(d, 0);
  if (round > 0) for (auto& x : t) x = (int)r.range(-9, 9);
  fk::Simplex model = fk::translated(S[idx], t);
  fk::Rep rep = fk::to_rep(model);
  if (round > 0 && r.chance(1, 2)) shuffle_inside_parts(r, rep);
  PR s = make_pr(rep);
  c.log("star d=" + vh::str(d) + " index=" + vh::str(idx) + " round=" + vh::str(round) + " simplex=" + show(s) + " = " + fk::show(model));
  CofaceOpts o; o.cap = 1000000; o.converse_sample = c.thorough ? 600 : 64;
  full_checks(c, s, d, model, o, 24);
  if (c.failed) return;
  // is_face_of against every simplex incident to the same vertex, both directions (exhaustive pair table of the star)
  fk::Simplex V = model;
  for (std::size_t j = 0; j < S.size(); ++j) {
    fk::Simplex R = fk::translated(S[j], t);
    PR p = make_pr(R);
    if (!is_face_of_check(c, s, V, p, R, d, "rel=star_pair,dir=self_in_other")) return;
    if (!is_face_of_check(c, p, R, s, V, d, "rel=star_pair,dir=other_in_self")) return;
  }
  c.count("pairs.star_table_rows");
  if (round == 0) c.count("exh.star_d" + vh::str(d) + ".round0");
  c.count("shape.dim" + vh::str(model.size() - 1) + ".d" + vh::str(d));
  if (model.size() > 1 && model.size() <= d) c.nontrivial(vh::hash_str(vh::G().history));
  c.sample("{\"history\":\"" + vh::jesc(vh::G().history.substr(0, 400)) + "\"}");
}

void rand_case(vh::Case& c, std::size_t dlo, std::size_t dhi, int span) {
  vh::Rng& r = c.rng;
  std::size_t d = (std::size_t)r.range((long)dlo, (long)dhi);
  fk::Rep rep = random_rep(r, d, span);
  fk::Simplex model = fk::normalized(fk::from_rep(rep));
  if (r.chance(1, 2)) shuffle_inside_parts(r, rep);
  PR s = make_pr(rep);
  c.log("rand d=" + vh::str(d) + " simplex=" + show(s) + " = " + fk::show(model));
  CofaceOpts o; o.cap = c.thorough ? 6000 : 1300; o.converse_sample = c.thorough ? 64 : 24; o.face_sample = c.thorough ? 32 : 12;
  full_checks(c, s, d, model, o, 40);
  if (c.failed) return;
  c.count("shape.dim" + vh::str(model.size() - 1) + ".d" + vh::str(d));
  if (model.size() > 1 && model.size() <= d) c.nontrivial(vh::hash_str(vh::G().history));
  c.sample("{\"history\":\"" + vh::jesc(vh::G().history.substr(0, 400)) + "\"}");
}

}  // namespace

VH_CONFIG("star_d1", [](vh::Case& c) { star_case(c, 1); });
VH_CONFIG("star_d2", [](vh::Case& c) { star_case(c, 2); });
VH_CONFIG("star_d3", [](vh::Case& c) { star_case(c, 3); });
VH_CONFIG("star_d4", [](vh::Case& c) { star_case(c, 4); });
VH_CONFIG("rand_lo", [](vh::Case& c) { rand_case(c, 1, 4, 1000); });
VH_CONFIG("rand_hi", [](vh::Case& c) { rand_case(c, 5, 6, 40); });
VH_MAIN()

// C20 (point location part) — locate_point / cartesian_coordinates / barycenter of Freudenthal_triangulation and Coxeter_triangulation.
// Oracle: barycentric coordinates solved with Eigen on the Cartesian coordinates of integer vertices (own affine map M v / scale + b),
// validity of a vertex set as a simplex from fk_oracle.h, and a brute-force enumeration of the top simplices { y, y+e_p(1), ... } of the
// unit cubes around the query point (carrier = vertices with positive weight; must be the same for every top simplex containing the point).
// Every located simplex is also compared at the representation level (operator==) with the way face_range / coface_range list the same
// simplex (c20_checks.h: canonical_check, route_eq_checks), and every query is repeated through another argument form (Eigen::VectorXd,
// std::array, std::deque, defaulted scale).  fk_scales: identity map at scales 2^-10, 1e-3, 1000, 2^20 and d = 8, 10; fk_aniso: a
// condition-1e4 map with the minimality check scaled by the conditioning noise; fk_wide: lattice coordinates up to 2^30 against an
// integer-only oracle.
// Compile with -DC20_COX for the Coxeter_triangulation configs, without for the Freudenthal_triangulation configs.
#include <cmath>
#include <memory>
#include <array>
#include <deque>
#include <Eigen/Dense>
#ifdef C20_COX
#include <gudhi/Coxeter_triangulation.h>
#else
#include <gudhi/Freudenthal_triangulation.h>
#endif
#include "c20_checks.h"

using namespace c20;
using FK = Gudhi::coxeter_triangulation::Freudenthal_triangulation<PR>;
using Point = std::vector<double>;
using Mat = Eigen::MatrixXd;
using Vec = Eigen::VectorXd;

namespace {

const double kTolWeight = 1e-7;    // a weight below -kTolWeight means "outside"
const double kNegligible = 1e-10;  // a returned vertex with a weight below this contradicts the documented 1e-9 snapping
const double kMustWeight = 1e-6;   // a vertex carrying more than this cannot be dropped by the documented 1e-9 snapping
const double kEpsFar = 1.0 / 262144.0;          // 2^-18 ~ 3.8e-6 : far above the snapping threshold
const double kEpsNear = 1.0 / 1099511627776.0;  // 2^-40 ~ 9.1e-13: far below it

struct Setup {
  std::size_t d = 0;
  const FK* tr = nullptr;
  Mat M; Vec off; double scale = 1;
  bool exact = false;   // identity map, scale a power of two: every quantity the library computes is exact on dyadic inputs
  double noise_factor = 0;  // ill-conditioned map: the lattice coordinates of a query point x are only defined up to noise_factor * (|x| + |offset|)
  std::string cls;
  Eigen::FullPivLU<Mat> lu;
};

Vec own_cart(const Setup& S, const Vertex& v) {
  Vec w(S.d);
  for (std::size_t i = 0; i < S.d; ++i) w(i) = v[i] / S.scale;
  return S.M * w + S.off;
}

Point to_point(const Vec& x) { Point p(x.size()); for (long i = 0; i < x.size(); ++i) p[i] = x(i); return p; }

std::string show_point(const Point& p) {
  std::ostringstream o; o.precision(17); o << "[";
  for (std::size_t i = 0; i < p.size(); ++i) { if (i) o << ","; o << p[i]; }
  o << "]"; return o.str();
}

// barycentric coordinates of x with respect to the vertex set W (least squares on the affine hull); returns residual (inf-norm).
// The Cartesian rows of the system are multiplied by the scale of the triangulation (same solution; keeps them commensurate with the
// row of ones when the scale is 2^-10 or 2^20), so that the residual is in units of the lattice spacing of the linear map.
double barycentric(const Setup& S, const fk::Simplex& W, const Point& x, Vec& lambda) {
  const std::size_t n = W.size();
  Mat A(S.d + 1, n);
  for (std::size_t j = 0; j < n; ++j) { A.block(0, j, S.d, 1) = S.scale * own_cart(S, W[j]); A(S.d, j) = 1.0; }
  Vec b(S.d + 1);
  for (std::size_t i = 0; i < S.d; ++i) b(i) = S.scale * x[i];
  b(S.d) = 1.0;
  lambda = A.colPivHouseholderQr().solve(b);
  return (A * lambda - b).cwiseAbs().maxCoeff();
}

// the same query through another documented form of the argument: Point_d is any random-access range of coordinates with size();
// the scale defaults to 1
template <std::size_t N> PR locate_array(const FK& tr, const Point& x, double scale, bool omit) {
  std::array<double, N> a;
  for (std::size_t i = 0; i < N; ++i) a[i] = x[i];
  return omit ? tr.locate_point(a) : tr.locate_point(a, scale);
}
PR locate_other_form(vh::Rng& r, const FK& tr, const Point& x, double scale, std::string& form) {
  const bool omit = scale == 1 && r.chance(1, 2);
  PR out;
  switch (r.below(3)) {
    case 0: {
      Vec v(x.size());
      for (std::size_t i = 0; i < x.size(); ++i) v(i) = x[i];
      form = "eigen_vector"; out = omit ? tr.locate_point(v) : tr.locate_point(v, scale); break;
    }
    case 1:
      form = "std_array";
      switch (x.size()) {
        case 1: out = locate_array<1>(tr, x, scale, omit); break;
        case 2: out = locate_array<2>(tr, x, scale, omit); break;
        case 3: out = locate_array<3>(tr, x, scale, omit); break;
        case 4: out = locate_array<4>(tr, x, scale, omit); break;
        case 5: out = locate_array<5>(tr, x, scale, omit); break;
        case 6: out = locate_array<6>(tr, x, scale, omit); break;
        case 8: out = locate_array<8>(tr, x, scale, omit); break;
        case 10: out = locate_array<10>(tr, x, scale, omit); break;
        default: form = "std_vector"; out = omit ? tr.locate_point(x) : tr.locate_point(x, scale); break;
      }
      break;
    default: {
      std::deque<double> q(x.begin(), x.end());
      form = "std_deque"; out = omit ? tr.locate_point(q) : tr.locate_point(q, scale); break;
    }
  }
  if (omit) form += ",scale_omitted";
  return out;
}

// Brute force: every top simplex of every unit cube within 1e-6 of the point; whenever one contains the point, each of its vertices
// with weight > kMustWeight must be a vertex of the returned simplex V.
bool carrier_by_enumeration(vh::Case& c, const Setup& S, const Point& x, const fk::Simplex& V, const std::string& sig, std::size_t budget) {
  const std::size_t d = S.d;
  Vec xv(d); for (std::size_t i = 0; i < d; ++i) xv(i) = x[i];
  Vec xi = S.scale * S.lu.solve(xv - S.off);
  std::vector<std::vector<int>> opts(d);
  std::size_t ncubes = 1;
  for (std::size_t i = 0; i < d; ++i) {
    int a = (int)std::floor(xi(i) - 1e-6), b = (int)std::floor(xi(i) + 1e-6);
    opts[i].push_back(a);
    if (b != a) opts[i].push_back(b);
    ncubes *= opts[i].size();
  }
  std::size_t cost = ncubes * (std::size_t)fk::factorial((unsigned)d);
  if (cost > budget) { c.count("skip.enumeration_too_costly"); return true; }
  c.count("obs.enumeration");
  std::size_t containing = 0;
  std::set<Vertex> carrier;
  for (std::size_t cube = 0; cube < ncubes; ++cube) {
    Vertex y(d);
    std::size_t q = cube;
    for (std::size_t i = 0; i < d; ++i) { y[i] = opts[i][q % opts[i].size()]; q /= opts[i].size(); }
    std::vector<std::size_t> perm(d);
    for (std::size_t i = 0; i < d; ++i) perm[i] = i;
    do {
      fk::Simplex T; T.push_back(y);
      for (std::size_t j = 0; j < d; ++j) { Vertex n = T.back(); n[perm[j]]++; T.push_back(n); }
      Mat A(d + 1, d + 1);
      for (std::size_t j = 0; j <= d; ++j) { A.block(0, j, d, 1) = own_cart(S, T[j]); A(d, j) = 1.0; }
      Vec b(d + 1); b.head(d) = xv; b(d) = 1.0;
      Vec lam = A.fullPivLu().solve(b);
      c.count("obs.enumeration.top_simplices");
      if (lam.minCoeff() < -kTolWeight) continue;
      ++containing;
      for (std::size_t j = 0; j <= d; ++j) if (lam(j) > kMustWeight) {
        carrier.insert(T[j]);
        if (!std::binary_search(V.begin(), V.end(), T[j])) {
          c.count("cmp.locate.unique_carrier");
          c.violation("locate.unique_carrier", sig, "point " + show_point(x) + " has weight " + vh::str(lam(j)) + " on vertex " + fk::show(T[j]) + " of top simplex " + fk::show(T) +
                      " which contains it, but the returned simplex is " + fk::show(V));
          return false;
        }
      }
    } while (std::next_permutation(perm.begin(), perm.end()));
  }
  c.count("cmp.locate.unique_carrier");
  if (!C20_EXPECT(c, containing > 0, "oracle.selfcheck", "no_top_simplex_contains_point", "point " + show_point(x) + " lattice " + vh::str(xi.transpose()))) return false;
  return true;
}

struct Expectation {
  const fk::Simplex* keeps = nullptr;    // these vertices carry weight >> 1e-9: must all be returned
  const fk::Simplex* exactly = nullptr;  // exact set-up: the returned vertex set must be exactly this
  const fk::Simplex* within = nullptr;   // exact set-up: the returned vertex set must be a subset of this (the exact carrier)
};

bool query(vh::Case& c, const Setup& S, const Point& x, const std::string& pcls, const Expectation& e, std::size_t enum_budget, PR* out, fk::Simplex* Vout) {
  const std::string sig = S.cls + ",pt=" + pcls;
  c.log("locate_point pt=" + pcls + " x=" + show_point(x) + " scale=" + vh::str(S.scale));
  PR R = S.tr->locate_point(x, S.scale);
  c.count("obs.locate_point");
  c.count("obs.locate_point." + pcls);
  c.log("  -> " + show(R));
  {
    std::string form;
    PR R2 = locate_other_form(c.rng, *S.tr, x, S.scale, form);
    c.count("obs.locate_point.form." + form);
    if (!C20_EXPECT(c, R2 == R, "locate.argument_form_independent", S.cls + ",form=" + form, "point " + show_point(x) + " scale " + vh::str(S.scale) + ": " + show(R) + " from a std::vector<double> and an explicit scale, " + show(R2) + " from " + form)) return false;
  }
  if (!C20_EXPECT(c, wellformed(R, S.d), "locate.rep_wellformed", sig, show(R) + " is not an ordered partition of 0..d with d in the last part")) return false;
  fk::Simplex V;
  if (!vertex_checks(c, R, S.d, "from_locate", V, nullptr)) return false;
  // representation level: the located simplex is operator== to the same simplex as the other routes of the library list it
  canonical_check(c, R, V, "from_locate");
  route_eq_checks(c, R, S.d, "from_locate", V, 300);
  Vec lam;
  double res = barycentric(S, V, x, lam);
  double xn = 1.0; for (double t : x) xn = std::max(xn, std::fabs(t) * S.scale);
  double xabs = 0; for (double t : x) xabs = std::max(xabs, std::fabs(t));
  const double noise = S.noise_factor * (xabs + (S.off.size() ? S.off.cwiseAbs().maxCoeff() : 0.0));
  if (!C20_EXPECT(c, res <= 1e-7 * xn, "locate.contains", sig + ",off_affine_hull", "point " + show_point(x) + " is at " + vh::str(res) + " from the affine hull of returned " + fk::show(V))) return false;
  if (!C20_EXPECT(c, lam.minCoeff() >= -kTolWeight, "locate.contains", sig + ",negative_weight", "point " + show_point(x) + " has weights " + vh::str(lam.transpose()) + " on returned " + fk::show(V))) return false;
  // minimality: the library merges fractional parts closer than its documented tolerance 1e-9, so that every vertex it keeps
  // carries a weight above 1e-9; a returned vertex whose weight is below 1e-10 means the returned simplex is not the one whose relative
  // interior contains the point within that tolerance.  Reported once per (case, signature); the case goes on.
  bool nonminimal = false;
  {
    bool base = false, other = false;
    // (ill-conditioned map: the weights are only defined up to `noise`; the check is void once that reaches the threshold)
    if (noise >= kNegligible) c.count("skip.minimality_below_noise");
    else for (std::size_t j = 0; j < V.size(); ++j) if (lam(j) <= kNegligible - noise) { (V[j] == R.vertex() ? base : other) = true; }
    c.count("cmp.locate.minimal");
    if (base || other) {
      nonminimal = true;
      c.count("state.locate.nonminimal." + pcls);
      std::string msig = sig + (other ? ",negligible_weight_on_non_base_vertex" : ",negligible_weight_on_base_vertex");
      static std::set<std::string> reported; static long reported_case = -1;
      if (reported_case != c.k) { reported.clear(); reported_case = c.k; }
      if (reported.insert(msig).second)
        c.violation("locate.minimal", msig, "point " + show_point(x) + " scale " + vh::str(S.scale) + ": returned " + show(R) + " = " + fk::show(V) + " with weights " + vh::str(lam.transpose()) +
                    "; vertices with weight <= 1e-10 should have been snapped away (documented tolerance 1e-9)");
    } else c.count("state.locate.minimal." + pcls);
  }
  if (!carrier_by_enumeration(c, S, x, V, sig, enum_budget)) return false;
  if (e.keeps) {
    if (!C20_EXPECT(c, fk::subset(*e.keeps, V), "locate.keeps_weighted_vertices", sig, "point " + show_point(x) + " built with non-negligible weight on every vertex of " + fk::show(*e.keeps) + " but returned " + fk::show(V))) return false;
  }
  if (e.exactly && !nonminimal) {
    std::string how = V == *e.exactly ? "" : fk::subset(*e.exactly, V) ? ",returned_proper_coface" : fk::subset(V, *e.exactly) ? ",returned_proper_face" : ",returned_other";
    if (!C20_EXPECT(c, V == *e.exactly, "locate.exact_simplex", sig + how, "exact set-up: point " + show_point(x) + " lies in the relative interior of " + fk::show(*e.exactly) + " but returned " + fk::show(V))) return false;
  }
  if (e.within && !nonminimal) {
    if (!C20_EXPECT(c, fk::subset(V, *e.within), "locate.within_carrier", sig, "exact set-up: point " + show_point(x) + " has exact carrier " + fk::show(*e.within) + " but returned " + fk::show(V))) return false;
  }
  if (out) *out = R;
  if (Vout) *Vout = V;
  return true;
}

// positive dyadic weights (multiples of 1/16) summing to 1, n <= 16
std::vector<double> dyadic_weights(vh::Rng& r, std::size_t n) {
  std::vector<int> a(n, 1);
  for (std::size_t left = 16 - n; left > 0; --left) a[r.below(n)]++;
  std::vector<double> w(n);
  for (std::size_t i = 0; i < n; ++i) w[i] = a[i] / 16.0;
  return w;
}

Point combine(const Setup& S, const fk::Simplex& W, const std::vector<double>& w) {
  Point x(S.d, 0.0);
  if (S.exact) {  // plain coordinate arithmetic, exact on these inputs
    for (std::size_t j = 0; j < W.size(); ++j) for (std::size_t i = 0; i < S.d; ++i) x[i] += w[j] * (W[j][i] / S.scale);
    return x;
  }
  Vec acc = Vec::Zero(S.d);
  for (std::size_t j = 0; j < W.size(); ++j) acc += w[j] * own_cart(S, W[j]);
  return to_point(acc);
}

Mat random_orthogonal(vh::Rng& r, std::size_t d) {
  Mat Q = Mat::Identity(d, d);
  for (std::size_t t = 0; t < d; ++t) {
    Vec u(d);
    for (std::size_t i = 0; i < d; ++i) u(i) = 2 * r.unit() - 1;
    if (u.norm() < 1e-3) continue;
    u.normalize();
    Q = Q - 2.0 * (Q * u) * u.transpose();
  }
  return Q;
}

Mat random_matrix(vh::Rng& r, std::size_t d, std::string& kind) {
  if (r.chance(2, 5)) {
    kind = "shear";
    Mat M = Mat::Identity(d, d);
    for (int t = 0; t < 3 && d > 1; ++t) {
      std::size_t i = r.below(d), j = r.below(d);
      if (i == j) continue;
      M.row(i) += (r.chance(1, 2) ? 1.0 : -1.0) * M.row(j);
    }
    return M;
  }
  kind = "rot_scale";
  Vec s(d);
  for (std::size_t i = 0; i < d; ++i) s(i) = 0.5 + 1.5 * r.unit();
  return random_orthogonal(r, d) * s.asDiagonal() * random_orthogonal(r, d);
}

void run_queries(vh::Case& c, Setup& S) {
  vh::Rng& r = c.rng;
  const std::size_t d = S.d;
  S.lu = Eigen::FullPivLU<Mat>(S.M);
  const std::size_t budget = c.thorough ? 4000 : 800;
  const int span = S.exact ? 15 : 12;
  bool nontrivial = false;

  // accessors
  if (!C20_EXPECT(c, S.tr->dimension() == d && S.tr->matrix() == S.M && S.tr->offset() == S.off, "accessors.match", S.cls, "dimension()/matrix()/offset() differ from what was set")) return;

  // lattice vertices: cartesian_coordinates against the own affine map; the vertex itself is located
  for (int t = 0; t < 2; ++t) {
    Vertex v(d);
    for (auto& z : v) z = (int)r.range(-span, span);
    Vec mine = own_cart(S, v);
    Vec theirs = S.tr->cartesian_coordinates(v, S.scale);
    c.count("obs.cartesian_coordinates");
    double tol = S.exact ? 0.0 : 1e-12 * (1.0 + mine.cwiseAbs().maxCoeff());
    if (!C20_EXPECT(c, theirs.size() == (long)d && (theirs - mine).cwiseAbs().maxCoeff() <= tol, "cartesian.matches_affine_map", S.cls, "vertex " + fk::show(v) + " scale " + vh::str(S.scale) + ": " + vh::str(theirs.transpose()) + " vs " + vh::str(mine.transpose()))) return;
    fk::Simplex F{v};
    Expectation e; e.keeps = &F; if (S.exact) e.exactly = &F;
    if (!query(c, S, to_point(theirs), "lattice_vertex", e, budget, nullptr, nullptr)) return;
  }

  // generic points
  PR R0; fk::Simplex V0;
  for (int t = 0; t < 2; ++t) {
    Vec w(d);
    for (std::size_t i = 0; i < d; ++i) w(i) = (2 * r.unit() - 1) * span / S.scale;
    Point x = to_point(Vec(S.M * w + S.off));
    if (!query(c, S, x, "generic", Expectation(), budget, &R0, &V0)) return;
    c.count("shape.located_dim" + vh::str(R0.dimension()));
  }

  // the located simplex (its parts are in the order locate_point produced them) is a simplex like any other
  {
    fk::Simplex V;
    CofaceOpts small; small.cap = 150; small.converse_sample = 6; small.face_sample = 6;
    std::vector<PR> faces;
    if (!vertex_checks(c, R0, d, "from_locate", V, nullptr)) return;
    if (!face_checks(c, R0, d, "from_locate", V, &faces)) return;
    if (!coface_checks(c, R0, d, "from_locate", V, small, nullptr)) return;
    if (!coface_of_face_checks(c, R0, d, "from_locate", V, faces, small)) return;

    // barycentres and weighted points of faces of the located simplex
    r.shuffle(faces);
    const std::size_t nf = std::min<std::size_t>(faces.size(), c.thorough ? 16 : 10);
    for (std::size_t i = 0; i < nf; ++i) {
      const PR& f = faces[i];
      fk::Simplex F = fk::normalized(raw_vertices(f));
      const std::size_t n = F.size();
      // barycenter() against the mean of the vertices
      Vec bc = S.tr->barycenter(f, S.scale);
      c.count("obs.barycenter");
      Vec mean = Vec::Zero(d);
      for (auto& v : F) mean += own_cart(S, v);
      mean /= (double)n;
      if (!C20_EXPECT(c, bc.size() == (long)d && (bc - mean).cwiseAbs().maxCoeff() <= 1e-12 * (1.0 + mean.cwiseAbs().maxCoeff()), "barycenter.matches_mean", S.cls, "face " + show(f) + ": " + vh::str(bc.transpose()) + " vs " + vh::str(mean.transpose()))) return;
      {
        Expectation e; e.keeps = &F;
        if (!query(c, S, to_point(bc), "face_barycenter", e, budget, nullptr, nullptr)) return;
      }
      {
        std::vector<double> w = dyadic_weights(r, n);
        Expectation e; e.keeps = &F; if (S.exact) e.exactly = &F;
        if (!query(c, S, combine(S, F, w), "face_dyadic_point", e, budget, nullptr, nullptr)) return;
      }
      if (n >= 2 && n <= d) nontrivial = true;
      c.count("shape.face_point_dim" + vh::str(n - 1));
    }

    // points next to a face F of a simplex G (F < G <= located simplex): weight eps on each vertex of G \ F
    for (int t = 0; t < (c.thorough ? 8 : 5) && V.size() >= 2; ++t) {
      fk::Simplex G, F;
      while (G.size() < 2) { G.clear(); for (auto& v : V) if (r.chance(2, 3)) G.push_back(v); }
      while (F.empty() || F.size() == G.size()) { F.clear(); for (auto& v : G) if (r.chance(1, 2)) F.push_back(v); }
      const bool far = r.chance(1, 2);
      const double eps = far ? kEpsFar : kEpsNear;
      std::vector<double> wF = dyadic_weights(r, F.size());
      fk::Simplex order; std::vector<double> w;
      std::size_t extra = 0;
      for (auto& v : G) if (!std::binary_search(F.begin(), F.end(), v)) ++extra;
      for (std::size_t j = 0; j < F.size(); ++j) { order.push_back(F[j]); w.push_back(j == 0 ? wF[j] - extra * eps : wF[j]); }
      for (auto& v : G) if (!std::binary_search(F.begin(), F.end(), v)) { order.push_back(v); w.push_back(eps); }
      Point x = combine(S, order, w);
      Expectation e;
      if (far) { e.keeps = &G; if (S.exact) e.exactly = &G; }
      else { e.keeps = &F; if (S.exact) e.within = &G; }
      if (!query(c, S, x, far ? "near_face_2e-18" : "near_face_2e-40", e, budget, nullptr, nullptr)) return;
    }
  }
  if (nontrivial) c.nontrivial(vh::hash_str(vh::G().history));
  c.sample("{\"history\":\"" + vh::jesc(vh::G().history.substr(0, 700)) + "\"}");
}

#ifndef C20_COX
void fk_identity_case(vh::Case& c) {
  vh::Rng& r = c.rng;
  Setup S;
  S.d = 1 + r.below(6);
  static const double scales[] = {0.5, 1, 2, 4, 3};
  S.scale = scales[r.below(5)];
  S.exact = S.scale != 3;
  S.M = Mat::Identity(S.d, S.d); S.off = Vec::Zero(S.d);
  S.cls = S.exact ? "fk_identity,exact" : "fk_identity,scale3";
  c.log("Freudenthal_triangulation(d=" + vh::str(S.d) + ") scale=" + vh::str(S.scale));
  FK tr(S.d);
  S.tr = &tr;
  c.count("setup." + S.cls);
  run_queries(c, S);
}

void fk_affine_case(vh::Case& c) {
  vh::Rng& r = c.rng;
  Setup S;
  S.d = 1 + r.below(6);
  static const double scales[] = {0.5, 1, 3};
  S.scale = scales[r.below(3)];
  std::string kind;
  S.M = random_matrix(r, S.d, kind);
  S.off = Vec::Zero(S.d);
  unsigned how = (unsigned)r.below(4);
  if (how != 1) for (std::size_t i = 0; i < S.d; ++i) S.off(i) = 10 * r.unit() - 5;
  if (how == 3 && r.chance(1, 3)) { S.M = Mat::Identity(S.d, S.d); kind = "identity_via_solver"; }
  std::ostringstream ms; ms.precision(17); ms << S.M;
  c.log("Freudenthal_triangulation d=" + vh::str(S.d) + " ctor=" + vh::str(how) + " matrix(" + kind + ")=\n" + ms.str() + "\noffset=" + vh::str(S.off.transpose()) + " scale=" + vh::str(S.scale));
  S.cls = "fk_affine," + kind;
  std::unique_ptr<FK> tr;
  switch (how) {
    case 0: tr.reset(new FK((unsigned)S.d, S.M, S.off)); break;
    case 1: tr.reset(new FK(S.d, S.M)); break;
    case 2: tr.reset(new FK(S.d)); tr->change_matrix(S.M); tr->change_offset(S.off); break;
    default: tr.reset(new FK(S.d)); tr->change_offset(S.off); tr->change_matrix(S.M); break;
  }
  S.tr = tr.get();
  c.count("setup.fk_affine." + kind);
  c.count("setup.fk_affine.ctor" + vh::str(how));
  run_queries(c, S);
}
// identity map at extreme scales (2^-10 and 2^20: exact; 1e-3 and 1000: the product scale * x rounds) and in ambient dimensions 8 and 10
void fk_scales_case(vh::Case& c) {
  vh::Rng& r = c.rng;
  Setup S;
  static const std::size_t dims[] = {1, 2, 3, 4, 5, 6, 8, 10};
  S.d = dims[r.below(8)];
  static const double scales[] = {1.0 / 1024, 1e-3, 1000, 1048576.0};
  const unsigned si = (unsigned)r.below(4);
  S.scale = scales[si];
  S.exact = si == 0 || si == 3;
  S.M = Mat::Identity(S.d, S.d); S.off = Vec::Zero(S.d);
  S.cls = S.exact ? "fk_identity,exact,scale_extreme" : "fk_identity,scale_nondyadic";
  c.log("Freudenthal_triangulation(d=" + vh::str(S.d) + ") scale=" + vh::str(S.scale));
  FK tr(S.d);
  S.tr = &tr;
  c.count("setup." + S.cls);
  c.count("setup.scale_index" + vh::str(si));
  c.count(S.d > 6 ? "setup.d_8_10" : "setup.d_1_6");
  run_queries(c, S);
}

// one anisotropic class: singular values 1e-2 .. 1e2 (condition number 1e4) between two random rotations.  The lattice coordinates of a
// Cartesian point are then only defined up to ~ eps * scale * (|x| + |b|) / s_min, above the library's 1e-9 merging threshold in the worst
// case: the minimality check is scaled by that bound (void when it reaches 1e-10); containment at 1e-7, mandatory vertices at 1e-6 and
// the brute-force carrier stay as they are, far above the noise.
void fk_aniso_case(vh::Case& c) {
  vh::Rng& r = c.rng;
  Setup S;
  S.d = 2 + r.below(5);
  static const double scales[] = {0.5, 1, 3};
  S.scale = scales[r.below(3)];
  Vec sv(S.d);
  for (std::size_t i = 0; i < S.d; ++i) sv(i) = std::pow(10.0, -2.0 + 4.0 * (double)i / (double)(S.d - 1));
  S.M = random_orthogonal(r, S.d) * sv.asDiagonal() * random_orthogonal(r, S.d);
  S.off = Vec::Zero(S.d);
  for (std::size_t i = 0; i < S.d; ++i) S.off(i) = 2 * r.unit() - 1;
  S.noise_factor = 64 * 2.3e-16 * S.scale / sv.minCoeff();
  std::ostringstream ms; ms.precision(17); ms << S.M;
  c.log("Freudenthal_triangulation d=" + vh::str(S.d) + " matrix(aniso, cond 1e4)=\n" + ms.str() + "\noffset=" + vh::str(S.off.transpose()) + " scale=" + vh::str(S.scale));
  S.cls = "fk_affine,aniso_cond1e4";
  FK tr((unsigned)S.d, S.M, S.off);
  S.tr = &tr;
  c.count("setup.fk_affine.aniso_cond1e4");
  run_queries(c, S);
}

// exact class with an integer oracle: identity map, power-of-two scale 2^-10 .. 2^20, lattice coordinates up to 2^30, fractional parts
// multiples of 1/1024, d up to 10.  scale * x, floor and the fractional parts are exact, so the carrier of the point is known without any
// floating-point reasoning: the base vertex floor(xi) and, for every distinct positive fractional value t, base + [frac >= t].
template <class P> PR locate_as(const FK& tr, const Point& x, double scale, bool omit) {
  P p(x.size());
  for (std::size_t i = 0; i < x.size(); ++i) p[i] = (typename P::value_type)x[i];
  return omit ? tr.locate_point(p) : tr.locate_point(p, scale);
}

void fk_wide_case(vh::Case& c) {
  vh::Rng& r = c.rng;
  static const std::size_t dims[] = {1, 2, 3, 4, 5, 6, 8, 10};
  const std::size_t d = dims[r.below(8)];
  static const int scale_exp[] = {-10, -3, 0, 5, 10, 20};
  const int se = scale_exp[r.below(6)];
  const double scale = std::ldexp(1.0, se);
  const std::string cls = "fk_identity,exact_wide";
  c.log("Freudenthal_triangulation(d=" + vh::str(d) + ") scale=2^" + vh::str(se));
  FK tr(d);
  c.count("setup." + cls);
  c.count(d > 6 ? "setup.d_8_10" : "setup.d_1_6");
  bool nontrivial = false;
  for (int q = 0; q < 24; ++q) {
    static const int bitsv[] = {4, 20, 30};
    const int bits = bitsv[r.below(3)];
    const unsigned kind = (unsigned)r.below(3);
    static const char* kinds[] = {"lattice_vertex", "generic_1024ths", "tied_16ths"};
    std::vector<long> base(d), num(d);
    std::vector<long> groups(1 + r.below(4));
    for (auto& g : groups) g = 64 * (long)r.below(16);
    for (std::size_t i = 0; i < d; ++i) {
      base[i] = r.range(-(1L << bits), (1L << bits) - 2);
      num[i] = kind == 0 ? 0 : kind == 1 ? (long)r.below(1024) : groups[r.below(groups.size())];
    }
    Point x(d);
    for (std::size_t i = 0; i < d; ++i) x[i] = std::ldexp((double)base[i] + (double)num[i] / 1024.0, -se);
    // oracle, integers only
    fk::Simplex want;
    {
      fk::Vertex b(base.begin(), base.end());
      want.push_back(b);
      std::set<long> ts(num.begin(), num.end());
      ts.erase(0);
      for (long t : ts) { fk::Vertex v = b; for (std::size_t i = 0; i < d; ++i) if (num[i] >= t) v[i]++; want.push_back(v); }
      want = fk::normalized(want);
    }
    const std::string sig = cls + ",pt=" + kinds[kind];
    const bool omit = se == 0 && r.chance(1, 2);
    const unsigned form = (unsigned)r.below(bits == 4 && se >= -5 && se <= 5 ? 4 : 3);
    static const char* forms[] = {"std_vector", "eigen_vector", "std_deque", "float_vector"};
    c.log(std::string("locate_point pt=") + kinds[kind] + " coordinates<2^" + vh::str(bits) + " form=" + forms[form] + (omit ? ",scale_omitted" : "") + " x=" + show_point(x));
    PR R = form == 0 ? locate_as<Point>(tr, x, scale, omit) : form == 1 ? locate_as<Vec>(tr, x, scale, omit)
         : form == 2 ? locate_as<std::deque<double>>(tr, x, scale, omit) : locate_as<std::vector<float>>(tr, x, scale, omit);
    c.count("obs.locate_point");
    c.count(std::string("obs.locate_point.wide.") + kinds[kind]);
    c.count(std::string("obs.locate_point.form.") + forms[form] + (omit ? ",scale_omitted" : ""));
    c.count("obs.locate_point.coordinate_bits" + vh::str(bits));
    c.log("  -> " + show(R));
    if (!C20_EXPECT(c, wellformed(R, d), "locate.rep_wellformed", sig, show(R) + " is not an ordered partition of 0..d with d in the last part")) return;
    fk::Simplex V;
    if (!vertex_checks(c, R, d, "from_locate", V, nullptr)) return;
    std::string how = V == want ? "" : fk::subset(want, V) ? ",returned_proper_coface" : fk::subset(V, want) ? ",returned_proper_face" : ",returned_other";
    if (!C20_EXPECT(c, V == want, "locate.exact_simplex", sig + how, "exact set-up: point " + show_point(x) + " scale 2^" + vh::str(se) + " has carrier " + fk::show(want) + " but returned " + fk::show(V))) return;
    canonical_check(c, R, V, "from_locate");
    route_eq_checks(c, R, d, "from_locate", V, 300);
    // Cartesian coordinates of the vertices: v / scale, exact
    for (auto& v : V) {
      Vec cc = tr.cartesian_coordinates(v, scale);
      c.count("obs.cartesian_coordinates");
      bool same = cc.size() == (long)d;
      for (std::size_t i = 0; same && i < d; ++i) same = cc(i) == std::ldexp((double)v[i], -se);
      if (!C20_EXPECT(c, same, "cartesian.matches_affine_map", cls, "vertex " + fk::show(v) + " scale 2^" + vh::str(se) + ": " + vh::str(cc.transpose()))) return;
    }
    {
      Vec bc = omit ? tr.barycenter(R) : tr.barycenter(R, scale);
      c.count("obs.barycenter");
      Vec mean = Vec::Zero(d);
      for (auto& v : V) for (std::size_t i = 0; i < d; ++i) mean(i) += std::ldexp((double)v[i], -se);
      mean /= (double)V.size();
      if (!C20_EXPECT(c, bc.size() == (long)d && (bc - mean).cwiseAbs().maxCoeff() <= 1e-12 * (std::ldexp(1.0, -se) + mean.cwiseAbs().maxCoeff()), "barycenter.matches_mean", cls, "simplex " + show(R) + ": " + vh::str(bc.transpose()) + " vs " + vh::str(mean.transpose()))) return;
    }
    if (q < 4) {
      if (!face_checks(c, R, d, "from_locate", V, nullptr)) return;
      CofaceOpts small; small.cap = 150; small.converse_sample = 6; small.face_sample = 6;
      if (!coface_checks(c, R, d, "from_locate", V, small, nullptr)) return;
    }
    c.count("shape.wide_located_dim" + vh::str(R.dimension()));
    if (V.size() >= 2 && V.size() <= d) nontrivial = true;
  }
  if (nontrivial) c.nontrivial(vh::hash_str(vh::G().history));
  c.sample("{\"history\":\"" + vh::jesc(vh::G().history.substr(0, 700)) + "\"}");
}
VH_CONFIG("fk_identity", fk_identity_case);
VH_CONFIG("fk_affine", fk_affine_case);
VH_CONFIG("fk_scales", fk_scales_case);
VH_CONFIG("fk_aniso", fk_aniso_case);
VH_CONFIG("fk_wide", fk_wide_case);
#else
void coxeter_case(vh::Case& c) {
  vh::Rng& r = c.rng;
  Setup S;
  S.d = 1 + r.below(6);
  static const double scales[] = {0.5, 1, 3};
  S.scale = scales[r.below(3)];
  Gudhi::coxeter_triangulation::Coxeter_triangulation<PR> tr(S.d);
  bool moved = r.chance(1, 2);
  if (moved) {
    Vec off(S.d);
    for (std::size_t i = 0; i < S.d; ++i) off(i) = 10 * r.unit() - 5;
    tr.change_offset(off);
  }
  S.M = tr.matrix(); S.off = tr.offset();
  S.cls = "coxeter";
  c.log("Coxeter_triangulation(d=" + vh::str(S.d) + ") offset=" + vh::str(S.off.transpose()) + " scale=" + vh::str(S.scale));
  // the root matrix must be invertible and finite for the map to be an affine image of the Freudenthal-Kuhn triangulation
  if (!C20_EXPECT(c, S.M.rows() == (long)S.d && S.M.cols() == (long)S.d && S.M.allFinite() && std::fabs(S.M.determinant()) > 1e-6, "coxeter.matrix_invertible", "coxeter", "root matrix not finite/invertible")) return;
  S.tr = &tr;
  c.count(std::string("setup.coxeter.") + (moved ? "offset" : "origin"));
  run_queries(c, S);
}
VH_CONFIG("coxeter", coxeter_case);
#endif

}  // namespace

VH_MAIN()

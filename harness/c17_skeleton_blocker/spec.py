SPEC = {
    "property": "C17",
    "rule": "random histories on <= 9 vertex handles: an initial complex (a random 1-skeleton built with add_edge_without_blockers plus "
            "0-6 valid blockers added with add_blocker, or the constructor from a simplex list / make_complex_from_top_faces on random "
            "top faces), then 4-24 (config mixed) or 40-90 (config long) operations among add_vertex, add_edge, add_edge_without_blockers, "
            "add_simplex (a blocker, a superset of a blocker, or a random absent simplex with missing faces/edges), remove_star of a "
            "vertex / edge / simplex of dimension >= 2 (all overloads; half of them aimed inside a blocker of dimension >= 2 more), "
            "contract_edge (both overloads; edges inside a blocker, next to a blocker, or anywhere), add_blocker on a simplex, copy "
            "round trip. After EVERY step: contains() of all 2^N-1 vertex subsets against a bitmask model of the abstract complex; "
            "blocker_range / num_blockers / contains_blocker / blocker_range(v) against the minimal non-faces of dimension >= 2 of the "
            "model; vertex, edge and simplex ranges and counts, degrees, num_connected_components; star_simplex_range, coboundary_range "
            "and link (vertices, membership of every subset, blockers) of random simplices. link_condition() is compared with the "
            "definition Lk(ab)=Lk(a)/\\Lk(b) on the model, and a contraction under the link condition must keep the Betti numbers over "
            "Z_2 and Z_3 and the Euler characteristic of the simplex set enumerated from contains() (oracle/zp_reduce.h). "
            "non-trivial = history (distinct by hash) that reached a state with >= 1 blocker and applied add_simplex, an add_edge closing "
            "triangles, or a remove_star / contract_edge on a state with blockers",
    "assumptions": [
        "operations respect the documented preconditions by construction: remove_star / contract_edge only on simplices / edges of the complex, "
        "add_simplex only on absent simplices of dimension >= 2 whose vertices are present, add_blocker only on a simplex of the complex that "
        "is not a face of an existing blocker",
        "remove_edge / remove_vertex / remove_blockers / keep_only_vertices (which do not maintain the blocker set) and popable-blocker "
        "removal are not part of the histories",
        "the bitmask model in harness/c17_skeleton_blocker/c17_skeleton_blocker.cpp and oracle/zp_reduce.h are the trusted oracles",
        "after the known over-deletion of remove_star(vertex|edge) inside a blocker (signature *,inside_blocker,lost_exactly_blocker_residue_star) "
        "the model is reloaded from the implementation's contains() answers and the history continues; if the implementation's own state is then "
        "inconsistent (e.g. an edge stored as a blocker) the history is abandoned and counted (resync.abandoned*)",
        "leak detection is off (orchestrator default); Skeleton_blocker_link_complex::compute_link_blockers leaks the Simplex it allocates "
        "when the blocker is already present",
    ],
    "units": [
        {"name": "skbl", "src": ["c17_skeleton_blocker.cpp"], "variant": "asan",
         "configs": {"mixed": {"quick": 3000, "thorough": 300000}, "long": {"quick": 300, "thorough": 10000}}, "chunk": 25},
        {"name": "skbl_g", "src": ["c17_skeleton_blocker.cpp"], "variant": "gasan", "tiers": ["thorough"],
         "configs": {"mixed": {"thorough": 30000}}, "chunk": 25},
    ],
    "floors": {
        "quick": {"op.remove_star.inside_blocker": 600, "op.remove_star.vertex.inside_blocker": 400, "op.remove_star.edge.inside_blocker": 150,
                  "op.remove_star.simplex.facet_of_blocker": 80, "op.remove_star.with_cofaces": 2500,
                  "op.contract_edge.link_condition_ok": 1500, "op.contract_edge.link_condition_violated": 1000,
                  "op.contract_edge.link_condition_ok.blockers_at_endpoints": 150, "cmp.homotopy_invariants": 1500,
                  "op.add_simplex.boundary_present": 800, "op.add_simplex.edges_missing": 1200, "op.add_simplex.faces_missing": 100,
                  "op.add_edge.closing_triangles": 600, "op.add_edge_without_blockers.closing_triangles": 600,
                  "init.from_top_faces": 300, "init.from_simplex_list": 300,
                  "state.with_blockers": 7000, "cmp.link_blockers": 30000, "steps": 17000, "_distinct_nontrivial": 800},
        "thorough": {"op.remove_star.inside_blocker": 60000, "op.contract_edge.link_condition_ok": 150000,
                     "op.contract_edge.link_condition_violated": 100000, "op.contract_edge.link_condition_ok.blockers_at_endpoints": 15000,
                     "op.add_simplex.boundary_present": 80000, "op.add_simplex.faces_missing": 10000,
                     "state.with_blockers": 600000, "steps": 1300000, "_distinct_nontrivial": 80000},
    },
    "exhaustive": {"quick": False, "thorough": False},
    "exhaustive_note": "queries are exhaustive per step (every non-empty subset of the <= 9 vertex handles is passed to contains() and "
                       "contains_blocker() after every operation); histories and initial complexes are sampled",
    "manifest": {
        "text": "Runtime monitor: random edit histories (vertex / edge / simplex additions, star removals of vertices, edges and higher "
                "simplices, edge contractions with and without the link condition, blocker additions, copies) drive Skeleton_blocker_complex "
                "under ASan+UBSan; after every operation contains() of every vertex subset is compared with an independent bitmask model of "
                "the abstract complex (union with faces / deletion of exactly the star / image under vertex identification), the blocker set "
                "with the model's minimal non-faces, and counts, ranges, connected components, links, stars and coboundaries with the model; "
                "contractions under the link condition must preserve Betti numbers (Z_2, Z_3) and Euler characteristic computed by an "
                "independent reduction. Held on what was observed, not a proof. Known finding: remove_star of a vertex or edge lying in a "
                "blocker of dimension >= 2 more also deletes the star of (blocker minus removed simplex); an existing unit test encodes it.",
        "note": "trusted: bitmask model in the harness, oracle/zp_reduce.h, libstdc++/boost; <= 9 vertex handles per history; preconditions "
                "respected by construction; remove_edge/remove_vertex/popable-blocker operations not exercised; after the known star-removal "
                "over-deletion the model is resynchronised from contains() (or the history abandoned when the library state is inconsistent)",
        "technique": "runtime monitoring: randomized operation histories + reference-model oracle swept exhaustively over all vertex subsets "
                     "after every step, homotopy invariants by independent Z_p reduction, under AddressSanitizer/UBSan",
    },
}

SPEC = {
    "property": "C17",
    "rule": "random histories on <= 9 vertex handles (config wide: <= 12, initial complexes on 8-11 vertices): an initial complex (a random "
            "1-skeleton built with add_edge_without_blockers plus 0-6 valid blockers added with add_blocker; the constructor from a simplex "
            "list / make_complex_from_top_faces on random top faces, with is_flag_complex=true for half of those without a minimal non-face "
            "of dimension >= 2; or the clique complex of a random graph through either constructor with is_flag_complex=true), then 4-24 "
            "(config mixed), 40-90 (config long) or 4-16 (config wide) operations among add_vertex; add_edge / add_edge_without_blockers "
            "on an absent edge, on an edge that is already there (model: nothing changes) and their overloads taking a simplex (present, "
            "absent and mixed edges); add_simplex of a blocker (half of the time passing *blocker_handle, the object stored in the "
            "complex), of a superset of a blocker, of a random absent simplex with missing faces/edges, of a simplex with 1-2 vertex "
            "handles that do not exist yet (with and without earlier vertex removals / contractions; model: every handle up to the "
            "largest one of the simplex is created) and of a simplex of dimension >= 2 that is already in the complex (model: nothing "
            "changes); remove_star of a vertex / edge / simplex of dimension >= 2 (all overloads; half of them aimed inside a blocker of "
            "dimension >= 2 more), contract_edge (both overloads; edges inside a blocker, next to a blocker, or anywhere), add_blocker "
            "on a simplex, copy round trip. After EVERY step: contains() of all 2^N-1 vertex subsets against a bitmask model of the "
            "abstract complex; blocker_range / num_blockers / contains_blocker / blocker_range(v) against the minimal non-faces of "
            "dimension >= 2 of the model; vertex, edge, triangle and simplex ranges and counts (vertex_range, edge_range, triangle_range, "
            "num_triangles, complex_simplex_range, num_simplices), vertex_range(v) / edge_range(v) / triangle_range(v) of every vertex, "
            "get_vertices(e) of every edge, degrees, num_connected_components; star_simplex_range, coboundary_range and link (vertices, "
            "membership of every subset, blockers) of random simplices, link(Edge_handle) and link_condition(Edge_handle) of random "
            "edges; the Edge_handle returned by add_edge / add_edge_without_blockers. link_condition() is compared with the definition "
            "Lk(ab)=Lk(a)/\\Lk(b) on the model, and a contraction under the link condition must keep the Betti numbers over Z_2 and "
            "Z_3 and the Euler characteristic of the simplex set enumerated from contains() (oracle/zp_reduce.h). Unit skbl_geom runs "
            "config mixed on Skeleton_blocker_geometric_complex (its own constructors, add_vertex(point)) and also checks that point(v) "
            "of every vertex, and the points of the vertices of links, are the points given at creation. "
            "non-trivial = history (distinct by hash) that reached a state with >= 1 blocker and applied add_simplex of an absent "
            "simplex, an add_edge closing triangles, or a remove_star / contract_edge on a state with blockers",
    "assumptions": [
        "operations respect the documented preconditions by construction: remove_star / contract_edge only on simplices / edges of the complex "
        "(contract_edge of two non-adjacent vertices is not exercised), add_simplex only on simplices of dimension >= 2 whose vertices are "
        "present or have never existed (a handle of a removed vertex is never passed again), add_blocker only on a simplex of the complex "
        "that is not a face of an existing blocker",
        "add_simplex(*blocker_handle) is first run in a forked copy of the process (followed there by contains() of every subset); only if "
        "that copy survives is the call made in the harness process itself",
        "remove_edge / remove_vertex / remove_blockers / keep_only_vertices (which do not maintain the blocker set) and popable-blocker "
        "removal (remove_popable_blockers, link_condition(.., ignore_popable_blockers=true)) are not part of the histories; neither are "
        "self-assignment (c = c), queries with handles that never existed or Root_vertex_handle(-1), and ranges taken on a temporary "
        "simplex (coboundary_range(Simplex(..)) keeps a reference to its argument)",
        "the bitmask model in harness/c17_skeleton_blocker/c17_skeleton_blocker.cpp and oracle/zp_reduce.h are the trusted oracles",
        "after the known over-deletion of remove_star(vertex|edge) inside a blocker (signature *,inside_blocker,lost_exactly_blocker_residue_star) "
        "the model is reloaded from the implementation's contains() answers and the history continues; if the implementation's own state is then "
        "inconsistent (e.g. an edge stored as a blocker) the history is abandoned and counted (resync.abandoned*)",
        "leak detection is off (orchestrator default); Skeleton_blocker_link_complex::compute_link_blockers leaks the Simplex it allocates "
        "when the blocker is already present",
    ],
    "units": [
        {"name": "skbl", "src": ["c17_skeleton_blocker.cpp"], "variant": "asan",
         "configs": {"mixed": {"quick": 3000, "thorough": 300000}, "long": {"quick": 300, "thorough": 10000},
                     "wide": {"quick": 160, "thorough": 8000}}, "chunk": 10},
        {"name": "skbl_geom", "src": ["c17_skeleton_blocker.cpp"], "variant": "asan", "defs": ["C17_GEOM"],
         "configs": {"mixed": {"quick": 600, "thorough": 60000}}, "chunk": 25},
        {"name": "skbl_g", "src": ["c17_skeleton_blocker.cpp"], "variant": "gasan", "tiers": ["thorough"],
         "configs": {"mixed": {"thorough": 30000}}, "chunk": 25},
    ],
    "floors": {
        "quick": {"op.remove_star.inside_blocker": 600, "op.remove_star.vertex.inside_blocker": 400, "op.remove_star.edge.inside_blocker": 150,
                  "op.remove_star.simplex.facet_of_blocker": 80, "op.remove_star.with_cofaces": 2500,
                  "op.contract_edge.link_condition_ok": 1500, "op.contract_edge.link_condition_violated": 1000,
                  "op.contract_edge.link_condition_ok.blockers_at_endpoints": 150, "cmp.homotopy_invariants": 1500,
                  "op.add_simplex.boundary_present": 800, "op.add_simplex.edges_missing": 1200, "op.add_simplex.faces_missing": 100,
                  "op.add_edge.closing_triangles": 600, "op.add_edge_without_blockers.closing_triangles": 600,
                  "init.from_top_faces": 300, "init.from_simplex_list": 300,
                  "state.with_blockers": 7000, "cmp.link_blockers": 30000, "steps": 17000, "_distinct_nontrivial": 800,
                  # input classes added after the audit (about half of what seed 1 measures)
                  "op.add_simplex.arg_is_stored_blocker": 450, "op.add_simplex.new_vertex.after_removal": 350,
                  "op.add_simplex.new_vertex.no_removal": 200, "op.add_simplex.already_present.with_cofaces": 230,
                  "op.add_edge.already_present": 420, "op.add_edge_without_blockers.already_present": 400,
                  "op.add_edge.simplex_overload": 480, "op.add_edge_without_blockers.simplex_overload": 470,
                  "init.flag_option.top_faces": 230, "init.flag_option.simplex_list": 210, "state.handles_gt_9": 450,
                  "cmp.triangle_range_around_vertex": 110000, "cmp.get_vertices": 180000, "cmp.link_edge_handle": 40000,
                  "cmp.point": 15000, "cmp.link_point": 17000},
        "thorough": {"op.remove_star.inside_blocker": 60000, "op.contract_edge.link_condition_ok": 150000,
                     "op.contract_edge.link_condition_violated": 100000, "op.contract_edge.link_condition_ok.blockers_at_endpoints": 15000,
                     "op.add_simplex.boundary_present": 80000, "op.add_simplex.faces_missing": 10000,
                     "state.with_blockers": 600000, "steps": 1300000, "_distinct_nontrivial": 80000,
                     "op.add_simplex.arg_is_stored_blocker": 18000, "op.add_simplex.new_vertex.after_removal": 14000,
                     "op.add_simplex.already_present.with_cofaces": 9000, "op.add_edge.already_present": 17000,
                     "op.add_edge.simplex_overload": 19000, "init.flag_option.top_faces": 9000, "state.handles_gt_9": 18000},
    },
    "exhaustive": {"quick": False, "thorough": False},
    "exhaustive_note": "queries are exhaustive per step (every non-empty subset of the <= 9 (wide: <= 12) vertex handles is passed to contains() and "
                       "contains_blocker() after every operation); histories and initial complexes are sampled",
    "manifest": {
        "text": "Runtime monitor: random edit histories (vertex / edge / simplex additions - including edges and simplices that are already "
                "there, simplices on vertices that do not exist yet and a blocker passed as the object stored in the complex -, star removals "
                "of vertices, edges and higher simplices, edge contractions with and without the link condition, blocker additions, copies) "
                "drive Skeleton_blocker_complex and Skeleton_blocker_geometric_complex under ASan+UBSan; after every operation contains() of every vertex subset is compared with an independent bitmask model of "
                "the abstract complex (union with faces / deletion of exactly the star / image under vertex identification), the blocker set "
                "with the model's minimal non-faces, and counts, ranges (vertices, edges, triangles, simplices, also around each vertex), "
                "connected components, links, stars and coboundaries with the model; "
                "contractions under the link condition must preserve Betti numbers (Z_2, Z_3) and Euler characteristic computed by an "
                "independent reduction. Held on what was observed, not a proof. Known finding: remove_star of a vertex or edge lying in a "
                "blocker of dimension >= 2 more also deletes the star of (blocker minus removed simplex); an existing unit test encodes it.",
        "note": "trusted: bitmask model in the harness, oracle/zp_reduce.h, libstdc++/boost; <= 9 vertex handles per history (<= 12 in a "
                "low-count config); preconditions respected by construction; remove_edge/remove_vertex/keep_only_vertices/popable-blocker "
                "operations, self-assignment, handles of removed or never-created vertices in queries, and contraction of non-adjacent "
                "vertices are not exercised; after the known star-removal "
                "over-deletion the model is resynchronised from contains() (or the history abandoned when the library state is inconsistent)",
        "technique": "runtime monitoring: randomized operation histories + reference-model oracle swept exhaustively over all vertex subsets "
                     "after every step, homotopy invariants by independent Z_p reduction, under AddressSanitizer/UBSan",
    },
}

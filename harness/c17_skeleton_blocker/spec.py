SPEC = {
    "property": "C17",
    "rule": "placeholder",
    "assumptions": [],
    "units": [
        {"name": "skbl", "src": ["c17_skeleton_blocker.cpp"], "variant": "asan",
         "configs": {"mixed": {"quick": 3000, "thorough": 300000}, "long": {"quick": 300, "thorough": 20000}}, "chunk": 25},
    ],
    "floors": {"quick": {}, "thorough": {}},
    "manifest": {"text": "placeholder", "note": "", "technique": ""},
}

// C17 — Skeleton-blocker complexes track the abstract complex through edits and contractions.
//
// Model: the abstract simplicial complex as a table in[mask] over all non-empty subsets of the <= 9 (config wide: <= 12)
// vertex handles ever created (handles are never reused by the library).  Every operation is applied to the model as the property text
// defines it (union with the faces of a simplex, deletion of exactly the star, image under the vertex identification),
// and after every step the implementation is swept: contains() of every subset, the blocker set against the minimal
// non-faces of the model, counts / ranges / connected components, and links, stars and coboundaries of random simplices.
#include <gudhi/Skeleton_blocker.h>
#include "common/vh.h"
#include "oracle/zp_reduce.h"

#include <memory>
#include <cerrno>
#include <sys/time.h>
#include <sys/wait.h>

namespace {

typedef std::vector<double> Point;
#ifdef C17_GEOM
// second unit: the same histories on the geometric complex (a point attached to every vertex)
struct Geometry_trait { typedef std::vector<double> Point; };
typedef Gudhi::skeleton_blocker::Skeleton_blocker_simple_geometric_traits<Geometry_trait> Traits;
typedef Gudhi::skeleton_blocker::Skeleton_blocker_geometric_complex<Traits> Complex;
const bool kGeom = true;
#else
typedef Gudhi::skeleton_blocker::Skeleton_blocker_simple_traits Traits;
typedef Gudhi::skeleton_blocker::Skeleton_blocker_complex<Traits> Complex;
const bool kGeom = false;
#endif
typedef Complex::Edge_handle Edge_handle;
typedef Complex::Vertex_handle Vertex_handle;
typedef Complex::Root_vertex_handle Root_vertex_handle;
typedef Complex::Simplex Simplex;
typedef Complex::Root_simplex_handle Root_simplex;
typedef unsigned Mask;

inline Mask bit(int v) { return 1u << v; }
inline int pc(Mask m) { return __builtin_popcount(m); }
inline Point point_of(int v) { return Point{double(v), 0.5 * v}; }

// Runs fn() in a forked copy of the process (same device as harness/c02_pcoh/c02_common.h): used for the one call whose failure
// mode on a defective library is undefined behaviour that kills the process, so that the case gets ONE classified violation
// instead of a shard restart.  Verdicts depend on what the child did, never on wall-clock time: "died" = it was stopped by a
// fault signal (SIGABRT from the sanitizers / SIGSEGV / SIGBUS / SIGFPE / SIGILL) or exited with an error status, "timeout" =
// it used more CPU time than the budget (4 orders of magnitude above the cost of the call); anything else that happens to the
// child (e.g. killed from outside) is "inconclusive".
struct Guarded { enum Kind { ok, timeout, died, inconclusive } kind = ok; int sig = 0; };
template <class F>
Guarded guarded(F fn, int cpu_ms) {
  fflush(stdout); fflush(stderr);
  pid_t pid = fork();
  if (pid < 0) { Guarded g; g.kind = Guarded::inconclusive; return g; }
  if (pid == 0) {
    vh::G().cur_case = -1;  // the fatal-signal hook of vh.h must not write a history record from the child
    signal(SIGVTALRM, SIG_DFL);
    struct itimerval tv; memset(&tv, 0, sizeof tv);
    tv.it_value.tv_sec = cpu_ms / 1000; tv.it_value.tv_usec = (cpu_ms % 1000) * 1000;
    setitimer(ITIMER_VIRTUAL, &tv, nullptr);  // CPU time of the child only
    fn();
    _exit(0);
  }
  int st = 0;
  Guarded g;
  while (waitpid(pid, &st, 0) < 0) { if (errno != EINTR) { g.kind = Guarded::inconclusive; return g; } }
  if (WIFEXITED(st)) { g.kind = WEXITSTATUS(st) == 0 ? Guarded::ok : Guarded::died; return g; }
  g.sig = WIFSIGNALED(st) ? WTERMSIG(st) : 0;
  g.kind = g.sig == SIGVTALRM ? Guarded::timeout
         : (g.sig == SIGABRT || g.sig == SIGSEGV || g.sig == SIGBUS || g.sig == SIGFPE || g.sig == SIGILL) ? Guarded::died
         : Guarded::inconclusive;
  return g;
}

// ------------------------------------------------------------------------------------------------ model
struct Model {
  int N = 0;             // number of vertex handles ever created
  std::vector<char> in;  // in[mask], mask in [1, 2^N)
  std::vector<Point> pt; // the point given to each handle when it was created (geometric unit; empty = default constructed)
  Model() : in(1, 0) {}
  void add_vertex(const Point& p = Point()) { ++N; in.resize(size_t(1) << N, 0); in[bit(N - 1)] = 1; pt.push_back(p); }
  bool has(Mask m) const { return m != 0 && m < in.size() && in[m]; }
  Mask alive() const { Mask a = 0; for (int v = 0; v < N; ++v) if (in[bit(v)]) a |= bit(v); return a; }
  void add_edge(int a, int b) { in[bit(a) | bit(b)] = 1; }
  // adding an edge without blockers: every simplex through ab whose two faces opposite to a and to b are present appears
  void add_edge_flag(int a, int b) {
    Mask e = bit(a) | bit(b);
    for (Mask s = 1; s < in.size(); ++s)
      if ((s & e) == e && in[s & ~bit(a)] && in[s & ~bit(b)]) in[s] = 1;
  }
  void remove_star(Mask m) { for (Mask s = 1; s < in.size(); ++s) if ((s & m) == m) in[s] = 0; }
  void add_simplex(Mask m) { for (Mask s = m; s; s = (s - 1) & m) in[s] = 1; }
  // image of the complex under b -> a
  void contract(int a, int b) {
    std::vector<char> out(in.size(), 0);
    for (Mask s = 1; s < in.size(); ++s) if (in[s]) { Mask t = s; if (t & bit(b)) { t &= ~bit(b); t |= bit(a); } out[t] = 1; }
    in.swap(out);
  }
  bool closed() const {
    for (Mask s = 1; s < in.size(); ++s) if (in[s]) for (int v = 0; v < N; ++v) if ((s & bit(v)) && (s & ~bit(v)) && !in[s & ~bit(v)]) return false;
    return true;
  }
  bool minimal_nonface(Mask s) const {
    if (in[s]) return false;
    for (int v = 0; v < N; ++v) if (s & bit(v)) { Mask f = s & ~bit(v); if (!f || !in[f]) return false; }
    return true;
  }
  // minimal non-faces of dimension >= 2
  std::vector<Mask> blockers() const {
    std::vector<Mask> r;
    for (Mask s = 1; s < in.size(); ++s) if (pc(s) >= 3 && minimal_nonface(s)) r.push_back(s);
    return r;
  }
  // Lk(ab) = Lk(a) /\ Lk(b), by definition of the link
  bool link_condition(int a, int b) const {
    Mask e = bit(a) | bit(b);
    for (Mask t = 1; t < in.size(); ++t) {
      if (t & e) continue;
      bool in_ab = in[t | e], in_a = in[t | bit(a)], in_b = in[t | bit(b)];
      if (in_ab != (in_a && in_b)) return false;
    }
    return true;
  }
  int components() const {
    std::vector<int> p(N); for (int v = 0; v < N; ++v) p[v] = v;
    std::function<int(int)> f = [&](int x) { return p[x] == x ? x : p[x] = f(p[x]); };
    for (int a = 0; a < N; ++a) for (int b = a + 1; b < N; ++b) if (in[bit(a) | bit(b)]) p[f(a)] = f(b);
    int c = 0; for (int v = 0; v < N; ++v) if (in[bit(v)] && f(v) == v) ++c;
    return c;
  }
  size_t nsimplices() const { size_t c = 0; for (Mask s = 1; s < in.size(); ++s) c += in[s]; return c; }
  size_t nsimplices(int dim) const { size_t c = 0; for (Mask s = 1; s < in.size(); ++s) c += in[s] && pc(s) == dim + 1; return c; }
  int dimension() const { int d = -1; for (Mask s = 1; s < in.size(); ++s) if (in[s]) d = std::max(d, pc(s) - 1); return d; }
};

Simplex simplex_of(Mask m) { Simplex s; for (int v = 0; v < 32; ++v) if (m & bit(v)) s.add_vertex(Vertex_handle(v)); return s; }
bool mask_of(const Simplex& s, int N, Mask& m) {
  m = 0;
  for (auto v : s) { if (v.vertex < 0 || v.vertex >= N) return false; m |= bit(v.vertex); }
  return true;
}
std::string show(Mask m) {
  std::string o = "{"; bool f = true;
  for (int v = 0; v < 32; ++v) if (m & bit(v)) { if (!f) o += ","; f = false; o += std::to_string(v); }
  return o + "}";
}
std::string show(const std::vector<Mask>& v) { std::string o; for (Mask m : v) o += show(m) + " "; return o; }

// homotopy invariants of a simplex table, with the shared textbook reduction
struct Invariants { std::vector<int> b2, b3; long chi = 0; };
Invariants invariants(const std::vector<char>& tab) {
  std::vector<std::pair<int, Mask>> ord;
  for (Mask s = 1; s < tab.size(); ++s) if (tab[s]) ord.emplace_back(pc(s), s);
  std::sort(ord.begin(), ord.end());
  std::vector<oracle::Simplex> order;
  Invariants inv;
  for (auto& pm : ord) {
    oracle::Simplex s; for (int v = 0; v < 32; ++v) if (pm.second & bit(v)) s.push_back(v);
    order.push_back(s);
    inv.chi += (pm.first % 2 == 1) ? 1 : -1;
  }
  if (order.empty()) return inv;
  auto cells = oracle::cells_from_simplices(order);
  inv.b2 = oracle::betti(cells, 2); inv.b3 = oracle::betti(cells, 3);
  while (!inv.b2.empty() && inv.b2.back() == 0) inv.b2.pop_back();
  while (!inv.b3.empty() && inv.b3.back() == 0) inv.b3.pop_back();
  return inv;
}

struct Fail { std::string check, sig, detail; };

// ------------------------------------------------------------------------------------------------ observations
// Everything except the contains() sweep.  Returns false and fills f at the first inconsistency with the model.
bool check_structure(vh::Case& c, const Complex& cx, const Model& M, Fail& f) {
  const int N = M.N;
  // --- blockers = minimal non-faces of dimension >= 2
  std::vector<Mask> got; bool lowdim = false, foreign = false;
  for (auto b : cx.const_blocker_range()) {
    Mask m; if (!mask_of(*b, N, m)) foreign = true;
    if (b->dimension() < 2) lowdim = true;
    got.push_back(m);
  }
  std::sort(got.begin(), got.end());
  bool dup = std::adjacent_find(got.begin(), got.end()) != got.end();
  std::vector<Mask> want = M.blockers();
  c.count("cmp.blockers");
  if (foreign || lowdim || dup || got != want) {
    std::string k;
    if (foreign) k = "unknown_vertex_in_blocker";
    else if (lowdim) k = "blocker_of_dimension_below_2";
    else if (dup) k = "duplicate_blocker";
    else {
      bool missing = false, spurious = false;
      for (Mask m : want) if (!std::binary_search(got.begin(), got.end(), m)) missing = true;
      for (Mask m : got) if (!std::binary_search(want.begin(), want.end(), m)) spurious = true;
      k = missing && spurious ? "missing_and_non_minimal_blocker" : missing ? "missing_blocker" : "non_minimal_blocker";
    }
    f = {"blockers.set", k, "blocker_range: " + show(got) + "| minimal non-faces of the model: " + show(want)};
    return false;
  }
  c.count("cmp.num_blockers");
  if (cx.num_blockers() != want.size()) { f = {"blockers.num_blockers", "count_differs", "num_blockers=" + vh::str(cx.num_blockers()) + " want " + vh::str(want.size())}; return false; }
  for (Mask s = 1; s < M.in.size(); ++s) {
    bool g = cx.contains_blocker(simplex_of(s)), w = std::binary_search(want.begin(), want.end(), s);
    c.count("cmp.contains_blocker");
    if (g != w) { f = {"blockers.contains_blocker", w ? "blocker_not_reported" : "non_blocker_reported", "contains_blocker(" + show(s) + ")=" + vh::str(g)}; return false; }
  }
  for (int v = 0; v < N; ++v) {
    std::vector<Mask> gv, wv;
    for (auto b : cx.const_blocker_range(Vertex_handle(v))) { Mask m = 0; mask_of(*b, N, m); gv.push_back(m); }
    for (Mask m : want) if (m & bit(v)) wv.push_back(m);
    std::sort(gv.begin(), gv.end());
    c.count("cmp.blocker_range_vertex");
    if (gv != wv) { f = {"blockers.range_around_vertex", "set_differs", "blocker_range(" + vh::str(v) + "): " + show(gv) + "| want " + show(wv)}; return false; }
  }
  // --- vertices
  Mask alive = M.alive(), gotv = 0; int nv = 0;
  for (auto v : cx.vertex_range()) { if (v.vertex < 0 || v.vertex >= N) { f = {"vertices.range", "unknown_vertex", "vertex " + vh::str(v.vertex)}; return false; } gotv |= bit(v.vertex); ++nv; }
  c.count("cmp.vertices");
  if (gotv != alive || nv != pc(alive)) { f = {"vertices.range", "set_differs", "vertex_range " + show(gotv) + " want " + show(alive)}; return false; }
  if (cx.num_vertices() != pc(alive)) { f = {"vertices.num_vertices", "count_differs", "num_vertices=" + vh::str(cx.num_vertices()) + " want " + vh::str(pc(alive))}; return false; }
  if (cx.empty() != (alive == 0)) { f = {"vertices.empty", "differs", "empty()=" + vh::str(cx.empty())}; return false; }
  for (int v = 0; v < N; ++v) {
    if (cx.contains_vertex(Vertex_handle(v)) != bool(alive & bit(v)) || cx.contains_vertex(Root_vertex_handle(v)) != bool(alive & bit(v))) {
      f = {"vertices.contains_vertex", "differs", "contains_vertex(" + vh::str(v) + ")"}; return false;
    }
  }
  // --- edges
  std::set<Mask> gote; size_t ne = 0;
  for (auto e : cx.edge_range()) { int a = cx.first_vertex(e).vertex, b = cx.second_vertex(e).vertex; if (a < 0 || b < 0 || a >= N || b >= N || a == b) { f = {"edges.range", "bad_edge", vh::str(a) + "-" + vh::str(b)}; return false; } gote.insert(bit(a) | bit(b)); ++ne; }
  std::set<Mask> wante;
  for (int a = 0; a < N; ++a) for (int b = a + 1; b < N; ++b) if (M.in[bit(a) | bit(b)]) wante.insert(bit(a) | bit(b));
  c.count("cmp.edges");
  if (gote != wante || ne != wante.size()) { f = {"edges.range", gote.size() > wante.size() ? "edge_in_graph_not_in_complex" : "set_differs", "edge_range has " + vh::str(ne) + " edges, model " + vh::str(wante.size())}; return false; }
  if ((size_t)cx.num_edges() != wante.size()) { f = {"edges.num_edges", "count_differs", "num_edges=" + vh::str(cx.num_edges())}; return false; }
  for (int a = 0; a < N; ++a) {
    int deg = 0;
    for (int b = 0; b < N; ++b) if (a != b) {
      bool w = M.in[bit(a) | bit(b)];
      deg += w;
      if (cx.contains_edge(Vertex_handle(a), Vertex_handle(b)) != w) { f = {"edges.contains_edge", "differs", "contains_edge(" + vh::str(a) + "," + vh::str(b) + ")"}; return false; }
    }
    if ((alive & bit(a)) && cx.degree(Vertex_handle(a)) != deg) { f = {"edges.degree", "differs", "degree(" + vh::str(a) + ")=" + vh::str(cx.degree(Vertex_handle(a))) + " want " + vh::str(deg)}; return false; }
  }
  // --- simplices
  std::vector<Mask> gots;
  for (const auto& s : cx.complex_simplex_range()) { Mask m; if (!mask_of(s, N, m)) { f = {"simplices.range", "unknown_vertex", "foreign simplex"}; return false; } gots.push_back(m); }
  std::sort(gots.begin(), gots.end());
  c.count("cmp.complex_simplex_range");
  if (std::adjacent_find(gots.begin(), gots.end()) != gots.end()) { f = {"simplices.range", "duplicate_simplex", "complex_simplex_range lists a simplex twice"}; return false; }
  {
    std::vector<Mask> wants; for (Mask s = 1; s < M.in.size(); ++s) if (M.in[s]) wants.push_back(s);
    if (gots != wants) {
      bool lost = false, extra = false;
      for (Mask m : wants) if (!std::binary_search(gots.begin(), gots.end(), m)) lost = true;
      for (Mask m : gots) if (!std::binary_search(wants.begin(), wants.end(), m)) extra = true;
      f = {"simplices.range", lost && extra ? "lost_and_extra" : lost ? "simplex_not_listed" : "non_simplex_listed", "complex_simplex_range: " + vh::str(gots.size()) + " simplices, model " + vh::str(wants.size())};
      return false;
    }
  }
  c.count("cmp.num_simplices");
  if (cx.num_simplices() != M.nsimplices()) { f = {"simplices.num_simplices", "count_differs", "num_simplices=" + vh::str(cx.num_simplices()) + " want " + vh::str(M.nsimplices())}; return false; }
  for (int d = 0; d <= M.dimension() + 1; ++d)
    if (cx.num_simplices(d) != M.nsimplices(d)) { f = {"simplices.num_simplices_dim", "count_differs", "num_simplices(" + vh::str(d) + ")=" + vh::str(cx.num_simplices(d)) + " want " + vh::str(M.nsimplices(d))}; return false; }
  c.count("cmp.num_connected_components");
  if (cx.num_connected_components() != M.components()) { f = {"components.num_connected_components", "count_differs", "num_connected_components=" + vh::str(cx.num_connected_components()) + " want " + vh::str(M.components())}; return false; }
  // --- triangles: triangle_range(), num_triangles(), triangle_range(v)
  std::vector<Mask> wantt, gott;
  for (Mask s = 1; s < M.in.size(); ++s) if (M.in[s] && pc(s) == 3) wantt.push_back(s);
  for (const auto& t : cx.triangle_range()) { Mask m; if (!mask_of(t, N, m) || t.dimension() != 2) { f = {"triangles.range", "not_a_triangle_on_known_vertices", "triangle_range lists a foreign simplex"}; return false; } gott.push_back(m); }
  std::sort(gott.begin(), gott.end());
  c.count("cmp.triangle_range");
  if (std::adjacent_find(gott.begin(), gott.end()) != gott.end()) { f = {"triangles.range", "duplicate_triangle", "triangle_range: " + show(gott)}; return false; }
  if (gott != wantt) { f = {"triangles.range", gott.size() > wantt.size() ? "non_triangle_listed" : "set_differs", "triangle_range: " + show(gott) + "| want " + show(wantt)}; return false; }
  if ((size_t)cx.num_triangles() != wantt.size()) { f = {"triangles.num_triangles", "count_differs", "num_triangles=" + vh::str(cx.num_triangles()) + " want " + vh::str(wantt.size())}; return false; }
  // --- around every vertex: vertex_range(v), edge_range(v), triangle_range(v)
  for (int v = 0; v < N; ++v) if (alive & bit(v)) {
    Mask wn = 0; for (int u = 0; u < N; ++u) if (u != v && M.in[bit(u) | bit(v)]) wn |= bit(u);
    Mask nb = 0; int cnt = 0; bool bad = false;
    for (auto u : cx.vertex_range(Vertex_handle(v))) { if (u.vertex < 0 || u.vertex >= N) bad = true; else nb |= bit(u.vertex); ++cnt; }
    c.count("cmp.vertex_range_around_vertex");
    if (bad || nb != wn || cnt != pc(wn)) { f = {"vertices.range_around_vertex", "set_differs", "vertex_range(" + vh::str(v) + "): " + show(nb) + " (" + vh::str(cnt) + " items) want " + show(wn)}; return false; }
    nb = 0; cnt = 0;
    for (auto e : cx.edge_range(Vertex_handle(v))) {
      int a = cx.first_vertex(e).vertex, b = cx.second_vertex(e).vertex;
      if ((a != v && b != v) || a == b || a < 0 || b < 0 || a >= N || b >= N) bad = true; else nb |= bit(a == v ? b : a);
      ++cnt;
    }
    c.count("cmp.edge_range_around_vertex");
    if (bad || nb != wn || cnt != pc(wn)) { f = {"edges.range_around_vertex", bad ? "edge_not_through_vertex" : "set_differs", "edge_range(" + vh::str(v) + "): other endpoints " + show(nb) + " (" + vh::str(cnt) + " items) want " + show(wn)}; return false; }
    std::vector<Mask> gv, wv;
    for (const auto& t : cx.triangle_range(Vertex_handle(v))) { Mask m = 0; if (!mask_of(t, N, m)) m = ~0u; gv.push_back(m); }
    for (Mask t : wantt) if (t & bit(v)) wv.push_back(t);
    std::sort(gv.begin(), gv.end());
    c.count("cmp.triangle_range_around_vertex");
    if (gv != wv) { f = {"triangles.range_around_vertex", gv.size() > wv.size() ? "extra_or_duplicate" : "set_differs", "triangle_range(" + vh::str(v) + "): " + show(gv) + "| want " + show(wv)}; return false; }
  }
  // --- get_vertices of every edge handle
  for (auto e : cx.edge_range()) {
    int a = cx.first_vertex(e).vertex, b = cx.second_vertex(e).vertex;
    Mask m = 0; Simplex gvs = cx.get_vertices(e);
    c.count("cmp.get_vertices");
    if (!mask_of(gvs, N, m) || m != (bit(a) | bit(b))) { f = {"edges.get_vertices", "differs_from_endpoints", "get_vertices(edge " + vh::str(a) + "," + vh::str(b) + ")=" + show(m)}; return false; }
  }
#ifdef C17_GEOM
  // --- the point of every vertex is the one it was created with
  for (int v = 0; v < N; ++v) if (alive & bit(v)) {
    c.count("cmp.point");
    if (cx.point(Vertex_handle(v)) != M.pt[v] || cx.point(Root_vertex_handle(v)) != M.pt[v]) { f = {"points.point", M.pt[v].empty() ? "default_point_changed" : "given_point_changed", "point(" + vh::str(v) + ") has " + vh::str(cx.point(Vertex_handle(v)).size()) + " coordinates"}; return false; }
  }
#endif
  return true;
}

// a link complex against the model: vertices, membership of every subset of its vertices (through root identifiers), blockers
template <class Link>
bool check_link(vh::Case& c, const Link& L, Mask sg, const Model& M, const std::string& cls, Fail& f) {
  const int N = M.N;
  Mask lv = 0, wlv = 0;
  for (int v = 0; v < N; ++v) if (L.contains_vertex(Root_vertex_handle(v))) lv |= bit(v);
  for (int v = 0; v < N; ++v) if (!(sg & bit(v)) && M.in[sg | bit(v)]) wlv |= bit(v);
  if (lv != wlv || L.num_vertices() != pc(wlv)) { f = {"local.link_vertices", cls, "link(" + show(sg) + ") vertices " + show(lv) + " want " + show(wlv)}; return false; }
  std::vector<Mask> wbl;
  for (Mask t = lv; t; t = (t - 1) & lv) {
    Root_simplex rs; for (int v = 0; v < N; ++v) if (t & bit(v)) rs.add_vertex(Root_vertex_handle(v));
    auto loc = L.get_simplex_address(rs);
    if (!loc) { f = {"local.link_contains", cls + ",no_address", "no local address for " + show(t)}; return false; }
    bool g = L.contains(*loc), w = M.in[t | sg];
    c.count("cmp.link_contains");
    if (g != w) { f = {"local.link_contains", cls + (w ? ",lost_simplex" : ",extra_simplex"), "link(" + show(sg) + ").contains(" + show(t) + ")=" + vh::str(g)}; return false; }
    if (pc(t) >= 3 && !w) {  // minimal non-face of the link?
      bool minimal = true;
      for (int v = 0; v < N; ++v) if ((t & bit(v)) && !M.in[(t & ~bit(v)) | sg]) minimal = false;
      if (minimal) wbl.push_back(t);
    }
  }
  std::vector<Mask> gbl;
  for (auto b : L.const_blocker_range()) {
    Mask m = 0; bool ok = true;
    for (auto x : *b) { int id = L.get_id(x).vertex; if (id < 0 || id >= N) ok = false; else m |= bit(id); }
    gbl.push_back(ok ? m : ~0u);
  }
  std::sort(gbl.begin(), gbl.end()); std::sort(wbl.begin(), wbl.end());
  c.count("cmp.link_blockers");
  if (gbl != wbl) { f = {"local.link_blockers", cls, "link(" + show(sg) + ") blockers " + show(gbl) + "| minimal non-faces of the link " + show(wbl)}; return false; }
#ifdef C17_GEOM
  // the link of the geometric complex carries the points of the parent
  for (auto u : L.vertex_range()) {
    int id = L.get_id(u).vertex;
    c.count("cmp.link_point");
    if (id < 0 || id >= N || L.point(u) != M.pt[id]) { f = {"points.link_point", cls, "link(" + show(sg) + "): point of vertex " + vh::str(id)}; return false; }
  }
#endif
  return true;
}

// links, stars, coboundaries of randomly chosen simplices of the complex
bool check_local(vh::Case& c, const Complex& cx, const Model& M, Fail& f) {
  vh::Rng& r = c.rng;
  std::vector<Mask> simp; for (Mask s = 1; s < M.in.size(); ++s) if (M.in[s]) simp.push_back(s);
  if (simp.empty()) return true;
  const int N = M.N;
  // star of a vertex
  {
    Mask alive = M.alive(); std::vector<int> av; for (int v = 0; v < N; ++v) if (alive & bit(v)) av.push_back(v);
    int v = r.pick(av);
    std::vector<Mask> g, w;
    for (const auto& s : cx.star_simplex_range(Vertex_handle(v))) { Mask m = 0; if (!mask_of(s, N, m)) m = ~0u; g.push_back(m); }
    for (Mask s : simp) if (s & bit(v)) w.push_back(s);
    std::sort(g.begin(), g.end());
    c.count("cmp.star_simplex_range");
    if (g != w) { f = {"local.star_simplex_range", g.size() > w.size() ? "extra_or_duplicate" : "set_differs", "star_simplex_range(" + vh::str(v) + "): " + show(g) + "| want " + show(w)}; return false; }
  }
  // coboundary and link of a simplex
  for (int rep = 0; rep < 2; ++rep) {
    Mask sg = r.pick(simp);
    Simplex sigma = simplex_of(sg);
    {
      std::vector<Mask> g, w;
      for (const auto& s : cx.coboundary_range(sigma)) { Mask m = 0; if (!mask_of(s, N, m)) m = ~0u; g.push_back(m); }
      for (int v = 0; v < N; ++v) if (!(sg & bit(v)) && M.in[sg | bit(v)]) w.push_back(sg | bit(v));
      std::sort(g.begin(), g.end()); std::sort(w.begin(), w.end());
      c.count("cmp.coboundary_range");
      if (g != w) { f = {"local.coboundary_range", "set_differs", "coboundary_range(" + show(sg) + "): " + show(g) + "| want " + show(w)}; return false; }
    }
    {
      auto L = cx.link(sigma);
      c.count("cmp.link");
      std::string cls = pc(sg) == 1 ? "of_vertex" : pc(sg) == 2 ? "of_edge" : "of_simplex";
      if (!check_link(c, L, sg, M, cls, f)) return false;
    }
  }
  // the Edge_handle overloads: link(e) and link_condition(e) of random edges
  std::vector<Mask> edges; for (Mask s : simp) if (pc(s) == 2) edges.push_back(s);
  for (int rep = 0; rep < 2 && !edges.empty(); ++rep) {
    Mask eg = r.pick(edges);
    int a = __builtin_ctz(eg), b = 31 - __builtin_clz(eg);
    if (r.chance(1, 2)) std::swap(a, b);
    auto eh = cx[std::make_pair(Vertex_handle(a), Vertex_handle(b))];
    if (!eh) { f = {"edges.handle", "no_handle_for_present_edge", "operator[] returned no edge for " + show(eg)}; return false; }
    bool lc = M.link_condition(a, b), glc = cx.link_condition(*eh);
    c.count("cmp.link_condition_edge_handle");
    if (glc != lc) { f = {"local.link_condition_edge_handle", lc ? "holds_reported_violated" : "violated_reported_holding", "link_condition(edge " + show(eg) + ")=" + vh::str(glc)}; return false; }
    auto L = cx.link(*eh);
    c.count("cmp.link_edge_handle");
    if (!check_link(c, L, eg, M, "of_edge_handle", f)) return false;
  }
  return true;
}

// ------------------------------------------------------------------------------------------------ one history
struct StarCtx { bool active = false; Mask sigma = 0; std::vector<Mask> blockers_before; };

struct Run {
  vh::Case& c;
  std::unique_ptr<Complex> cx;
  Model M;
  std::vector<char> obs;      // last contains() sweep of the implementation
  size_t peak_blockers = 0;
  bool meaningful_edit = false;
  int max_handles = 9;        // handles per history (config wide: 12)
  bool wide = false;
  explicit Run(vh::Case& c_) : c(c_) {}

  void sweep() {
    obs.assign(M.in.size(), 0);
    for (Mask s = 1; s < M.in.size(); ++s) obs[s] = cx->contains(simplex_of(s));
    c.count("cmp.contains", M.in.size() - 1);
  }

  // Known over-deletion of remove_star(vertex|edge): what the sweep would lose if, for every blocker B that contains the
  // removed simplex sigma with dim B - dim sigma >= 2, the stars of B \ sigma were deleted as well.  Used ONLY to
  // classify a mismatch (signature), never to decide whether there is one.

  // compares the sweep with the model.  returns 0 = equal, 1 = mismatch reported and model resynchronised, 2 = fatal
  int compare_sets(const std::string& opsig, const StarCtx& sc) {
    std::vector<Mask> lost, extra;
    for (Mask s = 1; s < M.in.size(); ++s) { if (M.in[s] && !obs[s]) lost.push_back(s); if (!M.in[s] && obs[s]) extra.push_back(s); }
    if (lost.empty() && extra.empty()) return 0;
    std::string detail = "lost (in the model, contains() false): " + show(lost) + "| extra (contains() true, not in the model): " + show(extra);
    if (sc.active && extra.empty()) {
      std::vector<Mask> residues; int min_res_dim = 99;
      for (Mask b : sc.blockers_before) if ((b & sc.sigma) == sc.sigma && pc(b) - pc(sc.sigma) >= 2) { residues.push_back(b & ~sc.sigma); min_res_dim = std::min(min_res_dim, pc(b & ~sc.sigma) - 1); }
      std::vector<Mask> predicted;
      for (Mask s = 1; s < M.in.size(); ++s) if (M.in[s]) for (Mask t : residues) if ((s & t) == t) { predicted.push_back(s); break; }
      if (!residues.empty() && predicted == lost) {
        c.violation("contains", opsig + ",lost_exactly_blocker_residue_star", detail + "| blocker residues: " + show(residues));
        c.count("known_kind.remove_star_residue");
        // resynchronise: the model becomes what the implementation answers, if that is a simplicial complex
        Model R = M; R.in = obs;
        if (!R.closed()) { c.count("resync.abandoned_not_closed"); return 2; }
        M = R;
        Fail f;
        if (!check_structure(c, *cx, M, f)) { c.count("resync.abandoned_inconsistent_state"); c.count(min_res_dim < 2 ? "resync.abandoned.residue_dim_1" : "resync.abandoned.residue_dim_ge_2"); return 2; }
        c.count("resync.continued");
        return 1;
      }
    }
    c.violation("contains", opsig + (lost.empty() ? ",extra_simplex" : extra.empty() ? ",lost_simplex" : ",lost_and_extra"), detail);
    return 2;
  }

  // full observation after a step.  returns false when the case must stop
  bool observe(const std::string& opsig, const StarCtx& sc = StarCtx()) {
    sweep();
    int r = compare_sets(opsig, sc);
    if (r == 2) return false;
    if (r == 0) {
      Fail f;
      if (!check_structure(c, *cx, M, f)) { c.violation(f.check, opsig + "," + f.sig, f.detail); return false; }
    }
    Fail f;
    if (!check_local(c, *cx, M, f)) { c.violation(f.check, f.sig, "after " + opsig + ": " + f.detail); return false; }  // a query on the current state: the signature does not depend on the last operation
    c.count("steps");
    size_t nb = cx->num_blockers();
    peak_blockers = std::max(peak_blockers, nb);
    if (nb == 0) c.count("state.flag_complex"); else c.count("state.with_blockers");
    if (M.alive() == 0) c.count("state.empty_complex");
    if (M.dimension() >= 3) c.count("state.dimension_ge_3");
    if (M.N > 9) c.count("state.handles_gt_9");
    if (pc(M.alive()) < M.N) c.count("state.with_removed_vertices");
    return true;
  }

  std::vector<Mask> simplices_of_size(int lo, int hi) const {
    std::vector<Mask> r; for (Mask s = 1; s < M.in.size(); ++s) if (M.in[s] && pc(s) >= lo && pc(s) <= hi) r.push_back(s); return r;
  }
  // simplices of dimension >= 2 that may become a blocker: in the complex and not a face of an existing blocker
  // (a blocker set is pairwise non-nested)
  std::vector<Mask> blocker_candidates() const {
    std::vector<Mask> bl = M.blockers(), r;
    for (Mask s : simplices_of_size(3, 32)) { bool nested = false; for (Mask b : bl) if ((b & s) == s) nested = true; if (!nested) r.push_back(s); }
    return r;
  }
  std::vector<int> alive_list() const { std::vector<int> r; Mask a = M.alive(); for (int v = 0; v < M.N; ++v) if (a & bit(v)) r.push_back(v); return r; }
  Mask random_subset(vh::Rng& r, const std::vector<int>& pool, int size) { std::vector<int> p = pool; r.shuffle(p); Mask m = 0; for (int i = 0; i < size && i < (int)p.size(); ++i) m |= bit(p[i]); return m; }

  // ---------------- initial state
  // n vertices with their points (geometric unit) / without (abstract unit)
  void new_complex_with_vertices(int n) {
    vh::Rng& r = c.rng;
#ifdef C17_GEOM
    std::vector<Point> pts; for (int i = 0; i < n; ++i) pts.push_back(point_of(i));
    if (r.chance(1, 2)) {
      c.log("new Complex(" + vh::str(n) + " points)");
      cx.reset(new Complex(n, pts.begin(), pts.end()));
    } else {
      c.log("new Complex() + " + vh::str(n) + " x add_vertex(point)");
      cx.reset(new Complex());
      for (int i = 0; i < n; ++i) cx->add_vertex(pts[i]);
    }
    for (int i = 0; i < n; ++i) M.add_vertex(pts[i]);
#else
    (void)r;
    c.log("new Complex(" + vh::str(n) + ")");
    cx.reset(new Complex(n));
    for (int i = 0; i < n; ++i) M.add_vertex();
#endif
  }
  // the two constructors from simplices (a list of all simplices / the top faces), with the is_flag_complex option
  void complex_from_simplices(bool from_tops, const std::vector<Mask>& tops, int n, bool flag_option) {
    vh::Rng& r = c.rng;
    std::vector<Point> pts; for (int i = 0; i < n; ++i) pts.push_back(point_of(i));
    std::string l = from_tops ? "make_complex_from_top_faces" : "Complex(simplex list) closure of";
    if (flag_option) l += " [is_flag_complex=true]";
    for (Mask t : tops) l += " " + show(t);
    c.log(l);
    if (from_tops) {
      std::vector<Simplex> ts; for (Mask t : tops) ts.push_back(simplex_of(t));
      r.shuffle(ts);
#ifdef C17_GEOM
      cx.reset(new Complex(Gudhi::skeleton_blocker::make_complex_from_top_faces<Complex>(ts.begin(), ts.end(), pts.begin(), pts.end(), flag_option)));
#else
      cx.reset(new Complex(Gudhi::skeleton_blocker::make_complex_from_top_faces<Complex>(ts.begin(), ts.end(), flag_option)));
#endif
    } else {
      std::vector<Simplex> all; for (Mask s = 1; s < M.in.size(); ++s) if (M.in[s]) all.push_back(simplex_of(s));
      r.shuffle(all);
#ifdef C17_GEOM
      cx.reset(new Complex(all.begin(), all.end(), pts.begin(), pts.end(), flag_option));
#else
      cx.reset(new Complex(all.begin(), all.end(), flag_option));
#endif
    }
    if (kGeom) for (int i = 0; i < n; ++i) M.pt[i] = pts[i];
  }

  bool build_initial() {
    vh::Rng& r = c.rng;
    int n = wide ? 8 + (int)r.below(max_handles - 8) : 3 + (int)r.below(6);  // 3..8 (wide: 8..11)
    unsigned route = (unsigned)r.below(100);
    static const unsigned dens[] = {30, 50, 70, 85, 100};
    if (route < 56) {
      // arbitrary 1-skeleton, then a random valid blocker set
      new_complex_with_vertices(n);
      unsigned p = dens[r.below(5)];
      for (int a = 0; a < n; ++a) for (int b = a + 1; b < n; ++b) if (r.below(100) < p) {
        c.log("add_edge_without_blockers " + vh::str(a) + " " + vh::str(b));
        cx->add_edge_without_blockers(Vertex_handle(a), Vertex_handle(b));
        M.add_edge_flag(a, b);
      }
      c.count("init.graph_and_blockers");
      if (!observe("op=init.flag_complex")) return false;
      int nb = (int)r.below(7);
      for (int i = 0; i < nb; ++i) {
        // a simplex of the current complex of dimension >= 2 that is not a face of an existing blocker
        std::vector<Mask> cand = blocker_candidates();
        if (cand.empty()) break;
        int maxsz = 0; for (Mask s : cand) maxsz = std::max(maxsz, pc(s));
        int want = 3 + (int)r.below(maxsz - 2);  // uniform over sizes, so large blockers are not rare
        std::vector<Mask> c2; for (Mask s : cand) if (pc(s) == want) c2.push_back(s);
        Mask s = r.pick(c2.empty() ? cand : c2);
        c.log("add_blocker " + show(s));
        cx->add_blocker(simplex_of(s));
        M.remove_star(s);
        c.count("op.add_blocker");
        if (!observe("op=add_blocker")) return false;
      }
    } else if (route < 64) {
      // the clique complex of a random graph (a flag complex by construction) through the constructors from simplices,
      // told that it is a flag complex
      for (int i = 0; i < n; ++i) M.add_vertex();
      unsigned p = dens[r.below(5)];
      std::vector<Mask> absent;
      for (int a = 0; a < n; ++a) for (int b = a + 1; b < n; ++b) if (r.below(100) >= p) absent.push_back(bit(a) | bit(b));
      for (Mask s = 1; s < M.in.size(); ++s) { bool clique = true; for (Mask e : absent) if ((s & e) == e) clique = false; M.in[s] = clique; }
      std::vector<Mask> tops;
      for (Mask s = 1; s < M.in.size(); ++s) if (M.in[s]) { bool top = true; for (int v = 0; v < n; ++v) if (!(s & bit(v)) && M.in[s | bit(v)]) top = false; if (top) tops.push_back(s); }
      bool from_tops = r.chance(1, 2);
      complex_from_simplices(from_tops, tops, n, true);
      c.count("init.clique_complex");
      c.count(from_tops ? "init.flag_option.top_faces" : "init.flag_option.simplex_list");
      if (!observe("op=init.clique_complex,is_flag_complex")) return false;
    } else {
      // from a list of simplices: random top faces
      int nt = 1 + (int)r.below(6);
      std::vector<int> pool; for (int v = 0; v < n; ++v) pool.push_back(v);
      std::vector<Mask> tops; Mask covered = 0;
      for (int i = 0; i < nt; ++i) { Mask t = random_subset(r, pool, 1 + (int)r.below(std::min(n, 5))); tops.push_back(t); covered |= t; }
      for (int v = 0; v < n; ++v) if (!(covered & bit(v))) tops.push_back(bit(v));  // vertices are contiguous in this constructor
      for (int i = 0; i < n; ++i) M.add_vertex();
      std::fill(M.in.begin(), M.in.end(), 0);
      for (Mask t : tops) M.add_simplex(t);
      // is_flag_complex may be passed when the complex has no minimal non-face of dimension >= 2
      bool flag_option = M.blockers().empty() && r.chance(1, 2);
      bool from_tops = route < 83;
      complex_from_simplices(from_tops, tops, n, flag_option);
      c.count(from_tops ? "init.from_top_faces" : "init.from_simplex_list");
      if (flag_option) c.count(from_tops ? "init.flag_option.top_faces" : "init.flag_option.simplex_list");
      if (!observe(flag_option ? "op=init.from_simplices,is_flag_complex" : "op=init.from_simplices")) return false;
    }
    return true;
  }

  // ---------------- one random operation; returns false when the case must stop
  bool step() {
    vh::Rng& r = c.rng;
    unsigned op = (unsigned)r.below(100);
    std::vector<int> av = alive_list();
    std::vector<Mask> bl = M.blockers();
    if (op < 6) {
      if (M.N >= max_handles) { c.count("skip.add_vertex_cap"); return true; }
      Vertex_handle v;
#ifdef C17_GEOM
      if (r.chance(1, 2)) {
        c.log("add_vertex(point)");
        v = cx->add_vertex(point_of(M.N));
        M.add_vertex(point_of(M.N));
      } else  // NOLINT
#endif
      {
        c.log("add_vertex");
        v = cx->add_vertex();
        M.add_vertex();
      }
      c.count("op.add_vertex");
      if (v.vertex != M.N - 1) { c.violation("vertices.add_vertex_return", "op=add_vertex,not_next_handle", "returned " + vh::str(v.vertex)); return false; }
      return observe("op=add_vertex");
    }
    if (op < 28) {
      // add_edge / add_edge_without_blockers: an absent edge (blockers, or not, on the triangles it closes), an edge that is
      // already there (nothing changes), or the overloads taking a simplex (all its edges, one after the other)
      const bool with_blockers = r.chance(1, 2);
      const std::string fn = with_blockers ? "add_edge" : "add_edge_without_blockers";
      unsigned mode = (unsigned)r.below(10);
      if (mode >= 8) {
        if (av.size() < 2) { c.count("skip.add_edge_few_vertices"); return true; }
        Mask s = random_subset(r, av, 2 + (int)r.below(std::min<size_t>(av.size() - 1, 4)));
        int n_absent = 0;
        for (int a = 0; a < M.N; ++a) for (int b = a + 1; b < M.N; ++b) if ((s & bit(a)) && (s & bit(b)) && !M.in[bit(a) | bit(b)]) ++n_absent;
        c.log(fn + " simplex " + show(s));
        if (with_blockers) cx->add_edge(simplex_of(s)); else cx->add_edge_without_blockers(simplex_of(s));
        for (int a = 0; a < M.N; ++a) for (int b = a + 1; b < M.N; ++b) if ((s & bit(a)) && (s & bit(b)) && !M.in[bit(a) | bit(b)]) { if (with_blockers) M.add_edge(a, b); else M.add_edge_flag(a, b); }
        std::string cls = n_absent == 0 ? "all_edges_present" : n_absent == pc(s) * (pc(s) - 1) / 2 ? "no_edge_present" : "some_edges_present";
        c.count("op." + fn + ".simplex_overload");
        c.count("op." + fn + ".simplex_overload." + cls);
        return observe("op=" + fn + ",simplex_overload," + cls);
      }
      const bool present = mode >= 6;
      std::vector<std::pair<int, int>> cand;
      for (size_t i = 0; i < av.size(); ++i) for (size_t j = i + 1; j < av.size(); ++j) if (bool(M.in[bit(av[i]) | bit(av[j])]) == present) cand.emplace_back(av[i], av[j]);
      if (cand.empty()) { c.count(present ? "skip.add_edge_no_edge" : "skip.add_edge_complete_graph"); return true; }
      auto e = r.pick(cand);
      if (r.chance(1, 2)) std::swap(e.first, e.second);
      int closes = 0; for (int v : av) if (M.in[bit(v) | bit(e.first)] && M.in[bit(v) | bit(e.second)]) ++closes;
      std::string cls = present ? "already_present" : closes ? "closing_triangles" : "plain";
      c.log(fn + " " + vh::str(e.first) + " " + vh::str(e.second));
      Edge_handle eh = with_blockers ? cx->add_edge(Vertex_handle(e.first), Vertex_handle(e.second)) : cx->add_edge_without_blockers(Vertex_handle(e.first), Vertex_handle(e.second));
      if (!present) { if (with_blockers) M.add_edge(e.first, e.second); else M.add_edge_flag(e.first, e.second); }
      c.count("op." + fn + "." + cls);
      if (with_blockers && !present && closes) meaningful_edit = true;
      {
        // the returned handle is the edge between the two vertices
        int fa = cx->first_vertex(eh).vertex, fb = cx->second_vertex(eh).vertex;
        c.count("cmp.add_edge_return");
        if (!((fa == e.first && fb == e.second) || (fa == e.second && fb == e.first))) { c.violation("edges.add_edge_return", "op=" + fn + "," + cls + ",handle_of_another_edge", "returned the edge " + vh::str(fa) + "," + vh::str(fb)); return false; }
      }
      return observe("op=" + fn + "," + cls);
    }
    if (op < 48) {
      // add_simplex of a simplex of dimension >= 2: absent on present vertices (a blocker, a superset of a blocker, a random one),
      // with vertices that do not exist yet, or already in the complex (nothing changes)
      Mask s = 0; std::string cls;
      unsigned kind = (unsigned)r.below(20);
      if (kind < 3) {
        // already there: "add a simplex and all its faces" to a complex that has them leaves the complex as it is
        std::vector<Mask> cand = simplices_of_size(3, 32), withco;
        if (cand.empty()) { c.count("skip.add_simplex_present_none"); return true; }
        for (Mask t : cand) { bool co = false; for (int v = 0; v < M.N; ++v) if (!(t & bit(v)) && M.has(t | bit(v))) co = true; if (co) withco.push_back(t); }
        s = (!withco.empty() && r.chance(2, 3)) ? r.pick(withco) : r.pick(cand);
        bool co = std::find(withco.begin(), withco.end(), s) != withco.end();
        c.log("add_simplex " + show(s) + " (present)");
        cx->add_simplex(simplex_of(s));
        c.count("op.add_simplex.already_present");
        if (co) c.count("op.add_simplex.already_present.with_cofaces");
        return observe("op=add_simplex,already_present");
      }
      if (kind < 6) {
        // some vertices of the simplex do not exist yet: the library creates them (handles are contiguous, so every handle up
        // to the largest one of the simplex exists afterwards)
        int room = max_handles - M.N;
        if (room < 1) { c.count("skip.add_simplex_new_vertex_cap"); return true; }
        int k = 1 + (room >= 2 && r.chance(1, 3) ? 1 : 0);
        bool gap = room >= k + 1 && r.chance(1, 4);
        int first = M.N + (gap ? 1 : 0);
        Mask fresh = 0; for (int i = 0; i < k; ++i) fresh |= bit(first + i);
        int need = std::max(0, 3 - k);
        if ((int)av.size() < need) { c.count("skip.add_simplex_few_vertices"); return true; }
        int nb = need + (int)r.below(std::min<size_t>(av.size() - need, 2) + 1);
        s = random_subset(r, av, nb) | fresh;
        bool removed = pc(M.alive()) < M.N;
        cls = std::string("new_vertex,") + (removed ? "after_removal" : "no_removal");
        c.log("add_simplex " + show(s) + " (handles from " + vh::str(M.N) + " on do not exist yet)");
        cx->add_simplex(simplex_of(s));
        while (M.N < first + k) M.add_vertex();
        M.add_simplex(s);
        c.count(std::string("op.add_simplex.new_vertex.") + (removed ? "after_removal" : "no_removal"));
        if (gap) c.count("op.add_simplex.new_vertex.skipping_a_handle");
        meaningful_edit = true;
        return observe("op=add_simplex," + cls);
      }
      unsigned mode = (unsigned)r.below(10);
      if (!bl.empty() && mode < 5) { s = r.pick(bl); cls = "boundary_present"; }  // absent with all proper faces present = a blocker
      else if (!bl.empty() && mode < 7) {
        // a proper superset of a blocker: absent, and some of its proper faces are absent too
        s = r.pick(bl) | random_subset(r, av, 1 + (int)r.below(2));
        bool bp = M.minimal_nonface(s), edges = true;
        for (int a = 0; a < M.N; ++a) for (int b = a + 1; b < M.N; ++b) if ((s & bit(a)) && (s & bit(b)) && !M.in[bit(a) | bit(b)]) edges = false;
        cls = bp ? "boundary_present" : edges ? "faces_missing" : "edges_missing";
      } else {
        if (av.size() < 3) { c.count("skip.add_simplex_few_vertices"); return true; }
        for (int t = 0; t < 6 && !s; ++t) { Mask m = random_subset(r, av, 3 + (int)r.below(std::min<size_t>(av.size() - 2, 3))); if (!M.in[m]) s = m; }
        if (!s) { c.count("skip.add_simplex_none_absent"); return true; }
        bool bp = M.minimal_nonface(s), edges = true;
        for (int a = 0; a < M.N; ++a) for (int b = a + 1; b < M.N; ++b) if ((s & bit(a)) && (s & bit(b)) && !M.in[bit(a) | bit(b)]) edges = false;
        cls = bp ? "boundary_present" : edges ? "faces_missing" : "edges_missing";
      }
      bool has_coface_candidates = false;
      for (int v : av) if (!(s & bit(v))) { bool all = true; for (int u = 0; u < M.N; ++u) if ((s & bit(u)) && !M.in[bit(u) | bit(v)]) all = false; if (all) has_coface_candidates = true; }
      // filling a blocker: half of the time the argument IS the blocker stored in the complex (*blocker_handle), which
      // add_simplex removes from the blocker set while it works
      Complex::Blocker_handle stored = nullptr;
      if (std::binary_search(bl.begin(), bl.end(), s) && r.chance(1, 2))
        for (auto b : cx->blocker_range()) { Mask m = 0; if (mask_of(*b, M.N, m) && m == s) stored = b; }
      if (stored) {
        cls += ",arg_is_stored_blocker";
        c.log("add_simplex *blocker_handle " + show(s));
        Complex* px = cx.get(); const size_t nsub = M.in.size();
        auto probe = [px, stored, nsub]() { px->add_simplex(*stored); for (Mask t = 1; t < nsub; ++t) (void)px->contains(simplex_of(t)); };
        Guarded g = guarded(probe, 20000);
        if (g.kind == Guarded::inconclusive) { c.count("guarded.inconclusive"); g = guarded(probe, 20000); }
        c.count("cmp.add_simplex_stored_blocker_survives");
        if (g.kind == Guarded::died || g.kind == Guarded::timeout) {
          c.violation("add_simplex.argument", "op=add_simplex," + cls + (g.kind == Guarded::died ? ",process_died" : ",never_returns"),
                      "a copy of the process that ran add_simplex(*blocker_handle) and then contains() of every subset " +
                      std::string(g.kind == Guarded::died ? (g.sig ? "died with signal " + vh::str(g.sig) : std::string("exited with an error status")) + " (a sanitizer report, if any, is in the stderr of the shard)" : "used more than 20 s of CPU time"));
          return false;
        }
        // (twice inconclusive: the call is made unguarded; if it kills the process the orchestrator attributes that to this case)
        if (g.kind == Guarded::inconclusive) c.count("guarded.inconclusive_twice");
        cx->add_simplex(*stored);
        c.count("op.add_simplex.arg_is_stored_blocker");
      } else {
        c.log("add_simplex " + show(s));
        cx->add_simplex(simplex_of(s));
      }
      M.add_simplex(s);
      c.count("op.add_simplex." + cls.substr(0, cls.find(',')));
      if (has_coface_candidates) c.count("op.add_simplex.with_common_neighbour");
      meaningful_edit = true;
      return observe("op=add_simplex," + cls);
    }
    if (op < 72) {
      // remove_star of a vertex / edge / simplex of dimension >= 2
      int want_size = op < 55 ? 1 : op < 64 ? 2 : 3;
      Mask s = 0;
      if (!bl.empty() && r.chance(1, 2)) {
        // inside a blocker of dimension >= 2 more
        Mask b = r.pick(bl);
        int sz = want_size == 3 ? 3 + (int)r.below(3) : want_size;
        if (pc(b) - sz >= 2) { std::vector<int> bv; for (int v = 0; v < M.N; ++v) if (b & bit(v)) bv.push_back(v); s = random_subset(r, bv, sz); }
      }
      if (!s) {
        std::vector<Mask> cand = want_size == 3 ? simplices_of_size(3, 32) : simplices_of_size(want_size, want_size);
        if (cand.empty()) { c.count("skip.remove_star_no_candidate"); return true; }
        s = r.pick(cand);
      }
      if (!M.in[s]) { c.count("skip.remove_star_absent"); return true; }
      int codim_max = -1; for (Mask b : bl) if ((b & s) == s) codim_max = std::max(codim_max, pc(b) - pc(s));
      std::string kind = pc(s) == 1 ? "vertex" : pc(s) == 2 ? "edge" : "simplex";
      std::string cls = codim_max >= 2 ? "inside_blocker" : codim_max == 1 ? "facet_of_blocker" : "no_blocker_around";
      size_t star = 0; for (Mask t = 1; t < M.in.size(); ++t) if (M.in[t] && (t & s) == s) ++star;
      StarCtx sc;
      if (pc(s) <= 2) { sc.active = true; sc.sigma = s; sc.blockers_before = bl; }
      unsigned variant = (unsigned)r.below(3);
      std::vector<int> sv; for (int v = 0; v < M.N; ++v) if (s & bit(v)) sv.push_back(v);
      if (pc(s) == 1 && variant != 0) {
        c.log("remove_star vertex " + vh::str(sv[0]));
        cx->remove_star(Vertex_handle(sv[0]));
      } else if (pc(s) == 2 && variant == 1) {
        if (r.chance(1, 2)) std::swap(sv[0], sv[1]);
        c.log("remove_star edge " + vh::str(sv[0]) + " " + vh::str(sv[1]));
        cx->remove_star(Vertex_handle(sv[0]), Vertex_handle(sv[1]));
      } else if (pc(s) == 2 && variant == 2) {
        c.log("remove_star edge_handle " + vh::str(sv[0]) + " " + vh::str(sv[1]));
        auto eh = (*cx)[std::make_pair(Vertex_handle(sv[0]), Vertex_handle(sv[1]))];
        if (!eh) { c.violation("edges.handle", "op=remove_star.edge,no_handle_for_present_edge", "operator[] returned no edge for " + show(s)); return false; }
        cx->remove_star(*eh);
      } else {
        c.log("remove_star simplex " + show(s));
        cx->remove_star(simplex_of(s));
      }
      M.remove_star(s);
      c.count("op.remove_star." + kind + "." + cls);
      c.count("op.remove_star." + cls);
      if (star > 1) c.count("op.remove_star.with_cofaces");
      if (!bl.empty()) meaningful_edit = true;
      return observe("op=remove_star." + kind + "," + cls, sc);
    }
    if (op < 88) {
      // contract an edge of the complex
      // candidate edges: all / inside a blocker (link condition fails) / with a blocker at an endpoint but none through the edge
      std::vector<std::pair<int, int>> cand, inb, nearb;
      for (size_t i = 0; i < av.size(); ++i) for (size_t j = i + 1; j < av.size(); ++j) if (M.in[bit(av[i]) | bit(av[j])]) {
        cand.emplace_back(av[i], av[j]);
        bool thr = false, tch = false;
        for (Mask b : bl) { if ((b & bit(av[i])) && (b & bit(av[j]))) thr = true; if ((b & bit(av[i])) || (b & bit(av[j]))) tch = true; }
        if (thr) inb.emplace_back(av[i], av[j]); else if (tch) nearb.emplace_back(av[i], av[j]);
      }
      if (cand.empty()) { c.count("skip.contract_no_edge"); return true; }
      unsigned pickmode = (unsigned)r.below(10);
      auto e = (!inb.empty() && pickmode < 4) ? r.pick(inb) : (!nearb.empty() && pickmode < 7) ? r.pick(nearb) : r.pick(cand);
      if (r.chance(1, 2)) std::swap(e.first, e.second);
      int a = e.first, b = e.second;
      bool lc = M.link_condition(a, b);
      bool through = false; for (Mask bk : bl) if ((bk & bit(a)) && (bk & bit(b))) through = true;
      bool touches = false; for (Mask bk : bl) if ((bk & bit(a)) || (bk & bit(b))) touches = true;
      std::string cls = lc ? (touches ? "link_condition_ok,blockers_at_endpoints" : "link_condition_ok,no_blocker_at_endpoints") : "link_condition_violated";
      // the library's own statement of the link condition
      bool lib_lc = cx->link_condition(Vertex_handle(a), Vertex_handle(b));
      c.count("cmp.link_condition");
      if (lib_lc != lc) { c.violation("contract.link_condition", std::string("op=link_condition,") + (lc ? "holds_reported_violated" : "violated_reported_holding"), "link_condition(" + vh::str(a) + "," + vh::str(b) + ")=" + vh::str(lib_lc) + " blocker_through_edge=" + vh::str(through)); return false; }
      if (lc == through) { c.violation("harness.model", "link_condition_vs_blockers", "model: link condition " + vh::str(lc) + " but blocker through edge " + vh::str(through)); return false; }
      Invariants before = invariants(obs);
      if (r.chance(1, 4)) {
        auto eh = (*cx)[std::make_pair(Vertex_handle(a), Vertex_handle(b))];
        if (!eh) { c.violation("edges.handle", "op=contract_edge,no_handle_for_present_edge", "operator[] returned no edge"); return false; }
        int fa = cx->first_vertex(*eh).vertex, fb = cx->second_vertex(*eh).vertex;
        if (!((fa == a && fb == b) || (fa == b && fb == a))) { c.violation("edges.handle", "op=contract_edge,wrong_endpoints", "edge handle endpoints " + vh::str(fa) + "," + vh::str(fb)); return false; }
        a = fa; b = fb;
        c.log("contract_edge edge_handle " + vh::str(a) + " " + vh::str(b));
        cx->contract_edge(*eh);
      } else {
        c.log("contract_edge " + vh::str(a) + " " + vh::str(b));
        cx->contract_edge(Vertex_handle(a), Vertex_handle(b));
      }
      M.contract(a, b);
      c.count(lc ? "op.contract_edge.link_condition_ok" : "op.contract_edge.link_condition_violated");
      if (lc && touches) c.count("op.contract_edge.link_condition_ok.blockers_at_endpoints");
      if (!bl.empty()) meaningful_edit = true;
      std::string opsig = "op=contract_edge," + cls;
      if (lc) {
        // homotopy type is preserved: Betti numbers over Z_2, Z_3 and the Euler characteristic of what contains() answers
        sweep();
        Invariants after = invariants(obs);
        c.count("cmp.homotopy_invariants");
        if (after.b2 != before.b2 || after.b3 != before.b3 || after.chi != before.chi) {
          std::string k = after.chi != before.chi ? "euler_characteristic_changed" : after.b2 != before.b2 ? "betti_z2_changed" : "betti_z3_changed";
          c.violation("contract.homotopy", opsig + "," + k, "before: b(Z2)=" + vh::vstr(before.b2) + " b(Z3)=" + vh::vstr(before.b3) + " chi=" + vh::str(before.chi) +
                      " after: b(Z2)=" + vh::vstr(after.b2) + " b(Z3)=" + vh::vstr(after.b3) + " chi=" + vh::str(after.chi));
          // fall through to the set comparison, which says which simplices are wrong
        }
        if (!before.b2.empty() && (before.b2.size() > 1 || before.b2[0] > 1)) c.count("state.contraction_with_nontrivial_homology");
      }
      return observe(opsig);
    }
    if (op < 96) {
      // add_blocker on a simplex of the complex (the documented way to make a blocker set): deletes its star
      std::vector<Mask> cand = blocker_candidates();
      if (cand.empty()) { c.count("skip.add_blocker_no_candidate"); return true; }
      Mask s = r.pick(cand);
      c.log("add_blocker " + show(s));
      cx->add_blocker(simplex_of(s));
      M.remove_star(s);
      c.count("op.add_blocker");
      return observe("op=add_blocker");
    }
    // copy round trip
    c.log("copy");
    {
      std::unique_ptr<Complex> cp(new Complex(*cx));
      c.count("op.copy");
      if (!(*cp == *cx) || (*cp != *cx)) { c.violation("copy.equal", "op=copy,copy_not_equal_to_source", "operator== false after copy construction"); return false; }
      if (r.chance(1, 2)) { Complex tmp; tmp = *cp; *cx = tmp; } else cx.swap(cp);
    }
    return observe("op=copy");
  }

  void run(int min_ops, int max_ops) {
    vh::Rng& r = c.rng;
    if (!build_initial()) return;
    int nops = min_ops + (int)r.below(max_ops - min_ops + 1);
    for (int i = 0; i < nops; ++i) if (!step()) return;
    if (meaningful_edit && peak_blockers >= 1) c.nontrivial(vh::hash_str(vh::G().history));
    c.sample("{\"history\":\"" + vh::jesc(vh::G().history.substr(0, 700)) + "\"}");
  }
};

}  // namespace

VH_CONFIG("mixed", [](vh::Case& c) { Run r(c); r.run(4, 24); });
VH_CONFIG("long", [](vh::Case& c) { Run r(c); r.run(40, 90); });
// few histories on up to 12 vertex handles (4095 subsets swept after every step)
VH_CONFIG("wide", [](vh::Case& c) { Run r(c); r.max_handles = 12; r.wide = true; r.run(4, 16); });
VH_MAIN()

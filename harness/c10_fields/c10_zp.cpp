// C10 — run-time single-prime classes: Z2_field_element, Z2_field_operators, Shared_Zp_field_element<>,
// Zp_field_operators<>, and the cohomology engine's Field_Zp.
#include <cassert>
#include <climits>
#include <array>
#include <vector>
#include <stdexcept>
#include <gudhi/Fields/Z2_field.h>
#include <gudhi/Fields/Z2_field_operators.h>
#include <gudhi/Fields/Zp_field_shared.h>
#include <gudhi/Fields/Zp_field_operators.h>
#include <gudhi/Persistent_cohomology/Field_Zp.h>
#include "c10_common.h"

using namespace c10;
using Gudhi::persistence_fields::Z2_field_element;
using Gudhi::persistence_fields::Z2_field_operators;
using Gudhi::persistence_fields::Shared_Zp_field_element;
using Gudhi::persistence_fields::Zp_field_operators;
using Gudhi::persistent_cohomology::Field_Zp;

namespace {

enum Cls { ZP_OPS, ZP_SHARED, COH_ZP, Z2_ELEM, Z2_OPS };
const char* const kClsName[] = {"Zp_field_operators", "Shared_Zp_field_element", "Field_Zp", "Z2_field_element", "Z2_field_operators"};

// ---------------------------------------------------------------------------------------- exhaustive blocks
struct Block { Cls cls; unsigned p; long a; };
const unsigned kExhPrimes[] = {2, 3, 5, 7, 11, 13, 17, 19, 23, 29, 31, 37, 41, 43, 47, 53, 59, 61, 67, 71, 73, 79, 83, 89, 97};
std::vector<Block> make_exh_table() {
  std::vector<Block> t;
  for (unsigned p : kExhPrimes) {
    if (p == 2) {
      for (long a = -6; a <= 6; ++a) t.push_back({Z2_ELEM, 2, a});
      for (long a = 0; a <= 6; ++a) t.push_back({Z2_OPS, 2, a});
    }
    for (long a = 0; a <= 3L * p; ++a) t.push_back({ZP_OPS, p, a});
    for (long a = -3L * p; a <= 3L * p; ++a) t.push_back({ZP_SHARED, p, a});
    for (long a = 0; a < (long)p; ++a) t.push_back({COH_ZP, p, a});
  }
  return t;
}

void z2_ops_block(Rep& R, const std::vector<i128>& as, const std::vector<i128>& bs, const std::vector<i128>& cs) {
  Z2_field_operators op;
  const std::vector<uint64_t> primes = {2};
  for (i128 a : as) { ops_signed_get_value(R, op, 2, a); if (a > 0 && a <= (i128)LONG_MAX) ops_signed_get_value(R, op, 2, -a); }
  // pure logic: no word limit documented for the fused methods
  ops_block<Z2_field_operators, unsigned int>(R, op, 2, primes, as, bs, cs, {}, 0, true);
  ops_block<Z2_field_operators, bool>(R, op, 2, primes, as, bs, cs, {}, 0, true);
}

void zp_ops_block(Rep& R, Zp_field_operators<>& op, unsigned p, const std::vector<i128>& as, const std::vector<i128>& bs, const std::vector<i128>& cs) {
  const std::vector<uint64_t> primes = {p};
  for (i128 a : as) { ops_signed_get_value(R, op, p, a); if (a > 0 && a <= (i128)LONG_MAX) ops_signed_get_value(R, op, p, -a); }
  // fused methods are documented "not overflow safe": only triples whose exact value fits the 32-bit word
  ops_block<Zp_field_operators<>, unsigned int>(R, op, p, primes, as, bs, cs, {}, (i128)UINT_MAX, true);
  // copies / assignment keep the field
  Zp_field_operators<> cp(op), as2;
  as2 = op;
  C10_CHECK(R, K_CHARACTERISTIC, cp.get_characteristic() == p && as2.get_characteristic() == p && cp.multiply(p - 1, p - 1) == 1 % p && as2.get_inverse(p - 1) == p - 1,
            "characteristic", "form=copy_of_operators", "copied operators lost the field");
}

void coh_zp_block(Rep& R, Field_Zp& f, unsigned p, const std::vector<i128>& xs, const std::vector<i128>& ys, const std::vector<i128>& ws) {
  const i128 P = p;
  const std::vector<uint64_t> primes = {p};
  for (i128 x : xs) {
    coh_unary<Field_Zp, int, i128>(R, f, P, primes, x, {});
    for (i128 y : ys) {
      coh_pair<Field_Zp, int, i128>(R, f, P, x, y);
      for (i128 w : ws) coh_triple<Field_Zp, int, i128>(R, f, P, x, y, w);
    }
  }
  C10_CHECK(R, K_IDENTITY, f.additive_identity() == 0 && f.multiplicative_identity() == 1 && f.multiplicative_identity(p) == 1, "identity", "form=coh", "identities of Field_Zp");
  C10_CHECK(R, K_CHARACTERISTIC, f.characteristic() == (int)p, "characteristic", "form=coh", "characteristic()=" + std::to_string(f.characteristic()));
}

void exh_case(vh::Case& c) {
  static const std::vector<Block> table = make_exh_table();
  if (c.k >= (long)table.size()) { c.count("skip.beyond_exhaustive_table"); return; }
  const Block& b = table[c.k];
  const i128 P = b.p;
  std::string desc = std::string("exhaustive class=") + kClsName[b.cls] + " p=" + std::to_string(b.p) + " a=" + std::to_string(b.a) + " b,c in window";
  c.log(desc);
  Rep R(c, kClsName[b.cls], "p=" + std::to_string(b.p));
  c.count(std::string("class.") + kClsName[b.cls]);
  c.count("blocks.exhaustive.p" + std::to_string(b.p));
  switch (b.cls) {
    case Z2_ELEM: elem_block<Z2_field_element, true>(R, 2, {2}, {b.a}, window(2), {}); break;
    case Z2_OPS: z2_ops_block(R, {b.a}, range_vals(0, 6), range_vals(0, 6)); break;
    case ZP_OPS: { Zp_field_operators<> op(b.p); zp_ops_block(R, op, b.p, {b.a}, range_vals(0, 3 * P), range_vals(0, 3 * P)); break; }
    case ZP_SHARED: Shared_Zp_field_element<>::initialize(b.p); elem_block<Shared_Zp_field_element<>, false>(R, P, {b.p}, {b.a}, window(P), {}); break;
    case COH_ZP: { Field_Zp f; f.init((int)b.p); coh_zp_block(R, f, b.p, {b.a}, range_vals(0, P - 1), range_vals(0, P - 1)); break; }
  }
  finish_block(c, R, desc, 0);
}

// ---------------------------------------------------------------------------------------- boundary-directed blocks
const unsigned kBoundaryPrimes[] = {251, 257, 32749, 46337, 65519, 65521};

void directed_block(vh::Case& c, Cls cls, unsigned p, int nvals, int nfused, int ntriples, const std::string& kind) {
  vh::Rng& r = c.rng;
  const i128 P = p;
  uint64_t salt = r.next();
  std::string desc = kind + " class=" + kClsName[cls] + " p=" + std::to_string(p) + " operands=boundary+random salt=" + std::to_string(salt);
  c.log(desc);
  Rep R(c, kClsName[cls], "p=" + std::to_string(p));
  c.count(std::string("class.") + kClsName[cls]);
  if (p >= 32749) c.count("blocks.prime_ge_32749");
  std::vector<i128> vals = boundary_values(P, {p}, r, nvals);
  std::vector<i128> red = reduced_boundary(P, r, nfused);
  switch (cls) {
    case ZP_OPS: {
      Zp_field_operators<> op;
      op.set_characteristic(p);
      zp_ops_block(R, op, p, vals, vals, {});
      zp_ops_block(R, op, p, red, red, red);
      for (int i = 0; i < ntriples; ++i) {
        // unreduced operands whose exact fused value still fits the word, and reduced random triples
        i128 a = (i128)r.below(1u << 16), b = (i128)r.below(1u << 15), cc = (i128)r.below(1u << 31);
        ops_fused<Zp_field_operators<>, unsigned int, i128>(R, op, P, a, b, cc, (i128)UINT_MAX);
        a = (i128)r.below(p); b = (i128)r.below(p); cc = (i128)r.below(p);
        ops_fused<Zp_field_operators<>, unsigned int, i128>(R, op, P, a, b, cc, (i128)UINT_MAX);
        ops_binary<Zp_field_operators<>, unsigned int, i128>(R, op, P, (i128)(uint32_t)r.next(), (i128)(uint32_t)r.next());
      }
      break;
    }
    case ZP_SHARED: {
      Shared_Zp_field_element<>::initialize(p);
      elem_block<Shared_Zp_field_element<>, false>(R, P, {p}, vals, vals, {});
      for (int i = 0; i < ntriples; ++i) elem_binary<Shared_Zp_field_element<>, false>(R, P, (i128)r.below(p), (i128)(long)r.next());
      break;
    }
    case COH_ZP: {
      Field_Zp f;
      f.init((int)p);
      coh_zp_block(R, f, p, red, red, red);
      for (int i = 0; i < ntriples; ++i) {
        i128 x = (i128)r.below(p), y = (i128)r.below(p), w = (i128)r.below(p);
        coh_triple<Field_Zp, int, i128>(R, f, P, x, y, w);
        coh_pair<Field_Zp, int, i128>(R, f, P, x, y);
        coh_unary<Field_Zp, int, i128>(R, f, P, {p}, w, {});
      }
      break;
    }
    case Z2_ELEM: elem_block<Z2_field_element, true>(R, 2, {2}, vals, vals, {}); break;
    case Z2_OPS: z2_ops_block(R, vals, vals, red); break;
  }
  finish_block(c, R, desc, salt);
}

void boundary_case(vh::Case& c) {
  // block (k mod 18): 6 primes x {operators, shared element} + 4 primes x Field_Zp + the two Z_2 classes
  struct B { Cls cls; unsigned p; };
  static const std::vector<B> table = [] {
    std::vector<B> t;
    t.push_back({Z2_ELEM, 2}); t.push_back({Z2_OPS, 2});
    for (unsigned p : kBoundaryPrimes) { t.push_back({ZP_OPS, p}); t.push_back({ZP_SHARED, p}); if (p <= 46337) t.push_back({COH_ZP, p}); }
    return t;
  }();
  const B& b = table[c.k % table.size()];
  directed_block(c, b.cls, b.p, 60, 24, c.thorough ? 100000 : 10000, "boundary");
}

void random_prime_case(vh::Case& c) {
  vh::Rng& r = c.rng;
  unsigned mode = (unsigned)r.below(100);
  uint64_t bound = mode < 70 ? 2048 : mode < 92 ? 16384 : 65536;
  unsigned p = (unsigned)random_prime_below(r, bound);
  Cls cls = (Cls)r.below(3);
  if (cls == COH_ZP && p > 46337) cls = ZP_OPS;
  if (p > 16384) c.count("blocks.random_prime_gt_16384");
  directed_block(c, cls, p, 30, 10, 500, "random_prime");
}

// ---------------------------------------------------------------------------------------- refusal
void refuse_case(vh::Case& c) {
  static const std::vector<long> fixed = [] {
    std::vector<long> v = {0, 1, 4, 6, 8, 9, 10, 12, 14, 15, 16, 21, 25, 27, 33, 35, 49, 51, 55, 57, 63, 65, 77, 85, 91, 119, 121, 143, 169, 255, 256, 289, 341, 361,
                           529, 1001, 1024, 4087, 4096, 10403, 32767, 32768, 46335, 46336, 46338, 46341, 49729, 63001, 64507, 65025, 65533, 65535, 65536, 66049, 100000, 131072,
                           46349, 65521, 1000003 /* primes above the documented maximum of Field_Zp: only submitted to Field_Zp */};
    for (unsigned x : kCarmichael) v.push_back(x);
    return v;
  }();
  vh::Rng& r = c.rng;
  const int kForms = 4;  // set_characteristic, constructor, Shared initialize, Field_Zp::init
  long idx = c.k / kForms;
  int form = (int)(c.k % kForms);
  long n;
  if (idx < (long)fixed.size()) n = fixed[idx];
  else if (form == 3 && r.chance(1, 4)) n = -(long)r.below(100000) - 1;               // Field_Zp takes an int: negative values
  else if (form == 3 && r.chance(1, 6)) n = 46338 + (long)r.below(2000000);           // any value above its documented maximum
  else { do { n = 4 + (long)r.below(65532); } while (is_prime_naive((uint64_t)n)); }  // random composite below 2^16
  if (form != 3 && n >= 2 && is_prime_naive((uint64_t)n)) { c.count("skip.prime_is_a_valid_characteristic"); return; }
  const char* cls = form <= 1 ? kClsName[ZP_OPS] : form == 2 ? kClsName[ZP_SHARED] : kClsName[COH_ZP];
  const char* why = n < 2 ? "not_greater_than_1" : is_prime_naive((uint64_t)n) ? "prime_above_documented_maximum" : "composite";
  std::string desc = std::string("refuse class=") + cls + " form=" + std::to_string(form) + " characteristic=" + std::to_string(n);
  c.log(desc);
  Rep R(c, cls, "n=" + std::to_string(n));
  c.count(std::string("refuse.") + why);
  if (form == 0) {
    Zp_field_operators<> op;
    must_refuse(R, "set_characteristic(" + std::to_string(n) + ")", why, [&] { op.set_characteristic((unsigned)n); });
  } else if (form == 1) {
    if (n == 0) { c.count("skip.constructor_zero_means_unset"); return; }
    must_refuse(R, "Zp_field_operators(" + std::to_string(n) + ")", why, [&] { Zp_field_operators<> op((unsigned)n); (void)op; });
  } else if (form == 2) {
    must_refuse(R, "Shared_Zp_field_element::initialize(" + std::to_string(n) + ")", why, [&] { Shared_Zp_field_element<>::initialize((unsigned)n); });
    // the class must still be usable after a refusal
    Shared_Zp_field_element<>::initialize(7);
    Shared_Zp_field_element<> x(5), y(4);
    C10_CHECK(R, K_MUL, (x * y).get_value() == 6 && x.get_inverse().get_value() == 3, "mul", "form=after_refusal", "Shared_Zp_field_element wrong after a refused initialize");
  } else {
    Field_Zp f;
    if (n >= 2 && is_prime_naive((uint64_t)n)) {
      // a prime above the documented maximum 46337: refusing is what the documentation says; accepting is only
      // compatible with the property if the arithmetic is then exact
      bool thrown = false;
      try { f.init((int)n); } catch (const std::exception&) { thrown = true; }
      ++R.n[K_REFUSE];
      if (!thrown) {
        c.count("refuse.large_prime_accepted");
        std::vector<i128> red = reduced_boundary(n, r, 8);
        coh_zp_block(R, f, (unsigned)n, red, red, red);
      }
    } else {
      must_refuse(R, "Field_Zp::init(" + std::to_string(n) + ")", why, [&] { f.init((int)n); });
    }
  }
  if (n > 3) c.nontrivial(vh::hash_str(desc));
}

// ---------------------------------------------------------------------------------------- object state
// scenario 0: a REFUSED characteristic on an object that already has a field: the object must go on working in the field it still
//             announces (signatures end in ",refused_on_live_object"); scenario 1: valid -> valid re-initialisation;
// scenario 2 (operator class): move / swap / assignment followed by a use of the moved-to object.
const unsigned kStatePrimes[] = {3, 5, 7, 13, 31, 101, 251, 257, 1009};
void state_case(vh::Case& c) {
  vh::Rng& r = c.rng;
  const int scenario = (int)(c.k % 3);
  Cls cls = (Cls)((c.k / 3) % 3);
  if (scenario == 2) cls = ZP_OPS;
  const unsigned p1 = kStatePrimes[r.below(9)];
  unsigned p2; do { p2 = r.chance(1, 2) ? kStatePrimes[r.below(9)] : (unsigned)random_prime_below(r, 2048); } while (p2 == p1);
  // refused values: 0, 1, (for Field_Zp) negative / above the documented maximum, odd composites above p1 (the table construction
  // overwrites entries before it notices them), composites below p1 (it shrinks the table)
  long n;
  unsigned mode = (unsigned)r.below(8);
  if (mode == 0) n = (long)r.below(2);
  else if (mode == 1 && p1 > 7) { do { n = 4 + (long)r.below(p1 - 4); } while (is_prime_naive((uint64_t)n)); }
  else if (mode == 2 && cls == COH_ZP) n = r.chance(1, 2) ? -(long)r.below(1000) - 1 : 46338 + (long)r.below(100000);
  else n = (long)odd_composite_above(r, p1);
  const char* const kScen[] = {"refused_on_live_object", "reinitialisation", "move_swap_assign"};
  std::string desc = std::string("state scenario=") + kScen[scenario] + " class=" + kClsName[cls] + " p1=" + std::to_string(p1) +
                     (scenario == 0 ? " refused=" + std::to_string(n) : " p2=" + std::to_string(p2));
  c.log(desc);
  Rep R(c, kClsName[cls], "p1=" + std::to_string(p1) + (scenario == 0 ? " refused=" + std::to_string(n) : " p2=" + std::to_string(p2)));
  c.count(std::string("class.") + kClsName[cls]);
  c.count(std::string("state.scenario.") + kScen[scenario]);
  auto red_of = [&](unsigned p) { std::vector<i128> v; for (i128 x : reduced_boundary(p, r, 10)) v.push_back(x); std::sort(v.begin(), v.end()); return v; };
  auto ops_blk = [&](Zp_field_operators<>& op, unsigned p) { std::vector<i128> red = red_of(p); c.log("block in p=" + std::to_string(p)); zp_ops_block(R, op, p, red, red, red); };
  auto shared_blk = [&](unsigned p) { std::vector<i128> red = red_of(p); c.log("block in p=" + std::to_string(p)); elem_block<Shared_Zp_field_element<>, false>(R, p, {p}, red, red, {}); };
  auto coh_blk = [&](Field_Zp& f, unsigned p) { std::vector<i128> red = red_of(p); c.log("block in p=" + std::to_string(p)); coh_zp_block(R, f, p, red, red, red); };
  if (scenario == 2) {
    R.sfx = ",after=move_swap_assign";
    ops_move_swap_assign<Zp_field_operators<> >(p1, p2, [&](Zp_field_operators<>& op, unsigned p) { c.log("set_characteristic " + std::to_string(p)); op.set_characteristic(p); }, ops_blk);
    finish_block(c, R, desc, r.next());
    return;
  }
  Zp_field_operators<> op;
  Field_Zp f;
  auto init = [&](long v) {
    c.log("init " + std::to_string(v));
    if (cls == ZP_OPS) op.set_characteristic((unsigned)v); else if (cls == ZP_SHARED) Shared_Zp_field_element<>::initialize((unsigned)v); else f.init((int)v);
  };
  auto announced = [&]() -> long { return cls == ZP_OPS ? (long)op.get_characteristic() : cls == ZP_SHARED ? (long)Shared_Zp_field_element<>::get_characteristic() : (long)f.characteristic(); };
  auto blk = [&](unsigned p) { if (cls == ZP_OPS) ops_blk(op, p); else if (cls == ZP_SHARED) shared_blk(p); else coh_blk(f, p); };
  init(p1);
  blk(p1);
  if (scenario == 1) {
    R.sfx = ",after=reinitialisation";
    init(p2);
    blk(p2);
    init(p1);
    blk(p1);
  } else {
    const char* why = n < 2 ? "not_greater_than_1" : n > 46337 && cls == COH_ZP ? "above_documented_maximum" : "composite";
    if (n > 46337 && is_prime_naive((uint64_t)n)) { c.count("skip.prime_above_documented_maximum"); return; }
    must_refuse(R, "second initialisation with " + std::to_string(n), why, [&] { init(n); });
    R.sfx = ",refused_on_live_object";
    // the object still announces a field: it must be the old one (the new one was refused), and it must still be exact in it
    long got = announced();
    C10_CHECK(R, K_CHARACTERISTIC, got == (long)p1, "characteristic", "form=announced_after_refusal",
              "after the refused characteristic " + std::to_string(n) + " the object announces characteristic " + std::to_string(got) + " (it had " + std::to_string(p1) + ")");
    if (got != (long)p1) return;
    blk(p1);
    c.count(n > (long)p1 ? "state.refused_above_live_characteristic" : "state.refused_below_live_characteristic");
  }
  finish_block(c, R, desc, r.next());
}

}  // namespace

VH_CONFIG("zp_state", state_case);
VH_CONFIG("zp_exhaustive", exh_case);
VH_CONFIG("zp_boundary", boundary_case);
VH_CONFIG("zp_random_prime", random_prime_case);
VH_CONFIG("zp_refuse", refuse_case);
VH_MAIN()

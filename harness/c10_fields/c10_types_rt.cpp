// C10 — Zp_field_operators<E> and Shared_Zp_field_element<E> for E = unsigned long / unsigned short / unsigned char, and the default
// element type with the narrow / widest integer types (see c10_types.h).
#include "c10_types.h"
#include <gudhi/Fields/Zp_field_shared.h>
#include <gudhi/Fields/Zp_field_operators.h>

using namespace c10;
using Gudhi::persistence_fields::Shared_Zp_field_element;
using Gudhi::persistence_fields::Zp_field_operators;

namespace {

// ---------------------------------------------------------------------------------------- Zp_field_operators<E>
template <class E>
void ops_typed(vh::Case& c, unsigned p) {
  typedef Zp_field_operators<E> Op;
  vh::Rng& r = c.rng;
  const i128 P = p, emax = (i128)std::numeric_limits<E>::max();
  uint64_t salt = r.next();
  std::string desc = std::string("element_type class=Zp_field_operators<") + kEtyName[ety<E>()] + "> p=" + std::to_string(p) + " salt=" + std::to_string(salt);
  c.log(desc);
  Rep R(c, "Zp_field_operators", "p=" + std::to_string(p) + " element type " + kEtyName[ety<E>()]);
  set_sig_style<E>(R);
  c.count("class.Zp_field_operators"); count_ety<E>(c, P);
  Op op;
  if (!guarded_init(R, table_cpu_limit(p), "set_characteristic", "Zp_field_operators<" + std::string(kEtyName[ety<E>()]) + ">::set_characteristic(" + std::to_string(p) + ")",
                    [&] { op.set_characteristic((E)p); })) return;
  const std::vector<uint64_t> primes = {p};
  std::vector<i128> vals = typed_values<E>(P, primes, r, 40), red = reduced_boundary(P, r, 16);
  for (i128 a : vals) ops_signed_get_value(R, op, P, a);
  // unreduced operands of type E: everything but the fused methods; reduced operands: everything
  ops_block<Op, E>(R, op, P, primes, vals, vals, {}, {}, emax, true);
  ops_block<Op, E>(R, op, P, primes, red, red, red, {}, emax, true);
  const uint64_t h = (uint64_t)1 << (4 * sizeof(E) - 1);   // a*b+c stays within the element type
  for (int i = 0; i < 3000; ++i) {
    i128 a = (i128)r.below(h), b = (i128)r.below(h), cc = (i128)r.below(h);
    ops_fused<Op, E, i128>(R, op, P, a, b, cc, emax);
    a = (i128)r.below(p); b = (i128)r.below(p); cc = (i128)r.below(p);
    ops_fused<Op, E, i128>(R, op, P, a, b, cc, emax);
    ops_binary<Op, E, i128>(R, op, P, (i128)(E)r.next(), (i128)(E)r.next());
    ops_binary<Op, E, i128>(R, op, P, a, b);
  }
  // the copies keep the field
  Op cp(op), as2;
  as2 = op;
  C10_CHECK(R, K_CHARACTERISTIC, (i128)cp.get_characteristic() == P && (i128)as2.get_characteristic() == P && (i128)cp.multiply((E)(p - 1), (E)(p - 1)) == 1 % P && (i128)as2.get_inverse((E)(p - 1)) == P - 1,
            "characteristic", "form=copy_of_operators", "copied operators lost the field");
  finish_block(c, R, desc, salt);
}

// ---------------------------------------------------------------------------------------- Shared_Zp_field_element<E>
template <class E>
void shared_typed(vh::Case& c, unsigned p) {
  typedef Shared_Zp_field_element<E> F;
  vh::Rng& r = c.rng;
  const i128 P = p;
  uint64_t salt = r.next();
  std::string desc = std::string("element_type class=Shared_Zp_field_element<") + kEtyName[ety<E>()] + "> p=" + std::to_string(p) + " salt=" + std::to_string(salt);
  c.log(desc);
  Rep R(c, "Shared_Zp_field_element", "p=" + std::to_string(p) + " element type " + kEtyName[ety<E>()]);
  set_sig_style<E>(R);
  c.count("class.Shared_Zp_field_element"); count_ety<E>(c, P);
  if (!guarded_init(R, table_cpu_limit(p), "initialize", "Shared_Zp_field_element<" + std::string(kEtyName[ety<E>()]) + ">::initialize(" + std::to_string(p) + ")",
                    [&] { F::initialize((E)p); })) return;
  const std::vector<uint64_t> primes = {p};
  std::vector<i128> vals = typed_values<E>(P, primes, r, 40);
  elem_block<F, false>(R, P, primes, vals, vals, {});
  for (int i = 0; i < 3000; ++i) { i128 a = (i128)r.below(p); elem_binary<F, false>(R, P, a, (i128)r.below(p)); elem_binary<F, false>(R, P, a, (i128)(long)r.next()); }
  finish_block(c, R, desc, salt);
}

struct RtBlock { int kind; Ety e; unsigned p; };   // kind 0 operators, 1 shared
const std::vector<RtBlock>& rt_table() {
  static const std::vector<RtBlock> t = [] {
    // the expensive table constructions (p = 65521: ~8 s each under ASan, 32771 / 32749: ~2 s) are spread out so that they land in different shards
    std::vector<RtBlock> big, small, t;
    const unsigned pl[] = {7, 251, 257, 32771, 65521}, pc[] = {7, 251}, pi[] = {7, 127, 251, 32749};
    for (int kind = 0; kind < 2; ++kind) {
      for (unsigned p : pl) { (p > 1000 ? big : small).push_back({kind, E_ULONG, p}); (p > 1000 ? big : small).push_back({kind, E_USHORT, p}); }
      for (unsigned p : pc) small.push_back({kind, E_UCHAR, p});
      for (unsigned p : pi) (p > 1000 ? big : small).push_back({kind, E_UINT, p});
    }
    std::stable_sort(big.begin(), big.end(), [](const RtBlock& a, const RtBlock& b) { return a.p > b.p; });
    size_t si = 0, per = (small.size() + big.size() - 1) / big.size();
    for (const RtBlock& b : big) { t.push_back(b); for (size_t k = 0; k < per && si < small.size(); ++k) t.push_back(small[si++]); }
    while (si < small.size()) t.push_back(small[si++]);
    return t;
  }();
  return t;
}
template <class E> void zp_runtime(vh::Case& c, int kind, unsigned p) { if (kind == 0) ops_typed<E>(c, p); else shared_typed<E>(c, p); }
void rt_case(vh::Case& c) {
  const std::vector<RtBlock>& t = rt_table();
  const RtBlock& b = t[c.k % t.size()];
  switch (b.e) {
    case E_ULONG: zp_runtime<unsigned long>(c, b.kind, b.p); break;
    case E_USHORT: zp_runtime<unsigned short>(c, b.kind, b.p); break;
    case E_UCHAR: zp_runtime<unsigned char>(c, b.kind, b.p); break;
    default: zp_runtime<unsigned int>(c, b.kind, b.p); break;
  }
}

}  // namespace

VH_CONFIG("ty_zp_rt", rt_case);
VH_MAIN()
